#!/bin/sh
# setup_cmd: offline build of the Coq development and of the correspondence harness.
set -e
cd "$(dirname "$0")"
export CARGO_NET_OFFLINE=true
mkdir -p .cache
python3 - <<'PY'
import sys
sys.path.insert(0, '.')
from vlib import core
core.coq_makefile()
PY
(cd coq && timeout 3000 make -f Makefile.coq -j16 >/dev/null 2>.make.err || { tail -30 .make.err; echo "coq build failed"; exit 1; })
(cd harness && RUSTFLAGS="--cfg metrics_verif" CARGO_TARGET_DIR="$PWD/../.cache/target" cargo +1.74.0 build --offline --release -q 2>&1 | tail -20)
echo setup-ok
