#!/bin/sh
# setup_cmd: offline build of the Coq development and of the correspondence harness, for the
# properties claimed in MANIFEST.json (tools/pending.json "claimed").
set -e
cd "$(dirname "$0")"
export CARGO_NET_OFFLINE=true
mkdir -p .cache
python3 - <<'PY'
import json, sys, importlib, subprocess, os
sys.path.insert(0, '.')
from vlib import core
claimed = json.load(open('tools/pending.json'))['claimed']
core.coq_makefile()
targets = ['Common/Hex.vo']
bins = []
for pid in claimed:
    p = importlib.import_module('vlib.' + pid.lower()).PROP
    targets += ['%s/Properties.vo' % pid, '%s/%s.vo' % (pid, p.exec_mod)] + list(getattr(p, 'extra_coq_targets', []))
    bins.append((p.pkg, p.binname))
    for extra in getattr(p, 'extra_bins', []):
        bins.append(extra)
ok, out = core.coq_build(targets, timeout=3000)
if not ok:
    print(out[-3000:]); print('coq build failed'); sys.exit(1)
for pkg, b in bins:
    core.harness_build(pkg, b)
print('setup-ok')
PY
