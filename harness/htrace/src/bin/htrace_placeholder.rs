fn main(){}
