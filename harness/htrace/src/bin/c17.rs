// C17 correspondence driver: real tracing + tracing_subscriber::Registry + MetricsLayer +
// TracingContext<_, filter> over a logging recorder double.
//
// stdin: one case per line   `<filter>;<filter>;... | <event> <event> ...`
//   filter:  A                         IncludeAll
//            L:<xname>,<xname>,...     Allowlist            (x<hex> strings)
//            T:<0|1>:<rule>,<rule>     custom table filter: rule = <m>/<k>/<v>/<0|1>, `*` = any
//   event:   N<tid>:<id>:<c|r|p<ID>>:<xname>=<val>,...  new span. Names are x<hex> UTF-8, distinct within a span. A name list that is an
//                                                       ordered selection from {a,b,c,d} uses the static `span!` callsite of TABLE;
//                                                       any other list (non-ASCII, empty name, ...) uses a callsite built at run time
//                                                       from leaked &'static str names (dyn_meta) and Span::new / Span::child_of.
//            R<tid>:<id>:<xname>=<val>,...              span.record_all (undeclared names are dropped, as Span::record does)
//            E<tid>:<id>  X<tid>:<id>  D<tid>:<id>      enter / exit / drop the handle
//            M<tid>:<c|g|h>:<xname>:<xk>=<xv>,...:<filter index>   register a metric through the TracingContext
//   val:     e | s<hex> (&str) | S<hex> (String) | b0|b1 | i<int> | u<int> | I<int> (i128) | U<int> (u128) | Z<int> (NonZeroU128)
//            | z<int> (NonZeroI64) | t<ty>.<int> (i8 i16 i32 isize u8 u16 u32 usize) | W<int> (Wrapping<i64>) | q<int>|qn (Option<i64> as a Value)
//            | f<int> (f64 = int/2) | F<16 hex> (f64 bits) | g<8 hex> (f32 bits) | y<hex> (&[u8]) | r<hex> (&dyn Error, Display = text)
//            | R<hex> (&(dyn Error + Send + Sync)) | d<hex> (?str) | p<hex> (%str) | o<int> (?Some(i64)) | on (?None)
//   Visit entry points reached: record_str, record_bool, record_i64, record_u64, record_i128, record_u128, record_f64, record_bytes,
//   record_error, record_debug (record_value exists only under cfg(tracing_unstable) and is not compiled here)
// stdout: one line per case: `ok <key> <key> ...` (one key per M, `x<hexname>:x<hexk>=x<hexv>,...`) or `panic:<msg>`
use metrics::{Counter, Gauge, Histogram, Key, KeyName, Label, Metadata, Recorder, SharedString, Unit};
use metrics_tracing_context::label_filter::{Allowlist, IncludeAll};
use metrics_tracing_context::{LabelFilter, MetricsLayer, TracingContext, TracingContextLayer};
use metrics_util::layers::Layer;
use std::collections::HashMap;
use std::io::{BufRead, Write};
use std::sync::mpsc::{channel, Receiver, Sender};
use std::sync::{Arc, Mutex};
use tracing::field::{display, debug, Empty, Value};
use tracing::span::Id;
use tracing::{Dispatch, Level, Span};
use tracing_subscriber::{layer::SubscriberExt, Registry};

// ---------------------------------------------------------------- static callsites
type Mk = fn(Option<Option<Id>>, &[&dyn Value]) -> Span;
macro_rules! cs {
    ($($f:ident),*) => {
        (&[$(stringify!($f)),*], {
            #[allow(unused_mut, unused_variables)]
            fn mk(parent: Option<Option<Id>>, v: &[&dyn Value]) -> Span {
                let mut it = v.iter();
                match parent {
                    None => tracing::span!(Level::INFO, "s", $($f = *it.next().unwrap()),*),
                    Some(p) => tracing::span!(parent: p, Level::INFO, "s", $($f = *it.next().unwrap()),*),
                }
            }
            mk as Mk
        })
    };
}
static TABLE: &[(&[&str], Mk)] = &[
    cs!(),
    cs!(a),
    cs!(b),
    cs!(c),
    cs!(d),
    cs!(a, b),
    cs!(a, c),
    cs!(a, d),
    cs!(b, a),
    cs!(b, c),
    cs!(b, d),
    cs!(c, a),
    cs!(c, b),
    cs!(c, d),
    cs!(d, a),
    cs!(d, b),
    cs!(d, c),
    cs!(a, b, c),
    cs!(a, b, d),
    cs!(a, c, b),
    cs!(a, c, d),
    cs!(a, d, b),
    cs!(a, d, c),
    cs!(b, a, c),
    cs!(b, a, d),
    cs!(b, c, a),
    cs!(b, c, d),
    cs!(b, d, a),
    cs!(b, d, c),
    cs!(c, a, b),
    cs!(c, a, d),
    cs!(c, b, a),
    cs!(c, b, d),
    cs!(c, d, a),
    cs!(c, d, b),
    cs!(d, a, b),
    cs!(d, a, c),
    cs!(d, b, a),
    cs!(d, b, c),
    cs!(d, c, a),
    cs!(d, c, b),
    cs!(a, b, c, d),
    cs!(a, b, d, c),
    cs!(a, c, b, d),
    cs!(a, c, d, b),
    cs!(a, d, b, c),
    cs!(a, d, c, b),
    cs!(b, a, c, d),
    cs!(b, a, d, c),
    cs!(b, c, a, d),
    cs!(b, c, d, a),
    cs!(b, d, a, c),
    cs!(b, d, c, a),
    cs!(c, a, b, d),
    cs!(c, a, d, b),
    cs!(c, b, a, d),
    cs!(c, b, d, a),
    cs!(c, d, a, b),
    cs!(c, d, b, a),
    cs!(d, a, b, c),
    cs!(d, a, c, b),
    cs!(d, b, a, c),
    cs!(d, b, c, a),
    cs!(d, c, a, b),
    cs!(d, c, b, a),
];

// ---------------------------------------------------------------- run-time callsites (arbitrary field names)
struct DynCallsite { meta: std::sync::OnceLock<tracing_core::Metadata<'static>> }
impl tracing_core::Callsite for DynCallsite {
    fn set_interest(&self, _: tracing_core::Interest) {}
    fn metadata(&self) -> &tracing_core::Metadata<'_> { self.meta.get().expect("metadata set") }
}
fn dyn_meta(names: &[&str]) -> &'static tracing_core::Metadata<'static> {
    static CACHE: Mutex<Option<HashMap<Vec<String>, &'static DynCallsite>>> = Mutex::new(None);
    let mut g = CACHE.lock().unwrap();
    let cache = g.get_or_insert_with(HashMap::new);
    let k: Vec<String> = names.iter().map(|s| s.to_string()).collect();
    if let Some(cs) = cache.get(&k) { return cs.meta.get().unwrap(); }
    let leaked: Vec<&'static str> = k.iter().map(|s| &*Box::leak(s.clone().into_boxed_str())).collect();
    let leaked: &'static [&'static str] = Box::leak(leaked.into_boxed_slice());
    let cs: &'static DynCallsite = Box::leak(Box::new(DynCallsite { meta: std::sync::OnceLock::new() }));
    let meta = tracing_core::Metadata::new("s", "c17", Level::INFO, None, None, None,
        tracing_core::field::FieldSet::new(leaked, tracing_core::identify_callsite!(cs)), tracing_core::Kind::SPAN);
    let _ = cs.meta.set(meta);
    cache.insert(k, cs);
    cs.meta.get().unwrap()
}
fn dyn_span(parent: Option<Option<Id>>, names: &[&str], v: &[&dyn Value]) -> Span {
    let meta = dyn_meta(names);
    let fs = meta.fields();
    let fields: Vec<tracing::field::Field> = fs.iter().collect();
    let p: Vec<(&tracing::field::Field, Option<&dyn Value>)> = fields.iter().zip(v.iter()).map(|(f, x)| (f, Some(*x))).collect();
    macro_rules! go { ($arr:expr) => {{ let arr = $arr; let vs = fs.value_set(&arr); match parent { None => Span::new(meta, &vs), Some(par) => Span::child_of(par, meta, &vs) } }}; }
    match p.len() {
        0 => go!([] as [(&tracing::field::Field, Option<&dyn Value>); 0]),
        1 => go!([p[0]]),
        2 => go!([p[0], p[1]]),
        3 => go!([p[0], p[1], p[2]]),
        4 => go!([p[0], p[1], p[2], p[3]]),
        5 => go!([p[0], p[1], p[2], p[3], p[4]]),
        n => panic!("span with {} fields unsupported by the driver", n),
    }
}

// ---------------------------------------------------------------- filters
#[derive(Clone)]
enum Filter {
    All(IncludeAll),
    Allow(Allowlist),
    Table(bool, Vec<(Option<String>, Option<String>, Option<String>, bool)>),
}
impl LabelFilter for Filter {
    fn should_include_label(&self, name: &KeyName, label: &Label) -> bool {
        match self {
            Filter::All(f) => f.should_include_label(name, label),
            Filter::Allow(f) => f.should_include_label(name, label),
            Filter::Table(d, rules) => {
                for (m, k, v, r) in rules {
                    if m.as_deref().map_or(true, |m| m == name.as_str())
                        && k.as_deref().map_or(true, |k| k == label.key())
                        && v.as_deref().map_or(true, |v| v == label.value())
                    {
                        return *r;
                    }
                }
                *d
            }
        }
    }
}

// ---------------------------------------------------------------- recorder double
#[derive(Clone)]
struct Log(Arc<Mutex<Vec<String>>>);
fn hx(s: &str) -> String {
    let mut o = String::from("x");
    for b in s.as_bytes() { o.push_str(&format!("{:02x}", b)); }
    o
}
fn unhx(s: &str) -> String {
    let s = s.strip_prefix('x').expect("x-hex string");
    let bytes: Vec<u8> = (0..s.len() / 2).map(|i| u8::from_str_radix(&s[2 * i..2 * i + 2], 16).unwrap()).collect();
    String::from_utf8(bytes).unwrap()
}
impl Log {
    fn note(&self, key: &Key) {
        let labels: Vec<String> = key.labels().map(|l| format!("{}={}", hx(l.key()), hx(l.value()))).collect();
        self.0.lock().unwrap().push(format!("{}:{}", hx(key.name()), labels.join(",")));
    }
}
impl Recorder for Log {
    fn describe_counter(&self, _: KeyName, _: Option<Unit>, _: SharedString) {}
    fn describe_gauge(&self, _: KeyName, _: Option<Unit>, _: SharedString) {}
    fn describe_histogram(&self, _: KeyName, _: Option<Unit>, _: SharedString) {}
    fn register_counter(&self, key: &Key, _: &Metadata<'_>) -> Counter { self.note(key); Counter::noop() }
    fn register_gauge(&self, key: &Key, _: &Metadata<'_>) -> Gauge { self.note(key); Gauge::noop() }
    fn register_histogram(&self, key: &Key, _: &Metadata<'_>) -> Histogram { self.note(key); Histogram::noop() }
}

// ---------------------------------------------------------------- values
#[derive(Clone, Debug)]
enum Val {
    E, S(String), B(bool), I(i64), U(u64), I128(i128), U128(u128), D(String), P(String), O(Option<i64>), F(f64), F32(f32),
    Bytes(Vec<u8>), Err(TestError), ErrSs(Box<TestError>), Small(String, i128), OptV(Option<i64>), Wrap(i64), Owned(String),
    NzU128(std::num::NonZeroU128), NzI64(std::num::NonZeroI64),
}
// an error whose Display and Debug differ, so that record_error's route (Display) is told apart from record_debug's
#[derive(Clone)]
struct TestError(String);
impl std::fmt::Display for TestError {
    fn fmt(&self, f: &mut std::fmt::Formatter<'_>) -> std::fmt::Result { f.write_str(&self.0) }
}
impl std::fmt::Debug for TestError {
    fn fmt(&self, f: &mut std::fmt::Formatter<'_>) -> std::fmt::Result { write!(f, "TestError{{debug-form:{:?}}}", self.0) }
}
impl std::error::Error for TestError {}

fn parse_val(s: &str) -> Val {
    let (c, r) = s.split_at(1);
    match c {
        "e" => Val::E,
        "s" => Val::S(unhx(&format!("x{}", r))),
        "S" => Val::Owned(unhx(&format!("x{}", r))),
        "b" => Val::B(r == "1"),
        "i" => Val::I(r.parse().unwrap()),
        "u" => Val::U(r.parse().unwrap()),
        "I" => Val::I128(r.parse().unwrap()),
        "U" => Val::U128(r.parse().unwrap()),
        "Z" => Val::NzU128(std::num::NonZeroU128::new(r.parse().unwrap()).unwrap()),
        "z" => Val::NzI64(std::num::NonZeroI64::new(r.parse().unwrap()).unwrap()),
        "d" => Val::D(unhx(&format!("x{}", r))),
        "p" => Val::P(unhx(&format!("x{}", r))),
        "o" => Val::O(if r == "n" { None } else { Some(r.parse().unwrap()) }),
        "q" => Val::OptV(if r == "n" { None } else { Some(r.parse().unwrap()) }),
        "W" => Val::Wrap(r.parse().unwrap()),
        "f" => Val::F(r.parse::<i64>().unwrap() as f64 / 2.0),
        "F" => Val::F(f64::from_bits(u64::from_str_radix(r, 16).unwrap())),
        "g" => Val::F32(f32::from_bits(u32::from_str_radix(r, 16).unwrap())),
        "y" => Val::Bytes((0..r.len() / 2).map(|i| u8::from_str_radix(&r[2 * i..2 * i + 2], 16).unwrap()).collect()),
        "r" => Val::Err(TestError(unhx(&format!("x{}", r)))),
        "R" => Val::ErrSs(Box::new(TestError(unhx(&format!("x{}", r))))),
        "t" => { let (ty, n) = r.split_once('.').unwrap(); Val::Small(ty.to_string(), n.parse().unwrap()) }
        _ => panic!("bad value {}", s),
    }
}
fn boxed(v: &Val) -> Box<dyn Value + '_> {
    match v {
        Val::E => Box::new(Empty),
        Val::S(s) => Box::new(s.as_str()),
        Val::Owned(s) => Box::new(s.clone()),                         // impl Value for String
        Val::B(b) => Box::new(*b),
        Val::I(i) => Box::new(*i),
        Val::U(u) => Box::new(*u),
        Val::I128(i) => Box::new(*i),
        Val::U128(u) => Box::new(*u),
        Val::NzU128(n) => Box::new(*n),
        Val::NzI64(n) => Box::new(*n),
        Val::D(s) => Box::new(debug(s.as_str())),
        Val::P(s) => Box::new(display(s.as_str())),
        Val::O(o) => Box::new(debug(*o)),
        Val::OptV(o) => Box::new(*o),                                 // impl Value for Option<T>
        Val::Wrap(i) => Box::new(std::num::Wrapping(*i)),
        Val::F(f) => Box::new(*f),
        Val::F32(f) => Box::new(*f),
        Val::Bytes(b) => Box::new(b.as_slice()),                      // &[u8] -> record_bytes
        Val::Err(e) => Box::new(e as &(dyn std::error::Error + 'static)),
        Val::ErrSs(e) => { let r: &(dyn std::error::Error + Send + Sync + 'static) = &**e; Box::new(r) }
        Val::Small(ty, n) => match ty.as_str() {
            "i8" => Box::new(i8::try_from(*n).unwrap()),
            "i16" => Box::new(i16::try_from(*n).unwrap()),
            "i32" => Box::new(i32::try_from(*n).unwrap()),
            "isize" => Box::new(isize::try_from(*n).unwrap()),
            "u8" => Box::new(u8::try_from(*n).unwrap()),
            "u16" => Box::new(u16::try_from(*n).unwrap()),
            "u32" => Box::new(u32::try_from(*n).unwrap()),
            "usize" => Box::new(usize::try_from(*n).unwrap()),
            _ => panic!("bad small int type {}", ty),
        },
    }
}
fn parse_fields(s: &str) -> Vec<(String, Val)> {
    if s.is_empty() { return vec![]; }
    s.split(',').map(|kv| { let (k, v) = kv.split_once('=').unwrap(); (unhx(k), parse_val(v)) }).collect()
}

// ---------------------------------------------------------------- events
#[derive(Clone, Debug)]
enum Par { Ctx, Root, Exp(u64) }
#[derive(Clone, Debug)]
enum Ev {
    New(u64, Par, Vec<(String, Val)>),
    Rec(u64, Vec<(String, Val)>),
    Enter(u64),
    Exit(u64),
    Drop(u64),
    Emit(char, String, Vec<(String, String)>, usize),
}
fn parse_event(tok: &str) -> (usize, Ev) {
    let (c, rest) = tok.split_at(1);
    let parts: Vec<&str> = rest.split(':').collect();
    let tid: usize = parts[0].parse().unwrap();
    let ev = match c {
        "N" => {
            let par = match parts[2] { "c" => Par::Ctx, "r" => Par::Root, p => Par::Exp(p[1..].parse().unwrap()) };
            Ev::New(parts[1].parse().unwrap(), par, parse_fields(parts[3]))
        }
        "R" => Ev::Rec(parts[1].parse().unwrap(), parse_fields(parts[2])),
        "E" => Ev::Enter(parts[1].parse().unwrap()),
        "X" => Ev::Exit(parts[1].parse().unwrap()),
        "D" => Ev::Drop(parts[1].parse().unwrap()),
        "M" => {
            let labels = if parts[3].is_empty() { vec![] } else {
                parts[3].split(',').map(|kv| { let (k, v) = kv.split_once('=').unwrap(); (unhx(k), unhx(v)) }).collect()
            };
            Ev::Emit(parts[1].chars().next().unwrap(), unhx(parts[2]), labels, parts[4].parse().unwrap())
        }
        _ => panic!("bad event {}", tok),
    };
    (tid, ev)
}
fn parse_filter(s: &str) -> Filter {
    let parts: Vec<&str> = s.split(':').collect();
    match parts[0] {
        "A" => Filter::All(IncludeAll),
        "L" => Filter::Allow(Allowlist::new(parts[1].split(',').filter(|x| !x.is_empty()).map(unhx))),
        "T" => {
            let rules = parts[2].split(',').filter(|x| !x.is_empty()).map(|r| {
                let f: Vec<&str> = r.split('/').collect();
                let o = |x: &str| if x == "*" { None } else { Some(unhx(x)) };
                (o(f[0]), o(f[1]), o(f[2]), f[3] == "1")
            }).collect();
            Filter::Table(parts[1] == "1", rules)
        }
        _ => panic!("bad filter {}", s),
    }
}

// ---------------------------------------------------------------- one case
#[derive(Default)]
struct Shared { handles: HashMap<u64, Span>, ids: HashMap<u64, Id> }
static METADATA: Metadata<'static> = Metadata::new(module_path!(), metrics::Level::INFO, Some(module_path!()));

fn exec(ev: &Ev, sh: &Mutex<Shared>, ctxs: &[TracingContext<Log, Filter>], dispatch: &Dispatch) {
    match ev {
        Ev::New(id, par, fields) => {
            let mut sh = sh.lock().unwrap();
            if sh.ids.contains_key(id) { return; }
            let names: Vec<&str> = fields.iter().map(|(k, _)| k.as_str()).collect();
            let boxes: Vec<Box<dyn Value + '_>> = fields.iter().map(|(_, v)| boxed(v)).collect();
            let refs: Vec<&dyn Value> = boxes.iter().map(|b| &**b).collect();
            let parent = match par {
                Par::Ctx => None,
                Par::Root => Some(None),
                Par::Exp(p) => Some(sh.handles.get(p).and_then(|s| s.id())),
            };
            let span = match TABLE.iter().find(|(ns, _)| **ns == names[..]) {
                Some((_, mk)) => mk(parent, &refs),
                None => dyn_span(parent, &names, &refs),
            };
            let sid = span.id().expect("span enabled");
            sh.ids.insert(*id, sid);
            sh.handles.insert(*id, span);
        }
        Ev::Rec(id, fields) => {
            let sh = sh.lock().unwrap();
            let Some(span) = sh.handles.get(id) else { return };
            let meta = span.metadata().unwrap();
            let fs = meta.fields();
            let mut picked = Vec::new();
            let boxes: Vec<(tracing::field::Field, Box<dyn Value + '_>)> =
                fields.iter().filter_map(|(k, v)| fs.field(k.as_str()).map(|f| (f, boxed(v)))).collect();
            for (f, b) in boxes.iter() { picked.push((f, Some(&**b as &dyn Value))); }
            match picked.len() {
                0 => {}
                1 => { span.record_all(&fs.value_set(&[picked[0]])); }
                2 => { span.record_all(&fs.value_set(&[picked[0], picked[1]])); }
                3 => { span.record_all(&fs.value_set(&[picked[0], picked[1], picked[2]])); }
                4 => { span.record_all(&fs.value_set(&[picked[0], picked[1], picked[2], picked[3]])); }
                5 => { span.record_all(&fs.value_set(&[picked[0], picked[1], picked[2], picked[3], picked[4]])); }
                n => panic!("record of {} fields unsupported by the driver", n),
            }
        }
        Ev::Enter(id) => {
            let sh = sh.lock().unwrap();
            if let Some(span) = sh.handles.get(id) { span.with_subscriber(|(i, d)| d.enter(i)); }
        }
        Ev::Exit(id) => {
            let sid = sh.lock().unwrap().ids.get(id).cloned();
            // Exit through the Dispatch itself, as Span's exit guard does.  NOT inside dispatcher::get_default: Registry::exit
            // releases the reference taken by enter with a nested get_default(.. try_close ..), which tracing answers with the
            // no-op dispatcher when it is re-entered -- the span would then never close while the case runs.
            if let Some(sid) = sid { dispatch.exit(&sid); }
        }
        Ev::Drop(id) => {
            let span = sh.lock().unwrap().handles.remove(id);
            drop(span);
        }
        Ev::Emit(kind, name, labels, fi) => {
            let labels: Vec<Label> = labels.iter().map(|(k, v)| Label::new(k.clone(), v.clone())).collect();
            let key = Key::from_parts(name.clone(), labels);
            metrics::with_local_recorder(&ctxs[*fi], || {
                metrics::with_recorder(|r| match kind {
                    'c' => { let _ = r.register_counter(&key, &METADATA); }
                    'g' => { let _ = r.register_gauge(&key, &METADATA); }
                    _ => { let _ = r.register_histogram(&key, &METADATA); }
                })
            });
        }
    }
}

fn panic_msg(e: Box<dyn std::any::Any + Send>) -> String {
    if let Some(s) = e.downcast_ref::<&str>() { s.to_string() }
    else if let Some(s) = e.downcast_ref::<String>() { s.clone() }
    else { "?".into() }
}

fn run_case(line: &str) -> String {
    let (fs, evs) = line.split_once('|').unwrap();
    let filters: Vec<Filter> = fs.trim().split(';').filter(|x| !x.is_empty()).map(parse_filter).collect();
    let events: Vec<(usize, Ev)> = evs.split_whitespace().map(parse_event).collect();
    let log = Log(Arc::new(Mutex::new(Vec::new())));
    let ctxs: Arc<Vec<TracingContext<Log, Filter>>> =
        Arc::new(filters.into_iter().map(|f| TracingContextLayer::new(f).layer(log.clone())).collect());
    let dispatch = Dispatch::new(Registry::default().with(MetricsLayer::new()));
    let shared: Arc<Mutex<Shared>> = Arc::new(Mutex::new(Shared::default()));
    let nthreads = events.iter().map(|(t, _)| *t + 1).max().unwrap_or(0);
    let mut txs: Vec<Sender<Option<Ev>>> = Vec::new();
    let mut joins = Vec::new();
    let (rtx, rrx): (Sender<Result<(), String>>, Receiver<Result<(), String>>) = channel();
    for _ in 0..nthreads {
        let (tx, rx) = channel::<Option<Ev>>();
        txs.push(tx);
        let (dispatch, shared, ctxs, rtx) = (dispatch.clone(), shared.clone(), ctxs.clone(), rtx.clone());
        joins.push(std::thread::spawn(move || {
            tracing::dispatcher::with_default(&dispatch, || {
                while let Ok(Some(ev)) = rx.recv() {
                    let r = std::panic::catch_unwind(std::panic::AssertUnwindSafe(|| exec(&ev, &shared, &ctxs, &dispatch)));
                    rtx.send(r.map_err(panic_msg)).unwrap();
                }
            })
        }));
    }
    let mut failure = None;
    for (t, ev) in events {
        txs[t].send(Some(ev)).unwrap();
        if let Err(m) = rrx.recv().unwrap() { failure = Some(m); break; }
    }
    // drop the handles while the dispatcher is still the default somewhere, then stop the workers
    if failure.is_none() {
        // (under the dispatcher: a closing span releases its parent through the thread's default dispatcher)
        tracing::dispatcher::with_default(&dispatch, || { if let Ok(mut sh) = shared.lock() { sh.handles.clear(); } });
    }
    for tx in &txs { let _ = tx.send(None); }
    for j in joins {
        if let Err(e) = j.join() {
            // a worker that died outside the per-event catch_unwind (e.g. while unwinding the dispatcher scope) is a failure
            if failure.is_none() { failure = Some(format!("worker thread panicked: {}", panic_msg(e))); }
        }
    }
    match failure {
        Some(m) => format!("panic:{}", m.replace('\n', " ")),
        None => { let l = log.0.lock().unwrap(); format!("ok {}", l.join(" ")) }
    }
}

fn main() {
    std::panic::set_hook(Box::new(|_| {}));
    let stdin = std::io::stdin();
    let stdout = std::io::stdout();
    let mut w = std::io::BufWriter::new(stdout.lock());
    for line in stdin.lock().lines() {
        let line = line.unwrap();
        if line.trim().is_empty() { continue; }
        let r = std::panic::catch_unwind(|| run_case(&line)).unwrap_or_else(|e| format!("panic:{}", panic_msg(e)));
        writeln!(w, "{}", r.trim_end()).unwrap();
    }
}
