// C13 correspondence driver: real PrefixLayer / FilterLayer / RouterBuilder / FanoutBuilder / Stack
// from metrics-util over logging leaf recorders.
//
// stdin: one case per line   `<tree tokens> | <op> <op> ...`     (strings are `x<hex of utf-8>`)
//   tree (prefix notation, whitespace separated):
//     L<id>                                         leaf double (same id = same shared recorder)
//     P:<xprefix> <tree>                            PrefixLayer::new(p).layer(tree)
//     F:<ci>:<dfa>:<n> <xpat>*n <tree>              FilterLayer{patterns,ci,dfa}.layer(tree)
//     R:<n> <tree default> (<mask>:<xpat> <tree>)*n RouterBuilder::from_recorder(d).add_route(..)*n.build()
//     N:<n> <tree>*n                                FanoutBuilder::default().add_recorder(..)*n.build()
//     S:<n> <tree base> <layer>*n                   Stack::new(base).push(l1)...push(ln)
//         layer: P:<xprefix>  |  F:<ci>:<dfa>:<n> <xpat>*n
//   ops:
//     D<c|g|h>:<xname>:<unit idx|->:<xdesc>
//     G<c|g|h>:<xname>:<xk>=<xv>,..|-:<xtarget>:<level 0..4>:<xmodule|->:<upd>,<upd>..|-
//         upd: <code><value>   codes: i a (counter increment/absolute)  I D S (gauge)  r (record)
//              m<value>*<count> (record_many)
// stdout: one line per case: per op the events seen by the leaves, `;`-separated, ops `|`-separated
//     <leaf>:D<k>:<xname>:<unit|->:<xdesc>
//     <leaf>:G<k>:<xname>:<labels|->:<xtarget>:<level>:<xmodule|->:<hid>
//     <leaf>:U<hid>:<code><value>
//   or `PANIC <message>`.
use metrics::{
    Counter, CounterFn, Gauge, GaugeFn, Histogram, HistogramFn, Key, KeyName, Label, Level, Metadata,
    Recorder, SharedString, Unit,
};
use metrics_util::layers::{FanoutBuilder, FilterLayer, Layer, PrefixLayer, RouterBuilder, Stack};
use metrics_util::MetricKindMask;
use std::collections::HashMap;
use std::io::{BufRead, Write};
use std::sync::atomic::{AtomicUsize, Ordering};
use std::sync::{Arc, Mutex};

static LOG: Mutex<Vec<String>> = Mutex::new(Vec::new());
static NEXT_HID: AtomicUsize = AtomicUsize::new(0);

const UNITS: [Unit; 17] = [
    Unit::Count, Unit::Percent, Unit::Seconds, Unit::Milliseconds, Unit::Microseconds, Unit::Nanoseconds,
    Unit::Tebibytes, Unit::Gibibytes, Unit::Mebibytes, Unit::Kibibytes, Unit::Bytes, Unit::TerabitsPerSecond,
    Unit::GigabitsPerSecond, Unit::MegabitsPerSecond, Unit::KilobitsPerSecond, Unit::BitsPerSecond,
    Unit::CountPerSecond,
];
const LEVELS: [Level; 5] = [Level::TRACE, Level::DEBUG, Level::INFO, Level::WARN, Level::ERROR];

fn hex(s: &str) -> String {
    let mut o = String::from("x");
    for b in s.as_bytes() { o.push_str(&format!("{:02x}", b)); }
    o
}
fn unhex(s: &str) -> String {
    let s = s.strip_prefix('x').unwrap_or_else(|| panic!("bad hex token {}", s));
    let bytes: Vec<u8> = (0..s.len() / 2).map(|i| u8::from_str_radix(&s[2 * i..2 * i + 2], 16).unwrap()).collect();
    String::from_utf8(bytes).expect("utf-8")
}
fn log(s: String) { LOG.lock().unwrap().push(s); }

// ------------------------------------------------------------------------------ leaf doubles
struct Leaf { id: u64 }
struct LeafHandle { leaf: u64, hid: usize }

fn as_int(v: f64) -> u64 { assert!(v >= 0.0 && v.fract() == 0.0 && v <= 9007199254740992.0); v as u64 }

impl CounterFn for LeafHandle {
    fn increment(&self, v: u64) { log(format!("{}:U{}:i{}", self.leaf, self.hid, v)); }
    fn absolute(&self, v: u64) { log(format!("{}:U{}:a{}", self.leaf, self.hid, v)); }
}
impl GaugeFn for LeafHandle {
    fn increment(&self, v: f64) { log(format!("{}:U{}:I{}", self.leaf, self.hid, as_int(v))); }
    fn decrement(&self, v: f64) { log(format!("{}:U{}:D{}", self.leaf, self.hid, as_int(v))); }
    fn set(&self, v: f64) { log(format!("{}:U{}:S{}", self.leaf, self.hid, as_int(v))); }
}
impl HistogramFn for LeafHandle {
    fn record(&self, v: f64) { log(format!("{}:U{}:r{}", self.leaf, self.hid, as_int(v))); }
}

impl Leaf {
    fn desc(&self, k: char, name: KeyName, unit: Option<Unit>, d: SharedString) {
        let u = match unit {
            None => "-".to_string(),
            Some(u) => UNITS.iter().position(|x| *x == u).unwrap().to_string(),
        };
        log(format!("{}:D{}:{}:{}:{}", self.id, k, hex(name.as_str()), u, hex(d.as_ref())));
    }
    fn reg(&self, k: char, key: &Key, md: &Metadata<'_>) -> Arc<LeafHandle> {
        let hid = NEXT_HID.fetch_add(1, Ordering::SeqCst);
        let labels: Vec<String> = key.labels().map(|l| format!("{}={}", hex(l.key()), hex(l.value()))).collect();
        let lv = LEVELS.iter().position(|x| x == md.level()).unwrap();
        log(format!(
            "{}:G{}:{}:{}:{}:{}:{}:{}",
            self.id, k, hex(key.name()),
            if labels.is_empty() { "-".to_string() } else { labels.join(",") },
            hex(md.target()), lv,
            md.module_path().map(hex).unwrap_or_else(|| "-".to_string()),
            hid
        ));
        Arc::new(LeafHandle { leaf: self.id, hid })
    }
}

impl Recorder for Leaf {
    fn describe_counter(&self, n: KeyName, u: Option<Unit>, d: SharedString) { self.desc('c', n, u, d) }
    fn describe_gauge(&self, n: KeyName, u: Option<Unit>, d: SharedString) { self.desc('g', n, u, d) }
    fn describe_histogram(&self, n: KeyName, u: Option<Unit>, d: SharedString) { self.desc('h', n, u, d) }
    fn register_counter(&self, key: &Key, md: &Metadata<'_>) -> Counter { Counter::from_arc(self.reg('c', key, md)) }
    fn register_gauge(&self, key: &Key, md: &Metadata<'_>) -> Gauge { Gauge::from_arc(self.reg('g', key, md)) }
    fn register_histogram(&self, key: &Key, md: &Metadata<'_>) -> Histogram { Histogram::from_arc(self.reg('h', key, md)) }
}

// ------------------------------------------------------------------------------ configuration
type Dyn = Box<dyn Recorder + Sync>;

struct Toks<'a> { t: Vec<&'a str>, i: usize }
impl<'a> Toks<'a> {
    fn next(&mut self) -> &'a str { let x = self.t[self.i]; self.i += 1; x }
}

fn mask_of(s: &str) -> MetricKindMask {
    // bit set as given (the generator only produces 1, 2, 4, 7; others make add_route panic by design)
    let bits: u8 = s.parse().unwrap();
    let mut m = MetricKindMask::NONE;
    if bits & 1 != 0 { m = m | MetricKindMask::COUNTER; }
    if bits & 2 != 0 { m = m | MetricKindMask::GAUGE; }
    if bits & 4 != 0 { m = m | MetricKindMask::HISTOGRAM; }
    m
}

enum LayerSpec { P(String), F(FilterLayer) }

fn filter_layer(head: &str, tk: &mut Toks) -> FilterLayer {
    let f: Vec<&str> = head.split(':').collect();
    let n: usize = f[3].parse().unwrap();
    let mut fl = FilterLayer::default();
    // `Default` has use_dfa = false; from_patterns has use_dfa = true; both paths then set explicitly
    let pats: Vec<String> = (0..n).map(|_| unhex(tk.next())).collect();
    if n % 2 == 0 {
        for p in &pats { fl.add_pattern(p); }
    } else {
        fl = FilterLayer::from_patterns(pats.iter());
    }
    fl.case_insensitive(f[1] == "1").use_dfa(f[2] == "1");
    fl
}

macro_rules! pushfn {
    ($name:ident, $next:ident) => {
        fn $name<R: Recorder + Sync + 'static>(s: Stack<R>, ls: &mut std::vec::IntoIter<LayerSpec>) -> Dyn {
            match ls.next() {
                None => Box::new(s),
                Some(LayerSpec::P(p)) => $next(s.push(PrefixLayer::new(p)), ls),
                Some(LayerSpec::F(f)) => $next(s.push(f), ls),
            }
        }
    };
}
// the type of the stack changes with every push: bounded chain (generated cases have <= 4 layers)
fn push_end<R: Recorder + Sync + 'static>(s: Stack<R>, ls: &mut std::vec::IntoIter<LayerSpec>) -> Dyn {
    assert!(ls.next().is_none(), "stack deeper than 4 layers");
    Box::new(s)
}
pushfn!(push3, push_end);
pushfn!(push2, push3);
pushfn!(push1, push2);
pushfn!(push_all, push1);

fn build(tk: &mut Toks, leaves: &mut HashMap<u64, Arc<Leaf>>) -> Dyn {
    let t = tk.next();
    match &t[..1] {
        "L" => {
            let id: u64 = t[1..].parse().unwrap();
            let l = leaves.entry(id).or_insert_with(|| Arc::new(Leaf { id })).clone();
            Box::new(l)
        }
        "P" => {
            let p = unhex(&t[2..]);
            let inner = build(tk, leaves);
            Box::new(PrefixLayer::new(p).layer(inner))
        }
        "F" => {
            let fl = filter_layer(t, tk);
            let inner = build(tk, leaves);
            Box::new(fl.layer(inner))
        }
        "R" => {
            let n: usize = t[2..].parse().unwrap();
            let d = build(tk, leaves);
            let mut b = RouterBuilder::from_recorder(d);
            for _ in 0..n {
                let r = tk.next();
                let (m, p) = r.split_once(':').unwrap();
                let target = build(tk, leaves);
                b.add_route(mask_of(m), unhex(p), target);
            }
            Box::new(b.build())
        }
        "N" => {
            let n: usize = t[2..].parse().unwrap();
            let mut b = FanoutBuilder::default();
            for _ in 0..n { b = b.add_recorder(build(tk, leaves)); }
            Box::new(b.build())
        }
        "S" => {
            let n: usize = t[2..].parse().unwrap();
            let base = build(tk, leaves);
            let mut ls = Vec::new();
            for _ in 0..n {
                let l = tk.next();
                match &l[..1] {
                    "P" => ls.push(LayerSpec::P(unhex(&l[2..]))),
                    "F" => ls.push(LayerSpec::F(filter_layer(l, tk))),
                    _ => panic!("bad layer {}", l),
                }
            }
            push_all(Stack::new(base), &mut ls.into_iter())
        }
        _ => panic!("bad tree token {}", t),
    }
}

fn leak(s: String) -> &'static str { Box::leak(s.into_boxed_str()) }

fn run_op(rec: &Dyn, tok: &str) {
    let f: Vec<&str> = tok.split(':').collect();
    let k = &f[0][1..2];
    if &f[0][..1] == "D" {
        let name = KeyName::from(unhex(f[1]));
        let unit = if f[2] == "-" { None } else { Some(UNITS[f[2].parse::<usize>().unwrap()]) };
        let desc: SharedString = unhex(f[3]).into();
        match k {
            "c" => rec.describe_counter(name, unit, desc),
            "g" => rec.describe_gauge(name, unit, desc),
            _ => rec.describe_histogram(name, unit, desc),
        }
        return;
    }
    let labels: Vec<Label> = if f[2] == "-" { vec![] } else {
        f[2].split(',').map(|kv| { let (a, b) = kv.split_once('=').unwrap(); Label::new(unhex(a), unhex(b)) }).collect()
    };
    // vary the construction path of the key
    let key = if labels.is_empty() && f[1].len() % 4 == 1 { Key::from_name(unhex(f[1])) } else { Key::from_parts(unhex(f[1]), labels) };
    let target = leak(unhex(f[3]));
    let level = LEVELS[f[4].parse::<usize>().unwrap()];
    let module = if f[5] == "-" { None } else { Some(leak(unhex(f[5]))) };
    let md = Metadata::new(target, level, module);
    let upds: Vec<&str> = if f[6] == "-" { vec![] } else { f[6].split(',').collect() };
    match k {
        "c" => {
            let h = rec.register_counter(&key, &md);
            for u in upds {
                let v: u64 = u[1..].parse().unwrap();
                match &u[..1] { "i" => h.increment(v), "a" => h.absolute(v), _ => panic!("bad counter update {}", u) }
            }
        }
        "g" => {
            let h = rec.register_gauge(&key, &md);
            for u in upds {
                let v = u[1..].parse::<u64>().unwrap() as f64;
                match &u[..1] { "I" => h.increment(v), "D" => h.decrement(v), "S" => h.set(v), _ => panic!("bad gauge update {}", u) }
            }
        }
        _ => {
            let h = rec.register_histogram(&key, &md);
            for u in upds {
                match &u[..1] {
                    "r" => h.record(u[1..].parse::<u64>().unwrap() as f64),
                    "m" => { let (v, n) = u[1..].split_once('*').unwrap(); h.record_many(v.parse::<u64>().unwrap() as f64, n.parse().unwrap()) }
                    _ => panic!("bad histogram update {}", u),
                }
            }
        }
    }
}

fn run_case(line: &str) -> String {
    let (tree, ops) = line.split_once('|').unwrap();
    let mut tk = Toks { t: tree.split_whitespace().collect(), i: 0 };
    let mut leaves = HashMap::new();
    let rec = build(&mut tk, &mut leaves);
    assert!(tk.i == tk.t.len(), "trailing tree tokens");
    let mut out: Vec<String> = Vec::new();
    for tok in ops.split_whitespace() {
        LOG.lock().unwrap().clear();
        NEXT_HID.store(0, Ordering::SeqCst);
        run_op(&rec, tok);
        out.push(LOG.lock().unwrap().join(";"));
    }
    out.join("|")
}

fn main() {
    std::panic::set_hook(Box::new(|_| {}));
    let stdin = std::io::stdin();
    let stdout = std::io::stdout();
    let mut w = std::io::BufWriter::new(stdout.lock());
    for line in stdin.lock().lines() {
        let line = line.unwrap();
        if line.trim().is_empty() { continue; }
        let l2 = line.clone();
        let r = std::panic::catch_unwind(move || run_case(&l2));
        match r {
            Ok(s) => writeln!(w, "{}", s).unwrap(),
            Err(e) => {
                let msg = e.downcast_ref::<String>().cloned().or_else(|| e.downcast_ref::<&str>().map(|s| s.to_string())).unwrap_or_default();
                // a panic while the LOG mutex is held would poison it; the leaves never panic under it
                writeln!(w, "PANIC {}", msg.replace('\n', " ")).unwrap()
            }
        }
    }
}
