// C01 correspondence driver: local/global/no-op recorder dispatch and the macro layer of metrics.
//
// stdin: one program per line, ops separated by blanks (strings hex-encoded after an `x`):
//   I<t>:<r>  `let g = set_default_local_recorder(&rec_r)` on thread t (guard kept in t's table under the next guard id)
//   D<t>:<g>  drop guard g (only if it is in t's table)          F<t>:<g>  mem::forget(guard g)
//   W<t>:<r>  thread t enters `with_local_recorder(&rec_r, || ..)` (takes the next guard id)
//   X<t>      the innermost with_local_recorder closure of t returns        P<t>  it panics (unwinds every open closure of t)
//   B<r>      the borrow of recorder double r ends (flag only; the double lives in a leaked Box)
//   R<r>:w<i> | R<r>:z<n> | R<r>:s<slot>.<ty>   (before the ops) WHERE recorder double r lives; undeclared = a leaked Box of its own:
//             w<i>: r is a decorating recorder (repr(C)) whose first field is recorder double i: &r and &i are the same address;
//             z<n>: r is the zero-sized recorder type Z<n> (all boxed ZSTs share one address);
//             s<slot>.<ty>: r lives in reusable storage <slot>, viewed as type Dbl (ty 0) or Dbl2 (ty 1): a later recorder of the
//             same slot is constructed at the address the earlier, dead one occupied (at its first I/W/G).
//             A recorder's identity is its id, never its address or type: none of this may change what is observed.
//   G<r>      set_global_recorder(rec_r)   (a line containing one is run in a child process: once per process)
//   E<t>:<site>:x<name>:x<v1>:x<v2>:x<desc>:<unit idx>:x<k>=x<v>,..   macro call site <site> of c01_sites.rs on thread t
// stdout: one JSON line per program {"o":[..],"same":n}: n = pairs of distinct doubles of the program at one address; o = for each
//   E, in order, the list of calls any double received while it ran:
//   [[{"r":rid,"t":tid,"c":call,"n":hex,"l":[[hex,hex],..],"m":null|[hex,level,null|hex],"u":null|"unit","d":hex,"x":0|1}]]
//   x = 1: the double's in-scope flag was already cleared when it was called.
use metrics::{Counter, Gauge, Histogram, Key, KeyName, Label, Level, LocalRecorderGuard, Metadata, Recorder, SharedString, Unit};
use std::cell::{Cell, RefCell};
use std::collections::HashMap;
use std::io::{BufRead, Read, Write};
use std::panic::{catch_unwind, AssertUnwindSafe};
use std::sync::atomic::{AtomicBool, AtomicU64, Ordering};
use std::sync::mpsc::{channel, Receiver, Sender};
use std::sync::Mutex;

#[path = "../c01_sites.rs"]
mod sites;
use sites::Args;

static LOG: Mutex<Vec<String>> = Mutex::new(Vec::new());
thread_local! { static WORKER: Cell<u64> = Cell::new(u64::MAX); }

// Recorder doubles.  Every kind logs (its id, is its in-scope flag cleared) through `ident`.
#[repr(C)] struct Dbl { id: AtomicU64, live: AtomicBool }
#[repr(C)] struct Dbl2 { id: AtomicU64, live: AtomicBool }            // same layout as Dbl, another type (another vtable)
#[repr(C)] struct Wrap { inner: Dbl, id: AtomicU64, live: AtomicBool } // decorator: the wrapped recorder is the first field
struct Z<const N: usize>;                                             // zero-sized recorders; identity and flag by type
static ZC: [Dbl; 4] = [Dbl::new(0), Dbl::new(0), Dbl::new(0), Dbl::new(0)];
impl Dbl { const fn new(id: u64) -> Dbl { Dbl { id: AtomicU64::new(id), live: AtomicBool::new(true) } } }
trait Ident { fn ident(&self) -> (u64, bool); }
impl Ident for Dbl { fn ident(&self) -> (u64, bool) { (self.id.load(Ordering::SeqCst), self.live.load(Ordering::SeqCst)) } }
impl Ident for Dbl2 { fn ident(&self) -> (u64, bool) { (self.id.load(Ordering::SeqCst), self.live.load(Ordering::SeqCst)) } }
impl Ident for Wrap { fn ident(&self) -> (u64, bool) { (self.id.load(Ordering::SeqCst), self.live.load(Ordering::SeqCst)) } }
impl<const N: usize> Ident for Z<N> { fn ident(&self) -> (u64, bool) { ZC[N].ident() } }

fn hex(s: &str) -> String { s.bytes().map(|b| format!("{:02x}", b)).collect() }
fn unhex(s: &str) -> String {
    let s = s.strip_prefix('x').expect("hex field");
    let b: Vec<u8> = (0..s.len() / 2).map(|i| u8::from_str_radix(&s[2 * i..2 * i + 2], 16).unwrap()).collect();
    String::from_utf8(b).unwrap()
}
fn level_ix(l: &Level) -> u8 {
    if *l == Level::TRACE { 0 } else if *l == Level::DEBUG { 1 } else if *l == Level::INFO { 2 } else if *l == Level::WARN { 3 } else if *l == Level::ERROR { 4 } else { 9 }
}

struct Logger(u64, bool);
impl Logger {
    fn rec(&self, call: u8, name: &str, labels: Vec<(String, String)>, meta: Option<&Metadata<'_>>, unit: Option<Unit>, desc: &str) {
        let dead = !self.1;
        let l: Vec<String> = labels.iter().map(|(k, v)| format!("[\"{}\",\"{}\"]", hex(k), hex(v))).collect();
        let m = match meta {
            None => "null".to_string(),
            Some(m) => format!("[\"{}\",{},{}]", hex(m.target()), level_ix(m.level()),
                               match m.module_path() { None => "null".to_string(), Some(p) => format!("\"{}\"", hex(p)) }),
        };
        let u = match unit { None => "null".to_string(), Some(u) => format!("\"{}\"", u.as_str()) };
        let e = format!("{{\"r\":{},\"t\":{},\"c\":{},\"n\":\"{}\",\"l\":[{}],\"m\":{},\"u\":{},\"d\":\"{}\",\"x\":{}}}",
                        self.0, WORKER.with(|w| w.get()), call, hex(name), l.join(","), m, u, hex(desc), if dead { 1 } else { 0 });
        LOG.lock().unwrap().push(e);
    }
    fn key(&self, call: u8, key: &Key, meta: &Metadata<'_>) {
        let labels = key.labels().map(|l| (l.key().to_string(), l.value().to_string())).collect();
        self.rec(call, key.name(), labels, Some(meta), None, "");
    }
}
macro_rules! impl_double {
    ($($gen:tt)*) => {
        impl $($gen)* {
            fn lg(&self) -> Logger { let (id, live) = self.ident(); Logger(id, live) }
        }
        impl Recorder for $($gen)* {
            fn describe_counter(&self, k: KeyName, u: Option<Unit>, d: SharedString) { self.lg().rec(3, k.as_str(), vec![], None, u, &d) }
            fn describe_gauge(&self, k: KeyName, u: Option<Unit>, d: SharedString) { self.lg().rec(4, k.as_str(), vec![], None, u, &d) }
            fn describe_histogram(&self, k: KeyName, u: Option<Unit>, d: SharedString) { self.lg().rec(5, k.as_str(), vec![], None, u, &d) }
            fn register_counter(&self, k: &Key, m: &Metadata<'_>) -> Counter { self.lg().key(0, k, m); Counter::noop() }
            fn register_gauge(&self, k: &Key, m: &Metadata<'_>) -> Gauge { self.lg().key(1, k, m); Gauge::noop() }
            fn register_histogram(&self, k: &Key, m: &Metadata<'_>) -> Histogram { self.lg().key(2, k, m); Histogram::noop() }
        }
    };
}
impl_double!(Dbl);
impl_double!(Dbl2);
impl_double!(Wrap);
impl_double!(Z<0>);
impl_double!(Z<1>);
impl_double!(Z<2>);
impl_double!(Z<3>);

type DynRec = &'static (dyn Recorder + Sync);
#[derive(Clone, Copy)]
struct Handle { rec: DynRec, live: &'static AtomicBool, addr: usize }
#[derive(Clone, Copy)]
enum Place { Own, Wrap(u64), Zst(usize), Slot(u64, u8) }

// Where the doubles of one program live.
struct Doubles { place: HashMap<u64, Place>, inner_of: HashMap<u64, u64>, made: HashMap<u64, Handle>,
                 slots: HashMap<u64, &'static Dbl>, occupant: HashMap<u64, u64> }
impl Doubles {
    fn addr<T: ?Sized>(p: &T) -> usize { p as *const T as *const () as usize }
    fn handle(&mut self, r: u64) -> Handle {
        if let Some(h) = self.made.get(&r) { return *h; }
        let place = *self.place.get(&r).unwrap_or(&Place::Own);
        // r may be the wrapped recorder of a declared decorator
        let wrapper = if let Place::Wrap(_) = place { Some(r) } else { self.inner_of.get(&r).copied() };
        if let Some(w) = wrapper {
            let i = match self.place[&w] { Place::Wrap(i) => i, _ => unreachable!() };
            let b: &'static Wrap = Box::leak(Box::new(Wrap { inner: Dbl::new(i), id: AtomicU64::new(w), live: AtomicBool::new(true) }));
            assert_eq!(Self::addr(b), Self::addr(&b.inner), "decorator and decorated recorder must share their address");
            self.made.insert(w, Handle { rec: b, live: &b.live, addr: Self::addr(b) });
            self.made.insert(i, Handle { rec: &b.inner, live: &b.inner.live, addr: Self::addr(&b.inner) });
            return self.made[&r];
        }
        let h = match place {
            Place::Zst(n) => {
                ZC[n].id.store(r, Ordering::SeqCst);
                ZC[n].live.store(true, Ordering::SeqCst);
                let rec: DynRec = match n {
                    0 => Box::leak(Box::new(Z::<0>)), 1 => Box::leak(Box::new(Z::<1>)),
                    2 => Box::leak(Box::new(Z::<2>)), _ => Box::leak(Box::new(Z::<3>)) };
                Handle { rec, live: &ZC[n].live, addr: Self::addr(rec) }
            }
            Place::Slot(s, ty) => {
                let mem: &'static Dbl = *self.slots.entry(s).or_insert_with(|| Box::leak(Box::new(Dbl::new(u64::MAX))));
                // Dbl and Dbl2 are repr(C) with identical fields: the same storage seen as either type
                let rec: DynRec = if ty == 0 { mem } else { unsafe { &*(mem as *const Dbl as *const Dbl2) } };
                Handle { rec, live: &mem.live, addr: Self::addr(mem) }
            }
            _ => { let b: &'static Dbl = Box::leak(Box::new(Dbl::new(r))); Handle { rec: b, live: &b.live, addr: Self::addr(b) } }
        };
        self.made.insert(r, h);
        h
    }
    // first use of a recorder that lives in a slot: it is constructed where the previous occupant was
    fn activate(&mut self, r: u64) -> Handle {
        let h = self.handle(r);
        if let Some(Place::Slot(s, _)) = self.place.get(&r).copied() {
            if self.occupant.get(&s) != Some(&r) {
                self.slots[&s].id.store(r, Ordering::SeqCst);
                self.slots[&s].live.store(true, Ordering::SeqCst);
                self.occupant.insert(s, r);
            }
        }
        h
    }
    fn end_borrow(&mut self, r: u64) {
        if let Some(Place::Slot(s, _)) = self.place.get(&r).copied() {
            if self.occupant.get(&s) != Some(&r) { return; }   // not (or no longer) constructed: nothing to mark
        }
        self.handle(r).live.store(false, Ordering::SeqCst);
    }
    fn same_address_pairs(&self) -> usize {
        let hs: Vec<(&u64, &Handle)> = self.made.iter().collect();
        let mut n = 0;
        for i in 0..hs.len() { for j in 0..i { if hs[i].1.addr == hs[j].1.addr { n += 1; } } }
        n
    }
}

enum Cmd { Install(u64, DynRec), Drop(u64), Forget(u64), Enter(DynRec), Exit, Panic, Emit(usize, Args), Quit }
enum Flow { Exit, Quit }
struct Unwind; // panic payload of a scripted panic

type Table = RefCell<HashMap<u64, LocalRecorderGuard<'static>>>;

// The command loop of one worker.  depth = number of with_local_recorder closures this thread is inside of.
fn cmd_loop(rx: &Receiver<Cmd>, ack: &Sender<bool>, table: &Table, depth: usize) -> Flow {
    loop {
        match rx.recv().unwrap() {
            Cmd::Install(g, d) => {
                let guard = metrics::set_default_local_recorder(d);
                table.borrow_mut().insert(g, guard);
                ack.send(true).unwrap();
            }
            Cmd::Drop(g) => {
                let x = table.borrow_mut().remove(&g);
                if let Some(guard) = x { drop(guard); }
                ack.send(true).unwrap();
            }
            Cmd::Forget(g) => {
                let x = table.borrow_mut().remove(&g);
                if let Some(guard) = x { std::mem::forget(guard); }
                ack.send(true).unwrap();
            }
            Cmd::Enter(d) => {
                let body = || metrics::with_local_recorder(d, || { ack.send(true).unwrap(); cmd_loop(rx, ack, table, depth + 1) });
                if depth == 0 {
                    match catch_unwind(AssertUnwindSafe(body)) {
                        Ok(Flow::Exit) => ack.send(true).unwrap(),
                        Ok(Flow::Quit) => return Flow::Quit,
                        Err(p) => { if !p.is::<Unwind>() { std::panic::resume_unwind(p); } ack.send(true).unwrap() }
                    }
                } else {
                    match body() { Flow::Exit => ack.send(true).unwrap(), Flow::Quit => return Flow::Quit }
                }
            }
            Cmd::Exit => { if depth > 0 { return Flow::Exit; } ack.send(true).unwrap(); }
            Cmd::Panic => { if depth > 0 { std::panic::panic_any(Unwind); } ack.send(true).unwrap(); }
            Cmd::Emit(site, a) => { sites::emit(site, &a); ack.send(true).unwrap(); }
            Cmd::Quit => return Flow::Quit,
        }
    }
}

fn unit_of(ix: usize) -> Unit {
    const U: [Unit; 17] = [Unit::Count, Unit::Percent, Unit::Seconds, Unit::Milliseconds, Unit::Microseconds, Unit::Nanoseconds,
        Unit::Tebibytes, Unit::Gibibytes, Unit::Mebibytes, Unit::Kibibytes, Unit::Bytes, Unit::TerabitsPerSecond,
        Unit::GigabitsPerSecond, Unit::MegabitsPerSecond, Unit::KilobitsPerSecond, Unit::BitsPerSecond, Unit::CountPerSecond];
    U[ix]
}

fn two(s: &str) -> (u64, &str) { let (a, b) = s.split_once(':').unwrap(); (a.parse().unwrap(), b) }

fn run_case(line: &str) -> String {
    let toks: Vec<&str> = line.split_whitespace().collect();
    let mut nthreads = 0u64;
    for t in &toks {
        let c = &t[..1];
        if "IDFWXPE".contains(c) {
            let rest = &t[1..];
            let tid: u64 = rest.split(':').next().unwrap().parse().unwrap();
            nthreads = nthreads.max(tid + 1);
        }
    }
    let mut dd = Doubles { place: HashMap::new(), inner_of: HashMap::new(), made: HashMap::new(), slots: HashMap::new(), occupant: HashMap::new() };
    for t in &toks {
        if let Some(rest) = t.strip_prefix('R') {
            let (r, p) = two(rest);
            let (k, v) = p.split_at(1);
            let place = match k {
                "w" => { let i: u64 = v.parse().unwrap(); dd.inner_of.insert(i, r); Place::Wrap(i) }
                "z" => Place::Zst(v.parse().unwrap()),
                "s" => { let (a, b) = v.split_once('.').unwrap(); Place::Slot(a.parse().unwrap(), b.parse().unwrap()) }
                _ => panic!("bad placement {}", t),
            };
            dd.place.insert(r, place);
        }
    }
    let (ack_tx, ack_rx) = channel::<bool>();
    let mut txs: Vec<Sender<Cmd>> = Vec::new();
    let mut joins = Vec::new();
    for t in 0..nthreads {
        let (tx, rx) = channel::<Cmd>();
        let ack = ack_tx.clone();
        txs.push(tx);
        joins.push(std::thread::spawn(move || {
            WORKER.with(|w| w.set(t));
            // a panic that is not a scripted one (i.e. one raised inside the code under test) is an outcome of the case
            let r = catch_unwind(AssertUnwindSafe(|| {
                let table: Table = RefCell::new(HashMap::new());
                let _ = cmd_loop(&rx, &ack, &table, 0);
            }));
            if let Err(p) = r { let _ = ack.send(false); std::panic::resume_unwind(p); }
        }));
    }
    LOG.lock().unwrap().clear();
    let mut next_gid = 0u64;
    let mut out: Vec<String> = Vec::new();
    let mut broken: Option<String> = None;
    let send = |t: u64, c: Cmd| -> Result<(), String> {
        txs[t as usize].send(c).map_err(|_| format!("worker {} gone", t))?;
        match ack_rx.recv_timeout(std::time::Duration::from_secs(60)) {
            Ok(true) => Ok(()),
            Ok(false) => Err(format!("worker {} panicked", t)),
            Err(_) => Err(format!("worker {} did not answer", t)),
        }
    };
    for tok in &toks {
        let (c, rest) = tok.split_at(1);
        let r = match c {
            "R" => Ok(()),
            "I" => { let (t, r) = two(rest); let g = next_gid; next_gid += 1; send(t, Cmd::Install(g, dd.activate(r.parse().unwrap()).rec)) }
            "W" => { let (t, r) = two(rest); next_gid += 1; send(t, Cmd::Enter(dd.activate(r.parse().unwrap()).rec)) }
            "D" => { let (t, g) = two(rest); send(t, Cmd::Drop(g.parse().unwrap())) }
            "F" => { let (t, g) = two(rest); send(t, Cmd::Forget(g.parse().unwrap())) }
            "X" => send(rest.parse().unwrap(), Cmd::Exit),
            "P" => send(rest.parse().unwrap(), Cmd::Panic),
            "B" => { dd.end_borrow(rest.parse().unwrap()); Ok(()) }
            "G" => { let _ = metrics::set_global_recorder(dd.activate(rest.parse().unwrap()).rec); Ok(()) }
            "E" => {
                let f: Vec<&str> = rest.split(':').collect();
                let t: u64 = f[0].parse().unwrap();
                let site: usize = f[1].parse().unwrap();
                let pairs: Vec<(String, String)> = if f[7].is_empty() { vec![] } else {
                    f[7].split(',').map(|kv| { let (k, v) = kv.split_once('=').unwrap(); (unhex(k), unhex(v)) }).collect() };
                let labels: Vec<Label> = pairs.iter().map(|(k, v)| Label::new(k.clone(), v.clone())).collect();
                let a = Args { s: [unhex(f[2]), unhex(f[3]), unhex(f[4]), unhex(f[5])], pairs, labels, unit: unit_of(f[6].parse().unwrap()) };
                LOG.lock().unwrap().clear();
                let r = send(t, Cmd::Emit(site, a));
                let got: Vec<String> = LOG.lock().unwrap().drain(..).collect();
                out.push(format!("[{}]", got.join(",")));
                r
            }
            _ => Err(format!("bad op {}", tok)),
        };
        if let Err(e) = r { broken = Some(e); break; }
    }
    for tx in &txs { let _ = tx.send(Cmd::Quit); }
    drop(txs);
    for j in joins { if j.join().is_err() && broken.is_none() { broken = Some("worker panicked".into()); } }
    match broken {
        Some(e) => format!("{{\"error\":\"{}\"}}", e.replace('"', "'")),
        None => format!("{{\"o\":[{}],\"same\":{}}}", out.join(","), dd.same_address_pairs()),
    }
}

fn main() {
    let prev = std::panic::take_hook();
    std::panic::set_hook(Box::new(move |info| { if !info.payload().is::<Unwind>() { prev(info); } }));
    let one = std::env::args().any(|a| a == "--one");
    let stdin = std::io::stdin();
    let stdout = std::io::stdout();
    let mut w = std::io::BufWriter::new(stdout.lock());
    if one {
        let mut s = String::new();
        stdin.lock().read_to_string(&mut s).unwrap();
        writeln!(w, "{}", run_case(s.trim())).unwrap();
        return;
    }
    let exe = std::env::current_exe().unwrap();
    for line in stdin.lock().lines() {
        let line = line.unwrap();
        if line.trim().is_empty() { continue; }
        if line.split_whitespace().any(|t| t.starts_with('G')) {
            // the global recorder can be set once per process: run this program in a process of its own
            let mut ch = std::process::Command::new(&exe).arg("--one").stdin(std::process::Stdio::piped())
                .stdout(std::process::Stdio::piped()).spawn().unwrap();
            ch.stdin.take().unwrap().write_all(line.as_bytes()).unwrap();
            let o = ch.wait_with_output().unwrap();
            let s = String::from_utf8_lossy(&o.stdout);
            let s = s.trim();
            writeln!(w, "{}", if s.is_empty() { "{\"error\":\"child produced no output\"}" } else { s }).unwrap();
        } else {
            writeln!(w, "{}", run_case(&line)).unwrap();
        }
    }
}
