// C01 correspondence driver: local/global/no-op recorder dispatch and the macro layer of metrics.
//
// stdin: one program per line, ops separated by blanks (strings hex-encoded after an `x`):
//   I<t>:<r>  `let g = set_default_local_recorder(&rec_r)` on thread t (guard kept in t's table under the next guard id)
//   D<t>:<g>  drop guard g (only if it is in t's table)          F<t>:<g>  mem::forget(guard g)
//   W<t>:<r>  thread t enters `with_local_recorder(&rec_r, || ..)` (takes the next guard id)
//   X<t>      the innermost with_local_recorder closure of t returns        P<t>  it panics (unwinds every open closure of t)
//   B<r>      the borrow of recorder double r ends (flag only; the double lives in a leaked Box)
//   G<r>      set_global_recorder(rec_r)   (a line containing one is run in a child process: once per process)
//   E<t>:<site>:x<name>:x<v1>:x<v2>:x<desc>:<unit idx>:x<k>=x<v>,..   macro call site <site> of c01_sites.rs on thread t
// stdout: one JSON line per program: for each E, in order, the list of calls any double received while it ran:
//   [[{"r":rid,"t":tid,"c":call,"n":hex,"l":[[hex,hex],..],"m":null|[hex,level,null|hex],"u":null|"unit","d":hex,"x":0|1}]]
//   x = 1: the double's in-scope flag was already cleared when it was called.
use metrics::{Counter, Gauge, Histogram, Key, KeyName, Label, Level, LocalRecorderGuard, Metadata, Recorder, SharedString, Unit};
use std::cell::{Cell, RefCell};
use std::collections::HashMap;
use std::io::{BufRead, Read, Write};
use std::panic::{catch_unwind, AssertUnwindSafe};
use std::sync::atomic::{AtomicBool, Ordering};
use std::sync::mpsc::{channel, Receiver, Sender};
use std::sync::Mutex;

#[path = "../c01_sites.rs"]
mod sites;
use sites::Args;

static LOG: Mutex<Vec<String>> = Mutex::new(Vec::new());
thread_local! { static WORKER: Cell<u64> = Cell::new(u64::MAX); }

struct Dbl { id: u64, live: AtomicBool }

fn hex(s: &str) -> String { s.bytes().map(|b| format!("{:02x}", b)).collect() }
fn unhex(s: &str) -> String {
    let s = s.strip_prefix('x').expect("hex field");
    let b: Vec<u8> = (0..s.len() / 2).map(|i| u8::from_str_radix(&s[2 * i..2 * i + 2], 16).unwrap()).collect();
    String::from_utf8(b).unwrap()
}
fn level_ix(l: &Level) -> u8 {
    if *l == Level::TRACE { 0 } else if *l == Level::DEBUG { 1 } else if *l == Level::INFO { 2 } else if *l == Level::WARN { 3 } else if *l == Level::ERROR { 4 } else { 9 }
}

impl Dbl {
    fn rec(&self, call: u8, name: &str, labels: Vec<(String, String)>, meta: Option<&Metadata<'_>>, unit: Option<Unit>, desc: &str) {
        let dead = !self.live.load(Ordering::SeqCst);
        let l: Vec<String> = labels.iter().map(|(k, v)| format!("[\"{}\",\"{}\"]", hex(k), hex(v))).collect();
        let m = match meta {
            None => "null".to_string(),
            Some(m) => format!("[\"{}\",{},{}]", hex(m.target()), level_ix(m.level()),
                               match m.module_path() { None => "null".to_string(), Some(p) => format!("\"{}\"", hex(p)) }),
        };
        let u = match unit { None => "null".to_string(), Some(u) => format!("\"{}\"", u.as_str()) };
        let e = format!("{{\"r\":{},\"t\":{},\"c\":{},\"n\":\"{}\",\"l\":[{}],\"m\":{},\"u\":{},\"d\":\"{}\",\"x\":{}}}",
                        self.id, WORKER.with(|w| w.get()), call, hex(name), l.join(","), m, u, hex(desc), if dead { 1 } else { 0 });
        LOG.lock().unwrap().push(e);
    }
    fn key(&self, call: u8, key: &Key, meta: &Metadata<'_>) {
        let labels = key.labels().map(|l| (l.key().to_string(), l.value().to_string())).collect();
        self.rec(call, key.name(), labels, Some(meta), None, "");
    }
}
impl Recorder for Dbl {
    fn describe_counter(&self, k: KeyName, u: Option<Unit>, d: SharedString) { self.rec(3, k.as_str(), vec![], None, u, &d) }
    fn describe_gauge(&self, k: KeyName, u: Option<Unit>, d: SharedString) { self.rec(4, k.as_str(), vec![], None, u, &d) }
    fn describe_histogram(&self, k: KeyName, u: Option<Unit>, d: SharedString) { self.rec(5, k.as_str(), vec![], None, u, &d) }
    fn register_counter(&self, k: &Key, m: &Metadata<'_>) -> Counter { self.key(0, k, m); Counter::noop() }
    fn register_gauge(&self, k: &Key, m: &Metadata<'_>) -> Gauge { self.key(1, k, m); Gauge::noop() }
    fn register_histogram(&self, k: &Key, m: &Metadata<'_>) -> Histogram { self.key(2, k, m); Histogram::noop() }
}

enum Cmd { Install(u64, &'static Dbl), Drop(u64), Forget(u64), Enter(&'static Dbl), Exit, Panic, Emit(usize, Args), Quit }
enum Flow { Exit, Quit }
struct Unwind; // panic payload of a scripted panic

type Table = RefCell<HashMap<u64, LocalRecorderGuard<'static>>>;

// The command loop of one worker.  depth = number of with_local_recorder closures this thread is inside of.
fn cmd_loop(rx: &Receiver<Cmd>, ack: &Sender<()>, table: &Table, depth: usize) -> Flow {
    loop {
        match rx.recv().unwrap() {
            Cmd::Install(g, d) => {
                let guard = metrics::set_default_local_recorder(d);
                table.borrow_mut().insert(g, guard);
                ack.send(()).unwrap();
            }
            Cmd::Drop(g) => {
                let x = table.borrow_mut().remove(&g);
                if let Some(guard) = x { drop(guard); }
                ack.send(()).unwrap();
            }
            Cmd::Forget(g) => {
                let x = table.borrow_mut().remove(&g);
                if let Some(guard) = x { std::mem::forget(guard); }
                ack.send(()).unwrap();
            }
            Cmd::Enter(d) => {
                let body = || metrics::with_local_recorder(d, || { ack.send(()).unwrap(); cmd_loop(rx, ack, table, depth + 1) });
                if depth == 0 {
                    match catch_unwind(AssertUnwindSafe(body)) {
                        Ok(Flow::Exit) => ack.send(()).unwrap(),
                        Ok(Flow::Quit) => return Flow::Quit,
                        Err(p) => { if !p.is::<Unwind>() { std::panic::resume_unwind(p); } ack.send(()).unwrap() }
                    }
                } else {
                    match body() { Flow::Exit => ack.send(()).unwrap(), Flow::Quit => return Flow::Quit }
                }
            }
            Cmd::Exit => { if depth > 0 { return Flow::Exit; } ack.send(()).unwrap(); }
            Cmd::Panic => { if depth > 0 { std::panic::panic_any(Unwind); } ack.send(()).unwrap(); }
            Cmd::Emit(site, a) => { sites::emit(site, &a); ack.send(()).unwrap(); }
            Cmd::Quit => return Flow::Quit,
        }
    }
}

fn unit_of(ix: usize) -> Unit {
    const U: [Unit; 17] = [Unit::Count, Unit::Percent, Unit::Seconds, Unit::Milliseconds, Unit::Microseconds, Unit::Nanoseconds,
        Unit::Tebibytes, Unit::Gibibytes, Unit::Mebibytes, Unit::Kibibytes, Unit::Bytes, Unit::TerabitsPerSecond,
        Unit::GigabitsPerSecond, Unit::MegabitsPerSecond, Unit::KilobitsPerSecond, Unit::BitsPerSecond, Unit::CountPerSecond];
    U[ix]
}

fn two(s: &str) -> (u64, &str) { let (a, b) = s.split_once(':').unwrap(); (a.parse().unwrap(), b) }

fn run_case(line: &str) -> String {
    let toks: Vec<&str> = line.split_whitespace().collect();
    let mut nthreads = 0u64;
    for t in &toks {
        let c = &t[..1];
        if "IDFWXPE".contains(c) {
            let rest = &t[1..];
            let tid: u64 = rest.split(':').next().unwrap().parse().unwrap();
            nthreads = nthreads.max(tid + 1);
        }
    }
    let mut doubles: HashMap<u64, &'static Dbl> = HashMap::new();
    let mut dbl = |r: u64| -> &'static Dbl { *doubles.entry(r).or_insert_with(|| Box::leak(Box::new(Dbl { id: r, live: AtomicBool::new(true) }))) };
    let (ack_tx, ack_rx) = channel::<()>();
    let mut txs: Vec<Sender<Cmd>> = Vec::new();
    let mut joins = Vec::new();
    for t in 0..nthreads {
        let (tx, rx) = channel::<Cmd>();
        let ack = ack_tx.clone();
        txs.push(tx);
        joins.push(std::thread::spawn(move || {
            WORKER.with(|w| w.set(t));
            let table: Table = RefCell::new(HashMap::new());
            let _ = cmd_loop(&rx, &ack, &table, 0);
        }));
    }
    LOG.lock().unwrap().clear();
    let mut next_gid = 0u64;
    let mut out: Vec<String> = Vec::new();
    let mut broken: Option<String> = None;
    let send = |t: u64, c: Cmd| -> Result<(), String> {
        txs[t as usize].send(c).map_err(|_| format!("worker {} gone", t))?;
        ack_rx.recv_timeout(std::time::Duration::from_secs(60)).map_err(|_| format!("worker {} did not answer", t))
    };
    for tok in &toks {
        let (c, rest) = tok.split_at(1);
        let r = match c {
            "I" => { let (t, r) = two(rest); let g = next_gid; next_gid += 1; send(t, Cmd::Install(g, dbl(r.parse().unwrap()))) }
            "W" => { let (t, r) = two(rest); next_gid += 1; send(t, Cmd::Enter(dbl(r.parse().unwrap()))) }
            "D" => { let (t, g) = two(rest); send(t, Cmd::Drop(g.parse().unwrap())) }
            "F" => { let (t, g) = two(rest); send(t, Cmd::Forget(g.parse().unwrap())) }
            "X" => send(rest.parse().unwrap(), Cmd::Exit),
            "P" => send(rest.parse().unwrap(), Cmd::Panic),
            "B" => { dbl(rest.parse().unwrap()).live.store(false, Ordering::SeqCst); Ok(()) }
            "G" => { let _ = metrics::set_global_recorder(dbl(rest.parse().unwrap())); Ok(()) }
            "E" => {
                let f: Vec<&str> = rest.split(':').collect();
                let t: u64 = f[0].parse().unwrap();
                let site: usize = f[1].parse().unwrap();
                let pairs: Vec<(String, String)> = if f[7].is_empty() { vec![] } else {
                    f[7].split(',').map(|kv| { let (k, v) = kv.split_once('=').unwrap(); (unhex(k), unhex(v)) }).collect() };
                let labels: Vec<Label> = pairs.iter().map(|(k, v)| Label::new(k.clone(), v.clone())).collect();
                let a = Args { s: [unhex(f[2]), unhex(f[3]), unhex(f[4]), unhex(f[5])], pairs, labels, unit: unit_of(f[6].parse().unwrap()) };
                LOG.lock().unwrap().clear();
                let r = send(t, Cmd::Emit(site, a));
                let got: Vec<String> = LOG.lock().unwrap().drain(..).collect();
                out.push(format!("[{}]", got.join(",")));
                r
            }
            _ => Err(format!("bad op {}", tok)),
        };
        if let Err(e) = r { broken = Some(e); break; }
    }
    for tx in &txs { let _ = tx.send(Cmd::Quit); }
    drop(txs);
    for j in joins { if j.join().is_err() && broken.is_none() { broken = Some("worker panicked".into()); } }
    match broken {
        Some(e) => format!("{{\"error\":\"{}\"}}", e.replace('"', "'")),
        None => format!("[{}]", out.join(",")),
    }
}

fn main() {
    let prev = std::panic::take_hook();
    std::panic::set_hook(Box::new(move |info| { if !info.payload().is::<Unwind>() { prev(info); } }));
    let one = std::env::args().any(|a| a == "--one");
    let stdin = std::io::stdin();
    let stdout = std::io::stdout();
    let mut w = std::io::BufWriter::new(stdout.lock());
    if one {
        let mut s = String::new();
        stdin.lock().read_to_string(&mut s).unwrap();
        writeln!(w, "{}", run_case(s.trim())).unwrap();
        return;
    }
    let exe = std::env::current_exe().unwrap();
    for line in stdin.lock().lines() {
        let line = line.unwrap();
        if line.trim().is_empty() { continue; }
        if line.split_whitespace().any(|t| t.starts_with('G')) {
            // the global recorder can be set once per process: run this program in a process of its own
            let mut ch = std::process::Command::new(&exe).arg("--one").stdin(std::process::Stdio::piped())
                .stdout(std::process::Stdio::piped()).spawn().unwrap();
            ch.stdin.take().unwrap().write_all(line.as_bytes()).unwrap();
            let o = ch.wait_with_output().unwrap();
            let s = String::from_utf8_lossy(&o.stdout);
            let s = s.trim();
            writeln!(w, "{}", if s.is_empty() { "{\"error\":\"child produced no output\"}" } else { s }).unwrap();
        } else {
            writeln!(w, "{}", run_case(&line)).unwrap();
        }
    }
}
