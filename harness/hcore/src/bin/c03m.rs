// C03 (memo race) schedule-replay driver: get_hash / clone+get_hash on one shared Key.
// stdin: `<prog>|<prog>|... ; <tid> ...`   prog = comma list of G | C
// stdout: `<t>:<site> ... ; <res>,<res>|... ; <done>`   res = 7 if the call returned the key's true hash, else the value
use metrics::{Key, Label};
use std::io::{BufRead, Write};
use std::sync::{Arc, Mutex};

// a lazily hashed key (static constructors leave `hashed` false); name/labels leaked to get 'static
fn fresh(n: usize) -> Key {
    let labels: Vec<Label> = (0..(n % 4)).map(|i| Label::new(format!("l{}", i), format!("v{}", n))).collect();
    let labels: &'static [Label] = Box::leak(labels.into_boxed_slice());
    let name: &'static str = Box::leak(format!("memo_key_{}", n).into_boxed_str());
    if n % 2 == 0 { Key::from_static_parts(name, labels) } else { Key::from_static_labels(name, labels) }
}

fn run_case(line: &str, n: usize) -> String {
    let (progs, sched) = line.split_once(';').unwrap();
    let progs: Vec<Vec<String>> = progs.trim().split('|').map(|p| p.trim().split(',').filter(|s| !s.is_empty()).map(|s| s.to_string()).collect()).collect();
    let sched: Vec<usize> = sched.split_whitespace().map(|s| s.parse().unwrap()).collect();
    // the true hash, computed on an identical but separate key (no scheduler callback installed yet on this thread)
    let expected = Key::from_parts(fresh(n).name().to_string(), fresh(n).labels().cloned().collect::<Vec<Label>>()).get_hash();
    let key = Arc::new(fresh(n));
    let results: Arc<Mutex<Vec<Vec<u64>>>> = Arc::new(Mutex::new(vec![Vec::new(); progs.len()]));
    let mut threads: Vec<Box<dyn FnOnce() + Send>> = Vec::new();
    for (tid, prog) in progs.iter().cloned().enumerate() {
        let (results, key) = (results.clone(), key.clone());
        threads.push(Box::new(move || {
            for c in prog {
                let v = if c == "G" { key.get_hash() } else { let k2: Key = (*key).clone(); k2.get_hash() };
                results.lock().unwrap()[tid].push(v);
            }
        }));
    }
    let out = sched::run(&sched, threads, 100000);
    let res = results.lock().unwrap().clone();
    let trace: Vec<String> = out.steps.iter().map(|(t, s)| format!("{}:{}", t, s)).collect();
    let rs: Vec<String> = res.iter().map(|r| r.iter().map(|v| if *v == expected { "7".to_string() } else { format!("{}", if *v == 7 { 8 } else { *v }) }).collect::<Vec<_>>().join(",")).collect();
    format!("{} ; {} ; {}", trace.join(" "), rs.join("|"), if out.all_finished { 1 } else { 0 })
}

// only this property's own yield sites take part in the schedule: instrumented code of other
// properties reached from here (e.g. Key::get_hash under a registry lock) must pass through
fn own_site(site: u32) -> bool { (301..=306).contains(&site) }

fn main() {
    sched::set_site_filter(Some(own_site));
    let stdin = std::io::stdin();
    let stdout = std::io::stdout();
    let mut w = std::io::BufWriter::new(stdout.lock());
    let mut n = 0usize;
    for line in stdin.lock().lines() {
        let line = line.unwrap();
        if line.trim().is_empty() { continue; }
        n += 1;
        writeln!(w, "{}", run_case(&line, n)).unwrap();
    }
}
