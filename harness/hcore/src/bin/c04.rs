// C04 correspondence driver: metrics/src/atomics.rs (CounterFn/GaugeFn for AtomicU64),
// handles.rs (Counter/Gauge/Histogram, clones, noop, From<Arc<T>>, impl XFn for Arc<T>, default
// record_many), common.rs (IntoF64, GaugeValue::update_value).
//
// Process structure: the binary started by the check is a SUPERVISOR; it runs the cases in a child
// process (`c04 --worker`) and watches it.  A call of the real code that does not return is reported
// as the outcome `H` (hang) for that call, the child is killed and a fresh one serves the next case.
// "Does not return" = the child has burnt HANG_CPU of CPU time since the call was handed over without
// answering (a call needs microseconds of CPU; CPU time, unlike wall time, does not grow while the
// machine is merely overloaded), or 300 s of wall time as a backstop.  HANG_CPU is 1 s for the first
// three hangs of a run and 0.05 s afterwards (override: C04_HANG_CPU_MS).  The stress / rounds modes
// have their own watchdog in the worker: no progress of ANY thread for STALL = 10 s of wall time
// (3 s once a hang has been reported in this run; override C04_STALL_MS) -> the line reports
// `hang=<unfinished threads>` / `hang_round=<r>` and the worker exits.
//
// stdin, one case per line:
//   Q <init> | <op> <op> ...      sequential calls on ONE Arc<AtomicU64> and two logging doubles
//       C<route><i|a>:<v>             counter increment / absolute
//       G<route><i|d|s>:<arg>         gauge increment / decrement / set
//       U<i|d|s>:<arg>                GaugeValue::{Increment,Decrement,Absolute}(arg).update_value(current)
//       R<1|2><route>:<arg>           histogram record on double D1 / D2
//       M<1|2><route>:<arg>:<n>       histogram record_many
//     route: t trait on the storage, a trait on Arc<T>, h handle (from_arc), c clone of the handle,
//            f handle via From<Arc<T>>, x from_arc(Arc::new(arc)), n noop handle
//     arg:   f<bits> f64 | b<z> i8 | B<z> u8 | w<z> i16 | W<z> u16 | l<z> i32 | L<z> u32
//     output tokens: c<bits> | v<bits> | h<runs> (runs: r<bits>*k or m<bits>/<n>*k, ',' separated, '-' = none) | P
//                    | H (the call did not return; nothing is printed for the calls after it)
//   F <ty> <raw...>                IntoF64 conversions: ty in i8 u8 i16 u16 i32 u32 f32 f64 dur
//     output: <bits into_f64> <bits after Gauge::set(x)> <bits the histogram double received>
//   S <kind> <init> | <route>:<reps>:<op>,<op>,... ; ...     free-running threads on shared clones
//     kind c: ops i<v> a<v>; kind g: ops i<bits> d<bits>; kind h: ops r<bits> m<bits>/<n>
//     output: final=<bits> panics=<k> samples=<n> nonmonotone=<k> delivered=<n> badvalue=<k>
//   R <a|m|g> <threads> <rounds> <start> <p>     barrier-released ROUNDS: in every round all threads are released
//     together by a spin barrier, each makes its call(s) on its own handle clone, and after a second barrier
//     thread 0 reads the storage (the per-round end values are printed; the caller judges them).
//     a: absolute only; round r, thread i publishes start + r*p + ((i + r) % T) + 1      (p = stride > T)
//     m: thread 0 makes p increments of k = 2 + r%5; thread 1 publishes absolute(s + r%2), threads i>=2
//        absolute(s - min(s, 3i + r%4)), where s = storage at the start of the round
//     g: even r: thread i makes p gauge increments (if (i+r) even) or decrements of (i + 1 + r%3);
//        odd r: thread 0 sets (r%1000 + 1) * 2^20, thread i>=1 increments by 2^i
//     output: panics=<k> samples=<n> nonmonotone=<k> ends=<v>,<v>,...
use metrics::atomics::AtomicU64;
use metrics::{Counter, CounterFn, Gauge, GaugeFn, GaugeValue, Histogram, HistogramFn, IntoF64};
use std::io::{BufRead, Write};
use std::panic::{catch_unwind, AssertUnwindSafe};
use std::sync::atomic::{AtomicBool, AtomicU64 as StdU64, Ordering::SeqCst};
use std::sync::{Arc, Barrier, Mutex};
use std::time::Duration;

#[derive(Clone, PartialEq, Debug)]
enum Ev { Rec(u64), Many(u64, u64) }

#[derive(Default)]
struct D1 { log: Mutex<Vec<Ev>> }
impl HistogramFn for D1 {
    fn record(&self, value: f64) { self.log.lock().unwrap().push(Ev::Rec(value.to_bits())); }
}
#[derive(Default)]
struct D2 { log: Mutex<Vec<Ev>> }
impl HistogramFn for D2 {
    fn record(&self, value: f64) { self.log.lock().unwrap().push(Ev::Rec(value.to_bits())); }
    fn record_many(&self, value: f64, count: usize) {
        self.log.lock().unwrap().push(Ev::Many(value.to_bits(), count as u64));
    }
}

#[derive(Clone, Copy)]
enum Arg { F64(f64), I8(i8), U8(u8), I16(i16), U16(u16), I32(i32), U32(u32) }

fn parse_arg(s: &str) -> Arg {
    let (t, r) = s.split_at(1);
    match t {
        "f" => Arg::F64(f64::from_bits(r.parse::<u64>().unwrap())),
        "b" => Arg::I8(r.parse().unwrap()),
        "B" => Arg::U8(r.parse().unwrap()),
        "w" => Arg::I16(r.parse().unwrap()),
        "W" => Arg::U16(r.parse().unwrap()),
        "l" => Arg::I32(r.parse().unwrap()),
        "L" => Arg::U32(r.parse().unwrap()),
        _ => panic!("bad arg {}", s),
    }
}

// call a generic `fn(T: IntoF64)` with the value in its own type
macro_rules! with_arg {
    ($a:expr, $v:ident => $e:expr) => {
        match $a {
            Arg::F64($v) => $e, Arg::I8($v) => $e, Arg::U8($v) => $e, Arg::I16($v) => $e,
            Arg::U16($v) => $e, Arg::I32($v) => $e, Arg::U32($v) => $e,
        }
    };
}

struct CounterSet { h: Counter, c: Counter, f: Counter, x: Counter, n: Counter }
struct GaugeSet { h: Gauge, c: Gauge, f: Gauge, x: Gauge, n: Gauge }
struct HistSet { h: Histogram, c: Histogram, f: Histogram, x: Histogram, n: Histogram }

fn counters(cell: &Arc<AtomicU64>) -> CounterSet {
    let h = Counter::from_arc(cell.clone());
    let c = h.clone();
    CounterSet { h, c, f: cell.clone().into(), x: Counter::from_arc(Arc::new(cell.clone())), n: Counter::noop().clone() }
}
fn gauges(cell: &Arc<AtomicU64>) -> GaugeSet {
    let h = Gauge::from_arc(cell.clone());
    let c = h.clone();
    GaugeSet { h, c, f: cell.clone().into(), x: Gauge::from_arc(Arc::new(cell.clone())), n: Gauge::noop().clone() }
}
fn hists<D: HistogramFn + Send + Sync + 'static>(d: &Arc<D>) -> HistSet {
    let h = Histogram::from_arc(d.clone());
    let c = h.clone();
    HistSet { h, c, f: d.clone().into(), x: Histogram::from_arc(Arc::new(d.clone())), n: Histogram::noop().clone() }
}

fn counter_op(cell: &Arc<AtomicU64>, set: &CounterSet, route: &str, abs: bool, v: u64) {
    match route {
        "t" => if abs { CounterFn::absolute(&**cell, v) } else { CounterFn::increment(&**cell, v) },
        "a" => if abs { CounterFn::absolute(cell, v) } else { CounterFn::increment(cell, v) },
        _ => {
            let h = match route { "h" => &set.h, "c" => &set.c, "f" => &set.f, "x" => &set.x, "n" => &set.n, _ => panic!("route") };
            if abs { h.absolute(v) } else { h.increment(v) }
        }
    }
}

fn gauge_op(cell: &Arc<AtomicU64>, set: &GaugeSet, route: &str, kind: &str, a: Arg) {
    match route {
        "t" => { let x = with_arg!(a, v => IntoF64::into_f64(v));
                 match kind { "i" => GaugeFn::increment(&**cell, x), "d" => GaugeFn::decrement(&**cell, x), _ => GaugeFn::set(&**cell, x) } }
        "a" => { let x = with_arg!(a, v => IntoF64::into_f64(v));
                 match kind { "i" => GaugeFn::increment(cell, x), "d" => GaugeFn::decrement(cell, x), _ => GaugeFn::set(cell, x) } }
        _ => {
            let h = match route { "h" => &set.h, "c" => &set.c, "f" => &set.f, "x" => &set.x, "n" => &set.n, _ => panic!("route") };
            match kind {
                "i" => with_arg!(a, v => h.increment(v)),
                "d" => with_arg!(a, v => h.decrement(v)),
                _ => with_arg!(a, v => h.set(v)),
            }
        }
    }
}

fn hist_op<D: HistogramFn + Send + Sync + 'static>(d: &Arc<D>, set: &HistSet, route: &str, a: Arg, many: Option<usize>) {
    match route {
        "t" => { let x = with_arg!(a, v => IntoF64::into_f64(v));
                 match many { None => HistogramFn::record(&**d, x), Some(n) => HistogramFn::record_many(&**d, x, n) } }
        "a" => { let x = with_arg!(a, v => IntoF64::into_f64(v));
                 match many { None => HistogramFn::record(d, x), Some(n) => HistogramFn::record_many(d, x, n) } }
        _ => {
            let h = match route { "h" => &set.h, "c" => &set.c, "f" => &set.f, "x" => &set.x, "n" => &set.n, _ => panic!("route") };
            match many {
                None => with_arg!(a, v => h.record(v)),
                Some(n) => with_arg!(a, v => h.record_many(v, n)),
            }
        }
    }
}

fn rle(evs: &[Ev]) -> String {
    if evs.is_empty() { return "h-".into(); }
    let mut runs: Vec<(Ev, u64)> = Vec::new();
    for e in evs {
        match runs.last_mut() {
            Some((l, k)) if l == e => *k += 1,
            _ => runs.push((e.clone(), 1)),
        }
    }
    let toks: Vec<String> = runs.iter().map(|(e, k)| match e {
        Ev::Rec(v) => format!("r{}*{}", v, k),
        Ev::Many(v, n) => format!("m{}/{}*{}", v, n, k),
    }).collect();
    format!("h{}", toks.join(","))
}

fn run_seq(line: &str, emit: &mut dyn FnMut(&str)) {
    let (head, ops) = line.split_once('|').unwrap();
    let init: u64 = head.trim().parse().unwrap();
    let cell = Arc::new(AtomicU64::new(init));
    let cs = counters(&cell);
    let gs = gauges(&cell);
    let d1 = Arc::new(D1::default());
    let d2 = Arc::new(D2::default());
    let h1 = hists(&d1);
    let h2 = hists(&d2);
    for tok in ops.split_whitespace() {
        let (k, rest) = tok.split_at(1);
        let r = catch_unwind(AssertUnwindSafe(|| -> String {
            match k {
                "C" => {
                    let (route, rest) = rest.split_at(1);
                    let (kind, v) = rest.split_once(':').unwrap();
                    counter_op(&cell, &cs, route, kind == "a", v.parse().unwrap());
                    format!("c{}", cell.load(SeqCst))
                }
                "G" => {
                    let (route, rest) = rest.split_at(1);
                    let (kind, a) = rest.split_once(':').unwrap();
                    gauge_op(&cell, &gs, route, kind, parse_arg(a));
                    format!("c{}", cell.load(SeqCst))
                }
                "U" => {
                    let (kind, a) = rest.split_once(':').unwrap();
                    let x = with_arg!(parse_arg(a), v => IntoF64::into_f64(v));
                    let gv = match kind { "i" => GaugeValue::Increment(x), "d" => GaugeValue::Decrement(x), _ => GaugeValue::Absolute(x) };
                    format!("v{}", gv.update_value(f64::from_bits(cell.load(SeqCst))).to_bits())
                }
                "R" | "M" => {
                    let (d, rest) = rest.split_at(1);
                    let (route, rest) = rest.split_at(1);
                    let rest = rest.strip_prefix(':').unwrap();
                    let (a, many) = if k == "M" { let (a, n) = rest.split_once(':').unwrap(); (a, Some(n.parse::<usize>().unwrap())) } else { (rest, None) };
                    if d == "1" {
                        hist_op(&d1, &h1, route, parse_arg(a), many);
                        rle(&std::mem::take(&mut *d1.log.lock().unwrap()))
                    } else {
                        hist_op(&d2, &h2, route, parse_arg(a), many);
                        rle(&std::mem::take(&mut *d2.log.lock().unwrap()))
                    }
                }
                _ => panic!("bad op {}", tok),
            }
        }));
        emit(&match r { Ok(s) => s, Err(_) => "P".into() });
    }
}

fn conv_out<T: IntoF64 + Copy>(v: T) -> String {
    let a = v.into_f64().to_bits();
    let cell = Arc::new(AtomicU64::new(0x1234));
    Gauge::from_arc(cell.clone()).clone().set(v);
    let d1 = Arc::new(D1::default());
    Histogram::from_arc(d1.clone()).record(v);
    let got = match d1.log.lock().unwrap().as_slice() { [Ev::Rec(b)] => *b, _ => u64::MAX - 1 };
    let via_macro_helper = metrics::__into_f64(v).to_bits();
    if via_macro_helper != a { return "mismatch-__into_f64".into(); }
    format!("{} {} {}", a, cell.load(SeqCst), got)
}

fn run_conv(line: &str) -> String {
    let mut it = line.split_whitespace();
    let ty = it.next().unwrap();
    let raw = it.next().unwrap();
    match ty {
        "i8" => conv_out(raw.parse::<i8>().unwrap()),
        "u8" => conv_out(raw.parse::<u8>().unwrap()),
        "i16" => conv_out(raw.parse::<i16>().unwrap()),
        "u16" => conv_out(raw.parse::<u16>().unwrap()),
        "i32" => conv_out(raw.parse::<i32>().unwrap()),
        "u32" => conv_out(raw.parse::<u32>().unwrap()),
        "f32" => conv_out(f32::from_bits(raw.parse::<u32>().unwrap())),
        "f64" => conv_out(f64::from_bits(raw.parse::<u64>().unwrap())),
        "dur" => { let n: u32 = it.next().unwrap().parse().unwrap(); conv_out(Duration::new(raw.parse().unwrap(), n)) }
        _ => panic!("bad type"),
    }
}

// counting histogram double for the stress runs
struct DC { delivered: StdU64, bad: StdU64, expect: u64 }
impl HistogramFn for DC {
    fn record(&self, value: f64) {
        if value.to_bits() != self.expect { self.bad.fetch_add(1, SeqCst); }
        self.delivered.fetch_add(1, SeqCst);
    }
}

fn run_stress(line: &str) -> String {
    let (head, specs) = line.split_once('|').unwrap();
    let mut hs = head.split_whitespace();
    let kind = hs.next().unwrap().to_string();
    let init: u64 = hs.next().unwrap().parse().unwrap();
    let cell = Arc::new(AtomicU64::new(init));
    let dc = Arc::new(DC { delivered: StdU64::new(0), bad: StdU64::new(0), expect: init });
    let specs: Vec<&str> = specs.split(';').map(|s| s.trim()).filter(|s| !s.is_empty()).collect();
    let barrier = Arc::new(Barrier::new(specs.len() + 1));
    let stop = Arc::new(AtomicBool::new(false));
    let panics = Arc::new(StdU64::new(0));
    let ch = Counter::from_arc(cell.clone());
    let gh = Gauge::from_arc(cell.clone());
    let hh = Histogram::from_arc(dc.clone());
    let mut joins = Vec::new();
    let mut progress: Vec<Arc<StdU64>> = Vec::new();      // per thread: completed repetitions; u64::MAX = finished
    for spec in specs {
        let prog = Arc::new(StdU64::new(0));
        progress.push(prog.clone());
        let mut p = spec.splitn(3, ':');
        let route = p.next().unwrap().to_string();
        let reps: u64 = p.next().unwrap().parse().unwrap();
        let ops: Vec<(char, u64, u64)> = p.next().unwrap().split(',').map(|o| {
            let (k, r) = o.split_at(1);
            match r.split_once('/') {
                Some((v, n)) => (k.chars().next().unwrap(), v.parse().unwrap(), n.parse().unwrap()),
                None => (k.chars().next().unwrap(), r.parse().unwrap(), 0),
            }
        }).collect();
        let cell = cell.clone();
        let dc = dc.clone();
        // every thread owns a handle obtained the way its route says (all share the one storage)
        let c: Counter = match route.as_str() { "c" => ch.clone(), "f" => cell.clone().into(), "x" => Counter::from_arc(Arc::new(cell.clone())), "n" => Counter::noop(), _ => Counter::from_arc(cell.clone()) };
        let g: Gauge = match route.as_str() { "c" => gh.clone(), "f" => cell.clone().into(), "x" => Gauge::from_arc(Arc::new(cell.clone())), "n" => Gauge::noop(), _ => Gauge::from_arc(cell.clone()) };
        let h: Histogram = match route.as_str() { "c" => hh.clone(), "f" => dc.clone().into(), "x" => Histogram::from_arc(Arc::new(dc.clone())), "n" => Histogram::noop(), _ => Histogram::from_arc(dc.clone()) };
        let barrier = barrier.clone();
        let panics = panics.clone();
        let kind = kind.clone();
        joins.push(std::thread::spawn(move || {
            barrier.wait();
            let r = catch_unwind(AssertUnwindSafe(|| {
                for rep in 0..reps {
                    prog.store(rep, SeqCst);
                    for &(k, v, n) in &ops {
                        match (kind.as_str(), route.as_str(), k) {
                            ("c", "t", 'i') => CounterFn::increment(&*cell, v),
                            ("c", "t", 'a') => CounterFn::absolute(&*cell, v),
                            ("c", "a", 'i') => CounterFn::increment(&cell, v),
                            ("c", "a", 'a') => CounterFn::absolute(&cell, v),
                            ("c", _, 'i') => c.increment(v),
                            ("c", _, 'a') => c.absolute(v),
                            ("g", "t", 'i') => GaugeFn::increment(&*cell, f64::from_bits(v)),
                            ("g", "t", 'd') => GaugeFn::decrement(&*cell, f64::from_bits(v)),
                            ("g", "a", 'i') => GaugeFn::increment(&cell, f64::from_bits(v)),
                            ("g", "a", 'd') => GaugeFn::decrement(&cell, f64::from_bits(v)),
                            ("g", _, 'i') => g.increment(f64::from_bits(v)),
                            ("g", _, 'd') => g.decrement(f64::from_bits(v)),
                            ("h", "t", 'r') => HistogramFn::record(&*dc, f64::from_bits(v)),
                            ("h", "t", 'm') => HistogramFn::record_many(&*dc, f64::from_bits(v), n as usize),
                            ("h", "a", 'r') => HistogramFn::record(&dc, f64::from_bits(v)),
                            ("h", "a", 'm') => HistogramFn::record_many(&dc, f64::from_bits(v), n as usize),
                            ("h", _, 'r') => h.record(f64::from_bits(v)),
                            ("h", _, 'm') => h.record_many(f64::from_bits(v), n as usize),
                            _ => panic!("bad stress op"),
                        }
                    }
                }
            }));
            if r.is_err() { panics.fetch_add(1, SeqCst); }
            prog.store(u64::MAX, SeqCst);
        }));
    }
    // observer: samples the cell while the workers run (monotonicity is judged by the caller)
    let obs = { let cell = cell.clone(); let stop = stop.clone(); let barrier = barrier.clone();
        std::thread::spawn(move || {
            barrier.wait();
            let (mut last, mut n, mut bad) = (cell.load(SeqCst), 0u64, 0u64);
            while !stop.load(SeqCst) {
                let v = cell.load(SeqCst);
                if v < last { bad += 1; }
                last = v; n += 1;
            }
            (n, bad)
        }) };
    // watchdog: some call does not return if no thread makes progress for STALL although not all have finished
    let stuck = wait_progress(&|| progress.iter().map(|p| p.load(SeqCst)).collect(), &|v| v.iter().all(|&x| x == u64::MAX));
    if let Some(last) = stuck {
        let unfinished = last.iter().filter(|&&x| x != u64::MAX).count();
        println!("x final={} panics={} samples=0 nonmonotone=0 delivered={} badvalue={} hang={}",
                 cell.load(SeqCst), panics.load(SeqCst), dc.delivered.load(SeqCst), dc.bad.load(SeqCst), unfinished);
        std::io::stdout().flush().unwrap();
        std::process::exit(0);          // the stuck threads cannot be joined; the supervisor starts a fresh worker
    }
    for j in joins { let _ = j.join(); }
    stop.store(true, SeqCst);
    let (samples, nonmono) = obs.join().unwrap();
    format!("final={} panics={} samples={} nonmonotone={} delivered={} badvalue={} hang=0",
            cell.load(SeqCst), panics.load(SeqCst), samples, nonmono, dc.delivered.load(SeqCst), dc.bad.load(SeqCst))
}

fn stall_limit() -> Duration {
    Duration::from_millis(std::env::var("C04_STALL_MS").ok().and_then(|s| s.parse().ok()).unwrap_or(10000))
}

// poll `snap` until `done(snapshot)`; None = done, Some(last snapshot) = no change for STALL
fn wait_progress(snap: &dyn Fn() -> Vec<u64>, done: &dyn Fn(&[u64]) -> bool) -> Option<Vec<u64>> {
    let mut last = snap();
    let mut since = std::time::Instant::now();
    loop {
        if done(&last) { return None; }
        std::thread::sleep(Duration::from_millis(2));
        let now = snap();
        if now != last { last = now; since = std::time::Instant::now(); }
        else if since.elapsed() > stall_limit() { return Some(last); }
    }
}

// monotonic spin barrier (yields when the machine is oversubscribed)
fn sync(arrived: &std::sync::atomic::AtomicUsize, phase: &mut usize, n: usize) {
    *phase += 1;
    let target = *phase * n;
    arrived.fetch_add(1, SeqCst);
    let mut spins = 0u32;
    while arrived.load(SeqCst) < target {
        spins += 1;
        if spins > 20000 { std::thread::yield_now(); } else { std::hint::spin_loop(); }
    }
}

fn run_rounds(line: &str) -> String {
    let mut it = line.split_whitespace();
    let kind = it.next().unwrap().to_string();
    let nt: usize = it.next().unwrap().parse().unwrap();
    let rounds: u64 = it.next().unwrap().parse().unwrap();
    let start: u64 = it.next().unwrap().parse().unwrap();
    let p: u64 = it.next().unwrap().parse().unwrap();
    let init = if kind == "g" { (start as f64).to_bits() } else { start };
    let cell = Arc::new(AtomicU64::new(init));
    let cur = Arc::new(StdU64::new(init));           // storage at the start of the round (published by thread 0)
    let arrived = Arc::new(std::sync::atomic::AtomicUsize::new(0));
    let panics = Arc::new(StdU64::new(0));
    let ends: Arc<Mutex<Vec<u64>>> = Arc::new(Mutex::new(Vec::with_capacity(rounds as usize)));
    let stop = Arc::new(AtomicBool::new(false));
    let ch = Counter::from_arc(cell.clone());
    let gh = Gauge::from_arc(cell.clone());
    let obs = { let cell = cell.clone(); let stop = stop.clone();
        std::thread::spawn(move || {
            let (mut last, mut n, mut bad) = (cell.load(SeqCst), 0u64, 0u64);
            while !stop.load(SeqCst) {
                let v = cell.load(SeqCst);
                if v < last { bad += 1; }
                last = v; n += 1;
            }
            (n, bad)
        }) };
    let mut joins = Vec::new();
    let round_done = Arc::new(StdU64::new(0));
    let finished = Arc::new(StdU64::new(0));
    for idx in 0..nt {
        let (round_done, finished) = (round_done.clone(), finished.clone());
        // handles obtained in different ways, all on the one storage
        let c: Counter = match idx % 4 { 0 => ch.clone(), 1 => Counter::from_arc(cell.clone()), 2 => cell.clone().into(), _ => Counter::from_arc(Arc::new(cell.clone())) };
        let g: Gauge = match idx % 4 { 0 => gh.clone(), 1 => Gauge::from_arc(cell.clone()), 2 => cell.clone().into(), _ => Gauge::from_arc(Arc::new(cell.clone())) };
        let (cell, cur, arrived, panics, ends, kind) = (cell.clone(), cur.clone(), arrived.clone(), panics.clone(), ends.clone(), kind.clone());
        joins.push(std::thread::spawn(move || {
            let mut phase = 0usize;
            let i = idx as u64;
            for r in 1..=rounds {
                let s = cur.load(SeqCst);
                sync(&arrived, &mut phase, nt);
                let res = catch_unwind(AssertUnwindSafe(|| {
                    match kind.as_str() {
                        "a" => c.absolute(start + r * p + ((i + r) % nt as u64) + 1),
                        "m" => {
                            if idx == 0 { for _ in 0..p { c.increment(2 + r % 5); } }
                            else if idx == 1 { c.absolute(s + r % 2) }
                            else { c.absolute(s - s.min(3 * i + r % 4)) }
                        }
                        _ => {
                            if r % 2 == 0 {
                                let v = (i + 1 + r % 3) as f64;
                                for _ in 0..p { if (i + r) % 2 == 0 { g.increment(v) } else { g.decrement(v) } }
                            } else if idx == 0 { g.set(((r % 1000 + 1) << 20) as f64) }
                            else { g.increment((1u64 << i) as f64) }
                        }
                    }
                }));
                if res.is_err() { panics.fetch_add(1, SeqCst); }
                sync(&arrived, &mut phase, nt);
                if idx == 0 {
                    let v = cell.load(SeqCst);
                    ends.lock().unwrap().push(v);
                    cur.store(v, SeqCst);
                    round_done.store(r, SeqCst);
                }
                sync(&arrived, &mut phase, nt);
            }
            finished.fetch_add(1, SeqCst);
        }));
    }
    let stuck = wait_progress(&|| vec![round_done.load(SeqCst), finished.load(SeqCst)], &|v| v[1] == nt as u64);
    if let Some(last) = stuck {
        let ends: Vec<String> = ends.lock().unwrap().iter().map(|v| v.to_string()).collect();
        println!("x panics={} samples=0 nonmonotone=0 hang_round={} ends={}", panics.load(SeqCst), last[0] + 1, ends.join(","));
        std::io::stdout().flush().unwrap();
        std::process::exit(0);
    }
    for j in joins { let _ = j.join(); }
    stop.store(true, SeqCst);
    let (samples, nonmono) = obs.join().unwrap();
    let ends: Vec<String> = ends.lock().unwrap().iter().map(|v| v.to_string()).collect();
    format!("panics={} samples={} nonmonotone={} hang_round=0 ends={}", panics.load(SeqCst), samples, nonmono, ends.join(","))
}

// ------------------------------------------------------------------ worker process
// messages to the supervisor: `t <token>` one per call of a Q case, `e` end of the Q case, `l <line>` whole answer,
// `x <line>` whole answer of a stress run in which a thread is stuck (the worker exits after it)
fn worker_main() {
    std::panic::set_hook(Box::new(|_| {}));
    let stdin = std::io::stdin();
    for line in stdin.lock().lines() {
        let line = line.unwrap();
        if line.trim().is_empty() { continue; }
        let (mode, rest) = line.split_at(1);
        match mode {
            "Q" => {
                run_seq(rest, &mut |t| { println!("t {}", t); std::io::stdout().flush().unwrap(); });
                println!("e");
            }
            "F" => println!("l {}", run_conv(rest)),
            "S" => println!("l {}", run_stress(rest)),
            "R" => println!("l {}", run_rounds(rest)),
            _ => panic!("bad line"),
        }
        std::io::stdout().flush().unwrap();
    }
}

// ------------------------------------------------------------------ supervisor
struct Worker { proc: std::process::Child, stdin: std::process::ChildStdin, rx: std::sync::mpsc::Receiver<String> }

fn spawn_worker(after_hang: bool) -> Worker {
    let mut cmd = std::process::Command::new(std::env::current_exe().unwrap());
    if after_hang && std::env::var("C04_STALL_MS").is_err() { cmd.env("C04_STALL_MS", "3000"); }
    let mut proc = cmd.arg("--worker")
        .stdin(std::process::Stdio::piped()).stdout(std::process::Stdio::piped()).spawn().unwrap();
    let stdin = proc.stdin.take().unwrap();
    let stdout = proc.stdout.take().unwrap();
    let (tx, rx) = std::sync::mpsc::channel();
    std::thread::spawn(move || {
        for l in std::io::BufReader::new(stdout).lines() {
            match l { Ok(l) => { if tx.send(l).is_err() { break; } } Err(_) => break }
        }
    });
    Worker { proc, stdin, rx }
}

// CPU time (user + system) of a process in clock ticks (USER_HZ = 100 per second)
fn cpu_ticks(pid: u32) -> u64 {
    let st = std::fs::read_to_string(format!("/proc/{}/stat", pid)).unwrap_or_default();
    let after = match st.rfind(')') { Some(i) => &st[i + 1..], None => return 0 };
    let f: Vec<&str> = after.split_whitespace().collect();        // f[0] = state (field 3); utime = field 14, stime = 15
    f.get(11).and_then(|x| x.parse::<u64>().ok()).unwrap_or(0) + f.get(12).and_then(|x| x.parse::<u64>().ok()).unwrap_or(0)
}

enum Msg { Line(String), Hang, Died }

// wait for the worker's next message; cpu_limit = None: only the wall-clock backstop applies
fn next_msg(w: &Worker, cpu_limit: Option<u64>, wall: Duration) -> Msg {
    let pid = w.proc.id();
    let c0 = cpu_ticks(pid);
    let t0 = std::time::Instant::now();
    loop {
        match w.rx.recv_timeout(Duration::from_millis(10)) {
            Ok(l) => return Msg::Line(l),
            Err(std::sync::mpsc::RecvTimeoutError::Disconnected) => return Msg::Died,
            Err(std::sync::mpsc::RecvTimeoutError::Timeout) => {
                if let Some(lim) = cpu_limit { if cpu_ticks(pid).saturating_sub(c0) >= lim { return Msg::Hang; } }
                if t0.elapsed() > wall { return Msg::Hang; }
            }
        }
    }
}

fn supervisor_main() {
    let stdin = std::io::stdin();
    let stdout = std::io::stdout();
    let mut out = std::io::BufWriter::new(stdout.lock());
    let fixed: Option<u64> = std::env::var("C04_HANG_CPU_MS").ok().and_then(|s| s.parse::<u64>().ok()).map(|ms| (ms / 10).max(1));
    let mut hangs = 0u32;
    let mut worker: Option<Worker> = None;
    let retire = |w: &mut Option<Worker>| { if let Some(mut x) = w.take() { let _ = x.proc.kill(); let _ = x.proc.wait(); } };
    for line in stdin.lock().lines() {
        let line = line.unwrap();
        if line.trim().is_empty() { continue; }
        if worker.is_none() { worker = Some(spawn_worker(hangs > 0)); }
        let sent = { let w = worker.as_mut().unwrap(); writeln!(w.stdin, "{}", line).and_then(|_| w.stdin.flush()).is_ok() };
        if !sent {                                  // the previous worker exited after reporting a stuck stress run
            retire(&mut worker);
            worker = Some(spawn_worker(hangs > 0));
            let w = worker.as_mut().unwrap();
            writeln!(w.stdin, "{}", line).unwrap(); w.stdin.flush().unwrap();
        }
        let cpu_limit = fixed.unwrap_or(if hangs < 3 { 100 } else { 5 });
        let mode = &line[..1];
        let answer = if mode == "Q" {
            let mut toks: Vec<String> = Vec::new();
            loop {
                match next_msg(worker.as_ref().unwrap(), Some(cpu_limit), Duration::from_secs(300)) {
                    Msg::Line(l) => { if l == "e" { break; } toks.push(l[2..].to_string()); }
                    Msg::Hang => { toks.push("H".into()); hangs += 1; retire(&mut worker); break; }
                    Msg::Died => { toks.push("P".into()); retire(&mut worker); break; }      // the process died in the call (abort)
                }
            }
            if toks.is_empty() { "-".to_string() } else { toks.join(" ") }
        } else {
            let (cpu, wall) = if mode == "F" { (Some(cpu_limit), 300) } else { (None, 900) };
            match next_msg(worker.as_ref().unwrap(), cpu, Duration::from_secs(wall)) {
                Msg::Line(l) => { if l.starts_with("x ") { hangs += 1; retire(&mut worker); } l[2..].to_string() }   // `x`: answered and exiting
                Msg::Hang => { hangs += 1; retire(&mut worker); "hang=1 hang_round=1 H".to_string() }
                Msg::Died => { retire(&mut worker); "died=1 P".to_string() }
            }
        };
        writeln!(out, "{}", answer).unwrap();
    }
    out.flush().unwrap();
    retire(&mut worker);
}

fn main() {
    if std::env::args().nth(1).as_deref() == Some("--worker") { worker_main() } else { supervisor_main() }
}
