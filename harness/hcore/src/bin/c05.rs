// C05 schedule-replay driver for AtomicBucket (metrics-util/src/storage/bucket.rs).
// stdin: one case per line:  `<prog>|<prog>|... ; <tid> <tid> ...`
//        prog = comma list of  P<v> (push v) | D (data_with) | C (clear_with) | E (is_empty)
// stdout: `<t>:<site> ... ; <res>,<res>|... ; <done 0/1> ; <final slices> ; <anomalies>`
//        res = P | D[slice][slice].. | C[slice][slice].. | E0 | E1 ; slice = <tid>.<call>.<v>+...
//        final = [slice][slice]..  what a single-threaded data_with shows after everybody finished
// Every pushed value carries its identity (thread, index of the call in the thread's program) and a
// drop counter; anomalies = torn values, values seen after their destructor ran, double drops,
// and disagreements of the sequential epilogue (data_with / clear_with / is_empty).
use metrics_util::storage::AtomicBucket;
use std::collections::HashMap;
use std::io::{BufRead, Write};
use std::sync::atomic::{AtomicU64, Ordering::SeqCst};
use std::sync::{Arc, Mutex};

static DROPS: Mutex<Option<HashMap<u64, u64>>> = Mutex::new(None);
static ANOM: AtomicU64 = AtomicU64::new(0);

struct Val {
    tid: u64,
    k: u64,
    v: u64,
    guard: [u64; 3],
    id: u64,
}
impl Val {
    fn new(base: u64, tid: u64, k: u64, v: u64) -> Val {
        let id = base + tid * 1000 + k;
        Val { tid, k, v, guard: [v ^ 0x5a5a, tid ^ 0xa5a5, k ^ 0x3c3c], id }
    }
}
impl Drop for Val {
    fn drop(&mut self) {
        let mut g = DROPS.lock().unwrap();
        let e = g.get_or_insert_with(HashMap::new).entry(self.id).or_insert(0);
        *e += 1;
        if *e > 1 {
            ANOM.fetch_add(1, SeqCst);
        }
    }
}
fn dropped(id: u64) -> bool {
    DROPS.lock().unwrap().as_ref().and_then(|m| m.get(&id).copied()).unwrap_or(0) != 0
}

fn show_slice(base: u64, xs: &[Val]) -> String {
    let mut parts = Vec::new();
    for x in xs {
        let whole = x.guard == [x.v ^ 0x5a5a, x.tid ^ 0xa5a5, x.k ^ 0x3c3c] && x.id == base + x.tid * 1000 + x.k;
        if !whole || dropped(x.id) {
            ANOM.fetch_add(1, SeqCst);
        }
        parts.push(format!("{}.{}.{}", x.tid, x.k, x.v));
    }
    format!("[{}]", parts.join("+"))
}

fn run_case(line: &str, base: u64) -> String {
    let (progs, sched) = line.split_once(';').unwrap();
    let progs: Vec<Vec<String>> = progs
        .trim()
        .split('|')
        .map(|p| p.trim().split(',').filter(|s| !s.is_empty()).map(|s| s.to_string()).collect())
        .collect();
    let sched: Vec<usize> = sched.split_whitespace().map(|s| s.parse().unwrap()).collect();
    let before = ANOM.load(SeqCst);
    let bucket: Arc<AtomicBucket<Val>> = Arc::new(AtomicBucket::new());
    let results: Arc<Mutex<Vec<Vec<String>>>> = Arc::new(Mutex::new(vec![Vec::new(); progs.len()]));
    let mut threads: Vec<Box<dyn FnOnce() + Send>> = Vec::new();
    for (tid, prog) in progs.iter().cloned().enumerate() {
        let results = results.clone();
        let bucket = bucket.clone();
        threads.push(Box::new(move || {
            for (k, c) in prog.iter().enumerate() {
                let tok = if let Some(v) = c.strip_prefix('P') {
                    let v: u64 = v.parse().unwrap();
                    bucket.push(Val::new(base, tid as u64, k as u64, v));
                    "P".to_string()
                } else if c == "D" {
                    let mut s = String::from("D");
                    bucket.data_with(|xs| s.push_str(&show_slice(base, xs)));
                    s
                } else if c == "C" {
                    let mut s = String::from("C");
                    bucket.clear_with(|xs| s.push_str(&show_slice(base, xs)));
                    s
                } else {
                    format!("E{}", if bucket.is_empty() { 1 } else { 0 })
                };
                results.lock().unwrap()[tid].push(tok);
            }
        }));
    }
    let out = sched::run(&sched, threads, 100000);
    // sequential epilogue (this thread is not registered with the scheduler: yield points are no-ops)
    let mut fin = String::new();
    bucket.data_with(|xs| fin.push_str(&show_slice(base, xs)));
    let empty_before = bucket.is_empty();
    let mut fin2 = String::new();
    bucket.clear_with(|xs| fin2.push_str(&show_slice(base, xs)));
    if fin != fin2 || !bucket.is_empty() || empty_before != !fin.contains('.') {
        ANOM.fetch_add(1, SeqCst);
    }
    // drive epoch reclamation (every pin is a chance to collect): exercises Block::drop
    for _ in 0..400 {
        let _ = bucket.is_empty();
    }
    let res = results.lock().unwrap().clone();
    let trace: Vec<String> = out.steps.iter().map(|(t, s)| format!("{}:{}", t, s)).collect();
    let rs: Vec<String> = res.iter().map(|r| r.join(",")).collect();
    format!(
        "{} ; {} ; {} ; {} ; {}",
        trace.join(" "),
        rs.join("|"),
        if out.all_finished { 1 } else { 0 },
        fin,
        ANOM.load(SeqCst) - before
    )
}

fn main() {
    let stdin = std::io::stdin();
    let stdout = std::io::stdout();
    let mut w = std::io::BufWriter::new(stdout.lock());
    let mut base = 1u64 << 20;
    for line in stdin.lock().lines() {
        let line = line.unwrap();
        if line.trim().is_empty() {
            continue;
        }
        let l2 = line.clone();
        let r = std::panic::catch_unwind(move || run_case(&l2, base));
        match r {
            Ok(s) => writeln!(w, "{}", s).unwrap(),
            Err(_) => writeln!(w, " ;  ; 0 ;  ; 999").unwrap(),
        }
        base += 1 << 20;
    }
}
