// C05 schedule-replay driver for AtomicBucket (metrics-util/src/storage/bucket.rs).
// stdin: one case per line:  `<prog>|<prog>|... ; <tid> <tid> ...`
//        prog = comma list of  P<v> (push v) | D (data_with) | C (clear_with) | E (is_empty)
// stdout: `<t>:<site> ... ; <res>,<res>|... ; <done 0/1> ; <final slices> ; <anomalies>`
//        res = P | D[slice][slice].. | C[slice][slice].. | E0 | E1 ; slice = <tid>.<call>.<v>+...
//        final = [slice][slice]..  what a single-threaded data_with shows after everybody finished
// Every pushed value carries its identity (thread, index of the call in the thread's program) and a
// drop counter; anomalies = torn values, values seen after their destructor ran, double drops,
// and disagreements of the sequential epilogue (data_with / clear_with / is_empty).
use metrics_util::storage::AtomicBucket;
use std::cell::Cell;
use std::collections::HashMap;
use std::io::{BufRead, Write};
use std::sync::atomic::{AtomicU64, Ordering::SeqCst};
use std::sync::{Arc, Mutex};

static DROPS: Mutex<Option<HashMap<u64, u64>>> = Mutex::new(None);
static ANOM: AtomicU64 = AtomicU64::new(0);

struct Val {
    tid: u64,
    k: u64,
    v: u64,
    guard: [u64; 3],
    id: u64,
}
impl Val {
    fn new(base: u64, tid: u64, k: u64, v: u64) -> Val {
        let id = base + tid * 1000 + k;
        Val { tid, k, v, guard: [v ^ 0x5a5a, tid ^ 0xa5a5, k ^ 0x3c3c], id }
    }
}
impl Drop for Val {
    fn drop(&mut self) {
        let mut g = DROPS.lock().unwrap();
        let e = g.get_or_insert_with(HashMap::new).entry(self.id).or_insert(0);
        *e += 1;
        if *e > 1 {
            ANOM.fetch_add(1, SeqCst);
        }
    }
}
fn dropped(id: u64) -> bool {
    DROPS.lock().unwrap().as_ref().and_then(|m| m.get(&id).copied()).unwrap_or(0) != 0
}

fn show_slice(base: u64, xs: &[Val]) -> String {
    let mut parts = Vec::new();
    for x in xs {
        let whole = x.guard == [x.v ^ 0x5a5a, x.tid ^ 0xa5a5, x.k ^ 0x3c3c] && x.id == base + x.tid * 1000 + x.k;
        if !whole || dropped(x.id) {
            ANOM.fetch_add(1, SeqCst);
        }
        parts.push(format!("{}.{}.{}", x.tid, x.k, x.v));
    }
    format!("[{}]", parts.join("+"))
}

fn run_case(line: &str, base: u64) -> String {
    let (progs, sched) = line.split_once(';').unwrap();
    let progs: Vec<Vec<String>> = progs
        .trim()
        .split('|')
        .map(|p| p.trim().split(',').filter(|s| !s.is_empty()).map(|s| s.to_string()).collect())
        .collect();
    let sched: Vec<usize> = sched.split_whitespace().map(|s| s.parse().unwrap()).collect();
    let before = ANOM.load(SeqCst);
    let bucket: Arc<AtomicBucket<Val>> = Arc::new(AtomicBucket::new());
    let results: Arc<Mutex<Vec<Vec<String>>>> = Arc::new(Mutex::new(vec![Vec::new(); progs.len()]));
    let mut threads: Vec<Box<dyn FnOnce() + Send>> = Vec::new();
    for (tid, prog) in progs.iter().cloned().enumerate() {
        let results = results.clone();
        let bucket = bucket.clone();
        threads.push(Box::new(move || {
            for (k, c) in prog.iter().enumerate() {
                let tok = if let Some(v) = c.strip_prefix('P') {
                    let v: u64 = v.parse().unwrap();
                    bucket.push(Val::new(base, tid as u64, k as u64, v));
                    "P".to_string()
                } else if c == "D" {
                    let mut s = String::from("D");
                    bucket.data_with(|xs| s.push_str(&show_slice(base, xs)));
                    s
                } else if c == "C" {
                    let mut s = String::from("C");
                    bucket.clear_with(|xs| s.push_str(&show_slice(base, xs)));
                    s
                } else {
                    format!("E{}", if bucket.is_empty() { 1 } else { 0 })
                };
                results.lock().unwrap()[tid].push(tok);
            }
        }));
    }
    let out = sched::run(&sched, threads, 100000);
    // sequential epilogue (this thread is not registered with the scheduler: yield points are no-ops)
    let mut fin = String::new();
    bucket.data_with(|xs| fin.push_str(&show_slice(base, xs)));
    let empty_before = bucket.is_empty();
    let mut fin2 = String::new();
    bucket.clear_with(|xs| fin2.push_str(&show_slice(base, xs)));
    if fin != fin2 || !bucket.is_empty() || empty_before != !fin.contains('.') {
        ANOM.fetch_add(1, SeqCst);
    }
    // drive epoch reclamation (every pin is a chance to collect): exercises Block::drop
    for _ in 0..400 {
        let _ = bucket.is_empty();
    }
    let res = results.lock().unwrap().clone();
    let trace: Vec<String> = out.steps.iter().map(|(t, s)| format!("{}:{}", t, s)).collect();
    let rs: Vec<String> = res.iter().map(|r| r.join(",")).collect();
    format!(
        "{} ; {} ; {} ; {} ; {}",
        trace.join(" "),
        rs.join("|"),
        if out.all_finished { 1 } else { 0 },
        fin,
        ANOM.load(SeqCst) - before
    )
}

// ------------------------------------------------------------------- HistogramFn entry points
// `H <prog> ; <sched>`: ONE thread drives an AtomicBucket<f64> through its HistogramFn entry points
// (metrics-util/src/storage/mod.rs), alternately via a `metrics::Histogram::from_arc` handle and via the
// trait on the bucket itself: R<v> = record(v), M<v>x<n> = record_many(v, n), D / C / E as above.
// The model runs record_many(v, n) as n consecutive push calls (call indices k, k+1, ..). An f64 has no
// room for a per-copy identity, so every copy carries (k of the first copy, v) and the identity of a
// delivered copy is recovered from its position among the copies of the same call within one read
// (oldest block first, slot order = push order). Output format as for the other cases.
fn h_show(slices: &[Vec<f64>]) -> String {
    let mut ids: Vec<Vec<String>> = slices.iter().map(|s| vec![String::new(); s.len()]).collect();
    let mut seen: HashMap<u64, u64> = HashMap::new();
    for si in (0..slices.len()).rev() {
        for (ei, x) in slices[si].iter().enumerate() {
            let raw = *x as u64;
            if (raw as f64) != *x {
                ANOM.fetch_add(1, SeqCst);
            }
            let (kbase, v) = (raw / 16, raw % 16);
            let c = seen.entry(kbase).or_insert(0);
            ids[si][ei] = format!("0.{}.{}", kbase + *c, v);
            *c += 1;
        }
    }
    ids.iter().map(|s| format!("[{}]", s.join("+"))).collect::<Vec<_>>().join("")
}

fn run_hist_case(line: &str) -> String {
    use metrics::HistogramFn;
    let (prog, sched) = line[2..].split_once(';').unwrap();
    let prog: Vec<String> = prog.trim().split(',').filter(|s| !s.is_empty()).map(|s| s.to_string()).collect();
    let sched: Vec<usize> = sched.split_whitespace().map(|s| s.parse().unwrap()).collect();
    let before = ANOM.load(SeqCst);
    let bucket: Arc<AtomicBucket<f64>> = Arc::new(AtomicBucket::new());
    let handle = metrics::Histogram::from_arc(bucket.clone());
    let results: Arc<Mutex<Vec<String>>> = Arc::new(Mutex::new(Vec::new()));
    let (b2, r2) = (bucket.clone(), results.clone());
    let body: Box<dyn FnOnce() + Send> = Box::new(move || {
        let mut k: u64 = 0; // call index in the expanded program
        for (j, c) in prog.iter().enumerate() {
            let via_handle = j % 2 == 0;
            let mut toks: Vec<String> = Vec::new();
            if let Some(v) = c.strip_prefix('R') {
                let v: u64 = v.parse().unwrap();
                let enc = (k * 16 + v) as f64;
                if via_handle { handle.record(enc) } else { HistogramFn::record(&*b2, enc) }
                toks.push("P".to_string());
                k += 1;
            } else if let Some(rest) = c.strip_prefix('M') {
                let (v, n) = rest.split_once('x').unwrap();
                let (v, n): (u64, usize) = (v.parse().unwrap(), n.parse().unwrap());
                let enc = (k * 16 + v) as f64;
                if via_handle { handle.record_many(enc, n) } else { HistogramFn::record_many(&*b2, enc, n) }
                for _ in 0..n {
                    toks.push("P".to_string());
                }
                k += n as u64;
            } else if c == "D" {
                let mut sl: Vec<Vec<f64>> = Vec::new();
                b2.data_with(|xs| sl.push(xs.to_vec()));
                toks.push(format!("D{}", h_show(&sl)));
                k += 1;
            } else if c == "C" {
                let mut sl: Vec<Vec<f64>> = Vec::new();
                b2.clear_with(|xs| sl.push(xs.to_vec()));
                toks.push(format!("C{}", h_show(&sl)));
                k += 1;
            } else {
                toks.push(format!("E{}", if b2.is_empty() { 1 } else { 0 }));
                k += 1;
            }
            r2.lock().unwrap().extend(toks);
        }
    });
    let out = sched::run(&sched, vec![body], 100000);
    let mut sl: Vec<Vec<f64>> = Vec::new();
    bucket.data_with(|xs| sl.push(xs.to_vec()));
    let fin = h_show(&sl);
    let empty_before = bucket.is_empty();
    let mut sl2: Vec<Vec<f64>> = Vec::new();
    bucket.clear_with(|xs| sl2.push(xs.to_vec()));
    if fin != h_show(&sl2) || !bucket.is_empty() || empty_before != !fin.contains('.') {
        ANOM.fetch_add(1, SeqCst);
    }
    let trace: Vec<String> = out.steps.iter().map(|(t, s)| format!("{}:{}", t, s)).collect();
    let res = results.lock().unwrap().join(",");
    format!("{} ; {} ; {} ; {} ; {}", trace.join(" "), res, if out.all_finished { 1 } else { 0 }, fin, ANOM.load(SeqCst) - before)
}

// ---------------------------------------------------------------------------------- stress engine
// `STRESS <seed> <rounds> <per_pusher>`: free-running rounds on real threads (no scheduler callback):
// 4-8 pushers of tagged values || 0-2 clearers || 1-2 snapshotters, then join + final clear_with.
// Judged by the property; the only tolerated anomaly is what the open late-claim class explains:
// a value handed to nobody is excused only if some concurrent clear_with call overlapped that push
// in time (logical clock). Rounds with no concurrent clearer must account for every push, and
// their snapshots must show every value whose push returned before the snapshot began.
struct SVal {
    tid: u32,
    seq: u32,
    guard: u64,
    tbl: &'static [std::sync::atomic::AtomicU8],
    per: u32,
}
static SDOUBLE: AtomicU64 = AtomicU64::new(0);
impl Drop for SVal {
    fn drop(&mut self) {
        let i = (self.tid * self.per + self.seq) as usize;
        if self.tbl[i].fetch_add(1, SeqCst) != 0 {
            SDOUBLE.fetch_add(1, SeqCst);
        }
    }
}
fn sguard(tid: u32, seq: u32) -> u64 {
    ((tid as u64) << 40) ^ ((seq as u64).wrapping_mul(0x9E37_79B9_7F4A_7C15)) ^ 0x5a5a_a5a5
}
struct Rng64(u64);
impl Rng64 {
    fn next(&mut self) -> u64 {
        let mut x = self.0;
        x ^= x >> 12;
        x ^= x << 25;
        x ^= x >> 27;
        self.0 = x;
        x.wrapping_mul(0x2545_F491_4F6C_DD1D)
    }
    fn below(&mut self, n: u64) -> u64 { self.next() % n }
}

#[derive(Default)]
struct StressTotals {
    rounds: u64,
    pushes: u64,
    clear_calls: u64,
    snapshots: u64,
    empties: u64,
    lost_excused: u64,
    violations: u64,
    first: String,
}
impl StressTotals {
    fn viol(&mut self, round: u64, what: String) {
        self.violations += 1;
        if self.first.is_empty() {
            self.first = format!("round {}: {}", round, what);
        }
    }
}

fn stress_round(round: u64, rng: &mut Rng64, per: u32, tot: &mut StressTotals) {
    use std::sync::atomic::{AtomicBool, AtomicU32, AtomicU8};
    let np = 4 + rng.below(5) as u32; // 4..8 pushers
    let per = if per == 0 { 64 + rng.below(400) as u32 } else { per };
    let nc = match round % 3 { 0 => 0, 1 => 1, _ => 2 } as usize; // concurrent clearers
    let ns = 1 + (rng.below(2) as usize);
    let pause = 2000 + rng.below(30000); // spin iterations between two clears
    let tbl: &'static [AtomicU8] = Box::leak((0..(np * per) as usize).map(|_| AtomicU8::new(0)).collect::<Vec<_>>().into_boxed_slice());
    let bucket: AtomicBucket<SVal> = AtomicBucket::new();
    let clock = AtomicU64::new(1);
    let done: Vec<AtomicU32> = (0..np).map(|_| AtomicU32::new(0)).collect();
    let pushers_left = AtomicU32::new(np);
    let stop = AtomicBool::new(false);
    // per push: (start, end) on the logical clock
    let mut stamps: Vec<Vec<(u64, u64)>> = Vec::new();
    // per concurrent clear call: (start, end), and what it was handed
    let mut clear_iv: Vec<(u64, u64)> = Vec::new();
    let mut cleared: Vec<u8> = vec![0; (np * per) as usize];
    let mut problems: Vec<String> = Vec::new();
    let check = |x: &SVal, probs: &mut Vec<String>| -> bool {
        let ok = x.tid < np && x.seq < per && x.per == per && x.guard == sguard(x.tid, x.seq);
        if !ok {
            probs.push(format!("fabricated or torn value tid={} seq={} guard={:x}", x.tid, x.seq, x.guard));
            return false;
        }
        if x.tbl[(x.tid * per + x.seq) as usize].load(SeqCst) != 0 {
            probs.push(format!("value {}.{} handed out after its destructor ran", x.tid, x.seq));
        }
        true
    };
    std::thread::scope(|sc| {
        let mut ph = Vec::new();
        for t in 0..np {
            let (bucket, clock, done, pushers_left) = (&bucket, &clock, &done, &pushers_left);
            ph.push(sc.spawn(move || {
                let mut st = Vec::with_capacity(per as usize);
                for q in 0..per {
                    let a = clock.fetch_add(1, SeqCst);
                    bucket.push(SVal { tid: t, seq: q, guard: sguard(t, q), tbl, per });
                    let b = clock.fetch_add(1, SeqCst);
                    done[t as usize].store(q + 1, SeqCst);
                    st.push((a, b));
                }
                pushers_left.fetch_sub(1, SeqCst);
                st
            }));
        }
        let mut ch = Vec::new();
        for _ in 0..nc {
            let (bucket, clock, pushers_left, check) = (&bucket, &clock, &pushers_left, &check);
            ch.push(sc.spawn(move || {
                let mut ivs = Vec::new();
                let mut got: Vec<(u32, u32)> = Vec::new();
                let mut probs = Vec::new();
                while pushers_left.load(SeqCst) != 0 {
                    let a = clock.fetch_add(1, SeqCst);
                    bucket.clear_with(|xs| {
                        let mut last: [i64; 8] = [-1; 8];
                        for x in xs {
                            if check(x, &mut probs) {
                                if (x.seq as i64) <= last[x.tid as usize] {
                                    probs.push(format!("clear slice out of claim order at {}.{}", x.tid, x.seq));
                                }
                                last[x.tid as usize] = x.seq as i64;
                                got.push((x.tid, x.seq));
                            }
                        }
                    });
                    let b = clock.fetch_add(1, SeqCst);
                    ivs.push((a, b));
                    for _ in 0..pause {
                        std::hint::spin_loop();
                    }
                }
                (ivs, got, probs)
            }));
        }
        let mut sh = Vec::new();
        for _ in 0..ns {
            let (bucket, done, stop, check) = (&bucket, &done, &stop, &check);
            sh.push(sc.spawn(move || {
                let mut probs = Vec::new();
                let mut n = 0u64;
                let mut seen: Vec<u32> = vec![0; (np * per) as usize]; // snapshot number that last saw the value
                while !stop.load(SeqCst) {
                    n += 1;
                    let before: Vec<u32> = done.iter().map(|d| d.load(SeqCst)).collect();
                    let tag = n as u32;
                    bucket.data_with(|xs| {
                        let mut last: [i64; 8] = [-1; 8];
                        for x in xs {
                            if check(x, &mut probs) {
                                let i = (x.tid * per + x.seq) as usize;
                                if seen[i] == tag {
                                    probs.push(format!("snapshot shows {}.{} twice", x.tid, x.seq));
                                }
                                seen[i] = tag;
                                if (x.seq as i64) <= last[x.tid as usize] {
                                    probs.push(format!("snapshot slice out of claim order at {}.{}", x.tid, x.seq));
                                }
                                last[x.tid as usize] = x.seq as i64;
                            }
                        }
                    });
                    if nc == 0 {
                        // nobody clears: every push that returned before the snapshot began must be shown
                        let mut missing = 0u64;
                        let mut firstm = None;
                        for t in 0..np {
                            for q in 0..before[t as usize] {
                                if seen[(t * per + q) as usize] != tag {
                                    missing += 1;
                                    if firstm.is_none() { firstm = Some((t, q)); }
                                }
                            }
                        }
                        if missing != 0 {
                            probs.push(format!("snapshot misses {} completed pushes (first {:?}), no clear_with running", missing, firstm.unwrap()));
                        }
                    }
                }
                (n, probs)
            }));
        }
        // is_empty prober (only when nobody clears): once a push has returned, is_empty must say false
        let mut eh = Vec::new();
        if nc == 0 {
            let (bucket, done, stop) = (&bucket, &done, &stop);
            eh.push(sc.spawn(move || {
                let mut probs = Vec::new();
                let mut n = 0u64;
                while !stop.load(SeqCst) {
                    let any = done.iter().any(|d| d.load(SeqCst) != 0);
                    let e = bucket.is_empty();
                    n += 1;
                    if e && any && probs.len() < 5 {
                        probs.push("is_empty returned true after a push had returned, no clear_with running".to_string());
                    }
                }
                (n, probs)
            }));
        }
        for h in ph { stamps.push(h.join().unwrap()); }
        for h in ch {
            let (ivs, got, probs) = h.join().unwrap();
            clear_iv.extend(ivs);
            for (t, q) in got { cleared[(t * per + q) as usize] += 1; }
            problems.extend(probs);
        }
        stop.store(true, SeqCst);
        for h in sh {
            let (n, probs) = h.join().unwrap();
            tot.snapshots += n;
            problems.extend(probs);
        }
        for h in eh {
            let (n, probs) = h.join().unwrap();
            tot.empties += n;
            problems.extend(probs);
        }
    });
    // final sequential clear
    let mut probs = Vec::new();
    bucket.clear_with(|xs| {
        for x in xs {
            if check(x, &mut probs) {
                cleared[(x.tid * per + x.seq) as usize] += 1;
            }
        }
    });
    problems.extend(probs);
    if !bucket.is_empty() {
        problems.push("bucket not empty after the final clear_with".to_string());
    }
    // accounting
    let mut lost_unexcused = 0u64;
    let mut first_lost = None;
    for t in 0..np {
        for q in 0..per {
            let c = cleared[(t * per + q) as usize];
            if c > 1 {
                problems.push(format!("value {}.{} handed to clearing reads {} times", t, q, c));
            } else if c == 0 {
                let (a, b) = stamps[t as usize][q as usize];
                let excused = clear_iv.iter().any(|&(ca, cb)| ca < b && a < cb);
                if excused {
                    tot.lost_excused += 1;
                } else {
                    lost_unexcused += 1;
                    if first_lost.is_none() { first_lost = Some((t, q)); }
                }
            }
        }
    }
    if lost_unexcused != 0 {
        problems.push(format!("{} pushed values handed to nobody with no clear_with overlapping their push (first {:?}); {} concurrent clearers", lost_unexcused, first_lost.unwrap(), nc));
    }
    tot.rounds += 1;
    tot.pushes += (np * per) as u64;
    tot.clear_calls += clear_iv.len() as u64;
    problems.truncate(50);
    for p in problems {
        tot.viol(round, p);
    }
}

// Noise injection for the stress engine: with the scheduler callback absent, the yield points of the
// hook commit (one before every shared-memory access of bucket.rs) are used to stall the calling thread
// for a random short time now and then, which widens every window between two consecutive accesses of one
// thread (e.g. between the quiescence test and the read of the bitmap in data()) from nanoseconds to
// microseconds, so that other threads can complete whole operations inside it.
static NOISE: AtomicU64 = AtomicU64::new(0); // 0 = off, otherwise stall with probability 1/NOISE per point
thread_local! { static NOISE_RNG: Cell<u64> = Cell::new(0); }
fn noise_callback(_site: u32, _spin: bool) {
    let n = NOISE.load(std::sync::atomic::Ordering::Relaxed);
    if n == 0 {
        return;
    }
    NOISE_RNG.with(|c| {
        let mut x = c.get();
        if x == 0 {
            x = (c as *const Cell<u64> as u64) | 1;
        }
        x ^= x >> 12;
        x ^= x << 25;
        x ^= x >> 27;
        c.set(x);
        let r = x.wrapping_mul(0x2545_F491_4F6C_DD1D);
        if r % n == 0 {
            let k = (r >> 20) % 4096;
            if k > 4000 {
                std::thread::yield_now();
            } else {
                for _ in 0..k {
                    std::hint::spin_loop();
                }
            }
        }
    });
}

fn stress(line: &str) -> String {
    let f: Vec<u64> = line.split_whitespace().skip(1).map(|x| x.parse().unwrap()).collect();
    let (seed, rounds, per) = (f[0], f[1], f[2] as u32);
    let noise = if f.len() > 3 { f[3] } else { 0 };
    NOISE.store(noise, SeqCst);
    metrics::__verif::set_callback(if noise == 0 { None } else { Some(noise_callback) });
    let mut rng = Rng64(seed.wrapping_mul(0x9E37_79B9_7F4A_7C15) | 1);
    let mut tot = StressTotals::default();
    let d0 = SDOUBLE.load(SeqCst);
    for r in 0..rounds {
        let before = tot.violations;
        let res = std::panic::catch_unwind(std::panic::AssertUnwindSafe(|| stress_round(r, &mut rng, per, &mut tot)));
        if res.is_err() && tot.violations == before {
            tot.viol(r, "panic in a stress round".to_string());
        }
    }
    NOISE.store(0, SeqCst);
    metrics::__verif::set_callback(None);
    let dd = SDOUBLE.load(SeqCst) - d0;
    if dd != 0 {
        tot.viol(rounds, format!("{} values dropped twice", dd));
    }
    format!(
        "stress rounds={} pushes={} handovers={} clear_calls={} snapshots={} is_empty_calls={} lost_excused_by_concurrent_clear={} violations={} first={}",
        tot.rounds, tot.pushes, tot.pushes / 64, tot.clear_calls, tot.snapshots, tot.empties, tot.lost_excused, tot.violations,
        if tot.first.is_empty() { "-" } else { &tot.first }
    )
}

// only this property's own yield sites take part in the schedule: instrumented code of other
// properties reached from here (e.g. Key::get_hash under a registry lock) must pass through
fn own_site(site: u32) -> bool { (501..=543).contains(&site) }

fn main() {
    sched::set_site_filter(Some(own_site));
    let stdin = std::io::stdin();
    let stdout = std::io::stdout();
    let mut w = std::io::BufWriter::new(stdout.lock());
    let mut base = 1u64 << 20;
    for line in stdin.lock().lines() {
        let line = line.unwrap();
        if line.trim().is_empty() {
            continue;
        }
        if line.starts_with("H ") {
            let l2 = line.clone();
            match std::panic::catch_unwind(move || run_hist_case(&l2)) {
                Ok(s) => writeln!(w, "{}", s).unwrap(),
                Err(_) => writeln!(w, " ;  ; 0 ;  ; 999").unwrap(),
            }
            continue;
        }
        if line.starts_with("STRESS") {
            writeln!(w, "{}", stress(&line)).unwrap();
            continue;
        }
        let l2 = line.clone();
        let r = std::panic::catch_unwind(move || run_case(&l2, base));
        match r {
            Ok(s) => writeln!(w, "{}", s).unwrap(),
            Err(_) => writeln!(w, " ;  ; 0 ;  ; 999").unwrap(),
        }
        base += 1 << 20;
    }
}
