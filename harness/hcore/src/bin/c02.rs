// C02 schedule-replay driver for RecorderOnceCell (metrics/src/recorder/cell.rs).
// stdin: one case per line:  `<prog>|<prog>|... ; <tid> <tid> ...`   prog = comma list of S<r> | L
// stdout: `<t>:<site> ... ; <res>,<res>|... ; <done 0/1>`   res = K<r> | E<r> | N | V<r>  (+ "!x" anomalies)
use metrics::{Counter, Gauge, Histogram, Key, KeyName, Metadata, Recorder, SharedString, Unit};
use std::cell::Cell;
use std::collections::HashMap;
use std::io::{BufRead, Write};
use std::sync::{Arc, Mutex};

static DROPS: Mutex<Option<HashMap<u64, u64>>> = Mutex::new(None);
thread_local! { static LAST: Cell<u64> = Cell::new(0); }

thread_local! { static CALLBACK_MODE: std::cell::Cell<u8> = std::cell::Cell::new(0); static NESTED: std::cell::Cell<u64> = std::cell::Cell::new(0); }
struct Dbl { id: u64, fields: [u64; 6] }
impl Dbl { fn new(id: u64) -> Dbl { Dbl { id, fields: [id; 6] } } }
impl Drop for Dbl {
    fn drop(&mut self) {
        let mut g = DROPS.lock().unwrap();
        *g.get_or_insert_with(HashMap::new).entry(self.id).or_insert(0) += 1;
    }
}
fn drops(id: u64) -> u64 { DROPS.lock().unwrap().as_ref().and_then(|m| m.get(&id).copied()).unwrap_or(0) }
impl Recorder for Dbl {
    fn describe_counter(&self, _: KeyName, _: Option<Unit>, _: SharedString) {
        // "seen whole": every field must carry the id
        let whole = self.fields.iter().all(|f| *f == self.id);
        LAST.with(|l| l.set(if whole { self.id } else { u64::MAX }));
        // scripted behaviour of the callback itself (global scripts only): 1 = panic after having
        // been reached, 2 = emit again from inside the callback (the nested emission's target is
        // left in NESTED)
        match CALLBACK_MODE.with(|m| m.replace(0)) {
            1 => panic!("recorder callback panics on purpose"),
            2 => {
                let outer = LAST.with(|l| l.get());
                LAST.with(|l| l.set(0));
                metrics::with_recorder(|rec| rec.describe_counter(KeyName::from_const_str("y"), None, SharedString::const_str("")));
                NESTED.with(|n| n.set(LAST.with(|l| l.get())));
                LAST.with(|l| l.set(outer));
            }
            _ => {}
        }
    }
    fn describe_gauge(&self, _: KeyName, _: Option<Unit>, _: SharedString) {}
    fn describe_histogram(&self, _: KeyName, _: Option<Unit>, _: SharedString) {}
    fn register_counter(&self, _: &Key, _: &Metadata<'_>) -> Counter { Counter::noop() }
    fn register_gauge(&self, _: &Key, _: &Metadata<'_>) -> Gauge { Gauge::noop() }
    fn register_histogram(&self, _: &Key, _: &Metadata<'_>) -> Histogram { Histogram::noop() }
}

fn run_case(line: &str, base: u64) -> String {
    let (progs, sched) = line.split_once(';').unwrap();
    let progs: Vec<Vec<String>> = progs.trim().split('|').map(|p| p.trim().split(',').filter(|s| !s.is_empty()).map(|s| s.to_string()).collect()).collect();
    let sched: Vec<usize> = sched.split_whitespace().map(|s| s.parse().unwrap()).collect();
    let cell: &'static metrics::__VerifRecorderOnceCell = Box::leak(Box::new(metrics::__VerifRecorderOnceCell::new()));
    let results: Arc<Mutex<Vec<Vec<String>>>> = Arc::new(Mutex::new(vec![Vec::new(); progs.len()]));
    let mut threads: Vec<Box<dyn FnOnce() + Send>> = Vec::new();
    for (tid, prog) in progs.iter().cloned().enumerate() {
        let results = results.clone();
        threads.push(Box::new(move || {
            for c in prog {
                let tok = if let Some(r) = c.strip_prefix('S') {
                    let r: u64 = r.parse().unwrap();
                    match cell.set(Dbl::new(base + r)) {
                        Ok(()) => format!("K{}", r),
                        Err(e) => {
                            let d = e.into_inner();
                            let id = d.id;
                            let intact = drops(id) == 0 && d.fields.iter().all(|f| *f == id);
                            drop(d);
                            format!("E{}{}", id.wrapping_sub(base), if intact { "" } else { "!notintact" })
                        }
                    }
                } else {
                    match cell.try_load() {
                        None => "N".to_string(),
                        Some(rec) => {
                            LAST.with(|l| l.set(0));
                            rec.describe_counter(KeyName::from_const_str("x"), None, SharedString::const_str(""));
                            let id = LAST.with(|l| l.get());
                            if id == u64::MAX { "V0!torn".to_string() } else { format!("V{}", id.wrapping_sub(base)) }
                        }
                    }
                };
                results.lock().unwrap()[tid].push(tok);
            }
        }));
    }
    let out = sched::run(&sched, threads, 100000);
    let mut res = results.lock().unwrap().clone();
    // the installed recorder must never have been dropped by the library
    for r in res.iter_mut() {
        for t in r.iter_mut() {
            if let Some(id) = t.strip_prefix('K') {
                let id: u64 = id.parse().unwrap();
                if drops(base + id) != 0 { t.push_str("!dropped"); }
            }
        }
    }
    let trace: Vec<String> = out.steps.iter().map(|(t, s)| format!("{}:{}", t, s)).collect();
    let rs: Vec<String> = res.iter().map(|r| r.join(",")).collect();
    format!("{} ; {} ; {}", trace.join(" "), rs.join("|"), if out.all_finished { 1 } else { 0 })
}


// Free-running stress (no scheduler): installers keep calling set() on one cell while emitters
// load; judged by the property itself.  Prints `stress ok ...` or `stress FAIL <what>`.
fn stress(installers: usize, emitters: usize, iters: usize, base: u64) -> String {
    use std::sync::atomic::{AtomicBool, AtomicU64, Ordering::SeqCst};
    metrics::__verif::set_callback(None);
    let cell: &'static metrics::__VerifRecorderOnceCell = Box::leak(Box::new(metrics::__VerifRecorderOnceCell::new()));
    let oks = Arc::new(AtomicU64::new(0));
    let winner = Arc::new(AtomicU64::new(0));
    let bad: Arc<Mutex<Vec<String>>> = Arc::new(Mutex::new(Vec::new()));
    let stop = Arc::new(AtomicBool::new(false));
    let mut hs = Vec::new();
    for t in 0..installers {
        let (oks, winner, bad) = (oks.clone(), winner.clone(), bad.clone());
        hs.push(std::thread::spawn(move || {
            for i in 0..iters {
                let r = base + 1 + (t * iters + i) as u64;
                match cell.set(Dbl::new(r)) {
                    Ok(()) => { oks.fetch_add(1, SeqCst); winner.store(r, SeqCst); }
                    Err(e) => {
                        let d = e.into_inner();
                        if d.id != r || drops(r) != 0 || !d.fields.iter().all(|f| *f == r) {
                            bad.lock().unwrap().push(format!("set({}) handed back recorder {} (drops {})", r, d.id, drops(r)));
                        }
                    }
                }
            }
        }));
    }
    let loads = Arc::new(AtomicU64::new(0));
    for _ in 0..emitters {
        let (bad, stop, loads) = (bad.clone(), stop.clone(), loads.clone());
        hs.push(std::thread::spawn(move || {
            let mut seen: Option<u64> = None;
            let mut n = 0u64;
            while !stop.load(SeqCst) || n < 1000 {
                n += 1;
                let got = match cell.try_load() {
                    None => None,
                    Some(rec) => {
                        LAST.with(|l| l.set(0));
                        rec.describe_counter(KeyName::from_const_str("x"), None, SharedString::const_str(""));
                        Some(LAST.with(|l| l.get()))
                    }
                };
                match (seen, got) {
                    (Some(a), None) => { bad.lock().unwrap().push(format!("emission went to the no-op recorder after an earlier one reached recorder {}", a)); break; }
                    (Some(a), Some(b)) if a != b => { bad.lock().unwrap().push(format!("emissions reached two recorders {} and {}", a, b)); break; }
                    (_, Some(u64::MAX)) => { bad.lock().unwrap().push("torn recorder observed".into()); break; }
                    (None, Some(b)) => seen = Some(b),
                    _ => {}
                }
                if n > 50_000_000 { break; }
            }
            loads.fetch_add(n, SeqCst);
        }));
    }
    let n_inst = installers;
    let mut panicked = 0;
    for (i, h) in hs.into_iter().enumerate() {
        if i + 1 == n_inst { /* all installers joined after this one */ }
        let r = h.join();
        if i < n_inst && i + 1 == n_inst { stop.store(true, SeqCst); }
        if r.is_err() { panicked += 1; }
    }
    let w = winner.load(SeqCst);
    let mut bad = bad.lock().unwrap().clone();
    if panicked != 0 { bad.push(format!("{} installer/emitter thread(s) panicked", panicked)); }
    if oks.load(SeqCst) != 1 { bad.push(format!("{} set() calls returned Ok", oks.load(SeqCst))); }
    if drops(w) != 0 { bad.push("installed recorder was dropped".into()); }
    match cell.try_load() {
        None => bad.push("after all installers finished a load returns None".into()),
        Some(rec) => {
            LAST.with(|l| l.set(0));
            rec.describe_counter(KeyName::from_const_str("x"), None, SharedString::const_str(""));
            let id = LAST.with(|l| l.get());
            if id != w { bad.push(format!("final load reached recorder {} but the winner is {}", id, w)); }
        }
    }
    if bad.is_empty() { format!("stress ok sets={} loads={}", installers * iters, loads.load(SeqCst)) }
    else { bad.truncate(3); format!("stress FAIL {}", bad.join(" | ")) }
}

// only this property's own yield sites take part in the schedule: instrumented code of other
// properties reached from here (e.g. Key::get_hash under a registry lock) must pass through
fn own_site(site: u32) -> bool { (201..=205).contains(&site) }

// Process-level engine: the REAL global recorder (metrics::set_global_recorder / with_recorder), one
// script per process.  `GLOBAL <op> <op> ...` with I<r> = install recorder r on the main thread,
// J<r> = install on a fresh thread, E = emit on the main thread, F = emit on a fresh thread,
// P<n> = n threads emit 2000 times each while another thread makes 5 further (losing) installs,
// L<r> / G<r> = a local scope with recorder r on the main thread (with_local_recorder / a
// set_default_local_recorder guard) with one emission inside it, l<r> = the same on ONE persistent
// worker thread, e = emit on that worker (a thread that scoped locally before the global install
// must follow the global recorder afterwards like any other),
// X = an emission whose recorder callback panics after being reached (the panic is caught; token as
// for E), N = an emission whose callback emits again from inside (token V<outer>/<nested target>),
// U<r> = install recorder r from a destructor that runs while a fresh thread is unwinding from a
// panic, D = emit from such a destructor (the calling context must make no difference).
// Output tokens: K<r> | X<r>[!x] (Ok / Err handing r back) | V<r> | N | P<number of emissions that did not reach the winner>.
fn global_emit() -> String {
    LAST.with(|l| l.set(0));
    metrics::with_recorder(|rec| rec.describe_counter(KeyName::from_const_str("x"), None, SharedString::const_str("")));
    let id = LAST.with(|l| l.get());
    if id == 0 { "N".to_string() } else if id == u64::MAX { "V0!torn".to_string() } else { format!("V{}", id) }
}
fn global_install(r: u64) -> String {
    match metrics::set_global_recorder(Dbl::new(r)) {
        Ok(()) => format!("K{}", r),
        Err(e) => { let d = e.into_inner(); let ok = d.id == r && drops(r) == 0 && d.fields.iter().all(|f| *f == r); format!("X{}{}", d.id, if ok { "" } else { "!x" }) }
    }
}
struct OnUnwind(Option<u64>, std::sync::mpsc::Sender<String>);
impl Drop for OnUnwind {
    fn drop(&mut self) {
        assert!(std::thread::panicking());
        let _ = self.1.send(match self.0 { Some(r) => global_install(r), None => global_emit() });
    }
}
fn during_unwind(r: Option<u64>) -> String {
    let (tx, rx) = std::sync::mpsc::channel();
    let h = std::thread::spawn(move || { let _g = OnUnwind(r, tx); panic!("unwinding on purpose"); });
    let _ = h.join();
    rx.recv().unwrap()
}
fn local_scope(r: u64, guard: bool) -> String {
    let d = Dbl::new(r);
    if guard { let _g = metrics::set_default_local_recorder(&d); global_emit() } else { metrics::with_local_recorder(&d, global_emit) }
}
fn global_script(ops: &str) -> String {
    metrics::__verif::set_callback(None);
    std::panic::set_hook(Box::new(|_| {}));
    // one persistent worker thread, driven by the script
    let (wtx, wrx) = std::sync::mpsc::channel::<Option<u64>>();
    let (rtx, rrx) = std::sync::mpsc::channel::<String>();
    let worker = std::thread::spawn(move || { for m in wrx { let _ = rtx.send(match m { Some(r) => local_scope(r, r % 2 == 0), None => global_emit() }); } });
    let mut out: Vec<String> = Vec::new();
    let mut winner: u64 = 0;
    for op in ops.split_whitespace() {
        let (c, rest) = op.split_at(1);
        let tok = match c {
            "I" => global_install(rest.parse().unwrap()),
            "J" => { let r: u64 = rest.parse().unwrap(); std::thread::spawn(move || global_install(r)).join().unwrap() }
            "E" => global_emit(),
            "F" => std::thread::spawn(global_emit).join().unwrap(),
            "X" => {
                CALLBACK_MODE.with(|m| m.set(1));
                let _ = std::panic::catch_unwind(|| { let _ = global_emit(); });
                CALLBACK_MODE.with(|m| m.set(0));
                let id = LAST.with(|l| l.get());
                if id == 0 { "N".to_string() } else { format!("V{}", id) }
            }
            "N" => {
                CALLBACK_MODE.with(|m| m.set(2));
                NESTED.with(|n| n.set(0));
                let t = global_emit();
                CALLBACK_MODE.with(|m| m.set(0));
                if t == "N" { t } else { format!("{}/{}", t, NESTED.with(|n| n.get())) }
            }
            "L" => local_scope(rest.parse().unwrap(), false),
            "G" => local_scope(rest.parse().unwrap(), true),
            "l" => { wtx.send(Some(rest.parse().unwrap())).unwrap(); rrx.recv().unwrap() }
            "e" => { wtx.send(None).unwrap(); rrx.recv().unwrap() }
            "U" => during_unwind(Some(rest.parse().unwrap())),
            "D" => during_unwind(None),
            "P" => {
                let n: usize = rest.parse().unwrap();
                let w = winner;
                let mut hs = Vec::new();
                for _ in 0..n { hs.push(std::thread::spawn(move || { let mut bad = 0u64; for _ in 0..2000 { if global_emit() != format!("V{}", w) { bad += 1; } } bad })); }
                let inst = std::thread::spawn(|| { let mut bad = 0u64; for i in 0..5u64 { if !global_install(900 + i).starts_with(&format!("X{}", 900 + i)) { bad += 1; } std::thread::yield_now(); } bad });
                let mut bad = inst.join().unwrap() * 1_000_000;
                for h in hs { bad += h.join().unwrap(); }
                format!("P{}", bad)
            }
            _ => panic!("bad global op"),
        };
        if let Some(r) = tok.strip_prefix('K') { winner = r.parse().unwrap(); }
        out.push(tok);
    }
    drop(wtx);
    let _ = worker.join();
    out.join(" ")
}

fn main() {
    sched::set_site_filter(Some(own_site));
    let stdin = std::io::stdin();
    let stdout = std::io::stdout();
    let mut w = std::io::BufWriter::new(stdout.lock());
    let mut base = 1u64 << 20;
    for line in stdin.lock().lines() {
        let line = line.unwrap();
        if line.trim().is_empty() { continue; }
        if let Some(rest) = line.trim().strip_prefix("GLOBAL") {
            writeln!(w, "{}", global_script(rest)).unwrap();
            continue;
        }
        if let Some(rest) = line.trim().strip_prefix("STRESS") {
            let v: Vec<usize> = rest.split_whitespace().map(|x| x.parse().unwrap()).collect();
            writeln!(w, "{}", stress(v[0], v[1], v[2], base)).unwrap();
            base += 1 << 32;
            continue;
        }
        writeln!(w, "{}", run_case(&line, base)).unwrap();
        base += 1 << 20;
    }
}
