// C14 correspondence driver: programs over a store of live copy-on-write handles, run on the real
// metrics::cow::Cow through
//   mode s : SharedString = Cow<'static, str>                (public API)
//   mode t : Cow<'static, [Tracked]>  (metrics::__VerifCow)  (element type with a counting destructor)
//   mode k : Cow<'static, [Label]> inside metrics::Key       (public Key/Label API)
//   mode l : Cow<'static, [Label]>    (metrics::__VerifCow)  (label slices with every constructor incl. Arc<[Label]>)
// stdin : one case per line  `<mode> <statichex|-> | <op> <op> ...`   (contents are hex, one byte = one element)
//   ONE static buffer is leaked per case; every borrowed value is a slice of it, so borrows can start at the
//   same address with different lengths, overlap, or hold equal content at different addresses.
//   b<off>,<len> from_borrowed(&buf[off..off+len])   c<off>,<len> const_str/const_slice   o<hex>:<cap>:<variant> from owned
//   z<n> from_owned(Vec<Zst>) s<r> from_shared(arc r .clone())  l<h> clone   d<h> deref
//   m<h>,<h'> cmp, eq, hash equality (three separate observables)     i<h> into_owned                   x<h> drop    X<h> drop on another thread
//   j<h> into std::borrow::Cow (s and t modes)
//   w<h>:<hex> with_extra     A<hex> Arc::from   C<r> caller Arc::clone   D<r> caller drops one Arc
// stdout: one line per case, one token per op:  <res>/<dblocks>/<delems>/<strong,strong,..>
//   res: u | c<hex> | m<ord 0|1|2><eq 0|1><hash-eq 0|1> | jB<hex> | jO<hex> | p | bad | f<Fault>
// A counting global allocator (header + quarantine + poison) reports live-block deltas measured
// tightly around the operation on the real type, and flags frees of blocks that are not live or
// whose layout differs.  The process supervises a worker copy of itself, so that a crash in the
// real code (SIGSEGV/abort) becomes the outcome `CRASH` of that case instead of a broken run.
use metrics::{Key, Label, SharedString};
use std::alloc::{GlobalAlloc, Layout, System};
use std::hash::{Hash, Hasher};
use std::io::{BufRead, Write};
use std::sync::atomic::{AtomicBool, AtomicI64, AtomicUsize, Ordering::SeqCst};
use std::sync::Arc;

// ------------------------------------------------------------------------------ allocator
const LIVE: u32 = 0xA110_C8ED;
const DEAD: u32 = 0xDEAD_F4EE;
static LIVE_BLOCKS: AtomicI64 = AtomicI64::new(0);
static BAD_FREES: AtomicI64 = AtomicI64::new(0);
static QUARANTINE_ON: AtomicBool = AtomicBool::new(false);
static QLOCK: AtomicBool = AtomicBool::new(false);
static QLEN: AtomicUsize = AtomicUsize::new(0);
const QCAP: usize = 8192;
static mut QUAR: [(usize, usize, usize); QCAP] = [(0, 0, 0); QCAP];

struct Counting;
#[repr(C)]
struct Hdr { magic: u32, off: u32, size: u64 }

unsafe impl GlobalAlloc for Counting {
    unsafe fn alloc(&self, l: Layout) -> *mut u8 {
        let off = l.align().max(16);
        let base = System.alloc(Layout::from_size_align_unchecked(l.size() + off, off));
        if base.is_null() { return base; }
        let p = base.add(off);
        (p.sub(16) as *mut Hdr).write(Hdr { magic: LIVE, off: off as u32, size: l.size() as u64 });
        LIVE_BLOCKS.fetch_add(1, SeqCst);
        p
    }
    unsafe fn dealloc(&self, p: *mut u8, l: Layout) {
        let h = p.sub(16) as *mut Hdr;
        if (*h).magic != LIVE {
            // double free, or a pointer that never came from this allocator: do not touch it
            BAD_FREES.fetch_add(1, SeqCst);
            return;
        }
        if (*h).size != l.size() as u64 { BAD_FREES.fetch_add(1, SeqCst); }
        (*h).magic = DEAD;
        LIVE_BLOCKS.fetch_sub(1, SeqCst);
        let off = (*h).off as usize;
        let size = (*h).size as usize;
        let base = p.sub(off);
        if QUARANTINE_ON.load(SeqCst) {
            std::ptr::write_bytes(p, 0xDD, size);
            while QLOCK.swap(true, SeqCst) { std::hint::spin_loop(); }
            let n = QLEN.load(SeqCst);
            let stored = if n < QCAP { QUAR[n] = (base as usize, size + off, off); QLEN.store(n + 1, SeqCst); true } else { false };
            QLOCK.store(false, SeqCst);
            if stored { return; }
        }
        System.dealloc(base, Layout::from_size_align_unchecked(size + off, off));
    }
}
#[global_allocator]
static GLOBAL: Counting = Counting;

fn quarantine(on: bool) {
    QUARANTINE_ON.store(on, SeqCst);
    if !on {
        while QLOCK.swap(true, SeqCst) { std::hint::spin_loop(); }
        let n = QLEN.load(SeqCst);
        for i in 0..n {
            let (b, s, a) = unsafe { QUAR[i] };
            unsafe { System.dealloc(b as *mut u8, Layout::from_size_align_unchecked(s, a)) };
        }
        QLEN.store(0, SeqCst);
        QLOCK.store(false, SeqCst);
    }
}

// ------------------------------------------------------------------------------ element types
static LIVE_ELEMS: AtomicI64 = AtomicI64::new(0);

#[derive(PartialEq, Eq, PartialOrd, Ord, Hash)]
struct Tracked { v: u8, pad: u32 }
impl Tracked { fn new(v: u8) -> Self { LIVE_ELEMS.fetch_add(1, SeqCst); Tracked { v, pad: 0x5A5A_5A5A } } }
impl Clone for Tracked { fn clone(&self) -> Self { Tracked::new(self.v) } }
impl Drop for Tracked { fn drop(&mut self) { LIVE_ELEMS.fetch_sub(1, SeqCst); } }

struct Zst;
impl Zst { fn new() -> Self { LIVE_ELEMS.fetch_add(1, SeqCst); Zst } }
impl Clone for Zst { fn clone(&self) -> Self { Zst::new() } }
impl Drop for Zst { fn drop(&mut self) { LIVE_ELEMS.fetch_sub(1, SeqCst); } }

type TCow = metrics::__VerifCow<'static, [Tracked]>;
type LCow = metrics::__VerifCow<'static, [Label]>;

// per-id Arc<str> used as the key of label <id>: strong_count - 1 = live instances of that label
const NIDS: usize = 256;
static mut LABEL_ARCS: Vec<Arc<str>> = Vec::new();
fn label_arcs() -> &'static Vec<Arc<str>> { unsafe { &*std::ptr::addr_of!(LABEL_ARCS) } }
fn mk_label(id: u8) -> Label {
    Label::new(SharedString::from_shared(label_arcs()[id as usize].clone()), SharedString::const_str("v"))
}
fn label_id(l: &Label) -> u8 { l.key()[1..].parse::<u16>().unwrap() as u8 }

fn hash_of<T: Hash + ?Sized>(t: &T) -> u64 {
    let mut h = std::collections::hash_map::DefaultHasher::new();
    t.hash(&mut h);
    h.finish()
}

// Does `std::borrow::Cow<'static, T>: From<H>` exist?  Decided at compile time by method resolution
// (autoref specialisation), so that the driver builds against a /repo where the impl applies to no type
// (`T: Cowable` without `?Sized`) and reports the operation as unsupported instead of failing to build.
macro_rules! std_cow_probe {
    ($probe:ident, $yes:ident, $no:ident, $dst:ty) => {
        struct $probe<T>(std::cell::Cell<Option<T>>);
        trait $yes { fn conv(&self) -> Option<$dst>; }
        impl<T: Into<$dst>> $yes for $probe<T> { fn conv(&self) -> Option<$dst> { self.0.take().map(Into::into) } }
        trait $no { fn conv(&self) -> Option<$dst>; }
        impl<T> $no for &$probe<T> { fn conv(&self) -> Option<$dst> { None } }
    };
}
std_cow_probe!(ProbeS, YesS, NoS, std::borrow::Cow<'static, str>);
std_cow_probe!(ProbeT, YesT, NoT, std::borrow::Cow<'static, [Tracked]>);
std_cow_probe!(ProbeL, YesL, NoL, std::borrow::Cow<'static, [Label]>);

// ------------------------------------------------------------------------------ the three handle types
trait Hd: Sized + Send + 'static {
    type A: Clone;
    type Buf: ?Sized + 'static;
    fn leak_buf(d: &[u8]) -> &'static Self::Buf;               // the one static buffer of the case
    fn borrowed(buf: &'static Self::Buf, off: usize, len: usize, konst: bool) -> Self;   // &buf[off..off+len]
    fn owned(d: &[u8], cap: usize, variant: u8) -> Result<Self, &'static str>;
    fn owned_zst(_n: usize) -> Option<()> { None }
    fn shared(a: &Self::A) -> Option<Self>;
    fn clone_h(&self) -> Self;
    fn read(&self, out: &mut Vec<u8>);
    /// (Ord::cmp, PartialEq::eq, hash(a) == hash(b)); None if ne / partial_cmp contradict eq / cmp
    fn cmp3(&self, o: &Self) -> Option<(u8, bool, bool)>;
    fn into_owned_read(self, out: &mut Vec<u8>);
    /// Some(true) = Borrowed, Some(false) = Owned, None = the conversion does not exist for this type
    fn into_std_read(self, _out: &mut Vec<u8>) -> Option<bool> { None }
    fn with_extra(&self, extra: &[u8]) -> Self;
    fn new_arc(d: &[u8]) -> Option<Self::A>;
    fn strong(a: &Self::A) -> usize;
    fn live_elems() -> i64;
}

fn ord3(o: std::cmp::Ordering) -> u8 { match o { std::cmp::Ordering::Less => 0, std::cmp::Ordering::Equal => 1, _ => 2 } }

impl Hd for SharedString {
    type A = Arc<str>;
    type Buf = str;
    fn leak_buf(d: &[u8]) -> &'static str { Box::leak(String::from_utf8(d.to_vec()).unwrap().into_boxed_str()) }
    fn borrowed(buf: &'static str, off: usize, len: usize, konst: bool) -> Self {
        let s: &'static str = &buf[off..off + len];
        if konst { SharedString::const_str(s) } else { SharedString::from_borrowed(s) }
    }
    fn owned(d: &[u8], cap: usize, variant: u8) -> Result<Self, &'static str> {
        let txt = std::str::from_utf8(d).unwrap();
        let s = match variant {
            1 => String::new(),
            2 => txt.to_owned(),
            _ => { let mut s = String::with_capacity(cap); s.push_str(txt); s }
        };
        if s.len() != d.len() || s.capacity() != cap { return Err("capmismatch"); }
        Ok(if variant == 2 { SharedString::from(s) } else { SharedString::from_owned(s) })
    }
    fn shared(a: &Arc<str>) -> Option<Self> { Some(SharedString::from_shared(a.clone())) }
    fn clone_h(&self) -> Self { self.clone() }
    fn read(&self, out: &mut Vec<u8>) { let s: &str = self; out.extend_from_slice(s.as_bytes()); }
    fn cmp3(&self, o: &Self) -> Option<(u8, bool, bool)> {
        let c = ord3(self.cmp(o));
        let e = self == o;
        let he = hash_of(self) == hash_of(o);
        if (self != o) == e || self.partial_cmp(o).map(ord3) != Some(c) { return None; }
        Some((c, e, he))
    }
    fn into_owned_read(self, out: &mut Vec<u8>) { let s: String = self.into_owned(); out.extend_from_slice(s.as_bytes()); drop(s); }
    fn into_std_read(self, out: &mut Vec<u8>) -> Option<bool> {
        let p = ProbeS(std::cell::Cell::new(Some(self)));
        let c: std::borrow::Cow<'static, str> = (&p).conv()?;
        out.extend_from_slice(c.as_bytes());
        let b = matches!(c, std::borrow::Cow::Borrowed(_));
        drop(c);
        Some(b)
    }
    fn with_extra(&self, extra: &[u8]) -> Self {
        // the statements of Key::with_extra_labels, on a string
        if extra.is_empty() { return self.clone(); }
        let mut v = self.clone().into_owned();
        v.push_str(std::str::from_utf8(extra).unwrap());
        v.into()
    }
    fn new_arc(d: &[u8]) -> Option<Arc<str>> { Some(Arc::from(std::str::from_utf8(d).unwrap())) }
    fn strong(a: &Arc<str>) -> usize { Arc::strong_count(a) }
    fn live_elems() -> i64 { 0 }
}

impl Hd for TCow {
    type A = Arc<[Tracked]>;
    type Buf = [Tracked];
    fn leak_buf(d: &[u8]) -> &'static [Tracked] { Box::leak(d.iter().map(|v| Tracked::new(*v)).collect::<Vec<_>>().into_boxed_slice()) }
    fn borrowed(buf: &'static [Tracked], off: usize, len: usize, konst: bool) -> Self {
        let s: &'static [Tracked] = &buf[off..off + len];
        if konst { TCow::const_slice(s) } else { TCow::from_borrowed(s) }
    }
    fn owned(d: &[u8], cap: usize, variant: u8) -> Result<Self, &'static str> {
        let v: Vec<Tracked> = match variant {
            1 => Vec::new(),
            2 => d.iter().map(|v| Tracked::new(*v)).collect(),
            _ => { let mut v = Vec::with_capacity(cap); for x in d { v.push(Tracked::new(*x)); } v }
        };
        if v.len() != d.len() || v.capacity() != cap { return Err("capmismatch"); }
        Ok(if variant == 2 { TCow::from(v) } else { TCow::from_owned(v) })
    }
    fn owned_zst(n: usize) -> Option<()> {
        let v: Vec<Zst> = (0..n).map(|_| Zst::new()).collect();
        let c = metrics::__VerifCow::<'static, [Zst]>::from_owned(v);
        drop(c);
        Some(())
    }
    fn shared(a: &Arc<[Tracked]>) -> Option<Self> { Some(TCow::from_shared(a.clone())) }
    fn clone_h(&self) -> Self { self.clone() }
    fn read(&self, out: &mut Vec<u8>) { let s: &[Tracked] = self; for t in s { out.push(t.v); } }
    fn cmp3(&self, o: &Self) -> Option<(u8, bool, bool)> {
        let c = ord3(self.cmp(o));
        let e = self == o;
        let he = hash_of(self) == hash_of(o);
        if (self != o) == e || self.partial_cmp(o).map(ord3) != Some(c) { return None; }
        Some((c, e, he))
    }
    fn into_owned_read(self, out: &mut Vec<u8>) { let v: Vec<Tracked> = self.into_owned(); for t in &v { out.push(t.v); } drop(v); }
    fn into_std_read(self, out: &mut Vec<u8>) -> Option<bool> {
        let p = ProbeT(std::cell::Cell::new(Some(self)));
        let c: std::borrow::Cow<'static, [Tracked]> = (&p).conv()?;
        for t in c.iter() { out.push(t.v); }
        let b = matches!(c, std::borrow::Cow::Borrowed(_));
        drop(c);
        Some(b)
    }
    fn with_extra(&self, extra: &[u8]) -> Self {
        if extra.is_empty() { return self.clone(); }
        let mut v = self.clone().into_owned();
        v.extend(extra.iter().map(|x| Tracked::new(*x)));
        v.into()
    }
    fn new_arc(d: &[u8]) -> Option<Arc<[Tracked]>> {
        let v: Vec<Tracked> = d.iter().map(|v| Tracked::new(*v)).collect();
        Some(Arc::from(v))
    }
    fn strong(a: &Arc<[Tracked]>) -> usize { Arc::strong_count(a) }
    fn live_elems() -> i64 { LIVE_ELEMS.load(SeqCst) }
}

impl Hd for Key {
    type A = ();
    type Buf = [Label];
    fn leak_buf(d: &[u8]) -> &'static [Label] { Box::leak(d.iter().map(|v| mk_label(*v)).collect::<Vec<_>>().into_boxed_slice()) }
    fn borrowed(buf: &'static [Label], off: usize, len: usize, konst: bool) -> Self {
        let s: &'static [Label] = &buf[off..off + len];
        if konst { Key::from_static_parts("n", s) } else { Key::from_static_labels("n", s) }
    }
    fn owned(d: &[u8], cap: usize, variant: u8) -> Result<Self, &'static str> {
        if variant == 1 { return Ok(Key::from_name("n")); }           // Cow::from_owned(Vec::new())
        let v: Vec<Label> = match variant {
            2 => d.iter().map(|v| mk_label(*v)).collect(),
            _ => { let mut v = Vec::with_capacity(cap); for x in d { v.push(mk_label(*x)); } v }
        };
        if v.len() != d.len() || v.capacity() != cap { return Err("capmismatch"); }
        Ok(if variant == 2 { Key::from(("n", v)) } else { Key::from_parts("n", v) })
    }
    fn shared(_a: &()) -> Option<Self> { None }
    fn clone_h(&self) -> Self { self.clone() }
    fn read(&self, out: &mut Vec<u8>) { for l in self.labels() { out.push(label_id(l)); } }
    fn cmp3(&self, o: &Self) -> Option<(u8, bool, bool)> {
        // Key does not expose its label Cow: the labels are compared / hashed element by element
        // (through Label's derived impls, i.e. through the two Cow<str> of each label)
        let c = ord3(self.labels().cmp(o.labels()));
        let e = self.labels().eq(o.labels());
        let (va, vb): (Vec<&Label>, Vec<&Label>) = (self.labels().collect(), o.labels().collect());
        let he = hash_of(&va) == hash_of(&vb);
        if self.labels().ne(o.labels()) == e || self.labels().partial_cmp(o.labels()).map(ord3) != Some(c) { return None; }
        Some((c, e, he))
    }
    fn into_owned_read(self, out: &mut Vec<u8>) { let (_n, v) = self.into_parts(); for l in &v { out.push(label_id(l)); } drop(v); }
    fn with_extra(&self, extra: &[u8]) -> Self { self.with_extra_labels(extra.iter().map(|x| mk_label(*x)).collect()) }
    fn new_arc(_d: &[u8]) -> Option<()> { None }
    fn strong(_a: &()) -> usize { 0 }
    fn live_elems() -> i64 { label_arcs().iter().map(|a| Arc::strong_count(a) as i64 - 1).sum() }
}

impl Hd for LCow {
    type A = Arc<[Label]>;
    type Buf = [Label];
    fn leak_buf(d: &[u8]) -> &'static [Label] { Box::leak(d.iter().map(|v| mk_label(*v)).collect::<Vec<_>>().into_boxed_slice()) }
    fn borrowed(buf: &'static [Label], off: usize, len: usize, konst: bool) -> Self {
        let s: &'static [Label] = &buf[off..off + len];
        if konst { LCow::const_slice(s) } else { LCow::from_borrowed(s) }
    }
    fn owned(d: &[u8], cap: usize, variant: u8) -> Result<Self, &'static str> {
        let v: Vec<Label> = match variant {
            1 => Vec::new(),
            2 => d.iter().map(|v| mk_label(*v)).collect(),
            _ => { let mut v = Vec::with_capacity(cap); for x in d { v.push(mk_label(*x)); } v }
        };
        if v.len() != d.len() || v.capacity() != cap { return Err("capmismatch"); }
        Ok(if variant == 2 { LCow::from(v) } else { LCow::from_owned(v) })
    }
    fn shared(a: &Arc<[Label]>) -> Option<Self> { Some(LCow::from_shared(a.clone())) }
    fn clone_h(&self) -> Self { self.clone() }
    fn read(&self, out: &mut Vec<u8>) { let s: &[Label] = self; for l in s { out.push(label_id(l)); } }
    fn cmp3(&self, o: &Self) -> Option<(u8, bool, bool)> {
        let c = ord3(self.cmp(o));
        let e = self == o;
        let he = hash_of(self) == hash_of(o);
        if (self != o) == e || self.partial_cmp(o).map(ord3) != Some(c) { return None; }
        Some((c, e, he))
    }
    fn into_owned_read(self, out: &mut Vec<u8>) { let v: Vec<Label> = self.into_owned(); for l in &v { out.push(label_id(l)); } drop(v); }
    fn into_std_read(self, out: &mut Vec<u8>) -> Option<bool> {
        let p = ProbeL(std::cell::Cell::new(Some(self)));
        let c: std::borrow::Cow<'static, [Label]> = (&p).conv()?;
        for l in c.iter() { out.push(label_id(l)); }
        let b = matches!(c, std::borrow::Cow::Borrowed(_));
        drop(c);
        Some(b)
    }
    fn with_extra(&self, extra: &[u8]) -> Self {
        if extra.is_empty() { return self.clone(); }
        let mut v = self.clone().into_owned();
        v.extend(extra.iter().map(|x| mk_label(*x)));
        v.into()
    }
    fn new_arc(d: &[u8]) -> Option<Arc<[Label]>> {
        let v: Vec<Label> = d.iter().map(|v| mk_label(*v)).collect();
        Some(Arc::from(v))
    }
    fn strong(a: &Arc<[Label]>) -> usize { Arc::strong_count(a) }
    fn live_elems() -> i64 { label_arcs().iter().map(|a| Arc::strong_count(a) as i64 - 1).sum() }
}

// ------------------------------------------------------------------------------ running one case
fn unhex(s: &str) -> Vec<u8> { (0..s.len() / 2).map(|i| u8::from_str_radix(&s[2 * i..2 * i + 2], 16).unwrap()).collect() }
fn hex(b: &[u8]) -> String { b.iter().map(|x| format!("{:02x}", x)).collect() }

struct Snap { blocks: i64, elems: i64, bad: i64 }
fn snap<H: Hd>() -> Snap { Snap { blocks: LIVE_BLOCKS.load(SeqCst), elems: H::live_elems(), bad: BAD_FREES.load(SeqCst) } }

enum R { Unit, Content, Std(bool), Cmp(u8, bool, bool), Panic, Bad, Fault(&'static str) }

fn run_ops<H: Hd>(stat: &[u8], ops: &str) -> String {
    let toks: Vec<&str> = ops.split_whitespace().collect();
    let sbuf: &'static H::Buf = H::leak_buf(stat);   // lives forever; made before anything is measured
    let mut hs: Vec<Option<H>> = Vec::with_capacity(toks.len() + 1);
    let mut arcs: Vec<Vec<H::A>> = Vec::with_capacity(toks.len() + 1);
    let mut scratch: Vec<u8> = Vec::with_capacity(1 << 16);
    let mut out: Vec<String> = Vec::with_capacity(toks.len());
    for tok in toks {
        let (c, rest) = tok.split_at(1);
        scratch.clear();
        // everything the operation needs is prepared before the measured region
        let arg = |i: usize| -> &str { rest.split(|ch| ch == ':' || ch == ',').nth(i).unwrap_or("") };
        let data = if matches!(c, "o" | "A") { unhex(arg(0)) } else if c == "w" { unhex(arg(1)) } else { Vec::new() };
        let hidx: usize = if matches!(c, "l" | "d" | "m" | "i" | "j" | "x" | "X" | "w" | "s" | "C" | "D" | "z") { arg(0).parse().unwrap() } else { 0 };
        let mut new_h: Option<H> = None;
        let mut new_arc: Option<H::A> = None;
        let mut slot: Vec<H::A> = Vec::with_capacity(8);
        let (b, r, a);
        let live = |hs: &Vec<Option<H>>, i: usize| i < hs.len() && hs[i].is_some();
        match c {
            "b" | "c" => {
                let off: usize = arg(0).parse().unwrap();
                let len: usize = arg(1).parse().unwrap();
                if off + len <= stat.len() {
                    b = snap::<H>();
                    let res = std::panic::catch_unwind(std::panic::AssertUnwindSafe(|| H::borrowed(sbuf, off, len, c == "c"))).map_err(|_| ());
                    a = snap::<H>();
                    r = match res { Ok(h) => { new_h = Some(h); R::Unit } Err(_) => R::Panic };
                } else { b = snap::<H>(); a = snap::<H>(); r = R::Bad; }                  // no such slice
            }
            "o" => {
                let cap: usize = arg(1).parse().unwrap();
                let variant: u8 = arg(2).parse().unwrap();
                b = snap::<H>();
                let res = std::panic::catch_unwind(|| H::owned(&data, cap, variant)).map_err(|_| ());
                a = snap::<H>();
                r = match res { Ok(Ok(h)) => { new_h = Some(h); R::Unit } Ok(Err(e)) => R::Fault(e), Err(_) => R::Panic };
            }
            "z" => {
                b = snap::<H>();
                let res = std::panic::catch_unwind(|| H::owned_zst(hidx)).map_err(|_| ());
                a = snap::<H>();
                r = match res { Ok(Some(())) => R::Unit, Ok(None) => R::Bad, Err(_) => R::Panic };
            }
            "s" => {
                if hidx < arcs.len() && !arcs[hidx].is_empty() {
                    b = snap::<H>();
                    let res = H::shared(&arcs[hidx][0]);
                    a = snap::<H>();
                    r = match res { Some(h) => { new_h = Some(h); R::Unit } None => R::Bad };
                } else { b = snap::<H>(); a = snap::<H>(); r = R::Bad; }
            }
            "l" => {
                if live(&hs, hidx) {
                    b = snap::<H>();
                    let h = hs[hidx].as_ref().unwrap().clone_h();
                    a = snap::<H>();
                    new_h = Some(h); r = R::Unit;
                } else { b = snap::<H>(); a = snap::<H>(); r = R::Bad; }
            }
            "d" => {
                if live(&hs, hidx) {
                    b = snap::<H>();
                    hs[hidx].as_ref().unwrap().read(&mut scratch);
                    a = snap::<H>();
                    r = R::Content;
                } else { b = snap::<H>(); a = snap::<H>(); r = R::Bad; }
            }
            "m" => {
                let h2: usize = arg(1).parse().unwrap();
                if live(&hs, hidx) && live(&hs, h2) {
                    b = snap::<H>();
                    let c3 = hs[hidx].as_ref().unwrap().cmp3(hs[h2].as_ref().unwrap());
                    a = snap::<H>();
                    r = match c3 { Some((x, e, he)) => R::Cmp(x, e, he), None => R::Fault("Incoherent") };
                } else { b = snap::<H>(); a = snap::<H>(); r = R::Bad; }
            }
            "i" => {
                if live(&hs, hidx) {
                    let h = hs[hidx].take().unwrap();
                    b = snap::<H>();
                    h.into_owned_read(&mut scratch);
                    a = snap::<H>();
                    r = R::Content;
                } else { b = snap::<H>(); a = snap::<H>(); r = R::Bad; }
            }
            "j" => {
                if live(&hs, hidx) {
                    let h = hs[hidx].take().unwrap();
                    b = snap::<H>();
                    let v = h.into_std_read(&mut scratch);
                    a = snap::<H>();
                    r = match v { Some(bw) => R::Std(bw), None => R::Fault("NoStdCow") };
                } else { b = snap::<H>(); a = snap::<H>(); r = R::Bad; }
            }
            "x" => {
                if live(&hs, hidx) {
                    let h = hs[hidx].take().unwrap();
                    b = snap::<H>();
                    drop(h);
                    a = snap::<H>();
                    r = R::Unit;
                } else { b = snap::<H>(); a = snap::<H>(); r = R::Bad; }
            }
            "X" => {
                if live(&hs, hidx) {
                    let h = hs[hidx].take().unwrap();
                    // the measured region is inside the other thread; this thread is parked in join()
                    let (bb, aa) = std::thread::spawn(move || { let b = snap::<H>(); drop(h); let a = snap::<H>(); (b, a) }).join().unwrap();
                    b = bb; a = aa; r = R::Unit;
                } else { b = snap::<H>(); a = snap::<H>(); r = R::Bad; }
            }
            "w" => {
                if live(&hs, hidx) {
                    b = snap::<H>();
                    let h = hs[hidx].as_ref().unwrap().with_extra(&data);
                    a = snap::<H>();
                    new_h = Some(h); r = R::Unit;
                } else { b = snap::<H>(); a = snap::<H>(); r = R::Bad; }
            }
            "A" => {
                b = snap::<H>();
                let x = H::new_arc(&data);
                a = snap::<H>();
                r = match x { Some(x) => { new_arc = Some(x); R::Unit } None => R::Bad };
            }
            "C" => {
                if hidx < arcs.len() && !arcs[hidx].is_empty() {
                    b = snap::<H>();
                    let x = arcs[hidx][0].clone();
                    a = snap::<H>();
                    slot.push(x); r = R::Unit;
                } else { b = snap::<H>(); a = snap::<H>(); r = R::Bad; }
            }
            "D" => {
                if hidx < arcs.len() && !arcs[hidx].is_empty() {
                    let x = arcs[hidx].pop().unwrap();
                    b = snap::<H>();
                    drop(x);
                    a = snap::<H>();
                    r = R::Unit;
                } else { b = snap::<H>(); a = snap::<H>(); r = R::Bad; }
            }
            _ => panic!("bad op {}", tok),
        }
        if let Some(h) = new_h { hs.push(Some(h)); }
        if let Some(x) = new_arc { slot.push(x); arcs.push(slot); }
        else if c == "C" && !slot.is_empty() { let x = slot.pop().unwrap(); arcs[hidx].push(x); }
        let res = if a.bad != b.bad { "fBadFree".to_string() } else {
            match r {
                R::Unit => "u".into(), R::Content => format!("c{}", hex(&scratch)), R::Std(bw) => format!("j{}{}", if bw { "B" } else { "O" }, hex(&scratch)), R::Cmp(x, e, he) => format!("m{}{}{}", x, e as u8, he as u8),
                R::Panic => "p".into(), R::Bad => "bad".into(), R::Fault(f) => format!("f{}", f),
            }
        };
        let strongs: Vec<String> = arcs.iter().map(|v| if v.is_empty() { "0".to_string() } else { H::strong(&v[0]).to_string() }).collect();
        out.push(format!("{}/{}/{}/{}", res, a.blocks - b.blocks, a.elems - b.elems, strongs.join(",")));
    }
    // whatever is still live is given back now (not part of the observed trace)
    drop(hs);
    drop(arcs);
    out.join(" ")
}

fn run_case(line: &str) -> String {
    let (head, ops) = line.split_once('|').unwrap();
    let mut hs = head.split_whitespace();
    let mode = hs.next().unwrap();
    let stat = match hs.next() { Some("-") | None => Vec::new(), Some(h) => unhex(h) };
    quarantine(true);
    let r = match mode {
        "s" => run_ops::<SharedString>(&stat, ops),
        "t" => run_ops::<TCow>(&stat, ops),
        "k" => run_ops::<Key>(&stat, ops),
        "l" => run_ops::<LCow>(&stat, ops),
        m => panic!("bad mode {}", m),
    };
    quarantine(false);
    r
}

fn worker() {
    std::panic::set_hook(Box::new(|_| {}));
    unsafe {
        let v = &mut *std::ptr::addr_of_mut!(LABEL_ARCS);
        for i in 0..NIDS { v.push(Arc::from(format!("k{:03}", i).as_str())); }
    }
    let stdin = std::io::stdin();
    let stdout = std::io::stdout();
    for line in stdin.lock().lines() {
        let line = line.unwrap();
        if line.trim().is_empty() { continue; }
        let o = run_case(&line);
        let mut w = stdout.lock();
        writeln!(w, "{}", o).unwrap();
        w.flush().unwrap();
    }
}

fn main() {
    if std::env::args().nth(1).as_deref() == Some("--worker") { return worker(); }
    let lines: Vec<String> = std::io::stdin().lock().lines().map(|l| l.unwrap()).filter(|l| !l.trim().is_empty()).collect();
    let exe = std::env::current_exe().unwrap();
    let stdout = std::io::stdout();
    let mut w = std::io::BufWriter::new(stdout.lock());
    let mut idx = 0;
    while idx < lines.len() {
        let mut child = std::process::Command::new(&exe).arg("--worker")
            .stdin(std::process::Stdio::piped()).stdout(std::process::Stdio::piped()).stderr(std::process::Stdio::null())
            .spawn().unwrap();
        let mut cin = child.stdin.take().unwrap();
        let rest: Vec<String> = lines[idx..].to_vec();
        let feeder = std::thread::spawn(move || { for l in rest { if writeln!(cin, "{}", l).is_err() { break; } } });
        let cout = std::io::BufReader::new(child.stdout.take().unwrap());
        for l in cout.lines() {
            match l { Ok(l) => { writeln!(w, "{}", l).unwrap(); idx += 1; } Err(_) => break }
        }
        let _ = child.wait();
        let _ = feeder.join();
        if idx < lines.len() { writeln!(w, "CRASH").unwrap(); idx += 1; }   // the worker died on this case
    }
}
