// C20 schedule-replay driver for metrics-util/src/recoverable.rs.
// stdin: `<prog>|<prog>|... ; <tid> ...`   prog = E<n> (n emissions) | R (into_inner) | D (drop handle);
//   a leading `u` (uE2, uR, uD) runs that thread's program from a destructor while the thread is
//   unwinding (std::thread::panicking() is true): the calling context must make no difference
// stdout: `<t>:<site> ... ; <res>,<res>|... ; <done> ; <drops> ; <late_entry 0/1>`
//   res = X (reached) | I (inert) | R<inside>:<drops> (recovered) | H (handle dropped)
use metrics::{Counter, Gauge, Histogram, Key, KeyName, Metadata, Recorder, SharedString, Unit, Level};
use metrics_util::RecoverableRecorder;
use std::cell::Cell;
use std::io::{BufRead, Write};
use std::sync::atomic::{AtomicBool, AtomicU64, Ordering::SeqCst};
use std::sync::{Arc, Mutex};

thread_local! { static REACHED: Cell<u8> = Cell::new(0); }

struct Dbl { inside: Arc<AtomicU64>, drops: Arc<AtomicU64>, late: Arc<AtomicBool> }
impl Dbl {
    fn enter(&self, method: u8) {
        if self.drops.load(SeqCst) != 0 { self.late.store(true, SeqCst); }
        self.inside.fetch_add(1, SeqCst);
        metrics::__verif::yield_point(2006);
        self.inside.fetch_sub(1, SeqCst);
        REACHED.with(|r| r.set(method));
    }
}
impl Drop for Dbl { fn drop(&mut self) { self.drops.fetch_add(1, SeqCst); } }
impl Recorder for Dbl {
    fn describe_counter(&self, _: KeyName, _: Option<Unit>, _: SharedString) { self.enter(1) }
    fn describe_gauge(&self, _: KeyName, _: Option<Unit>, _: SharedString) { self.enter(3) }
    fn describe_histogram(&self, _: KeyName, _: Option<Unit>, _: SharedString) { self.enter(5) }
    fn register_counter(&self, _: &Key, _: &Metadata<'_>) -> Counter { self.enter(2); Counter::noop() }
    fn register_gauge(&self, _: &Key, _: &Metadata<'_>) -> Gauge { self.enter(4); Gauge::noop() }
    fn register_histogram(&self, _: &Key, _: &Metadata<'_>) -> Histogram { self.enter(6); Histogram::noop() }
}

fn emit(rec: &dyn Recorder, k: usize) {
    static META: Metadata<'static> = Metadata::new("t", Level::INFO, None);
    let key = Key::from_static_name("m");
    match k % 6 {
        0 => rec.describe_counter(KeyName::from_const_str("m"), None, SharedString::const_str("")),
        1 => { let _ = rec.register_counter(&key, &META); }
        2 => rec.describe_gauge(KeyName::from_const_str("m"), None, SharedString::const_str("")),
        3 => { let _ = rec.register_gauge(&key, &META); }
        4 => rec.describe_histogram(KeyName::from_const_str("m"), None, SharedString::const_str("")),
        _ => { let _ = rec.register_histogram(&key, &META); }
    }
}

fn in_unwind(f: Box<dyn FnOnce() + Send>, on_panic: Box<dyn FnOnce() + Send>) -> Box<dyn FnOnce() + Send> {
    struct G(Option<Box<dyn FnOnce() + Send>>, Option<Box<dyn FnOnce() + Send>>);
    impl Drop for G {
        fn drop(&mut self) {
            assert!(std::thread::panicking());
            // a panic of the code under test must not escape a destructor during cleanup (that aborts
            // the process): catch it here and record it as an outcome no model run has
            let f = self.0.take().unwrap();
            if std::panic::catch_unwind(std::panic::AssertUnwindSafe(f)).is_err() { (self.1.take().unwrap())() }
        }
    }
    Box::new(move || {
        let _ = std::panic::catch_unwind(std::panic::AssertUnwindSafe(move || { let _g = G(Some(f), Some(on_panic)); std::panic::resume_unwind(Box::new(0u8)); }));
    })
}

fn run_case(line: &str) -> String {
    let (progs, sched) = line.split_once(';').unwrap();
    let progs: Vec<String> = progs.trim().split('|').map(|p| p.trim().to_string()).collect();
    let sched: Vec<usize> = sched.split_whitespace().map(|s| s.parse().unwrap()).collect();
    let inside = Arc::new(AtomicU64::new(0));
    let drops = Arc::new(AtomicU64::new(0));
    let late = Arc::new(AtomicBool::new(false));
    let (wrapped, handle) = RecoverableRecorder::new(Dbl { inside: inside.clone(), drops: drops.clone(), late: late.clone() }).__verif_build();
    let wrapped: Arc<dyn Recorder + Send + Sync> = Arc::new(wrapped);
    let handle = Arc::new(Mutex::new(Some(handle)));
    let recovered: Arc<Mutex<Option<Dbl>>> = Arc::new(Mutex::new(None));
    let results: Arc<Mutex<Vec<Vec<String>>>> = Arc::new(Mutex::new(vec![Vec::new(); progs.len()]));
    let mut threads: Vec<Box<dyn FnOnce() + Send>> = Vec::new();
    let results2 = results.clone();
    for (tid, p) in progs.iter().cloned().enumerate() {
        let results = results.clone();
        let (unw, p) = match p.strip_prefix('u') { Some(r) => (true, r.to_string()), None => (false, p) };
        let before = threads.len();
        if let Some(n) = p.strip_prefix('E') {
            let n: usize = n.parse().unwrap();
            let w = wrapped.clone();
            threads.push(Box::new(move || {
                for k in 0..n {
                    REACHED.with(|r| r.set(0));
                    emit(&*w, k + tid);
                    // the wrapped recorder must be entered through the SAME method the wrapper was called with
                    let m = REACHED.with(|r| r.get());
                    let tok = if m == 0 { "I" } else if m as usize == (k + tid) % 6 + 1 { "X" } else { "M" };
                    results.lock().unwrap()[tid].push(tok.to_string());
                }
            }));
        } else if p == "R" {
            let (h, rec, ins, dr) = (handle.clone(), recovered.clone(), inside.clone(), drops.clone());
            threads.push(Box::new(move || {
                let hd = h.lock().unwrap().take().unwrap();
                let r = hd.into_inner();
                let tok = format!("R{}:{}", ins.load(SeqCst), dr.load(SeqCst));
                *rec.lock().unwrap() = Some(r);
                results.lock().unwrap()[tid].push(tok);
            }));
        } else {
            let h = handle.clone();
            threads.push(Box::new(move || {
                let hd = h.lock().unwrap().take().unwrap();
                metrics::__verif::yield_point(2005);
                drop(hd);
                results.lock().unwrap()[tid].push("H".to_string());
            }));
        }
        assert_eq!(threads.len(), before + 1);
        if unw {
            let f = threads.pop().unwrap();
            let res2 = results2.clone();
            threads.push(in_unwind(f, Box::new(move || res2.lock().unwrap()[tid].push("M".to_string()))));
        }
    }
    let out = sched::run(&sched, threads, 100000);
    let d = drops.load(SeqCst);
    let res = results.lock().unwrap().clone();
    let trace: Vec<String> = out.steps.iter().map(|(t, s)| format!("{}:{}", t, s)).collect();
    let rs: Vec<String> = res.iter().map(|r| r.join(",")).collect();
    let s = format!("{} ; {} ; {} ; {} ; {}", trace.join(" "), rs.join("|"), if out.all_finished { 1 } else { 0 }, d, if late.load(SeqCst) { 1 } else { 0 });
    drop(recovered);
    drop(handle);
    s
}


// Free-running stress (no scheduler): emitters hammer the wrapper while the owner recovers or drops
// the handle; judged by the property itself.  `STRESS <emitters> <emissions> <mode R|D>`.
static RECOVERED: AtomicBool = AtomicBool::new(false);
static WRONG: AtomicU64 = AtomicU64::new(0);
fn stress(emitters: usize, n: usize, mode: &str) -> String {
    metrics::__verif::set_callback(None);
    RECOVERED.store(false, SeqCst);
    let inside = Arc::new(AtomicU64::new(0));
    let drops = Arc::new(AtomicU64::new(0));
    let late = Arc::new(AtomicBool::new(false));
    let (wrapped, handle) = RecoverableRecorder::new(Dbl { inside: inside.clone(), drops: drops.clone(), late: late.clone() }).__verif_build();
    let wrapped: Arc<dyn Recorder + Send + Sync> = Arc::new(wrapped);
    let reached_after = Arc::new(AtomicU64::new(0));
    let reached = Arc::new(AtomicU64::new(0));
    let inert_before = Arc::new(AtomicU64::new(0));
    let started = Arc::new(AtomicU64::new(0));
    let mut hs = Vec::new();
    for t in 0..emitters {
        let (w, ra, re, ib, st) = (wrapped.clone(), reached_after.clone(), reached.clone(), inert_before.clone(), started.clone());
        hs.push(std::thread::spawn(move || {
            st.fetch_add(1, SeqCst);
            for k in 0..n {
                let before = RECOVERED.load(SeqCst);
                REACHED.with(|r| r.set(0));
                emit(&*w, k + t);
                let m = REACHED.with(|r| r.get());
                if m != 0 && m as usize != (k + t) % 6 + 1 { WRONG.fetch_add(1, SeqCst); }
                let hit = m != 0;
                if hit { re.fetch_add(1, SeqCst); if before { ra.fetch_add(1, SeqCst); } }
                // an emission that completed before the owner even started must have reached the recorder
                if !hit && !OWNER_STARTED.load(SeqCst) { ib.fetch_add(1, SeqCst); }
            }
        }));
    }
    while started.load(SeqCst) < emitters as u64 { std::thread::yield_now(); }
    std::thread::sleep(std::time::Duration::from_micros(30));
    let mut bad: Vec<String> = Vec::new();
    let mut held: Option<Dbl> = None;
    // OWNER_STARTED is set AFTER the emitters' "before" reads can no longer be stale: emissions whose
    // whole execution precedes this store are guaranteed live
    OWNER_STARTED.store(true, SeqCst);
    if mode == "R" {
        let r = handle.into_inner();
        let (i, d) = (inside.load(SeqCst), drops.load(SeqCst));
        RECOVERED.store(true, SeqCst);
        if i != 0 { bad.push(format!("into_inner returned while {} emission(s) were inside the recorder", i)); }
        if d != 0 { bad.push("into_inner returned a recorder that had already been dropped".into()); }
        held = Some(r);
    } else {
        drop(handle);
    }
    // an emission must never panic: after recovery / handle drop it is ignored and yields an inert handle
    let panicked = hs.into_iter().map(|h| h.join()).filter(|r| r.is_err()).count();
    if panicked != 0 { bad.push(format!("{} emitting thread(s) panicked inside the wrapper (an emission racing recovery / handle drop must be ignored, not panic)", panicked)); }
    OWNER_STARTED.store(false, SeqCst);
    if late.load(SeqCst) { bad.push("a call entered the recorder after it had been dropped".into()); }
    if WRONG.swap(0, SeqCst) != 0 { bad.push("an emission reached the wrapped recorder through a different method than the one called".into()); }
    if reached_after.load(SeqCst) != 0 { bad.push(format!("{} emission(s) that started after into_inner returned reached the recorder", reached_after.load(SeqCst))); }
    if inert_before.load(SeqCst) != 0 { bad.push(format!("{} emission(s) completed before recovery/drop began were inert", inert_before.load(SeqCst))); }
    let d = drops.load(SeqCst);
    if mode == "R" { if d != 0 { bad.push(format!("recovered recorder dropped {} time(s) by the library", d)); } }
    else if d != 1 { bad.push(format!("after the handle was dropped and all emitters finished the recorder was dropped {} time(s)", d)); }
    drop(held);
    if bad.is_empty() { format!("stress ok mode={} emissions={} reached={}", mode, emitters * n, reached.load(SeqCst)) }
    else { bad.truncate(3); format!("stress FAIL {}", bad.join(" | ")) }
}
static OWNER_STARTED: AtomicBool = AtomicBool::new(false);

fn install_failure() -> String {
    // a global recorder exists: install must hand the original recorder back intact
    let _ = metrics::set_global_recorder(metrics::NoopRecorder);
    let drops = Arc::new(AtomicU64::new(0));
    let d = Dbl { inside: Arc::new(AtomicU64::new(0)), drops: drops.clone(), late: Arc::new(AtomicBool::new(false)) };
    match RecoverableRecorder::new(d).install() {
        Ok(_) => "install-ok".to_string(),
        Err(e) => { let r = e.into_inner(); let ok = drops.load(SeqCst) == 0; drop(r); format!("install-err intact={} drops_after={}", ok, drops.load(SeqCst)) }
    }
}

// ---- the REAL install path end to end, one script per process (the global recorder is process-wide):
// `GLOBAL <op> ...`: I<r> = RecoverableRecorder::new(double r).install() on the main thread, J<r> the
// same on a fresh thread, E / F = one emission through the GLOBAL recorder (metrics::with_recorder)
// on the main / a fresh thread, R = into_inner of the live handle, H = drop the live handle.
// tokens: K<r> installed | X<r>[!x] install failed handing recorder r back (intact unless !x) |
// V<r>:<method ok 0/1> emission reached double r | N emission reached nobody | R<r>:<drops> | H<drops of the live double>
thread_local! { static GREACHED: Cell<(u64, u8)> = Cell::new((0, 0)); }
struct GDbl { id: u64, drops: Arc<AtomicU64> }
impl GDbl { fn hit(&self, m: u8) { GREACHED.with(|r| r.set((self.id, m))); } }
impl Drop for GDbl { fn drop(&mut self) { self.drops.fetch_add(1, SeqCst); } }
impl Recorder for GDbl {
    fn describe_counter(&self, _: KeyName, _: Option<Unit>, _: SharedString) { self.hit(1) }
    fn describe_gauge(&self, _: KeyName, _: Option<Unit>, _: SharedString) { self.hit(3) }
    fn describe_histogram(&self, _: KeyName, _: Option<Unit>, _: SharedString) { self.hit(5) }
    fn register_counter(&self, _: &Key, _: &Metadata<'_>) -> Counter { self.hit(2); Counter::noop() }
    fn register_gauge(&self, _: &Key, _: &Metadata<'_>) -> Gauge { self.hit(4); Gauge::noop() }
    fn register_histogram(&self, _: &Key, _: &Metadata<'_>) -> Histogram { self.hit(6); Histogram::noop() }
}
fn gemit(k: usize) -> String {
    GREACHED.with(|r| r.set((0, 0)));
    metrics::with_recorder(|rec| emit(rec, k));
    let (id, m) = GREACHED.with(|r| r.get());
    if id == 0 { "N".to_string() } else { format!("V{}:{}", id, if m as usize == k % 6 + 1 { 1 } else { 0 }) }
}
fn global_script(ops: &str) -> String {
    metrics::__verif::set_callback(None);
    let mut out: Vec<String> = Vec::new();
    let mut live = None; // Option<(RecoveryHandle<GDbl>, drop counter)>: the handle type is not nameable from outside the crate
    let mut k = 0usize;
    for op in ops.split_whitespace() {
        let (c, rest) = op.split_at(1);
        k += 1;
        let tok = match c {
            "I" | "J" => {
                let r: u64 = rest.parse().unwrap();
                let drops = Arc::new(AtomicU64::new(0));
                let d = GDbl { id: r, drops: drops.clone() };
                let res = if c == "I" { RecoverableRecorder::new(d).install() } else { std::thread::spawn(move || RecoverableRecorder::new(d).install()).join().unwrap() };
                match res {
                    Ok(h) => { live = Some((h, drops)); format!("K{}", r) }
                    Err(e) => { let d = e.into_inner(); let ok = d.id == r && drops.load(SeqCst) == 0; let s = format!("X{}{}", d.id, if ok { "" } else { "!x" }); drop(d); s }
                }
            }
            "E" => gemit(k),
            "F" => std::thread::spawn(move || gemit(k)).join().unwrap(),
            "R" => match live.take() { Some((h, drops)) => { let d = h.into_inner(); let s = format!("R{}:{}", d.id, drops.load(SeqCst)); drop(d); s } None => "R-".to_string() },
            "H" => match live.take() { Some((h, drops)) => { drop(h); format!("H{}", drops.load(SeqCst)) } None => "H-".to_string() },
            _ => panic!("bad global op"),
        };
        out.push(tok);
    }
    out.join(" ")
}

// only this property's own yield sites take part in the schedule: instrumented code of other
// properties reached from here (e.g. Key::get_hash under a registry lock) must pass through
fn own_site(site: u32) -> bool { (2001..=2006).contains(&site) }

fn main() {
    sched::set_site_filter(Some(own_site));
    let stdin = std::io::stdin();
    let stdout = std::io::stdout();
    let mut w = std::io::BufWriter::new(stdout.lock());
    for line in stdin.lock().lines() {
        let line = line.unwrap();
        if line.trim().is_empty() { continue; }
        if let Some(rest) = line.trim().strip_prefix("GLOBAL") { writeln!(w, "{}", global_script(rest)).unwrap(); continue; }
        if line.trim() == "INSTALL-FAILURE" { writeln!(w, "{}", install_failure()).unwrap(); continue; }
        if let Some(rest) = line.trim().strip_prefix("STRESS") {
            let v: Vec<&str> = rest.split_whitespace().collect();
            let r = std::panic::catch_unwind(|| stress(v[0].parse().unwrap(), v[1].parse().unwrap(), v[2]));
            writeln!(w, "{}", r.unwrap_or_else(|_| "stress FAIL panic in into_inner/emission".to_string())).unwrap();
            continue;
        }
        writeln!(w, "{}", run_case(&line)).unwrap();
    }
}
