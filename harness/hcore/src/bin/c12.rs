// C12 correspondence driver: Recency + Registry<Key, GenerationalAtomicStorage> with a mock clock.
// stdin: one case per line  `<mask 0..7> <timeout ticks | -> | <op> <op> ...`
//   ops: U<c|g|h><key>:<v>   A<ticks>   O<c|g|h><key>
// stdout: one line per case, one token per op: u | a | x | d | k:<gen>:<v,v,..>
use metrics::{CounterFn, GaugeFn, HistogramFn, Key};
use metrics_util::registry::{GenerationalAtomicStorage, Recency, Registry};
use metrics_util::{MetricKindMask};
use std::io::{BufRead, Write};
use std::sync::atomic::Ordering;
use std::time::Duration;

fn mask_of(bits: u8) -> MetricKindMask {
    let mut m = MetricKindMask::NONE;
    if bits & 1 != 0 { m = m | MetricKindMask::COUNTER; }
    if bits & 2 != 0 { m = m | MetricKindMask::GAUGE; }
    if bits & 4 != 0 { m = m | MetricKindMask::HISTOGRAM; }
    m
}

fn key_of(id: &str) -> Key {
    // vary the construction path with the id (equal keys built differently are C03/C06's business)
    let n: u64 = id.parse().unwrap();
    if n % 2 == 0 { Key::from_name(format!("k{}", n)) } else { Key::from_parts(format!("k{}", n), Vec::<metrics::Label>::new()) }
}

fn run_case(line: &str) -> String {
    let (head, ops) = line.split_once('|').unwrap();
    let mut hs = head.split_whitespace();
    let mask = mask_of(hs.next().unwrap().parse().unwrap());
    let timeout = match hs.next().unwrap() { "-" => None, t => Some(Duration::from_nanos(t.parse().unwrap())) };
    let (clock, mock) = quanta::Clock::mock();
    let registry: Registry<Key, GenerationalAtomicStorage> = Registry::new(GenerationalAtomicStorage::atomic());
    let recency: Recency<Key> = Recency::new(clock, mask, timeout);
    let mut out: Vec<String> = Vec::new();
    for tok in ops.split_whitespace() {
        let (c, rest) = tok.split_at(1);
        match c {
            "A" => { mock.increment(rest.parse::<u64>().unwrap()); out.push("a".into()); }
            "U" => {
                let (k, rest) = rest.split_at(1);
                let (id, v) = rest.split_once(':').unwrap();
                let key = key_of(id);
                let v: u64 = v.parse().unwrap();
                match k {
                    "c" => registry.get_or_create_counter(&key, |c| CounterFn::increment(c, v)),
                    "g" => registry.get_or_create_gauge(&key, |g| GaugeFn::set(g, v as f64)),
                    _ => registry.get_or_create_histogram(&key, |h| HistogramFn::record(h, v as f64)),
                }
                out.push("u".into());
            }
            "O" => {
                let (k, id) = rest.split_at(1);
                let key = key_of(id);
                let tok = match k {
                    "c" => match registry.get_counter(&key) {
                        None => "x".to_string(),
                        Some(h) => {
                            let g = h.get_generation();
                            if !recency.should_store_counter(&key, g, &registry) { "d".into() }
                            else { format!("k:{}:{}", gen_n(g), h.get_inner().load(Ordering::Acquire)) }
                        }
                    },
                    "g" => match registry.get_gauge(&key) {
                        None => "x".to_string(),
                        Some(h) => {
                            let g = h.get_generation();
                            if !recency.should_store_gauge(&key, g, &registry) { "d".into() }
                            else { format!("k:{}:{}", gen_n(g), f64::from_bits(h.get_inner().load(Ordering::Acquire)) as u64) }
                        }
                    },
                    _ => match registry.get_histogram(&key) {
                        None => "x".to_string(),
                        Some(h) => {
                            let g = h.get_generation();
                            if !recency.should_store_histogram(&key, g, &registry) { "d".into() }
                            else {
                                let d = h.get_inner().data();
                                let s: f64 = d.iter().sum();
                                format!("k:{}:{},{}", gen_n(g), d.len(), s as u64)
                            }
                        }
                    },
                };
                out.push(tok);
            }
            _ => panic!("bad op {}", tok),
        }
    }
    out.join(" ")
}

fn gen_n(g: metrics_util::registry::Generation) -> u64 {
    // Generation's field is private; its Debug form is `Generation(n)`
    let s = format!("{:?}", g);
    s.trim_start_matches("Generation(").trim_end_matches(')').parse().unwrap()
}

fn main() {
    let stdin = std::io::stdin();
    let stdout = std::io::stdout();
    let mut w = std::io::BufWriter::new(stdout.lock());
    for line in stdin.lock().lines() {
        let line = line.unwrap();
        if line.trim().is_empty() { continue; }
        writeln!(w, "{}", run_case(&line)).unwrap();
    }
}
