// C12 correspondence driver: Recency + Registry<Key, GenerationalStorage<HookStorage>> with a mock clock.
// stdin: one case per line  `<mask 0..7> <timeout ticks | -> | <op> <op> ...`
//   ops: U<c|g|h><key>:<v>   A<ticks>   O<c|g|h><key>
//        S<c|g|h><key>:<v>[<inner>,<inner>,..]   an update IN FLIGHT through a handle: the handle is obtained
//        (get_or_create), then the update is started and, inside the storage operation -- i.e. inside
//        Generational::with_increment's f(&inner), before the value is written -- the inner ops (O.. / A..)
//        run; then the update completes.
// stdout: one line per case, one token per (flattened) op: u | a | x | d | k:<gen>:<v,v,..>
use metrics::{CounterFn, GaugeFn, HistogramFn, Key};
use metrics_util::registry::{GenerationalStorage, Recency, Registry, Storage};
use metrics_util::storage::AtomicBucket;
use metrics_util::MetricKindMask;
use std::cell::RefCell;
use std::io::{BufRead, Write};
use std::sync::atomic::{AtomicU64, Ordering};
use std::sync::Arc;
use std::time::Duration;

thread_local! { static HOOK: RefCell<Option<Box<dyn FnOnce()>>> = RefCell::new(None); }
fn run_hook() { let h = HOOK.with(|h| h.borrow_mut().take()); if let Some(f) = h { f(); } }

#[derive(Clone)] struct HC(Arc<AtomicU64>);
#[derive(Clone)] struct HG(Arc<AtomicU64>);
#[derive(Clone)] struct HH(Arc<AtomicBucket<f64>>);
impl CounterFn for HC {
    fn increment(&self, v: u64) { run_hook(); self.0.fetch_add(v, Ordering::AcqRel); }
    fn absolute(&self, v: u64) { run_hook(); self.0.fetch_max(v, Ordering::AcqRel); }
}
impl GaugeFn for HG {
    fn increment(&self, v: f64) { run_hook(); let _ = self.0.fetch_update(Ordering::AcqRel, Ordering::Relaxed, |c| Some((f64::from_bits(c) + v).to_bits())); }
    fn decrement(&self, v: f64) { run_hook(); let _ = self.0.fetch_update(Ordering::AcqRel, Ordering::Relaxed, |c| Some((f64::from_bits(c) - v).to_bits())); }
    fn set(&self, v: f64) { run_hook(); self.0.store(v.to_bits(), Ordering::Release); }
}
impl HistogramFn for HH { fn record(&self, v: f64) { run_hook(); self.0.push(v); } }
struct HookStorage;
impl Storage<Key> for HookStorage {
    type Counter = HC; type Gauge = HG; type Histogram = HH;
    fn counter(&self, _: &Key) -> HC { HC(Arc::new(AtomicU64::new(0))) }
    fn gauge(&self, _: &Key) -> HG { HG(Arc::new(AtomicU64::new(0))) }
    fn histogram(&self, _: &Key) -> HH { HH(Arc::new(AtomicBucket::new())) }
}
type Reg = Registry<Key, GenerationalStorage<HookStorage>>;

fn mask_of(bits: u8) -> MetricKindMask {
    let mut m = MetricKindMask::NONE;
    if bits & 1 != 0 { m = m | MetricKindMask::COUNTER; }
    if bits & 2 != 0 { m = m | MetricKindMask::GAUGE; }
    if bits & 4 != 0 { m = m | MetricKindMask::HISTOGRAM; }
    m
}

fn key_of(id: &str) -> Key {
    let n: u64 = id.parse().unwrap();
    if n % 2 == 0 { Key::from_name(format!("k{}", n)) } else { Key::from_parts(format!("k{}", n), Vec::<metrics::Label>::new()) }
}

fn gen_n(g: metrics_util::registry::Generation) -> u64 {
    let s = format!("{:?}", g);
    s.trim_start_matches("Generation(").trim_end_matches(')').parse().unwrap()
}

struct Ctx { registry: &'static Reg, recency: &'static Recency<Key>, mock: Arc<quanta::Mock> }

fn observe(cx: &Ctx, k: &str, id: &str) -> String {
    let key = key_of(id);
    let (registry, recency) = (cx.registry, cx.recency);
    match k {
        "c" => match registry.get_counter(&key) {
            None => "x".to_string(),
            Some(h) => { let g = h.get_generation();
                if !recency.should_store_counter(&key, g, registry) { "d".into() }
                else { format!("k:{}:{}", gen_n(g), h.get_inner().0.load(Ordering::Acquire)) } }
        },
        "g" => match registry.get_gauge(&key) {
            None => "x".to_string(),
            Some(h) => { let g = h.get_generation();
                if !recency.should_store_gauge(&key, g, registry) { "d".into() }
                else { format!("k:{}:{}", gen_n(g), f64::from_bits(h.get_inner().0.load(Ordering::Acquire)) as u64) } }
        },
        _ => match registry.get_histogram(&key) {
            None => "x".to_string(),
            Some(h) => { let g = h.get_generation();
                if !recency.should_store_histogram(&key, g, registry) { "d".into() }
                else { let d = h.get_inner().0.data(); let s: f64 = d.iter().sum(); format!("k:{}:{},{}", gen_n(g), d.len(), s as u64) } }
        },
    }
}

fn simple(cx: &Ctx, tok: &str) -> String {
    let (c, rest) = tok.split_at(1);
    match c {
        "A" => { cx.mock.increment(rest.parse::<u64>().unwrap()); "a".into() }
        "O" => { let (k, id) = rest.split_at(1); observe(cx, k, id) }
        _ => panic!("bad inner op {}", tok),
    }
}

fn run_case(line: &str) -> String {
    let (head, ops) = line.split_once('|').unwrap();
    let mut hs = head.split_whitespace();
    let mask = mask_of(hs.next().unwrap().parse().unwrap());
    let timeout = match hs.next().unwrap() { "-" => None, "M" => Some(Duration::MAX), t => Some(Duration::from_nanos(t.parse().unwrap())) };
    let (clock, mock) = quanta::Clock::mock();
    // leaked per case: the in-flight hook needs 'static access (a few hundred bytes per case)
    let registry: &'static Reg = Box::leak(Box::new(Registry::new(GenerationalStorage::new(HookStorage))));
    let recency: &'static Recency<Key> = Box::leak(Box::new(Recency::new(clock, mask, timeout)));
    let cx = Arc::new(Ctx { registry, recency, mock });
    let mut out: Vec<String> = Vec::new();
    for tok in ops.split_whitespace() {
        let (c, rest) = tok.split_at(1);
        match c {
            "A" | "O" => out.push(simple(&cx, tok)),
            "U" => {
                let (k, rest) = rest.split_at(1);
                let (id, v) = rest.split_once(':').unwrap();
                let key = key_of(id);
                let v: u64 = v.parse().unwrap();
                match k {
                    "c" => registry.get_or_create_counter(&key, |c| CounterFn::increment(c, v)),
                    "g" => registry.get_or_create_gauge(&key, |g| GaugeFn::set(g, v as f64)),
                    _ => registry.get_or_create_histogram(&key, |h| HistogramFn::record(h, v as f64)),
                }
                out.push("u".into());
            }
            "S" => {
                let (k, rest) = rest.split_at(1);
                let (idv, inner) = rest.split_once('[').unwrap();
                let inner = inner.trim_end_matches(']').to_string();
                let (id, v) = idv.split_once(':').unwrap();
                let key = key_of(id);
                let v: u64 = v.parse().unwrap();
                let inner_out: Arc<std::sync::Mutex<Vec<String>>> = Arc::new(std::sync::Mutex::new(Vec::new()));
                let (cx2, io2) = (cx.clone(), inner_out.clone());
                let hook: Box<dyn FnOnce()> = Box::new(move || {
                    for t in inner.split(',').filter(|t| !t.is_empty()) { let r = simple(&cx2, t); io2.lock().unwrap().push(r); }
                });
                out.push("u".into()); // Register
                match k {
                    "c" => { let h = registry.get_or_create_counter(&key, |c| c.clone()); HOOK.with(|x| *x.borrow_mut() = Some(hook)); CounterFn::increment(&h, v); }
                    "g" => { let h = registry.get_or_create_gauge(&key, |g| g.clone()); HOOK.with(|x| *x.borrow_mut() = Some(hook)); GaugeFn::set(&h, v as f64); }
                    _ => { let h = registry.get_or_create_histogram(&key, |h| h.clone()); HOOK.with(|x| *x.borrow_mut() = Some(hook)); HistogramFn::record(&h, v as f64); }
                }
                out.extend(inner_out.lock().unwrap().drain(..));
                out.push("u".into()); // Complete
            }
            _ => panic!("bad op {}", tok),
        }
    }
    out.join(" ")
}

fn main() {
    let stdin = std::io::stdin();
    let stdout = std::io::stdout();
    let mut w = std::io::BufWriter::new(stdout.lock());
    for line in stdin.lock().lines() {
        let line = line.unwrap();
        if line.trim().is_empty() { continue; }
        // a panic of the code under test is an outcome ("panic"), not a crash of the driver
        let r = std::panic::catch_unwind(|| run_case(&line)).unwrap_or_else(|_| "panic".to_string());
        writeln!(w, "{}", r).unwrap();
    }
}
