// C06 driver: operation histories and schedule replay on the real metrics_util::registry::Registry<Key, S>
// with a counting storage double.
//
// stdin, one case per line:  `<prog>|<prog>|... ; <tid> <tid> ...`
//   prog = ops separated by ','   (one thread per prog; a single prog + empty schedule = sequential history)
//   op   = C<k><class>:<variant>   get_or_create_<kind>         k = c | g | h
//        | G<k><class>:<variant>   get_<kind>
//        | D<k><class>:<variant>   delete_<kind>
//        | R<k>+<class>+<class>..  retain_<kind>(keep exactly the listed classes)
//        | X                       clear
//        | V<k>                    visit_<kind>
//        | H<k>                    get_<kind>_handles
//   `TABLE <nclasses> <nvariants>` prints the shard count and every pool key's get_hash().
// stdout: `<t>:<site> ... ; <res>,..|<res>,.. ; <done> ; <kind>:<class>:<sid> ... (constructions, in order) ;
//          <final listing c> / <g> / <h> ; <class>:<variant>:<hash>,..|.. (per op key, '-' if none) ; <shards>`
//   res = S<sid> | O<sid> | N | T | F | U | L<class>:<sid>+... (sorted)
//
// Keys: class c = (name n<c%4>, label set c/4); different classes are different keys. Variants of a class
// are ==-equal keys built differently (owned / static+lazy hash / Arc name + reversed labels /
// with_extra_labels rotation / clone of an unhashed static key / from_static_labels reversed); label sets
// include two labels sharing a name (== in either order), identical labels, and same-name pairs inside
// three labels (NOT == when swapped: separate classes whose variants keep the label order).
use metrics::{CounterFn, GaugeFn, HistogramFn, Key, Label, SharedString};
use metrics_util::registry::{Registry, Storage};
use std::collections::HashMap;
use std::io::{BufRead, Write};
use std::sync::atomic::{AtomicU64, Ordering::SeqCst};
use std::sync::{Arc, Mutex, OnceLock};

struct Cell {
    id: u64,
}
#[derive(Clone)]
struct H(Arc<Cell>);
impl CounterFn for H {
    fn increment(&self, _: u64) {}
    fn absolute(&self, _: u64) {}
}
impl GaugeFn for H {
    fn increment(&self, _: f64) {}
    fn decrement(&self, _: f64) {}
    fn set(&self, _: f64) {}
}
impl HistogramFn for H {
    fn record(&self, _: f64) {}
}

struct Dbl {
    next: AtomicU64,
    log: Arc<Mutex<Vec<(char, u32, u64)>>>,
}
impl Dbl {
    fn mk(&self, kind: char, key: &Key) -> H {
        let id = self.next.fetch_add(1, SeqCst);
        self.log.lock().unwrap().push((kind, class_of(key), id));
        H(Arc::new(Cell { id }))
    }
}
// all three storage types are the same type, so that confusing the kinds inside the registry would
// still compile
impl Storage<Key> for Dbl {
    type Counter = H;
    type Gauge = H;
    type Histogram = H;
    fn counter(&self, key: &Key) -> H {
        self.mk('c', key)
    }
    fn gauge(&self, key: &Key) -> H {
        self.mk('g', key)
    }
    fn histogram(&self, key: &Key) -> H {
        self.mk('h', key)
    }
}

struct ClassInfo {
    name: &'static str,
    labels: &'static [Label],
    rev: &'static [Label],
    pairs: Vec<(String, String)>,
}

fn pools() -> &'static Mutex<(HashMap<u32, &'static ClassInfo>, HashMap<String, u32>)> {
    static P: OnceLock<Mutex<(HashMap<u32, &'static ClassInfo>, HashMap<String, u32>)>> = OnceLock::new();
    P.get_or_init(|| Mutex::new((HashMap::new(), HashMap::new())))
}

fn label_pairs(set: u32) -> Vec<(String, String)> {
    let p = |a: &str, b: &str| (a.to_string(), b.to_string());
    match set {
        0 => vec![],
        1 => vec![p("a", "1")],
        2 => vec![p("a", "1"), p("b", "2")],
        3 => vec![p("a", "1"), p("b", "2"), p("c", "3")],
        4 => vec![p("a", "2")],
        5 => vec![p("b", "2"), p("a", "2")],
        6 => vec![p("a", ""), p("", "a")],
        // two labels sharing a NAME, different values: == in either order (PartialEq's two-label arm)
        7 => vec![p("host", "a"), p("host", "b")],
        // two identical labels
        8 => vec![p("a", "1"), p("a", "1")],
        // same-name pair inside a 3-label key: NOT == when the pair is swapped (stable sort by name), so the
        // two orders are two classes and their variants never reorder the labels
        9 => vec![p("h", "a"), p("h", "b"), p("z", "1")],
        10 => vec![p("h", "b"), p("h", "a"), p("z", "1")],
        11 => vec![p("host", "b"), p("host", "c")],
        l => {
            let mut v = vec![p("a", &l.to_string()), p("b", "x"), p("c", "y"), p("d", "z")];
            if l % 2 == 0 {
                for i in 0..6 {
                    v.push(p(&format!("e{}", i), "w"));
                }
            }
            v
        }
    }
}

fn permutable(pairs: &[(String, String)]) -> bool {
    // may the labels be supplied in another order without changing the key (==)?
    let mut names: Vec<&String> = pairs.iter().map(|(a, _)| a).collect();
    names.sort();
    names.dedup();
    pairs.len() <= 2 || names.len() == pairs.len()
}

fn canon(name: &str, pairs: &[(String, String)]) -> String {
    // mirrors Key's ==: two labels compare as an unordered pair; three or more after a STABLE sort by name
    let mut ps: Vec<(String, String)> = pairs.to_vec();
    if ps.len() <= 2 { ps.sort(); } else { ps.sort_by(|a, b| a.0.cmp(&b.0)); }
    let v: Vec<String> = ps.iter().map(|(a, b)| format!("{}\u{1}{}", a, b)).collect();
    format!("{}\u{2}{}", name, v.join("\u{3}"))
}

// ---- storage-aliased keys: names, label keys and label values that are SLICES of one leaked static buffer.
// Families (class id -> contents; the class is the CONTENTS, the storage relation is the variant):
//   200000+i  name = BUF[..1+i]                      prefix family: same start, different lengths
//   210000+i  name = "al", one label (BUF[..1+i%5], BUF[..1+i/5])   prefixes as label key / value
//   220000+i  name = BUF[i+1..i+9]                   overlapping windows, different starts
// Variants: 0 borrowed slices of buffer A; 1 owned copies; 2 Arc name + owned labels; 3 borrowed slices of
// buffer B (same contents, different addresses: twins); 4 clone of 0; 5 owned name + borrowed labels.
const ALIAS0: u32 = 200_000;
const ALIAS_NA: u32 = 3000;
const ALIAS_NL: u32 = 2000;
const ALIAS_NO: u32 = 1000;
fn alias_bufs() -> &'static (&'static str, &'static str) {
    static B: OnceLock<(&'static str, &'static str)> = OnceLock::new();
    B.get_or_init(|| {
        let mut x: u64 = 0x2545F4914F6CDD1D;
        let mut sbuf = String::new();
        while sbuf.len() < (ALIAS_NA + ALIAS_NO + 64) as usize {
            x ^= x << 13; x ^= x >> 7; x ^= x << 17;
            let ch = b"abcdefghijklmnopqrstuvwxyz0123456789._"[(x % 38) as usize] as char;
            sbuf.push(ch);
        }
        let a: &'static str = Box::leak(sbuf.clone().into_boxed_str());
        let b: &'static str = Box::leak(sbuf.into_boxed_str());
        (a, b)
    })
}
fn alias_parts(c: u32, twin: bool) -> (&'static str, Vec<(&'static str, &'static str)>) {
    let (a, b) = *alias_bufs();
    let buf = if twin { b } else { a };
    let i = (c - ALIAS0) as usize;
    if i < 10_000 { (&buf[..1 + i], vec![]) }
    else if i < 20_000 { let j = i - 10_000; ("al", vec![(&buf[..1 + j % 5], &buf[..1 + j / 5])]) }
    else { let j = i - 20_000; (&buf[j + 1..j + 9], vec![]) }
}
fn alias_info(c: u32, twin: bool) -> ClassInfo {
    let (name, ls) = alias_parts(c, twin);
    let v: Vec<Label> = ls.iter().map(|(k, v)| Label::from_static_parts(k, v)).collect();
    let labels: &'static [Label] = Box::leak(v.into_boxed_slice());
    ClassInfo { name, labels, rev: labels, pairs: ls.iter().map(|(k, v)| (k.to_string(), v.to_string())).collect() }
}

fn class_info(c: u32) -> &'static ClassInfo {
    let mut g = pools().lock().unwrap();
    if let Some(ci) = g.0.get(&c) {
        return ci;
    }
    if c >= ALIAS0 && c < 10_000_000 {
        let ci: &'static ClassInfo = Box::leak(Box::new(alias_info(c, false)));
        let tw: &'static ClassInfo = Box::leak(Box::new(alias_info(c, true)));
        g.1.insert(canon(ci.name, &ci.pairs), c);
        g.0.insert(c, ci);
        g.0.insert(c + 10_000_000, tw);
        return ci;
    }
    // classes >= 100000 outside the aliased families (the key-race engine uses 20000000+) are "fresh" classes: a name of their own, label set by c % 4
    let (name, pairs): (&'static str, Vec<(String, String)>) = if c >= 100_000 {
        (Box::leak(format!("s{}", c).into_boxed_str()), label_pairs([0u32, 2, 7, 3][(c % 4) as usize]))
    } else {
        (Box::leak(format!("n{}", c % 4).into_boxed_str()), label_pairs(c / 4))
    };
    let mk = |ps: &[(String, String)]| -> &'static [Label] {
        let v: Vec<Label> = ps
            .iter()
            .map(|(a, b)| {
                let a: &'static str = Box::leak(a.clone().into_boxed_str());
                let b: &'static str = Box::leak(b.clone().into_boxed_str());
                Label::from_static_parts(a, b)
            })
            .collect();
        Box::leak(v.into_boxed_slice())
    };
    let labels = mk(&pairs);
    let mut rp = pairs.clone();
    if permutable(&pairs) { rp.reverse(); }
    let rev = mk(&rp);
    let ci: &'static ClassInfo = Box::leak(Box::new(ClassInfo { name, labels, rev, pairs: pairs.clone() }));
    g.1.insert(canon(name, &pairs), c);
    g.0.insert(c, ci);
    ci
}

fn class_of(key: &Key) -> u32 {
    let pairs: Vec<(String, String)> = key.labels().map(|l| (l.key().to_string(), l.value().to_string())).collect();
    let s = canon(key.name(), &pairs);
    pools().lock().unwrap().1.get(&s).copied().unwrap_or(u32::MAX)
}

fn build_key(c: u32, v: u32) -> Key {
    let ci = class_info(c);
    let owned = |ps: &[(String, String)]| -> Vec<Label> { ps.iter().map(|(a, b)| Label::new(a.clone(), b.clone())).collect() };
    if c >= ALIAS0 && c < 10_000_000 {
        let stat = |ci: &'static ClassInfo| if ci.labels.is_empty() { Key::from_static_name(ci.name) } else { Key::from_static_parts(ci.name, ci.labels) };
        return match v % 6 {
            0 => stat(ci),
            1 => Key::from_parts(ci.name.to_string(), owned(&ci.pairs)),
            2 => { let a: Arc<str> = Arc::from(ci.name); Key::from_parts(SharedString::from(a), owned(&ci.pairs)) }
            3 => { let tw = *pools().lock().unwrap().0.get(&(c + 10_000_000)).unwrap(); stat(tw) }
            4 => stat(ci).clone(),
            _ => Key::from_static_labels(ci.name.to_string(), ci.labels),
        };
    }
    match v % 6 {
        0 => Key::from_parts(ci.name.to_string(), owned(&ci.pairs)),
        1 => Key::from_static_parts(ci.name, ci.labels),
        2 => {
            let a: Arc<str> = Arc::from(ci.name);
            let mut ps = ci.pairs.clone();
            if permutable(&ps) { ps.reverse(); }
            Key::from_parts(SharedString::from(a), owned(&ps))
        }
        3 => {
            let mut ps = ci.pairs.clone();
            if !ps.is_empty() && permutable(&ps) {
                ps.rotate_left(1);
            }
            Key::from_name(ci.name.to_string()).with_extra_labels(owned(&ps))
        }
        4 => Key::from_static_parts(ci.name, ci.labels).clone(),
        _ => Key::from_static_labels(ci.name.to_string(), ci.rev),
    }
}

#[derive(Clone)]
enum Op {
    Create(char, u32, u32),
    CreateP(char, u32, u32),   // get_or_create whose closure panics
    Get(char, u32, u32),
    Delete(char, u32, u32),
    Retain(char, Vec<u32>),
    Clear,
    Visit(char),
    Handles(char),
}

fn parse_op(t: &str) -> Op {
    let t = t.trim();
    let b = t.as_bytes();
    let kind = if b.len() > 1 { b[1] as char } else { 'c' };
    let cv = |s: &str| -> (u32, u32) {
        let (c, v) = s.split_once(':').unwrap();
        (c.parse().unwrap(), v.parse().unwrap())
    };
    match b[0] {
        b'C' => { let (c, v) = cv(&t[2..]); Op::Create(kind, c, v) }
        b'P' => { let (c, v) = cv(&t[2..]); Op::CreateP(kind, c, v) }
        b'G' => { let (c, v) = cv(&t[2..]); Op::Get(kind, c, v) }
        b'D' => { let (c, v) = cv(&t[2..]); Op::Delete(kind, c, v) }
        b'R' => Op::Retain(kind, t[2..].split('+').filter(|x| !x.is_empty()).map(|x| x.parse().unwrap()).collect()),
        b'X' => Op::Clear,
        b'V' => Op::Visit(kind),
        b'H' => Op::Handles(kind),
        _ => panic!("bad op {}", t),
    }
}

fn listing_tok(mut v: Vec<(u32, u64)>) -> String {
    v.sort();
    let s: Vec<String> = v.iter().map(|(c, s)| format!("{}:{}", c, s)).collect();
    s.join("+")
}

fn visit(reg: &Registry<Key, Dbl>, kind: char) -> Vec<(u32, u64)> {
    let mut acc = Vec::new();
    match kind {
        'c' => reg.visit_counters(|k, h| acc.push((class_of(k), h.0.id))),
        'g' => reg.visit_gauges(|k, h| acc.push((class_of(k), h.0.id))),
        _ => reg.visit_histograms(|k, h| acc.push((class_of(k), h.0.id))),
    }
    acc
}

fn run_op(reg: &Registry<Key, Dbl>, op: &Op, key: Option<&Key>) -> String {
    match op {
        Op::Create(kind, _, _) => {
            let k = key.unwrap();
            let h = match kind {
                'c' => reg.get_or_create_counter(k, |h| h.clone()),
                'g' => reg.get_or_create_gauge(k, |h| h.clone()),
                _ => reg.get_or_create_histogram(k, |h| h.clone()),
            };
            format!("S{}", h.0.id)
        }
        Op::CreateP(kind, _, _) => {
            // the closure notes which storage it was handed, then panics; the unwinding call is caught here
            let k = key.unwrap();
            let seen = std::cell::Cell::new(u64::MAX);
            let r = std::panic::catch_unwind(std::panic::AssertUnwindSafe(|| match kind {
                'c' => reg.get_or_create_counter(k, |h| { seen.set(h.0.id); panic!("closure"); }),
                'g' => reg.get_or_create_gauge(k, |h| { seen.set(h.0.id); panic!("closure"); }),
                _ => reg.get_or_create_histogram(k, |h| { seen.set(h.0.id); panic!("closure"); }),
            }));
            if r.is_err() && seen.get() != u64::MAX { format!("Q{}", seen.get()) } else { "Q!".to_string() }
        }
        Op::Get(kind, _, _) => {
            let k = key.unwrap();
            let h = match kind {
                'c' => reg.get_counter(k),
                'g' => reg.get_gauge(k),
                _ => reg.get_histogram(k),
            };
            match h { Some(h) => format!("O{}", h.0.id), None => "N".to_string() }
        }
        Op::Delete(kind, _, _) => {
            let k = key.unwrap();
            let b = match kind {
                'c' => reg.delete_counter(k),
                'g' => reg.delete_gauge(k),
                _ => reg.delete_histogram(k),
            };
            if b { "T".to_string() } else { "F".to_string() }
        }
        Op::Retain(kind, keep) => {
            match kind {
                'c' => reg.retain_counters(|k, _| keep.contains(&class_of(k))),
                'g' => reg.retain_gauges(|k, _| keep.contains(&class_of(k))),
                _ => reg.retain_histograms(|k, _| keep.contains(&class_of(k))),
            }
            "U".to_string()
        }
        Op::Clear => { reg.clear(); "U".to_string() }
        Op::Visit(kind) => format!("L{}", listing_tok(visit(reg, *kind))),
        Op::Handles(kind) => {
            let v: Vec<(u32, u64)> = match kind {
                'c' => reg.get_counter_handles().iter().map(|(k, h)| (class_of(k), h.0.id)).collect(),
                'g' => reg.get_gauge_handles().iter().map(|(k, h)| (class_of(k), h.0.id)).collect(),
                _ => reg.get_histogram_handles().iter().map(|(k, h)| (class_of(k), h.0.id)).collect(),
            };
            format!("L{}", listing_tok(v))
        }
    }
}

fn run_case(line: &str) -> String {
    let (progs, sched) = line.split_once(';').unwrap();
    let progs: Vec<Vec<Op>> = progs
        .trim()
        .split('|')
        .map(|p| p.split(',').filter(|x| !x.trim().is_empty()).map(parse_op).collect())
        .collect();
    let sched: Vec<usize> = sched.split_whitespace().map(|s| s.parse().unwrap()).collect();
    // keys are built up front (NOT hashed: the registry is the first to call get_hash on them)
    let keys: Vec<Vec<Option<Key>>> = progs
        .iter()
        .map(|p| {
            p.iter()
                .map(|o| match o {
                    Op::Create(_, c, v) | Op::CreateP(_, c, v) | Op::Get(_, c, v) | Op::Delete(_, c, v) => Some(build_key(*c, *v)),
                    Op::Retain(_, keep) => { for c in keep { class_info(*c); } None }
                    _ => None,
                })
                .collect()
        })
        .collect();
    let keys = Arc::new(keys);
    let progs = Arc::new(progs);
    let slog: Arc<Mutex<Vec<(char, u32, u64)>>> = Arc::new(Mutex::new(Vec::new()));
    let reg = Arc::new(Registry::new(Dbl { next: AtomicU64::new(0), log: slog.clone() }));
    let results: Arc<Mutex<Vec<Vec<String>>>> = Arc::new(Mutex::new(vec![Vec::new(); progs.len()]));
    let mut threads: Vec<Box<dyn FnOnce() + Send>> = Vec::new();
    for tid in 0..progs.len() {
        let (progs, keys, reg, results) = (progs.clone(), keys.clone(), reg.clone(), results.clone());
        threads.push(Box::new(move || {
            for (i, op) in progs[tid].iter().enumerate() {
                let tok = run_op(&reg, op, keys[tid][i].as_ref());
                results.lock().unwrap()[tid].push(tok);
            }
        }));
    }
    let out = sched::run(&sched, threads, 200000);
    let res = results.lock().unwrap().clone();
    let trace: Vec<String> = out.steps.iter().map(|(t, s)| format!("{}:{}", t, s)).collect();
    let rs: Vec<String> = res.iter().map(|r| r.join(",")).collect();
    let fin: Vec<String> = ['c', 'g', 'h'].iter().map(|k| listing_tok(visit(&reg, *k))).collect();
    let hs: Vec<String> = progs
        .iter()
        .enumerate()
        .map(|(t, p)| {
            p.iter()
                .enumerate()
                .map(|(i, o)| match (o, keys[t][i].as_ref()) {
                    (Op::Create(_, c, v), Some(k)) | (Op::CreateP(_, c, v), Some(k)) | (Op::Get(_, c, v), Some(k)) | (Op::Delete(_, c, v), Some(k)) => {
                        format!("{}:{}:{}", c, v, k.get_hash())
                    }
                    _ => "-".to_string(),
                })
                .collect::<Vec<String>>()
                .join(",")
        })
        .collect();
    let shards = reg.__verif_shard_count();
    // constructions: the storage double's log (kind, class of the key handed to Storage::<kind>, id)
    let log = slog.lock().unwrap().iter().map(|(k, c, s)| format!("{}:{}:{}", k, c, s)).collect::<Vec<String>>().join(" ");
    format!(
        "{} ; {} ; {} ; {} ; {} ; {} ; {}",
        trace.join(" "),
        rs.join("|"),
        if out.all_finished { 1 } else { 0 },
        log,
        fin.join(" / "),
        hs.join("|"),
        shards
    )
}

fn table(n: u32, nv: u32) -> String {
    let reg: Registry<Key, Dbl> = Registry::new(Dbl { next: AtomicU64::new(0), log: Arc::new(Mutex::new(Vec::new())) });
    let mut v = Vec::new();
    for c in 0..n {
        for x in 0..nv {
            v.push(format!("{}:{}:{}", c, x, build_key(c, x).get_hash()));
        }
    }
    // generator sanity (NOT the property): variants of one class must be ==, different classes must not be
    let mut eqbad = Vec::new();
    let reps: Vec<Key> = (0..n).map(|c| build_key(c, 0)).collect();
    for c in 0..n {
        for x in 0..nv {
            let kx = build_key(c, x);
            if kx != reps[c as usize] || reps[c as usize] != kx || class_of(&kx) != c { eqbad.push(format!("{}:{}", c, x)); }
        }
        for d in 0..c {
            if reps[c as usize] == reps[d as usize] { eqbad.push(format!("{}={}", c, d)); }
        }
    }
    format!("TABLE {} ; {} ; {}", reg.__verif_shard_count(), v.join(" "), eqbad.join(" "))
}

fn alias_classes() -> Vec<u32> {
    (0..ALIAS_NA).map(|i| ALIAS0 + i).chain((0..ALIAS_NL).map(|i| ALIAS0 + 10_000 + i)).chain((0..ALIAS_NO).map(|i| ALIAS0 + 20_000 + i)).collect()
}

// hashes of the aliased key families (variant 0); sanity of the POOL by contents only (never by ==, which is
// what is under test): two classes with the same contents, or a variant whose contents differ, are generator bugs
fn atable() -> String {
    let mut v = Vec::new();
    let mut bad = Vec::new();
    let mut seen: HashMap<String, u32> = HashMap::new();
    for c in alias_classes() {
        let ci = class_info(c);
        if let Some(d) = seen.insert(canon(ci.name, &ci.pairs), c) { bad.push(format!("{}={}", c, d)); }
        for x in 0..6 { if class_of(&build_key(c, x)) != c { bad.push(format!("{}:{}", c, x)); } }
        v.push(format!("{}:{}", c, build_key(c, 0).get_hash()));
    }
    format!("ATABLE ; {} ; {}", v.join(" "), bad.join(" "))
}

// Bulk history over thousands of storage-aliased keys, judged by a reference single map keyed by CONTENTS
// (kind, class): get_or_create returns the class's own storage (a new one iff the class is absent), get / delete
// are truthful, visit / handles list each live class exactly once with its own storage, nothing is shared
// between classes or kinds. Sequential; the interesting part is which keys meet in one shard with one hashbrown
// tag (top 7 hash bits) while both are live: those pairs are counted.
fn alias_bulk(seed: u64) -> String {
    metrics::__verif::set_callback(None);
    let slog: Arc<Mutex<Vec<(char, u32, u64)>>> = Arc::new(Mutex::new(Vec::new()));
    let reg: Registry<Key, Dbl> = Registry::new(Dbl { next: AtomicU64::new(0), log: slog.clone() });
    let mask = (reg.__verif_shard_count() - 1) as u64;
    let mut x: u64 = seed.wrapping_mul(0x9E3779B97F4A7C15) | 1;
    let mut rnd = move || { x ^= x << 13; x ^= x >> 7; x ^= x << 17; x };
    let mut errs: Vec<String> = Vec::new();
    let mut nfail = 0u64;
    let classes = alias_classes();
    let mut live: HashMap<(char, u32), u64> = HashMap::new();      // the reference map
    let mut modes = [0u64; 6];
    let mut ops = 0u64;
    // which variant builds the key of an operation: mostly borrowed slices of the one buffer
    let pickv = |r: u64| -> u32 { [0u32, 0, 0, 4, 3, 1, 2, 5][(r % 8) as usize] };
    let kinds = ['c', 'g', 'h'];
    // phase A: every class created once per kind-of-its-family through an aliasing variant, in random order
    let mut order: Vec<u32> = classes.clone();
    for i in (1..order.len()).rev() { let j = (rnd() % (i as u64 + 1)) as usize; order.swap(i, j); }
    let kind_of = |c: u32| kinds[((c - ALIAS0) / 10_000) as usize % 3];
    for &c in &order {
        let kind = kind_of(c);
        let v = pickv(rnd()); modes[v as usize] += 1;
        let h = kr_goc(&reg, kind, &build_key(c, v)); ops += 1;
        match live.get(&(kind, c)) {
            Some(id) => if *id != h.0.id { nfail += 1; if errs.len() < 4 { errs.push(format!("create {}{}: got storage {} but the class already has {}", kind, c, h.0.id, id)); } },
            None => {
                if let Some(((k2, c2), _)) = live.iter().find(|(_, id)| **id == h.0.id) {
                    nfail += 1; if errs.len() < 4 { errs.push(format!("create of absent {}{} (variant {}) returned storage {} which belongs to the different key {}{}", kind, c, v, h.0.id, k2, c2)); }
                }
                live.insert((kind, c), h.0.id);
            }
        }
    }
    // phase B: random gets / re-creates / deletes / cross-kind probes through all variants
    let nb = classes.len() * 2;
    for _ in 0..nb {
        let c = classes[(rnd() % classes.len() as u64) as usize];
        let kind = if rnd() % 8 == 0 { kinds[(rnd() % 3) as usize] } else { kind_of(c) };
        let v = pickv(rnd()); modes[v as usize] += 1;
        let key = build_key(c, v);
        ops += 1;
        match rnd() % 8 {
            0..=3 => {
                let got = kr_get(&reg, kind, &key).map(|h| h.0.id);
                let want = live.get(&(kind, c)).copied();
                if got != want { nfail += 1; if errs.len() < 4 { errs.push(format!("get {}{} (variant {}) returned {:?}, the class's storage is {:?}", kind, c, v, got, want)); } }
            }
            4..=5 => {
                let h = kr_goc(&reg, kind, &key);
                match live.get(&(kind, c)) {
                    Some(id) => if *id != h.0.id { nfail += 1; if errs.len() < 4 { errs.push(format!("get_or_create {}{} (variant {}) returned {} not the class's storage {}", kind, c, v, h.0.id, id)); } },
                    None => {
                        if live.values().any(|id| *id == h.0.id) { nfail += 1; if errs.len() < 4 { errs.push(format!("get_or_create of absent {}{} (variant {}) returned another key's storage {}", kind, c, v, h.0.id)); } }
                        live.insert((kind, c), h.0.id);
                    }
                }
            }
            _ => {
                let b = kr_del(&reg, kind, &key);
                let want = live.remove(&(kind, c)).is_some();
                if b != want { nfail += 1; if errs.len() < 4 { errs.push(format!("delete {}{} (variant {}) returned {} but the class was {}", kind, c, v, b, if want { "present" } else { "absent" })); } }
            }
        }
    }
    // quiescent listing: exactly the reference map, each class once
    for kind in kinds {
        let mut v = visit(&reg, kind); v.sort();
        let mut want: Vec<(u32, u64)> = live.iter().filter(|((k, _), _)| *k == kind).map(|((_, c), id)| (*c, *id)).collect(); want.sort();
        if v != want { nfail += 1; if errs.len() < 4 { errs.push(format!("visit of {} lists {} entries, the reference map {} (first difference: {:?})", kind, v.len(), want.len(), v.iter().zip(want.iter()).find(|(a, b)| a != b))); } }
        let mut hl: Vec<(u32, u64)> = match kind {
            'c' => reg.get_counter_handles().iter().map(|(k, h)| (class_of(k), h.0.id)).collect(),
            'g' => reg.get_gauge_handles().iter().map(|(k, h)| (class_of(k), h.0.id)).collect(),
            _ => reg.get_histogram_handles().iter().map(|(k, h)| (class_of(k), h.0.id)).collect(),
        };
        hl.sort();
        if hl != want { nfail += 1; if errs.len() < 4 { errs.push(format!("handles listing of {} has {} entries, the reference map {}", kind, hl.len(), want.len())); } }
    }
    // how many same-start (prefix) pairs met in one shard with one tag (both created in the same kind)
    let mut buckets: HashMap<(char, u64, u64, u32), u64> = HashMap::new();   // (kind, shard, tag, family)
    for &c in &classes {
        let h = build_key(c, 0).get_hash();
        *buckets.entry((kind_of(c), h & mask, h >> 57, (c - ALIAS0) / 10_000)).or_insert(0) += 1;
    }
    let mut pairs = [0u64; 3];
    for ((_, _, _, fam), n) in buckets.iter() { pairs[*fam as usize] += n * (n - 1) / 2; }
    format!("ALIAS ok={} failures={} ops={} keys={} (prefix names {}, prefix labels {}, overlapping windows {}) built: borrowed {} clone-of-borrowed {} twin-buffer {} owned {} arc {} owned-name+borrowed-labels {} ; same-shard same-tag pairs: prefix names {} prefix labels {} windows {} ; {}",
            if nfail == 0 { 1 } else { 0 }, nfail, ops, classes.len(), ALIAS_NA, ALIAS_NL, ALIAS_NO,
            modes[0], modes[4], modes[3], modes[1], modes[2], modes[5], pairs[0], pairs[1], pairs[2], errs.join(" | "))
}

// Free-running stress (no scheduler: real threads race on the shard locks).
// `nt` creator threads x `iters` get_or_create over 4 never-deleted classes (random kind, random variant:
// ==-equal keys built differently) interleaved with get / visit / handles; one extra thread keeps
// creating / deleting / retaining-away 2 OTHER classes (its retain predicate keeps the 4 stable classes).
// Checked: every handle a thread ever gets for a (kind, stable class) is Arc::ptr_eq to its first one
// and has the same id in all threads; exactly one construction per (kind, stable class); no listing
// ever shows a class twice or loses a stable class this thread already created; churn classes:
// constructions = successful removals + live at the end.
fn stress(nt: usize, iters: usize, seed: u64) -> String {
    metrics::__verif::set_callback(None);
    let slog: Arc<Mutex<Vec<(char, u32, u64)>>> = Arc::new(Mutex::new(Vec::new()));
    let reg = Arc::new(Registry::new(Dbl { next: AtomicU64::new(0), log: slog.clone() }));
    let stable: [u32; 4] = [1, 6, 13, 40];
    let churn: [u32; 2] = [2, 17];
    for c in stable.iter().chain(churn.iter()) { class_info(*c); }
    let errors: Arc<Mutex<Vec<String>>> = Arc::new(Mutex::new(Vec::new()));
    let firsts: Arc<Mutex<HashMap<(char, u32), u64>>> = Arc::new(Mutex::new(HashMap::new()));
    let removed = Arc::new(AtomicU64::new(0));
    let ops = Arc::new(AtomicU64::new(0));
    let stop = Arc::new(std::sync::atomic::AtomicBool::new(false));
    let mut hs = Vec::new();
    for t in 0..nt {
        let (reg, errors, firsts, ops) = (reg.clone(), errors.clone(), firsts.clone(), ops.clone());
        hs.push(std::thread::spawn(move || {
            let mut x: u64 = seed.wrapping_mul(0x9E3779B97F4A7C15).wrapping_add(t as u64 * 7919 + 1) | 1;
            let mut rnd = move || { x ^= x << 13; x ^= x >> 7; x ^= x << 17; x };
            let mut mine: HashMap<(char, u32), H> = HashMap::new();
            let err = |m: String| { let mut e = errors.lock().unwrap(); if e.len() < 5 { e.push(m); } };
            for _ in 0..iters {
                let kind = ['c', 'g', 'h'][(rnd() % 3) as usize];
                let c = stable[(rnd() % 4) as usize];
                let key = build_key(c, (rnd() % 6) as u32);
                let what = rnd() % 16;
                if what < 12 {
                    let h = match kind {
                        'c' => reg.get_or_create_counter(&key, |h| h.clone()),
                        'g' => reg.get_or_create_gauge(&key, |h| h.clone()),
                        _ => reg.get_or_create_histogram(&key, |h| h.clone()),
                    };
                    match mine.get(&(kind, c)) {
                        Some(f) => { if !Arc::ptr_eq(&f.0, &h.0) { err(format!("thread {} got two storages for {}{}: {} then {}", t, kind, c, f.0.id, h.0.id)); } }
                        None => { mine.insert((kind, c), h); }
                    }
                } else if what < 14 {
                    let h = match kind { 'c' => reg.get_counter(&key), 'g' => reg.get_gauge(&key), _ => reg.get_histogram(&key) };
                    if let Some(f) = mine.get(&(kind, c)) {
                        match h {
                            Some(h) => { if !Arc::ptr_eq(&f.0, &h.0) { err(format!("get returned another storage for {}{}", kind, c)); } }
                            None => err(format!("get lost {}{} (never deleted)", kind, c)),
                        }
                    }
                } else {
                    let l: Vec<(u32, u64)> = if what == 14 { visit(&reg, kind) } else {
                        match kind {
                            'c' => reg.get_counter_handles().iter().map(|(k, h)| (class_of(k), h.0.id)).collect(),
                            'g' => reg.get_gauge_handles().iter().map(|(k, h)| (class_of(k), h.0.id)).collect(),
                            _ => reg.get_histogram_handles().iter().map(|(k, h)| (class_of(k), h.0.id)).collect(),
                        }
                    };
                    let mut seen: HashMap<u32, u64> = HashMap::new();
                    for (cl, id) in &l { if seen.insert(*cl, *id).is_some() { err(format!("listing of {} shows class {} twice", kind, cl)); } }
                    for ((k2, c2), f) in mine.iter() {
                        if *k2 == kind && seen.get(c2) != Some(&f.0.id) { err(format!("listing of {} lost or changed stable class {}", kind, c2)); }
                    }
                }
                ops.fetch_add(1, SeqCst);
            }
            let mut g = firsts.lock().unwrap();
            for ((k2, c2), f) in mine.iter() {
                if let Some(prev) = g.insert((*k2, *c2), f.0.id) {
                    if prev != f.0.id { err(format!("threads disagree on the storage of {}{}: {} vs {}", k2, c2, prev, f.0.id)); }
                }
            }
        }));
    }
    let churner = {
        let (reg, removed, stop, errors) = (reg.clone(), removed.clone(), stop.clone(), errors.clone());
        std::thread::spawn(move || {
            let mut x: u64 = seed ^ 0xD1B54A32D192ED03 | 1;
            let mut rnd = move || { x ^= x << 13; x ^= x >> 7; x ^= x << 17; x };
            let mut n = 0u64;
            while !stop.load(SeqCst) {
                let kind = ['c', 'g', 'h'][(rnd() % 3) as usize];
                let c = churn[(rnd() % 2) as usize];
                let key = build_key(c, (rnd() % 6) as u32);
                match rnd() % 8 {
                    0..=3 => { match kind {
                        'c' => { reg.get_or_create_counter(&key, |_| ()); }
                        'g' => { reg.get_or_create_gauge(&key, |_| ()); }
                        _ => { reg.get_or_create_histogram(&key, |_| ()); } } }
                    4..=6 => {
                        let b = match kind { 'c' => reg.delete_counter(&key), 'g' => reg.delete_gauge(&key), _ => reg.delete_histogram(&key) };
                        if b { removed.fetch_add(1, SeqCst); }
                    }
                    _ => {
                        let mut dropped = 0u64;
                        let mut keep = |k: &Key| { let cl = class_of(k); if cl == 2 || cl == 17 { dropped += 1; false } else { true } };
                        match kind {
                            'c' => reg.retain_counters(|k, _| keep(k)),
                            'g' => reg.retain_gauges(|k, _| keep(k)),
                            _ => reg.retain_histograms(|k, _| keep(k)),
                        }
                        removed.fetch_add(dropped, SeqCst);
                    }
                }
                n += 1;
                if n > 50_000_000 { errors.lock().unwrap().push("churner ran away".to_string()); break; }
            }
            n
        })
    };
    for h in hs { if h.join().is_err() { let mut e = errors.lock().unwrap(); e.insert(0, "a phase-1 worker thread panicked".to_string()); } }
    // phase 2 (own registry): rounds on keys that all fall into ONE shard. Before a round some keys Y are
    // live; then, released together: half the threads get_or_create the same absent key K (==-equal
    // keys built differently), one thread creates another absent key K2, the others each delete a
    // distinct live Y. After EVERY round, at quiescence: all creators of K got one storage; visit shows no
    // class twice; the handles listing equals the visit; exactly one construction for K; delete(K) is
    // true, then K is absent (get, visit), a second delete is false; then the registry is emptied.
    let rounds = std::cmp::max(iters / 20, 50);
    let rounds_done = Arc::new(AtomicU64::new(0));
    {
        let slog2: Arc<Mutex<Vec<(char, u32, u64)>>> = Arc::new(Mutex::new(Vec::new()));
        let reg2 = Arc::new(Registry::new(Dbl { next: AtomicU64::new(0), log: slog2.clone() }));
        let mask = (reg2.__verif_shard_count() - 1) as u64;
        let mut pool: Vec<u32> = Vec::new();
        let mut c = 200u32;
        while pool.len() < 2 + nt && c < 200_000 {
            if build_key(c, 0).get_hash() & mask == 0 { pool.push(c); }
            c += 1;
        }
        let pool = Arc::new(pool);
        let ncre = std::cmp::max(nt / 2, 1);
        let barrier = Arc::new(std::sync::Barrier::new(nt));
        let ids: Arc<Vec<AtomicU64>> = Arc::new((0..nt).map(|_| AtomicU64::new(u64::MAX)).collect());
        let mut hs2 = Vec::new();
        for t in 0..nt {
            let (reg2, errors, barrier, ids, pool, slog2, rounds_done) = (reg2.clone(), errors.clone(), barrier.clone(), ids.clone(), pool.clone(), slog2.clone(), rounds_done.clone());
            hs2.push(std::thread::spawn(move || {
                let mut x: u64 = seed.wrapping_mul(0xA24BAED4963EE407).wrapping_add(t as u64 * 104729 + 3) | 1;
                let mut rnd = move || { x ^= x << 13; x ^= x >> 7; x ^= x << 17; x };
                let err = |m: String| { let mut e = errors.lock().unwrap(); if e.len() < 5 { e.push(m); } };
                let goc = |kind: char, key: &Key| -> H { match kind {
                    'c' => reg2.get_or_create_counter(key, |h| h.clone()),
                    'g' => reg2.get_or_create_gauge(key, |h| h.clone()),
                    _ => reg2.get_or_create_histogram(key, |h| h.clone()) } };
                let del = |kind: char, key: &Key| -> bool { match kind {
                    'c' => reg2.delete_counter(key), 'g' => reg2.delete_gauge(key), _ => reg2.delete_histogram(key) } };
                for r in 0..rounds {
                    let kind = ['c', 'g', 'h'][r % 3];
                    let (kcl, k2cl) = (pool[0], pool[1]);
                    if t == 0 {
                        slog2.lock().unwrap().clear();
                        for y in 2..pool.len() { goc(kind, &build_key(pool[y], (r % 6) as u32)); }
                    }
                    barrier.wait();
                    for _ in 0..(rnd() % 96) { std::hint::spin_loop(); }
                    if t < ncre {
                        let h = goc(kind, &build_key(kcl, ((t + r) % 6) as u32));
                        ids[t].store(h.0.id, SeqCst);
                    } else if t == nt - 1 {
                        goc(kind, &build_key(k2cl, (r % 6) as u32));
                    } else {
                        if !del(kind, &build_key(pool[2 + t], ((t + 2 * r) % 6) as u32)) { err(format!("round {}: delete of live {}{} returned false", r, kind, pool[2 + t])); }
                    }
                    barrier.wait();
                    if t == 0 {
                        let first = ids[0].load(SeqCst);
                        if (0..ncre).any(|i| ids[i].load(SeqCst) != first) {
                            err(format!("round {}: racing creators of {}{} got different storages {:?}", r, kind, kcl, (0..ncre).map(|i| ids[i].load(SeqCst)).collect::<Vec<u64>>()));
                        }
                        let v = visit(&reg2, kind);
                        let mut seen: HashMap<u32, u64> = HashMap::new();
                        for (cl, id) in &v { if seen.insert(*cl, *id).is_some() { err(format!("round {}: visit of {} shows class {} twice", r, kind, cl)); } }
                        let mut hl: Vec<(u32, u64)> = match kind {
                            'c' => reg2.get_counter_handles().iter().map(|(k, h)| (class_of(k), h.0.id)).collect(),
                            'g' => reg2.get_gauge_handles().iter().map(|(k, h)| (class_of(k), h.0.id)).collect(),
                            _ => reg2.get_histogram_handles().iter().map(|(k, h)| (class_of(k), h.0.id)).collect(),
                        };
                        let mut vs = v.clone(); vs.sort(); hl.sort();
                        if vs != hl { err(format!("round {}: handles listing of {} differs from the visit ({} vs {} entries)", r, kind, hl.len(), vs.len())); }
                        let ncons = slog2.lock().unwrap().iter().filter(|(k, c, _)| *k == kind && *c == kcl).count();
                        if ncons != 1 { err(format!("round {}: {} constructions for {}{} created once by racing threads", r, ncons, kind, kcl)); }
                        let kk = build_key(kcl, (r % 6) as u32);
                        if !del(kind, &kk) { err(format!("round {}: delete of live {}{} returned false", r, kind, kcl)); }
                        let still = match kind { 'c' => reg2.get_counter(&kk).is_some(), 'g' => reg2.get_gauge(&kk).is_some(), _ => reg2.get_histogram(&kk).is_some() };
                        if still || visit(&reg2, kind).iter().any(|(cl, _)| *cl == kcl) { err(format!("round {}: {}{} still present after delete returned true", r, kind, kcl)); }
                        if del(kind, &kk) { err(format!("round {}: second delete of {}{} returned true", r, kind, kcl)); }
                        reg2.clear();
                        for i in 0..ncre { ids[i].store(u64::MAX, SeqCst); }
                        rounds_done.fetch_add(1, SeqCst);
                    }
                    barrier.wait();
                }
            }));
        }
        for h in hs2 { if h.join().is_err() { let mut e = errors.lock().unwrap(); e.insert(0, "a phase-2 worker thread panicked (round abandoned)".to_string()); } }
    }
    stop.store(true, SeqCst);
    let churn_ops = churner.join().unwrap_or(0);
    let log = slog.lock().unwrap().clone();
    let mut errs = errors.lock().unwrap().clone();
    let mut cons: HashMap<(char, u32), u64> = HashMap::new();
    for (k, c, _) in &log { *cons.entry((*k, *c)).or_insert(0) += 1; }
    let firsts = firsts.lock().unwrap().clone();
    for ((k, c), _) in firsts.iter() {
        if cons.get(&(*k, *c)) != Some(&1) { errs.push(format!("{} constructions for never-deleted {}{}", cons.get(&(*k, *c)).copied().unwrap_or(0), k, c)); }
    }
    let mut live_churn = 0u64;
    for kind in ['c', 'g', 'h'] {
        let l = visit(&reg, kind);
        let mut seen: HashMap<u32, u64> = HashMap::new();
        for (cl, id) in &l { if seen.insert(*cl, *id).is_some() { errs.push(format!("final listing of {} shows class {} twice", kind, cl)); } }
        for c in stable.iter() { if let Some(f) = firsts.get(&(kind, *c)) { if seen.get(c) != Some(f) { errs.push(format!("final listing of {} lost stable class {}", kind, c)); } } }
        live_churn += l.iter().filter(|(cl, _)| *cl == 2 || *cl == 17).count() as u64;
    }
    let fresh_rounds = rounds_done.load(SeqCst);
    let churn_cons: u64 = cons.iter().filter(|((_, c), _)| *c == 2 || *c == 17).map(|(_, n)| *n).sum();
    if churn_cons != removed.load(SeqCst) + live_churn {
        errs.push(format!("churn classes: {} constructions != {} removals + {} live", churn_cons, removed.load(SeqCst), live_churn));
    }
    errs.truncate(5);
    format!("STRESS ok={} ops={} churn_ops={} stable_pairs={} churn_constructions={} barrier_rounds={} ; {}", if errs.is_empty() { 1 } else { 0 },
            ops.load(SeqCst), churn_ops, firsts.len(), churn_cons, fresh_rounds, errs.join(" | "))
}

// ---- key-side state racing registry operations -------------------------------------------------
// A const-constructed key (Key::from_static_name / from_static_parts / from_static_labels: what the
// macros emit for static keys) has NOT memoised its hash; its first use through the registry does.
// While one thread makes that first use, others clone the key and resolve the clones, and another
// builds an equal key a different way. Whatever the timing: every clone is == the key, reports the
// same get_hash, reaches the SAME storage (Arc::ptr_eq), exactly one storage is constructed, visit
// lists the key once, delete through a clone is truthful.
fn key_site(site: u32) -> bool { (301..=306).contains(&site) }

fn fresh_const_key(c: u32, ctor: usize) -> Key {
    let ci = class_info(c);
    match ctor % 3 {
        0 if ci.labels.is_empty() => Key::from_static_name(ci.name),
        2 => Key::from_static_labels(ci.name.to_string(), ci.labels),
        _ => Key::from_static_parts(ci.name, ci.labels),
    }
}

fn kr_goc(reg: &Registry<Key, Dbl>, kind: char, key: &Key) -> H {
    match kind {
        'c' => reg.get_or_create_counter(key, |h| h.clone()),
        'g' => reg.get_or_create_gauge(key, |h| h.clone()),
        _ => reg.get_or_create_histogram(key, |h| h.clone()),
    }
}
fn kr_get(reg: &Registry<Key, Dbl>, kind: char, key: &Key) -> Option<H> {
    match kind { 'c' => reg.get_counter(key), 'g' => reg.get_gauge(key), _ => reg.get_histogram(key) }
}
fn kr_del(reg: &Registry<Key, Dbl>, kind: char, key: &Key) -> bool {
    match kind { 'c' => reg.delete_counter(key), 'g' => reg.delete_gauge(key), _ => reg.delete_histogram(key) }
}

#[derive(Default)]
struct RoundData { user: Option<H>, clones: Vec<Key>, racy: Vec<(String, H)>, racy_gets: Vec<Option<H>> }

// quiescent oracle for one round; the registry holds nothing but this round's key. Returns #clones checked.
fn kr_check(tag: &str, reg: &Registry<Key, Dbl>, slog: &Mutex<Vec<(char, u32, u64)>>, kind: char, class: u32, key: &Key,
            rd: &RoundData, err: &mut dyn FnMut(String)) -> usize {
    let u = match &rd.user { Some(u) => u.clone(), None => { err(format!("{}: the first user of the key produced no storage (worker died?)", tag)); return 0; } };
    let kh = key.get_hash();
    for (who, h) in &rd.racy {
        if !Arc::ptr_eq(&h.0, &u.0) { err(format!("{}: {} reached storage {} but the key's first user got {}", tag, who, h.0.id, u.0.id)); }
    }
    for g in rd.racy_gets.iter().flatten() {
        if !Arc::ptr_eq(&g.0, &u.0) { err(format!("{}: a racing get through a clone returned storage {} not {}", tag, g.0.id, u.0.id)); }
    }
    for (n, c) in rd.clones.iter().enumerate() {
        if c != key { err(format!("{}: clone #{} is not == the key it was cloned from (driver bug?)", tag, n)); }
        let ch = c.get_hash();
        if ch != kh { err(format!("{}: clone #{} of an equal key reports get_hash {:#x}, the key {:#x}", tag, n, ch, kh)); }
        let h = kr_goc(reg, kind, c);
        if !Arc::ptr_eq(&h.0, &u.0) { err(format!("{}: clone #{} resolves to storage {} but the key it was cloned from to {}", tag, n, h.0.id, u.0.id)); }
        match kr_get(reg, kind, c) { Some(g) if Arc::ptr_eq(&g.0, &u.0) => {}, _ => err(format!("{}: get through clone #{} does not return the key's storage", tag, n)) }
    }
    let v = visit(reg, kind);
    if v != vec![(class, u.0.id)] { err(format!("{}: visit lists {:?}, expected exactly one entry ({}, {})", tag, v, class, u.0.id)); }
    let ncons = slog.lock().unwrap().iter().filter(|(k, c, _)| *k == kind && *c == class).count();
    if ncons != 1 { err(format!("{}: {} storages constructed for one key class", tag, ncons)); }
    // empty the registry through clones (truthful delete), whatever state it is in
    let via = rd.clones.last().cloned().unwrap_or_else(|| key.clone());
    if !kr_del(reg, kind, &via) { err(format!("{}: delete through a clone returned false for a live key", tag)); }
    if kr_get(reg, kind, key).is_some() || !visit(reg, kind).is_empty() { err(format!("{}: key still present after delete through a clone returned true", tag)); }
    if kr_del(reg, kind, key) { err(format!("{}: second delete returned true", tag)); }
    reg.clear();
    slog.lock().unwrap().clear();
    rd.clones.len()
}

fn keyrace(rounds: usize, budget_ms: u64, seed: u64) -> String {
    let errors: Arc<Mutex<Vec<String>>> = Arc::new(Mutex::new(Vec::new()));
    let nerr = Arc::new(AtomicU64::new(0));
    let mut err = { let (errors, nerr) = (errors.clone(), nerr.clone()); move |m: String| { nerr.fetch_add(1, SeqCst); let mut e = errors.lock().unwrap(); if e.len() < 4 { e.push(m); } } };
    let slog: Arc<Mutex<Vec<(char, u32, u64)>>> = Arc::new(Mutex::new(Vec::new()));
    let reg = Arc::new(Registry::new(Dbl { next: AtomicU64::new(0), log: slog.clone() }));
    let mut next_class = 20_000_000u32 + ((seed % 1000) as u32) * 4;

    // part 1: DIRECTED schedules with the key's own sites (301-306) taking part: thread 0 makes the first use
    // of a fresh const key through the registry, thread 1 clones it twice; every thread-index sequence of
    // length 8 (then round-robin), for each const constructor.
    sched::set_site_filter(Some(key_site));
    let mut sched_runs = 0usize;
    let mut sched_clones = 0usize;
    for ctor in 0..3usize {
        for bits in 0..256u32 {
            let c = next_class + [0u32, 1, 2][ctor]; next_class += 4;
            let kind = ['c', 'g', 'h'][(bits as usize + ctor) % 3];
            let key: &'static Key = Box::leak(Box::new(fresh_const_key(c, ctor)));
            let rd = Arc::new(Mutex::new(RoundData::default()));
            let schedule: Vec<usize> = (0..8).map(|i| ((bits >> i) & 1) as usize).collect();
            let mut threads: Vec<Box<dyn FnOnce() + Send>> = Vec::new();
            { let (reg, rd) = (reg.clone(), rd.clone()); threads.push(Box::new(move || { let h = kr_goc(&reg, kind, key); rd.lock().unwrap().user = Some(h); })); }
            { let rd = rd.clone(); threads.push(Box::new(move || { let a = key.clone(); let b = key.clone(); let mut g = rd.lock().unwrap(); g.clones.push(a); g.clones.push(b); })); }
            let out = sched::run(&schedule, threads, 10000);
            let tag = format!("directed schedule {:?} ctor {} kind {}", schedule, ctor, kind);
            if !out.all_finished { err(format!("{}: threads did not finish", tag)); }
            let g = rd.lock().unwrap();
            sched_clones += kr_check(&tag, &reg, &slog, kind, c, key, &g, &mut err);
            sched_runs += 1;
        }
    }
    sched::set_site_filter(Some(own_site));
    metrics::__verif::set_callback(None);
    let sched_failures = nerr.load(SeqCst);

    // part 2: FREE-RUNNING rounds (no scheduler). Workers: 0 = first user of the key (get_or_create on the key
    // itself); 1, 2 = cloners (a burst of clones, the first few resolved at once by get_or_create / get);
    // 3 = builds an equal key another way (owned, pre-hashed, labels reversed) and get_or_creates it.
    const NW: usize = 4;
    const BURST: usize = 24;
    let rounds_max = rounds;
    let keys: Arc<Vec<(&'static Key, u32, char, usize)>> = Arc::new((0..rounds_max).map(|r| {
        let ctor = r % 3;
        let c = next_class + [0u32, 1, 2, 3][(r / 3) % 4].min(if ctor == 0 { 0 } else { 3 }); next_class += 4;
        let key: &'static Key = Box::leak(Box::new(fresh_const_key(c, ctor)));
        (key, c, ['c', 'g', 'h'][(r / 2) % 3], ctor)
    }).collect());
    let go = Arc::new(std::sync::atomic::AtomicUsize::new(0));
    // per-worker count of completed rounds (a worker that ended WITHOUT completing the current round has died)
    let done: Arc<Vec<std::sync::atomic::AtomicUsize>> = Arc::new((0..4).map(|_| std::sync::atomic::AtomicUsize::new(0)).collect());
    let stop = Arc::new(std::sync::atomic::AtomicBool::new(false));
    let rd = Arc::new(Mutex::new(RoundData::default()));
    let mut hs = Vec::new();
    for w in 0..NW {
        let (reg, keys, go, done, stop, rd) = (reg.clone(), keys.clone(), go.clone(), done.clone(), stop.clone(), rd.clone());
        hs.push(std::thread::spawn(move || {
            let mut x: u64 = seed.wrapping_mul(0x9E3779B97F4A7C15).wrapping_add(w as u64 * 7919 + 11) | 1;
            let mut rnd = move || { x ^= x << 13; x ^= x >> 7; x ^= x << 17; x };
            for r in 0..keys.len() {
                let mut spins = 0u32;
                while go.load(SeqCst) <= r {
                    if stop.load(SeqCst) { return; }
                    spins += 1;
                    if spins % 4096 == 0 { std::thread::yield_now(); } else { std::hint::spin_loop(); }
                }
                let (key, c, kind, _) = keys[r];
                for _ in 0..(rnd() % 24) { std::hint::spin_loop(); }
                match w {
                    0 => { let h = kr_goc(&reg, kind, key); rd.lock().unwrap().user = Some(h); }
                    1 | 2 => {
                        let mut burst: Vec<Key> = Vec::with_capacity(BURST);
                        for _ in 0..BURST { burst.push(key.clone()); }
                        let h = kr_goc(&reg, kind, &burst[0]);
                        let g1 = kr_get(&reg, kind, &burst[BURST / 2]);
                        let h2 = kr_goc(&reg, kind, &burst[BURST - 1]);
                        let mut g = rd.lock().unwrap();
                        g.racy.push((format!("cloner {} via its first clone", w), h));
                        g.racy.push((format!("cloner {} via its last clone", w), h2));
                        g.racy_gets.push(g1);
                        g.clones.extend(burst);
                    }
                    _ => {
                        let ci = class_info(c);
                        let mut ps = ci.pairs.clone();
                        if permutable(&ps) { ps.reverse(); }
                        let k2 = Key::from_parts(ci.name.to_string(), ps.iter().map(|(a, b)| Label::new(a.clone(), b.clone())).collect::<Vec<Label>>());
                        let h = kr_goc(&reg, kind, &k2);
                        rd.lock().unwrap().racy.push(("an equal key built from owned parts".to_string(), h));
                    }
                }
                done[w].fetch_add(1, SeqCst);
            }
        }));
    }
    let started = std::time::Instant::now();
    let mut rounds_done = 0usize;
    let mut free_clones = 0usize;
    let mut by_ctor = [0usize; 3];
    for r in 0..rounds_max {
        go.store(r + 1, SeqCst);
        let mut spins = 0u32;
        let mut dead = false;
        while done.iter().any(|d| d.load(SeqCst) < r + 1) {
            spins += 1;
            if spins % 4096 == 0 {
                std::thread::yield_now();
                if hs.iter().enumerate().any(|(w, h)| h.is_finished() && done[w].load(SeqCst) < r + 1) { dead = true; break; }
            } else { std::hint::spin_loop(); }
        }
        if dead { err(format!("free-running round {}: a worker thread ended (panicked) inside the round", r)); break; }
        let (key, c, kind, ctor) = keys[r];
        let mut g = rd.lock().unwrap();
        let tag = format!("free-running round {} ctor {} kind {}", r, ctor, kind);
        free_clones += kr_check(&tag, &reg, &slog, kind, c, key, &g, &mut err);
        *g = RoundData::default();
        drop(g);
        rounds_done += 1;
        by_ctor[ctor] += 1;
        if r % 64 == 0 && started.elapsed().as_millis() as u64 > budget_ms { break; }
    }
    stop.store(true, SeqCst);
    go.store(usize::MAX, SeqCst);
    for h in hs { if h.join().is_err() { err("a free-running worker thread panicked".to_string()); } }
    let n = nerr.load(SeqCst);
    let msgs = errors.lock().unwrap().join(" | ");
    format!("KEYRACE ok={} failures={} (directed {} free {}) sched_runs={} sched_clones={} free_rounds={} free_clones={} ctor_rounds={}/{}/{} ms={} ; {}",
            if n == 0 { 1 } else { 0 }, n, sched_failures, n - sched_failures, sched_runs, sched_clones, rounds_done, free_clones, by_ctor[0], by_ctor[1], by_ctor[2],
            started.elapsed().as_millis(), msgs)
}

// ---- panicking caller-supplied closures, poisoned shard locks (sequential, judged by a reference map) ----
// Rounds: populate (some get_or_create closures panic on the create path: the entry is inserted, the shard's
// lock is poisoned), then ONE panicking event (retain predicate panicking at its n-th call; visit callback
// panicking at its n-th call; get_or_create hit-path closure panicking), then ordinary operations on every
// shard: get of every live / some absent keys, a retain with a logging keep-all predicate (every live entry
// must be offered exactly once, poisoned shard or not), visit / handles = reference, truthful deletes, clear.
// Reference after a panicking retain: exactly the entries for which the predicate returned false BEFORE it
// panicked are gone (whatever the iteration order was).
fn panics_engine(rounds: usize, seed: u64) -> String {
    metrics::__verif::set_callback(None);
    let slog: Arc<Mutex<Vec<(char, u32, u64)>>> = Arc::new(Mutex::new(Vec::new()));
    let reg: Registry<Key, Dbl> = Registry::new(Dbl { next: AtomicU64::new(0), log: slog.clone() });
    let mask = (reg.__verif_shard_count() - 1) as u64;
    let mut x: u64 = seed.wrapping_mul(0x9E3779B97F4A7C15) | 1;
    let mut rnd = move || { x ^= x << 13; x ^= x >> 7; x ^= x << 17; x };
    let kinds = ['c', 'g', 'h'];
    let mut live: HashMap<(char, u32), u64> = HashMap::new();
    let mut poisoned: std::collections::HashSet<(char, u64)> = std::collections::HashSet::new();
    let mut errs: Vec<String> = Vec::new();
    let mut nfail = 0u64;
    let (mut p_create, mut p_hit, mut p_retain, mut p_visit, mut ops_poisoned, mut ops) = (0u64, 0u64, 0u64, 0u64, 0u64, 0u64);
    macro_rules! fail { ($($a:tt)*) => {{ nfail += 1; if errs.len() < 4 { errs.push(format!($($a)*)); } }} }
    let retain_with = |kind: char, f: &mut dyn FnMut(&Key, &H) -> bool| match kind {
        'c' => reg.retain_counters(|k, h| f(k, h)), 'g' => reg.retain_gauges(|k, h| f(k, h)), _ => reg.retain_histograms(|k, h| f(k, h)) };
    let visit_with = |kind: char, f: &mut dyn FnMut(&Key, &H)| match kind {
        'c' => reg.visit_counters(|k, h| f(k, h)), 'g' => reg.visit_gauges(|k, h| f(k, h)), _ => reg.visit_histograms(|k, h| f(k, h)) };
    for round in 0..rounds {
        // populate
        for _ in 0..(6 + rnd() % 20) {
            let (kind, c, v) = (kinds[(rnd() % 3) as usize], (rnd() % 96) as u32, (rnd() % 6) as u32);
            let key = build_key(c, v);
            let shard = key.get_hash() & mask;
            ops += 1; if poisoned.contains(&(kind, shard)) { ops_poisoned += 1; }
            let was = live.get(&(kind, c)).copied();
            if rnd() % 4 == 0 {
                let tok = run_op(&reg, &Op::CreateP(kind, c, v), Some(&key));
                if was.is_none() { p_create += 1; poisoned.insert((kind, shard)); } else { p_hit += 1; }
                let id: Option<u64> = tok[1..].parse().ok();
                match (was, id) {
                    (Some(w), Some(i)) if w == i => {}
                    (None, Some(i)) if !live.values().any(|y| *y == i) => { live.insert((kind, c), i); }
                    _ => fail!("round {}: panicking get_or_create {}{} reported {} (class had {:?})", round, kind, c, tok, was),
                }
            } else {
                let id = kr_goc(&reg, kind, &key).0.id;
                match was { Some(w) if w != id => fail!("round {}: get_or_create {}{} returned {} not {}", round, kind, c, id, w), None => { live.insert((kind, c), id); } _ => {} }
            }
        }
        // one panicking sweep
        let kind = kinds[(rnd() % 3) as usize];
        let nlive = live.keys().filter(|(k, _)| *k == kind).count() as u64;
        let at = 1 + rnd() % (nlive + 2);
        if rnd() % 2 == 0 {
            let mut calls = 0u64;
            let mut dropped: Vec<u32> = Vec::new();
            let mut bomb_shard: Option<u64> = None;
            let drop_mod = 2 + rnd() % 3;
            let r = std::panic::catch_unwind(std::panic::AssertUnwindSafe(|| retain_with(kind, &mut |k: &Key, _h: &H| {
                calls += 1;
                if calls == at { bomb_shard = Some(k.get_hash() & mask); panic!("predicate"); }
                let c = class_of(k);
                if (c as u64 + calls) % drop_mod == 0 { dropped.push(c); false } else { true }
            })));
            if r.is_err() { p_retain += 1; if let Some(sh) = bomb_shard { poisoned.insert((kind, sh)); } }
            for c in dropped { if live.remove(&(kind, c)).is_none() { fail!("round {}: retain predicate was offered {}{} which is not live", round, kind, c); } }
        } else {
            let mut calls = 0u64;
            let r = std::panic::catch_unwind(std::panic::AssertUnwindSafe(|| visit_with(kind, &mut |_k: &Key, _h: &H| { calls += 1; if calls == at { panic!("callback"); } })));
            if r.is_err() { p_visit += 1; }
        }
        // ordinary operations afterwards, on every shard
        for ((k, c), id) in live.iter() {
            let key = build_key(*c, (rnd() % 6) as u32);
            ops += 1; if poisoned.contains(&(*k, key.get_hash() & mask)) { ops_poisoned += 1; }
            match kr_get(&reg, *k, &key) { Some(h) if h.0.id == *id => {}, other => fail!("round {}: get {}{} after a panic returned {:?}, expected {}", round, k, c, other.map(|h| h.0.id), id) }
        }
        for kind in kinds {
            let mut offered: Vec<(u32, u64)> = Vec::new();
            retain_with(kind, &mut |k: &Key, h: &H| { offered.push((class_of(k), h.0.id)); true });
            offered.sort();
            let mut want: Vec<(u32, u64)> = live.iter().filter(|((k, _), _)| *k == kind).map(|((_, c), id)| (*c, *id)).collect(); want.sort();
            ops += 1;
            if offered != want { fail!("round {}: retain_{} offered {} entries to its predicate, {} are live (poisoned shards of this kind: {})", round, kind, offered.len(), want.len(), poisoned.iter().filter(|(k, _)| *k == kind).count()); }
            let mut v = visit(&reg, kind); v.sort();
            if v != want { fail!("round {}: visit of {} lists {} entries, {} are live", round, kind, v.len(), want.len()); }
        }
        // a selective retain and some deletes, truthful whatever the lock state
        let kind = kinds[(rnd() % 3) as usize];
        let m = 2 + rnd() % 3;
        retain_with(kind, &mut |k: &Key, _h: &H| class_of(k) as u64 % m != 0);
        live.retain(|(k, c), _| *k != kind || *c as u64 % m != 0);
        for _ in 0..4 {
            let (kind, c) = (kinds[(rnd() % 3) as usize], (rnd() % 96) as u32);
            let key = build_key(c, (rnd() % 6) as u32);
            ops += 1; if poisoned.contains(&(kind, key.get_hash() & mask)) { ops_poisoned += 1; }
            let b = kr_del(&reg, kind, &key);
            let want = live.remove(&(kind, c)).is_some();
            if b != want { fail!("round {}: delete {}{} returned {} but the class was {}", round, kind, c, b, if want { "present" } else { "absent" }); }
        }
        for kind in kinds {
            let mut v = visit(&reg, kind); v.sort();
            let mut want: Vec<(u32, u64)> = live.iter().filter(|((k, _), _)| *k == kind).map(|((_, c), id)| (*c, *id)).collect(); want.sort();
            if v != want { fail!("round {}: after retain/delete, visit of {} lists {} entries, {} are live", round, kind, v.len(), want.len()); }
        }
        if round % 16 == 15 {
            reg.clear(); live.clear(); ops += 1;
            for kind in kinds { if !visit(&reg, kind).is_empty() { fail!("round {}: clear left entries of kind {} behind", round, kind); } }
        }
    }
    format!("PANICS ok={} failures={} rounds={} ops={} panicking closures: get_or_create create-path {} hit-path {} retain predicate {} visit callback {} ; poisoned (kind, shard) locks {} ; operations on poisoned shards {} ; {}",
            if nfail == 0 { 1 } else { 0 }, nfail, rounds, ops, p_create, p_hit, p_retain, p_visit, poisoned.len(), ops_poisoned, errs.join(" | "))
}

// ---- the registry is generic in K: Hashable: other key types, judged by a reference map keyed by contents ----
// Registry hard-wires its maps to KeyHasher and looks entries up by `key.hashable()`, while insertions and
// resizes re-hash the stored key through the map's hasher: a key type is usable only if hashable() is the
// KeyHasher hash of its `Hash` impl and equal keys hash alike. For each key type: that contract on samples,
// then a bulk history (enough keys that every shard's table resizes several times).
struct DblG { next: AtomicU64 }
impl<K> Storage<K> for DblG {
    type Counter = H;
    type Gauge = H;
    type Histogram = H;
    fn counter(&self, _: &K) -> H { H(Arc::new(Cell { id: self.next.fetch_add(1, SeqCst) })) }
    fn gauge(&self, _: &K) -> H { H(Arc::new(Cell { id: self.next.fetch_add(1, SeqCst) })) }
    fn histogram(&self, _: &K) -> H { H(Arc::new(Cell { id: self.next.fetch_add(1, SeqCst) })) }
}

// hand-written key type with a deliberately weak hash (61 distinct values): Hash feeds only id % 61,
// Eq compares everything; hashable() is the trait default through Hasher = KeyHasher
#[derive(Clone, Debug, PartialEq, Eq)]
struct WeakKey { id: u64, text: String }
impl std::hash::Hash for WeakKey { fn hash<S: std::hash::Hasher>(&self, state: &mut S) { (self.id % 61).hash(state) } }
impl metrics_util::Hashable for WeakKey { type Hasher = metrics::KeyHasher; }

fn generic_bulk<K, M, C>(name: &str, mk: M, class_of: C, nkeys: u64, nops: u64, seed: u64, errs: &mut Vec<String>) -> (u64, String)
where K: Clone + Eq + std::hash::Hash + metrics_util::Hashable + std::fmt::Debug, M: Fn(u64) -> K, C: Fn(&K) -> u64 {
    let reg: Registry<K, DblG> = Registry::new(DblG { next: AtomicU64::new(0) });
    let mask = (reg.__verif_shard_count() - 1) as u64;
    let mut x: u64 = seed.wrapping_mul(0x9E3779B97F4A7C15) | 1;
    let mut rnd = move || { x ^= x << 13; x ^= x >> 7; x ^= x << 17; x };
    let mut nfail = 0u64;
    macro_rules! fail { ($($a:tt)*) => {{ nfail += 1; if errs.len() < 4 { errs.push(format!("{}: {}", name, format!($($a)*))); } }} }
    // the key contract on samples
    for _ in 0..200 {
        let (i, j) = (rnd() % nkeys, rnd() % nkeys);
        let (a, b, c) = (mk(i), mk(i), mk(j));
        if a != b || a.hashable() != b.hashable() { fail!("two builds of key {} are not == with equal hashable()", i); }
        if i != j && a == c { fail!("keys {} and {} are == (driver bug)", i, j); }
        if class_of(&a) != i { fail!("class_of is wrong for {} (driver bug)", i); }
    }
    let kinds = ['c', 'g', 'h'];
    let goc = |kind: char, k: &K| -> u64 { match kind {
        'c' => reg.get_or_create_counter(k, |h| h.0.id), 'g' => reg.get_or_create_gauge(k, |h| h.0.id), _ => reg.get_or_create_histogram(k, |h| h.0.id) } };
    let get = |kind: char, k: &K| -> Option<u64> { match kind {
        'c' => reg.get_counter(k).map(|h| h.0.id), 'g' => reg.get_gauge(k).map(|h| h.0.id), _ => reg.get_histogram(k).map(|h| h.0.id) } };
    let del = |kind: char, k: &K| -> bool { match kind { 'c' => reg.delete_counter(k), 'g' => reg.delete_gauge(k), _ => reg.delete_histogram(k) } };
    let listing = |kind: char| -> Vec<(u64, u64)> {
        let mut v = Vec::new();
        match kind {
            'c' => reg.visit_counters(|k, h| v.push((class_of(k), h.0.id))),
            'g' => reg.visit_gauges(|k, h| v.push((class_of(k), h.0.id))),
            _ => reg.visit_histograms(|k, h| v.push((class_of(k), h.0.id))),
        }
        v.sort(); v };
    let handles = |kind: char| -> Vec<(u64, u64)> {
        let mut v: Vec<(u64, u64)> = match kind {
            'c' => reg.get_counter_handles().iter().map(|(k, h)| (class_of(k), h.0.id)).collect(),
            'g' => reg.get_gauge_handles().iter().map(|(k, h)| (class_of(k), h.0.id)).collect(),
            _ => reg.get_histogram_handles().iter().map(|(k, h)| (class_of(k), h.0.id)).collect(),
        };
        v.sort(); v };
    let mut live: HashMap<(char, u64), u64> = HashMap::new();
    let mut max_shard: HashMap<(char, u64), u64> = HashMap::new();   // largest population seen per (kind, shard)
    let (mut n_retain, mut n_clear, mut n_check) = (0u64, 0u64, 0u64);
    for opn in 0..nops {
        let kind = kinds[(rnd() % 3) as usize];
        let i = if opn < nkeys { (opn * 7919) % nkeys } else { rnd() % nkeys };   // first: create every key once
        let key = mk(i);
        let what = if opn < nkeys { 0 } else { rnd() % 16 };
        match what {
            0..=6 => {
                let id = goc(kind, &key);
                match live.get(&(kind, i)) {
                    Some(w) => if *w != id { fail!("get_or_create {}{} returned storage {} but the key already has {}", kind, i, id, w); },
                    None => {
                        if live.values().any(|y| *y == id) && opn % 64 == 0 { fail!("get_or_create of absent {}{} returned another key's storage {}", kind, i, id); }
                        live.insert((kind, i), id);
                    }
                }
            }
            7..=10 => { let (g, w) = (get(kind, &key), live.get(&(kind, i)).copied()); if g != w { fail!("get {}{} returned {:?}, the key's storage is {:?}", kind, i, g, w); } }
            11..=13 => { let (b, w) = (del(kind, &key), live.remove(&(kind, i)).is_some()); if b != w { fail!("delete {}{} returned {} but the key was {}", kind, i, b, if w { "present" } else { "absent" }); } }
            _ => {}
        }
        if opn % 997 == 0 {
            let mut pop: HashMap<(char, u64), u64> = HashMap::new();
            for ((k, c), _) in live.iter() { *pop.entry((*k, mk(*c).hashable() & mask)).or_insert(0) += 1; }
            for (ks, n) in pop { let e = max_shard.entry(ks).or_insert(0); if n > *e { *e = n; } }
        }
        let sweep = if opn > nkeys && opn % 4001 == 0 { 1 } else if opn > nkeys && opn % 9973 == 0 { 2 } else if opn + 1 == nops || opn % 2503 == 0 { 3 } else { 0 };
        if sweep == 1 {
            let m = 2 + rnd() % 4; n_retain += 1;
            let mut offered = 0u64;
            match kind {
                'c' => reg.retain_counters(|k, _| { offered += 1; class_of(k) % m != 0 }),
                'g' => reg.retain_gauges(|k, _| { offered += 1; class_of(k) % m != 0 }),
                _ => reg.retain_histograms(|k, _| { offered += 1; class_of(k) % m != 0 }),
            }
            let want = live.keys().filter(|(k, _)| *k == kind).count() as u64;
            if offered != want { fail!("retain_{} offered {} entries to its predicate, {} are live", kind, offered, want); }
            live.retain(|(k, c), _| *k != kind || *c % m != 0);
        }
        if sweep == 2 { reg.clear(); live.clear(); n_clear += 1; }
        if sweep != 0 {
            n_check += 1;
            for kind in kinds {
                let want: Vec<(u64, u64)> = { let mut v: Vec<(u64, u64)> = live.iter().filter(|((k, _), _)| *k == kind).map(|((_, c), id)| (*c, *id)).collect(); v.sort(); v };
                let v = listing(kind);
                if v != want { fail!("visit of {} lists {} entries, the reference map {} ({} listed more than once)", kind, v.len(), want.len(), v.windows(2).filter(|w| w[0].0 == w[1].0).count()); }
                let hl = handles(kind);
                if hl != want { fail!("handles listing of {} has {} entries, the reference map {}", kind, hl.len(), want.len()); }
            }
        }
    }
    // hashbrown grows at 3, 7, 14, 28, 56, ... entries: how many growth steps did the fullest state of every shard need
    let resizes: u64 = max_shard.values().map(|n| [3u64, 7, 14, 28, 56, 112, 224, 448, 896, 1792].iter().filter(|t| *n > **t).count() as u64).sum();
    (nfail, format!("{} keys={} ops={} retains={} clears={} listings_checked={} shard_tables_grown={} (max per-shard population {})",
                    name, nkeys, nops, n_retain, n_clear, n_check, resizes, max_shard.values().max().copied().unwrap_or(0)))
}

fn genkeys(nkeys: u64, nops: u64, seed: u64) -> String {
    use metrics_util::DefaultHashable;
    metrics::__verif::set_callback(None);
    let mut errs: Vec<String> = Vec::new();
    let mut total = 0u64;
    let mut rows = Vec::new();
    let r = generic_bulk("DefaultHashable<String>", |i| DefaultHashable(format!("key-{}", i)), |k: &DefaultHashable<String>| k.0[4..].parse().unwrap(), nkeys, nops, seed, &mut errs);
    total += r.0; rows.push(r.1);
    let r = generic_bulk("DefaultHashable<u64>", |i| DefaultHashable(i.wrapping_mul(0x9E3779B97F4A7C15)), |k: &DefaultHashable<u64>| k.0.wrapping_mul(0xF1DE83E19937733D), nkeys, nops, seed + 1, &mut errs);
    total += r.0; rows.push(r.1);
    let r = generic_bulk("DefaultHashable<(u64, String)>", |i| DefaultHashable((i % 5, format!("t{}", i))), |k: &DefaultHashable<(u64, String)>| (k.0).1[1..].parse().unwrap(), nkeys, nops, seed + 2, &mut errs);
    total += r.0; rows.push(r.1);
    let r = generic_bulk("WeakKey (61 hash values)", |i| WeakKey { id: i, text: format!("w{}", i) }, |k: &WeakKey| k.id, nkeys / 2, nops / 2, seed + 3, &mut errs);
    total += r.0; rows.push(r.1);
    format!("GENKEYS ok={} failures={} ; {} ; {}", if total == 0 { 1 } else { 0 }, total, rows.join(" | "), errs.join(" | "))
}

// only this property's own yield sites take part in the schedule: instrumented code of other
// properties reached from here (e.g. Key::get_hash under a registry lock) must pass through
fn own_site(site: u32) -> bool { (601..=615).contains(&site) }

fn main() {
    // panics of caller-supplied closures are part of the cases: keep stderr quiet, they are reported as outcomes
    std::panic::set_hook(Box::new(|_| {}));
    sched::set_site_filter(Some(own_site));
    let stdin = std::io::stdin();
    let stdout = std::io::stdout();
    let mut w = std::io::BufWriter::new(stdout.lock());
    for line in stdin.lock().lines() {
        let line = line.unwrap();
        if line.trim().is_empty() {
            continue;
        }
        if let Some(r) = line.trim().strip_prefix("TABLE") {
            let a: Vec<u32> = r.split_whitespace().map(|x| x.parse().unwrap()).collect();
            writeln!(w, "{}", table(a[0], a[1])).unwrap();
            continue;
        }
        if let Some(r) = line.trim().strip_prefix("STRESS") {
            let a: Vec<u64> = r.split_whitespace().map(|x| x.parse().unwrap()).collect();
            writeln!(w, "{}", stress(a[0] as usize, a[1] as usize, a[2])).unwrap();
            continue;
        }
        if let Some(r) = line.trim().strip_prefix("PANICS") {
            let a: Vec<u64> = r.split_whitespace().map(|x| x.parse().unwrap()).collect();
            let r = std::panic::catch_unwind(move || panics_engine(a[0] as usize, a[1]));
            writeln!(w, "{}", r.unwrap_or_else(|_| "PANICS ok=0 failures=1 ; the engine panicked".to_string())).unwrap();
            continue;
        }
        if let Some(r) = line.trim().strip_prefix("GENKEYS") {
            let a: Vec<u64> = r.split_whitespace().map(|x| x.parse().unwrap()).collect();
            let r = std::panic::catch_unwind(move || genkeys(a[0], a[1], a[2]));
            writeln!(w, "{}", r.unwrap_or_else(|_| "GENKEYS ok=0 failures=1 ; ; the engine panicked".to_string())).unwrap();
            continue;
        }
        if line.trim() == "ATABLE" { writeln!(w, "{}", atable()).unwrap(); continue; }
        if let Some(r) = line.trim().strip_prefix("ALIAS") {
            let a: Vec<u64> = r.split_whitespace().map(|x| x.parse().unwrap()).collect();
            let r = std::panic::catch_unwind(move || alias_bulk(a[0]));
            writeln!(w, "{}", r.unwrap_or_else(|_| "ALIAS ok=0 failures=1 ; the engine panicked".to_string())).unwrap();
            continue;
        }
        if let Some(r) = line.trim().strip_prefix("KEYRACE") {
            let a: Vec<u64> = r.split_whitespace().map(|x| x.parse().unwrap()).collect();
            let r = std::panic::catch_unwind(move || keyrace(a[0] as usize, a[1], a[2]));
            writeln!(w, "{}", r.unwrap_or_else(|_| "KEYRACE ok=0 failures=1 ; the engine panicked".to_string())).unwrap();
            continue;
        }
        let l2 = line.clone();
        let r = std::panic::catch_unwind(move || run_case(&l2));
        match r {
            Ok(s) => writeln!(w, "{}", s).unwrap(),
            Err(_) => writeln!(w, " ; P ; 0 ;  ;  /  /  ;  ; 0").unwrap(),
        }
    }
}
