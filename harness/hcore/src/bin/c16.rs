// C16 correspondence driver: AtomicSamplingReservoir (metrics-util/src/storage/reservoir.rs).
//
// stdin, one case per line:
//   S <cap> | <op> <op> ...                         sequential history on one thread
//   T <cap> | <op> <op> .. ; <op> .. ; ... | <tid> <tid> ...   threads under the scheduler
//   R <cap> <n> <trials>                            free-running trials on the real RNG (no script):
//                                                   prints `r <anomalies> <times position i was yielded> ...`
//   F <cap> <n> <trials>                            like R, but every trial on a fresh thread:
//                                                   prints `f <anomalies> <consecutive identical outcomes> <counts> ...`
//   X <cap> <pushers> <pushes each> <consumes>      free-running stress (real threads, no scheduler, real RNG)
//   ops:  P<value bits, decimal u64>:<choice>   push(f64::from_bits(bits)) with a one-choice script installed
//         C        consume, callback reads everything
//         C<k>     consume, callback reads at most k values and drops the Drain
//         E        is_empty
// stdout, one line per case:
//   S: one token per op
//        push:    f (no draw)  |  d<upper> (one draw, bound requested)  |  p<upper> / p- (panicked)
//                 anomalies are suffixed with !...
//        consume: c<sample_rate bits, decimal>:<len() before reading>:<v,v,... bits decimal>   | cp (panicked)
//        is_empty: e0 | e1
//   T: `<t>:<site> ... ; <tokens of thread 0>|<tokens of thread 1>|... ; <all finished 0/1>`
use metrics_util::storage::reservoir::{AtomicSamplingReservoir, __verif_script};
use std::io::{BufRead, Write};
use std::panic::{catch_unwind, AssertUnwindSafe};
use std::sync::{Arc, Mutex};

fn do_op(r: &AtomicSamplingReservoir, tok: &str) -> String {
    let (c, rest) = tok.split_at(1);
    match c {
        "P" => {
            let (v, ch) = rest.split_once(':').unwrap();
            let bits: u64 = v.parse().unwrap();
            let choice: usize = ch.parse().unwrap();
            __verif_script::install(vec![choice]);
            let res = catch_unwind(AssertUnwindSafe(|| r.push(f64::from_bits(bits))));
            let (left, uppers) = __verif_script::take().unwrap();
            let mut anomaly = String::new();
            if uppers.len() > 1 { anomaly.push_str("!manydraws"); }
            if uppers.len() == 1 && uppers[0] != 0 && left.len() != 0 { anomaly.push_str("!choiceunused"); }
            if uppers.is_empty() && left.len() != 1 { anomaly.push_str("!choicelost"); }
            match (res.is_ok(), uppers.first()) {
                (true, None) => format!("f{}", anomaly),
                (true, Some(u)) => format!("d{}{}", u, anomaly),
                (false, Some(u)) => format!("p{}{}", u, anomaly),
                (false, None) => format!("p-{}", anomaly),
            }
        }
        "C" => {
            let k: Option<usize> = if rest.is_empty() { None } else { Some(rest.parse().unwrap()) };
            let mut out = String::new();
            let mut calls = 0;
            let res = catch_unwind(AssertUnwindSafe(|| {
                r.consume(|mut drain| {
                    calls += 1;
                    let len0 = drain.len();
                    let rate0 = drain.sample_rate().to_bits();
                    let mut vals: Vec<String> = Vec::new();
                    let lim = k.unwrap_or(usize::MAX);
                    while vals.len() < lim {
                        match drain.next() {
                            Some(v) => vals.push(v.to_bits().to_string()),
                            None => break,
                        }
                    }
                    let mut anomaly = String::new();
                    if drain.len() != len0 - vals.len() { anomaly.push_str("!len"); }
                    if drain.sample_rate().to_bits() != rate0 { anomaly.push_str("!ratechanged"); }
                    if k.is_none() && drain.next().is_some() { anomaly.push_str("!notfused"); }
                    out = format!("c{}:{}:{}{}", rate0, len0, vals.join(","), anomaly);
                })
            }));
            if res.is_err() { return "cp".to_string(); }
            if calls != 1 { out.push_str("!calls"); }
            out
        }
        "E" => match catch_unwind(AssertUnwindSafe(|| r.is_empty())) {
            Ok(b) => format!("e{}", if b { 1 } else { 0 }),
            Err(_) => "ep".to_string(),
        },
        _ => panic!("bad op {}", tok),
    }
}

fn run_seq(cap: usize, ops: &str) -> String {
    let r = AtomicSamplingReservoir::new(cap);
    let out: Vec<String> = ops.split_whitespace().map(|t| do_op(&r, t)).collect();
    out.join(" ")
}

fn run_threads(cap: usize, progs: &str, sched: &str) -> String {
    let progs: Vec<Vec<String>> =
        progs.split(';').map(|p| p.split_whitespace().map(|s| s.to_string()).collect()).collect();
    let sched: Vec<usize> = sched.split_whitespace().map(|s| s.parse().unwrap()).collect();
    let r = Arc::new(AtomicSamplingReservoir::new(cap));
    let results: Arc<Mutex<Vec<Vec<String>>>> = Arc::new(Mutex::new(vec![Vec::new(); progs.len()]));
    let mut threads: Vec<Box<dyn FnOnce() + Send>> = Vec::new();
    for (tid, prog) in progs.iter().cloned().enumerate() {
        let results = results.clone();
        let r = r.clone();
        threads.push(Box::new(move || {
            for tok in prog {
                let o = do_op(&r, &tok);
                results.lock().unwrap()[tid].push(o);
            }
        }));
    }
    let out = sched::run(&sched, threads, 100000);
    let res = results.lock().unwrap().clone();
    let trace: Vec<String> = out.steps.iter().map(|(t, s)| format!("{}:{}", t, s)).collect();
    let rs: Vec<String> = res.iter().map(|r| r.join(" ")).collect();
    format!("{} ; {} ; {}", trace.join(" "), rs.join("|"), if out.all_finished { 1 } else { 0 })
}

// free-running trials (no script: the real RNG path): how often each stream position is yielded
fn run_free(cap: usize, n: usize, trials: usize) -> String {
    let mut counts = vec![0u64; n];
    let mut bad = 0u64;
    let r = AtomicSamplingReservoir::new(cap);
    for _ in 0..trials {
        for i in 0..n { r.push(i as f64); }
        r.consume(|drain| {
            let expect = if n > cap { cap as f64 / n as f64 } else { 1.0 };
            if drain.sample_rate() != expect || drain.len() != cap.min(n) { bad += 1; }
            for v in drain {
                let i = v as usize;
                if i < n { counts[i] += 1; } else { bad += 1; }
            }
        });
    }
    format!("r {} {}", bad, counts.iter().map(|c| c.to_string()).collect::<Vec<_>>().join(" "))
}

// free-running trials, each on a FRESH thread (the thread-local RNG is created per thread): per-position
// retention counts and the number of consecutive trials with identical slot contents
fn run_fresh(cap: usize, n: usize, trials: usize) -> String {
    let mut counts = vec![0u64; n];
    let mut bad = 0u64;
    let mut same = 0u64;
    let mut prev: Option<Vec<u64>> = None;
    for _ in 0..trials {
        let h = std::thread::spawn(move || {
            let r = AtomicSamplingReservoir::new(cap);
            for i in 0..n { r.push(i as f64); }
            let mut out: Vec<u64> = Vec::new();
            let mut ok = true;
            r.consume(|drain| {
                let expect = if n > cap { cap as f64 / n as f64 } else { 1.0 };
                if drain.sample_rate() != expect || drain.len() != cap.min(n) { ok = false; }
                out = drain.map(|v| v as u64).collect();
            });
            (ok, out)
        });
        match h.join() {
            Ok((ok, out)) => {
                if !ok { bad += 1; }
                for i in &out { if (*i as usize) < n { counts[*i as usize] += 1; } else { bad += 1; } }
                if prev.as_ref() == Some(&out) { same += 1; }
                prev = Some(out);
            }
            Err(_) => bad += 1,
        }
    }
    format!("f {} {} {}", bad, same, counts.iter().map(|c| c.to_string()).collect::<Vec<_>>().join(" "))
}

// free-running stress (real threads, no scheduler, real RNG): `pushers` threads push distinct
// positive integers while one thread consumes periodically.  Judged: only what must hold even
// inside the open late-push class (a drain never yields more than cap values nor more than its
// len(); every yielded value was pushed at some time, or is the never-written initial slot
// content 0.0 that a late push exposes (counted, not judged); sample_rate in (0,1]; no panic),
// and after join + flushing both sides a quiescent cycle behaves sequentially.
fn run_stress(cap: usize, pushers: usize, per: usize, consumes: usize) -> String {
    use std::collections::HashSet;
    let r = Arc::new(AtomicSamplingReservoir::new(cap));
    let mut hs = Vec::new();
    let live = Arc::new(std::sync::atomic::AtomicUsize::new(pushers));
    for t in 0..pushers {
        let r = r.clone();
        let live = live.clone();
        hs.push(std::thread::spawn(move || {
            for i in 0..per {
                r.push((t * 16_000_000 + i + 1) as f64);
                if i % 64 == 0 { std::thread::yield_now(); }
            }
            live.fetch_sub(1, std::sync::atomic::Ordering::SeqCst);
        }));
    }
    let mut drains: Vec<(usize, f64, Vec<f64>)> = Vec::new();
    let rc = r.clone();
    let ch = std::thread::spawn(move || {
        let mut out = Vec::new();
        // at least `consumes` drains, and keep draining while a pusher is running
        while out.len() < consumes || live.load(std::sync::atomic::Ordering::SeqCst) > 0 {
            rc.consume(|drain| {
                let l = drain.len();
                let rate = drain.sample_rate();
                out.push((l, rate, drain.collect::<Vec<f64>>()));
            });
            std::thread::yield_now();
        }
        out
    });
    let mut panics = 0;
    for h in hs { if h.join().is_err() { panics += 1; } }
    match ch.join() { Ok(o) => drains = o, Err(_) => panics += 1 }
    // flush both sides (still judged by the bounds only)
    for _ in 0..2 {
        r.consume(|drain| { let l = drain.len(); let rate = drain.sample_rate(); drains.push((l, rate, drain.collect())); });
    }
    let mut bad: Vec<String> = Vec::new();
    let (mut yielded, mut stale0) = (0usize, 0usize);
    let mut seen: HashSet<u64> = HashSet::new();
    for (l, rate, vals) in &drains {
        if *l > cap { bad.push("len>cap".into()); }
        if vals.len() != *l { bad.push("yielded!=len".into()); }
        if !(*rate > 0.0 && *rate <= 1.0) && cap > 0 { bad.push(format!("rate={}", rate)); }
        if cap == 0 && !(*rate == 0.0 || *rate == 1.0) { bad.push(format!("rate0={}", rate)); }
        for v in vals {
            yielded += 1;
            if *v == 0.0 { stale0 += 1; continue; }
            let id = *v as usize;
            let (t, i) = ((id - 1) / 16_000_000, (id - 1) % 16_000_000 + 1);
            if v.fract() != 0.0 || t >= pushers || i == 0 || i > per { bad.push(format!("neverpushed={}", v)); }
            seen.insert(v.to_bits());
        }
    }
    // quiescent cycle: m fresh values, one consume
    let m = cap + 3;
    for i in 0..m { r.push((900_000_000 + i) as f64); }
    r.consume(|drain| {
        let l = drain.len();
        let rate = drain.sample_rate();
        let vals: Vec<f64> = drain.collect();
        let expect_rate = if m > cap { cap as f64 / m as f64 } else { 1.0 };
        if l != cap.min(m) || vals.len() != l || rate != expect_rate { bad.push(format!("final:len={},rate={}", l, rate)); }
        if vals.iter().any(|v| *v < 900_000_000.0 || *v >= (900_000_000 + m) as f64) { bad.push("final:foreign".into()); }
    });
    bad.sort(); bad.dedup();
    format!("x panics={} drains={} yielded={} distinct={} stale0={} pushed={} bad={}", panics, drains.len(), yielded, seen.len(), stale0,
            pushers * per, if bad.is_empty() { "-".to_string() } else { bad.join(",") })
}

// only this property's own yield sites take part in the schedule: instrumented code of other
// properties reached from here (e.g. Key::get_hash under a registry lock) must pass through
fn own_site(site: u32) -> bool { (1601..=1612).contains(&site) }

fn main() {
    sched::set_site_filter(Some(own_site));
    std::panic::set_hook(Box::new(|_| {}));
    let stdin = std::io::stdin();
    let stdout = std::io::stdout();
    let mut w = std::io::BufWriter::new(stdout.lock());
    for line in stdin.lock().lines() {
        let line = line.unwrap();
        if line.trim().is_empty() { continue; }
        let parts: Vec<&str> = line.split('|').collect();
        let mut head = parts[0].split_whitespace();
        let mode = head.next().unwrap();
        let cap: usize = head.next().unwrap().parse().unwrap();
        let o = match mode {
            "S" => run_seq(cap, parts.get(1).copied().unwrap_or("")),
            "T" => run_threads(cap, parts[1], parts.get(2).copied().unwrap_or("")),
            "X" => {
                let a: Vec<usize> = head.map(|x| x.parse().unwrap()).collect();
                run_stress(cap, a[0], a[1], a[2])
            }
            "F" => {
                let n: usize = head.next().unwrap().parse().unwrap();
                let trials: usize = head.next().unwrap().parse().unwrap();
                run_fresh(cap, n, trials)
            }
            "R" => {
                let n: usize = head.next().unwrap().parse().unwrap();
                let trials: usize = head.next().unwrap().parse().unwrap();
                run_free(cap, n, trials)
            }
            _ => panic!("bad mode"),
        };
        writeln!(w, "{}", o).unwrap();
    }
}
