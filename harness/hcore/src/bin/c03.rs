// C03 correspondence driver: Key ==, cmp, std Hash (recorded call sequence), get_hash(), through every
// public constructor and string flavour.
//
// stdin: one case per line = [<storage> " || "] keys separated by " | ".  One key =
//     <ctor> <flav><namehex> <ops|-> L<chunk>;<chunk>;... [@<a>.<b>]
//   storage (optional): B<hex> = ONE leaked static text buffer of the case; strings of flavour p/q are sub-slices of it
//          (so equal-start/different-length, equal-content/different-address, overlapping and empty slices occur);
//          Q<label>,<label>,.. = ONE leaked static label slice of the case; a key with "@a.b" takes &Q[a..b] as its
//          constructor labels (its first chunk then only documents the contents)
//   ctor : P from_parts(Vec<Label>)   N from_name   G Key::from(name)   F Key::from((name, Vec<Label>))
//          I from_parts(name, slice::Iter<Label>)   R from_parts(name, &[(String, String)])
//          S from_static_parts   L from_static_labels   T from_static_name
//   flav : s static (&'static str, own allocation)   o owned String   O owned String with spare capacity   a Arc<str> (own allocation)
//          A clone of the case-wide Arc<str> for this text (same pointer for equal texts)
//          p<off>.<len> const_str(&B[off..off+len])   q<off>.<len> SharedString::from(&B[off..off+len])  (no hex)
//   chunk: labels "<flav><khex>:<flav><vhex>" separated by ','; the first chunk goes to the constructor,
//          every further chunk is added by one with_extra_labels call (an empty chunk = with_extra_labels(vec![]))
//   ops  : applied afterwards, left to right: c = replace the key by its clone, h = call get_hash()
// stdout: one line per case:
//     k <hashed-before 0/1> <hash-consistent 0/1> <hash-class> <events> ; ... ; e <rows of 0/1> ; c <rows of <=>> ; x <aux 0/1>
//       ; xe <m> <m> <m> <m> ; xc <m> <m> <m> <m>
//   e / c: == and cmp of the keys AS BUILT (observed before anything forces a hash: static/const-built keys are
//   still un-hashed); xe / xc: the same matrices for twin x twin, key x twin, as-built clone x hashed key,
//   hashed x hashed (twin = same content rebuilt the other way: un-hashed static <-> from_parts)
//   events: the exact sequence of Hasher calls made by <Key as Hash>::hash: w<hex> = write(bytes),
//           b<hex2> = write_u8, u<dec> = write_usize, ?<name> = any other write_* method
//   hash-class of key i = smallest j with get_hash(key j) == get_hash(key i)
//   or `panic <message>`
use metrics::{Key, KeyHasher, KeyName, Label, SharedString};
use metrics_util::Hashable;
use std::hash::{Hash, Hasher};
use std::io::{BufRead, Write};
use std::sync::Arc;

#[derive(Default)]
struct Rec {
    ev: Vec<String>,
}

fn hex(b: &[u8]) -> String {
    let mut s = String::with_capacity(b.len() * 2);
    for x in b {
        s.push_str(&format!("{:02x}", x));
    }
    s
}

fn unhex(s: &str) -> Vec<u8> {
    (0..s.len() / 2).map(|i| u8::from_str_radix(&s[2 * i..2 * i + 2], 16).unwrap()).collect()
}

impl Hasher for Rec {
    fn finish(&self) -> u64 {
        0
    }
    fn write(&mut self, bytes: &[u8]) {
        self.ev.push(format!("w{}", hex(bytes)));
    }
    fn write_u8(&mut self, i: u8) {
        self.ev.push(format!("b{:02x}", i));
    }
    fn write_usize(&mut self, i: usize) {
        self.ev.push(format!("u{}", i));
    }
    fn write_u16(&mut self, _: u16) {
        self.ev.push("?u16".into());
    }
    fn write_u32(&mut self, _: u32) {
        self.ev.push("?u32".into());
    }
    fn write_u64(&mut self, _: u64) {
        self.ev.push("?u64".into());
    }
    fn write_u128(&mut self, _: u128) {
        self.ev.push("?u128".into());
    }
    fn write_isize(&mut self, _: isize) {
        self.ev.push("?isize".into());
    }
    fn write_i8(&mut self, _: i8) {
        self.ev.push("?i8".into());
    }
    fn write_i16(&mut self, _: i16) {
        self.ev.push("?i16".into());
    }
    fn write_i32(&mut self, _: i32) {
        self.ev.push("?i32".into());
    }
    fn write_i64(&mut self, _: i64) {
        self.ev.push("?i64".into());
    }
    fn write_i128(&mut self, _: i128) {
        self.ev.push("?i128".into());
    }
}

fn leak(s: &str) -> &'static str {
    Box::leak(s.to_owned().into_boxed_str())
}

// storage shared by all keys of one case
struct Ctx {
    buf: &'static str,
    lpool: &'static [Label],
    arcs: std::cell::RefCell<std::collections::HashMap<String, Arc<str>>>,
}

fn pooled(tok: &str, ctx: &Ctx) -> &'static str {
    let (off, len) = tok[1..].split_once('.').expect("pooled string token is <p|q><off>.<len>");
    let (off, len): (usize, usize) = (off.parse().unwrap(), len.parse().unwrap());
    &ctx.buf[off..off + len]
}

fn is_pooled(tok: &str) -> bool {
    tok.starts_with('p') || tok.starts_with('q')
}

fn text(tok: &str, ctx: &Ctx) -> String {
    if is_pooled(tok) {
        pooled(tok, ctx).to_owned()
    } else {
        String::from_utf8(unhex(&tok[1..])).expect("case strings are UTF-8")
    }
}

// a &'static str for the constructors that need one: pooled flavours alias the case buffer, the others get their own allocation
fn static_str(tok: &str, ctx: &Ctx) -> &'static str {
    if is_pooled(tok) {
        pooled(tok, ctx)
    } else {
        leak(&text(tok, ctx))
    }
}

fn shared(tok: &str, ctx: &Ctx) -> SharedString {
    let f = &tok[..1];
    match f {
        "p" => SharedString::const_str(pooled(tok, ctx)),
        "q" => SharedString::from(pooled(tok, ctx)),
        _ => {
            let s = text(tok, ctx);
            match f {
                "s" => SharedString::const_str(leak(&s)),
                "o" => SharedString::from(s),
                "O" => {
                    // owned, with spare capacity (length and capacity differ in the Cow's metadata)
                    let mut t = String::with_capacity(s.len() + 7);
                    t.push_str(&s);
                    SharedString::from(t)
                }
                "a" => SharedString::from(Arc::<str>::from(s.as_str())),
                "A" => {
                    let arc = ctx.arcs.borrow_mut().entry(s.clone()).or_insert_with(|| Arc::<str>::from(s.as_str())).clone();
                    SharedString::from(arc)
                }
                _ => panic!("bad flavour {}", f),
            }
        }
    }
}

fn label(tok: &str, ctx: &Ctx) -> Label {
    let (k, v) = tok.split_once(':').unwrap();
    let stat = |t: &str| t.starts_with('s') || t.starts_with('p');
    if stat(k) && stat(v) {
        Label::from_static_parts(static_str(k, ctx), static_str(v, ctx))
    } else {
        Label::new(shared(k, ctx), shared(v, ctx))
    }
}

fn chunk(c: &str, ctx: &Ctx) -> Vec<Label> {
    if c.is_empty() {
        Vec::new()
    } else {
        c.split(',').map(|l| label(l, ctx)).collect()
    }
}

struct Built {
    key: Key,
    name: String,
    labels: Vec<(String, String)>,
}

fn build(spec: &str, ctx: &Ctx) -> Built {
    let t: Vec<&str> = spec.split_whitespace().collect();
    assert!(t.len() == 4 || t.len() == 5, "bad key spec {:?}", spec);
    let (ctor, name_tok, ops, chunks) = (t[0], t[1], t[2], &t[3][1..]);
    let chunks: Vec<&str> = chunks.split(';').collect();
    // constructor labels: either built from the first chunk, or the sub-slice &Q[a..b] of the case's static label slice
    let pool_slice: Option<&'static [Label]> = t.get(4).map(|r| {
        let (a, b) = r[1..].split_once('.').unwrap();
        &ctx.lpool[a.parse::<usize>().unwrap()..b.parse::<usize>().unwrap()]
    });
    let first = match pool_slice {
        Some(sl) => sl.to_vec(),
        None => chunk(chunks[0], ctx),
    };
    let name = shared(name_tok, ctx);
    let name_s = text(name_tok, ctx);
    let mut key = match ctor {
        "P" => Key::from_parts(name, first),
        "N" => {
            assert!(first.is_empty());
            Key::from_name(name)
        }
        "G" => {
            assert!(first.is_empty());
            Key::from(name)
        }
        "F" => Key::from((name, first)),
        "I" => Key::from_parts(KeyName::from(name), first.iter()),
        "R" => {
            let pairs: Vec<(String, String)> =
                first.iter().map(|l| (l.key().to_owned(), l.value().to_owned())).collect();
            Key::from_parts(name, &pairs[..])
        }
        "S" => Key::from_static_parts(
            static_str(name_tok, ctx),
            pool_slice.unwrap_or_else(|| Box::leak(first.into_boxed_slice())),
        ),
        "L" => Key::from_static_labels(name, pool_slice.unwrap_or_else(|| Box::leak(first.into_boxed_slice()))),
        "T" => {
            assert!(first.is_empty());
            Key::from_static_name(static_str(name_tok, ctx))
        }
        _ => panic!("bad ctor {}", ctor),
    };
    for c in &chunks[1..] {
        key = key.with_extra_labels(chunk(c, ctx));
    }
    if ops != "-" {
        for o in ops.chars() {
            match o {
                'c' => key = key.clone(),
                'h' => {
                    let _ = key.get_hash();
                }
                _ => panic!("bad op {}", o),
            }
        }
    }
    let mut labels = Vec::new();
    for c in &chunks {
        if !c.is_empty() {
            for l in c.split(',') {
                let (k, v) = l.split_once(':').unwrap();
                labels.push((text(k, ctx), text(v, ctx)));
            }
        }
    }
    Built { key, name: name_s, labels }
}

fn hashed_flag(k: &Key) -> bool {
    // Key's fields are private; its derived Debug form shows `hashed: <bool>` (std AtomicBool prints its value)
    let s = format!("{:?}", k);
    let i = s.rfind("hashed: ").expect("Debug form of Key has a `hashed` field");
    s[i + 8..].starts_with("true")
}

fn replay(ev: &[String]) -> Option<u64> {
    let mut h = KeyHasher::default();
    for e in ev {
        let (t, r) = e.split_at(1);
        match t {
            "w" => h.write(&unhex(r)),
            "b" => h.write_u8(u8::from_str_radix(r, 16).unwrap()),
            "u" => h.write_usize(r.parse().unwrap()),
            _ => return None,
        }
    }
    Some(h.finish())
}

fn run_case(line: &str) -> String {
    let (storage, keys) = match line.split_once("||") {
        Some((h, k)) => (h.trim(), k),
        None => ("", line),
    };
    let mut ctx = Ctx { buf: "", lpool: &[], arcs: Default::default() };
    for tok in storage.split_whitespace() {
        if let Some(h) = tok.strip_prefix('B') {
            ctx.buf = leak(&String::from_utf8(unhex(h)).expect("case buffer is UTF-8"));
        } else if let Some(q) = tok.strip_prefix('Q') {
            let ls = chunk(q, &ctx);
            ctx.lpool = Box::leak(ls.into_boxed_slice());
        } else {
            panic!("bad storage token {}", tok);
        }
    }
    let built: Vec<Built> = keys.split('|').map(|s| build(s.trim(), &ctx)).collect();
    let mut out: Vec<String> = Vec::new();
    let mut hashes: Vec<u64> = Vec::new();
    let mut aux = true;
    // ---- stage 0: nothing below forces a hash; every key is in the memo state its construction left it in
    let keys: Vec<&Key> = built.iter().map(|b| &b.key).collect();
    let twins: Vec<Key> = built.iter().map(twin_of).collect();
    let twin_refs: Vec<&Key> = twins.iter().collect();
    let as_built: Vec<Key> = keys.iter().map(|k| (*k).clone()).collect(); // clones carrying the as-built memo state
    let as_built_refs: Vec<&Key> = as_built.iter().collect();
    let m0 = matrices(&keys, &keys, &mut aux);
    let mt = matrices(&twin_refs, &twin_refs, &mut aux);
    let mx = matrices(&keys, &twin_refs, &mut aux);
    // ---- stage 1: per key; forces get_hash() on every key
    for (b, twin) in built.iter().zip(twins.iter()) {
        let k = &b.key;
        let hashed0 = hashed_flag(k);
        let mut rec = Rec::default();
        k.hash(&mut rec);
        let mut rec2 = Rec::default();
        k.hash(&mut rec2);
        let pre_clone = k.clone(); // cloned before the first get_hash of this key (may be un-memoised)
        let h1 = k.get_hash();
        let hashed1 = hashed_flag(k);
        let h2 = k.get_hash();
        let h3 = {
            let mut kh = KeyHasher::default();
            k.hash(&mut kh);
            kh.finish()
        };
        let h4 = replay(&rec.ev);
        let h5 = pre_clone.get_hash();
        let post_clone = k.clone();
        let h6 = post_clone.get_hash();
        let h7 = Hashable::hashable(k);
        let ok = hashed1
            && hashed_flag(&post_clone)
            && rec.ev == rec2.ev
            && h1 == h2
            && h1 == h3
            && Some(h1) == h4
            && h1 == h5
            && h1 == h6
            && h1 == h7;
        // accessors give back exactly what was put in, in the supplied order
        let got: Vec<(String, String)> = k.labels().map(|l| (l.key().to_owned(), l.value().to_owned())).collect();
        aux &= k.name() == b.name && got == b.labels && pre_clone == *k && post_clone == *k;
        let (kn, ls) = k.clone().into_parts();
        aux &= kn.as_str() == b.name && ls.len() == b.labels.len();
        // the differently built twin has the same content: same Hash feed, same get_hash(), equal both ways
        let mut rect = Rec::default();
        twin.hash(&mut rect);
        aux &= rect.ev == rec.ev && twin.get_hash() == h1 && *twin == *k && *k == *twin && hashed_flag(twin);
        let cls = hashes.iter().position(|x| *x == h1).unwrap_or(hashes.len());
        hashes.push(h1);
        out.push(format!("k {} {} {} {}", hashed0 as u8, ok as u8, cls, rec.ev.join(",")));
    }
    // ---- stage 2: the same comparisons with the hash forced on the right operand only, then on both
    let m1 = matrices(&as_built_refs, &keys, &mut aux);
    let m2 = matrices(&keys, &keys, &mut aux);
    out.push(format!("e {}", m0.0));
    out.push(format!("c {}", m0.1));
    out.push(format!("x {}", aux as u8));
    out.push(format!("xe {} {} {} {}", mt.0, mx.0, m1.0, m2.0));
    out.push(format!("xc {} {} {} {}", mt.1, mx.1, m1.1, m2.1));
    out.join(" ; ")
}

// the same name and labels rebuilt the OTHER way: a key that carries a hash gets a never-hashed twin from
// from_static_parts on fresh static storage, a never-hashed key gets a from_parts twin on owned strings (hashed at birth)
fn twin_of(b: &Built) -> Key {
    if hashed_flag(&b.key) {
        let ls: Vec<Label> = b.labels.iter().map(|(k, v)| Label::from_static_parts(leak(k), leak(v))).collect();
        Key::from_static_parts(leak(&b.name), Box::leak(ls.into_boxed_slice()))
    } else {
        let ls: Vec<Label> = b.labels.iter().map(|(k, v)| Label::new(k.clone(), v.clone())).collect();
        Key::from_parts(b.name.clone(), ls)
    }
}

// == and cmp of left[i] against right[j] for all i, j (rows joined by '/'); the derived operators must agree
fn matrices(left: &[&Key], right: &[&Key], aux: &mut bool) -> (String, String) {
    let mut erows = Vec::new();
    let mut crows = Vec::new();
    for a in left {
        let mut e = String::new();
        let mut c = String::new();
        for b in right {
            let (a, b): (&Key, &Key) = (a, b);
            let eq = a == b;
            let cm = a.cmp(b);
            *aux &= (a != b) == !eq && a.partial_cmp(b) == Some(cm);
            *aux &= (a < b) == (cm == std::cmp::Ordering::Less) && (a >= b) == (cm != std::cmp::Ordering::Less);
            e.push(if eq { '1' } else { '0' });
            c.push(match cm {
                std::cmp::Ordering::Less => '<',
                std::cmp::Ordering::Equal => '=',
                std::cmp::Ordering::Greater => '>',
            });
        }
        erows.push(e);
        crows.push(c);
    }
    (erows.join("/"), crows.join("/"))
}

fn main() {
    std::panic::set_hook(Box::new(|_| {}));
    let stdin = std::io::stdin();
    let stdout = std::io::stdout();
    let mut w = std::io::BufWriter::new(stdout.lock());
    for line in stdin.lock().lines() {
        let line = line.unwrap();
        if line.trim().is_empty() {
            continue;
        }
        let l2 = line.clone();
        match std::panic::catch_unwind(move || run_case(&l2)) {
            Ok(s) => writeln!(w, "{}", s).unwrap(),
            Err(e) => {
                let msg = e
                    .downcast_ref::<String>()
                    .cloned()
                    .or_else(|| e.downcast_ref::<&str>().map(|s| s.to_string()))
                    .unwrap_or_else(|| "?".into());
                writeln!(w, "panic {}", msg.replace('\n', " ")).unwrap()
            }
        }
    }
}
