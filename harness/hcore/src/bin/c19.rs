// C19 correspondence driver: one or two real `DebuggingRecorder`s, each installed locally
// (`metrics::with_local_recorder`) on its own worker thread; the main thread feeds the workers one
// operation at a time and waits for the reply, so the history is executed in the given order.
// Every describe / register goes through `metrics::with_recorder` on the worker thread, i.e. to
// whatever recorder is in scope there; updates go through the handles returned by register_*.
//
// stdin: one case per line, space separated ops (strings hex encoded, r = recorder 0|1):
//   D:r:<c|g|h>:<style>:<namehex>:<unit idx|->:<deschex>
//   R:r:<c|g|h>:<style>:<namehex>:<knhex>=<vhex>,<knhex>=<vhex>...      (handle number = order of R on r)
//   U:r:<handle>:<ci|ca|gs|gi|gd|hr>:<integer>
//   S:r:<where>            where = m (snapshot taken on the main thread) | w (on the worker thread)
// stdout: one line per case: `ok` followed by one token per snapshot
//   S<r>[<entry>|<entry>...]   entry = <c|g|h>,<namehex>,<knhex>=<vhex>;...,<unit idx|->,<deschex|->,<value>
//   value = c<u64> | g<i64> | h<i64>/<i64>/...     (the order in which into_vec() / clear_with gave them)
use metrics::{Counter, Gauge, Histogram, Key, KeyName, Label, Level, Metadata, SharedString, Unit};
use metrics_util::debugging::{DebugValue, DebuggingRecorder, Snapshotter};
use metrics_util::MetricKind;
use std::io::{BufRead, Write};
use std::sync::mpsc::{channel, Receiver, Sender};
use std::sync::Arc;

const UNITS: [Unit; 17] = [
    Unit::Count, Unit::Percent, Unit::Seconds, Unit::Milliseconds, Unit::Microseconds, Unit::Nanoseconds,
    Unit::Tebibytes, Unit::Gibibytes, Unit::Mebibytes, Unit::Kibibytes, Unit::Bytes,
    Unit::TerabitsPerSecond, Unit::GigabitsPerSecond, Unit::MegabitsPerSecond, Unit::KilobitsPerSecond,
    Unit::BitsPerSecond, Unit::CountPerSecond,
];

fn unhex(s: &str) -> String {
    let b: Vec<u8> = (0..s.len() / 2).map(|i| u8::from_str_radix(&s[2 * i..2 * i + 2], 16).unwrap()).collect();
    String::from_utf8(b).expect("utf8")
}
fn hex(s: &str) -> String {
    s.bytes().map(|b| format!("{:02x}", b)).collect()
}
fn leak(s: &str) -> &'static str {
    Box::leak(s.to_string().into_boxed_str())
}

// equal keys built in different ways
fn build_key(style: u32, name: &str, labels: &[(String, String)]) -> Key {
    let owned = |ls: &[(String, String)]| -> Vec<Label> { ls.iter().map(|(k, v)| Label::new(k.clone(), v.clone())).collect() };
    let statics = |ls: &[(String, String)]| -> &'static [Label] {
        let v: Vec<Label> = ls.iter().map(|(k, v)| Label::from_static_parts(leak(k), leak(v))).collect();
        Box::leak(v.into_boxed_slice())
    };
    match style % 7 {
        0 => Key::from_parts(name.to_string(), owned(labels)),
        1 => Key::from_static_parts(leak(name), statics(labels)),
        2 => Key::from_static_labels(name.to_string(), statics(labels)),
        3 => {
            let k = Key::from_parts(name.to_string(), owned(labels));
            let c = k.clone();
            drop(k);
            c
        }
        4 => Key::from_name(name.to_string()).with_extra_labels(owned(labels)),
        5 => {
            // shared (Arc) strings
            let ls: Vec<Label> = labels
                .iter()
                .map(|(k, v)| Label::new(SharedString::from_shared(Arc::from(k.as_str())), SharedString::from_shared(Arc::from(v.as_str()))))
                .collect();
            Key::from_parts(SharedString::from_shared(Arc::from(name)), ls)
        }
        _ => {
            // un-hashed static key, cloned before its hash was ever computed
            let k = Key::from_static_parts(leak(name), statics(labels));
            k.clone()
        }
    }
}

enum Handle {
    C(Counter),
    G(Gauge),
    H(Histogram),
}

enum Cmd {
    Op(String),
    Snap,
    Quit,
}

fn render(snap: Vec<(metrics_util::CompositeKey, Option<Unit>, Option<SharedString>, DebugValue)>) -> String {
    let mut es = Vec::new();
    for (ck, unit, desc, value) in snap {
        let k = match ck.kind() {
            MetricKind::Counter => "c",
            MetricKind::Gauge => "g",
            MetricKind::Histogram => "h",
        };
        let labels: Vec<String> = ck.key().labels().map(|l| format!("{}={}", hex(l.key()), hex(l.value()))).collect();
        let u = match unit {
            None => "-".to_string(),
            Some(u) => UNITS.iter().position(|x| *x == u).unwrap().to_string(),
        };
        let d = match desc {
            None => "-".to_string(),
            Some(d) => hex(&d),
        };
        let f = |v: f64| -> String {
            if v.fract() == 0.0 && v.abs() < 9.0e15 && !(v == 0.0 && v.is_sign_negative()) {
                format!("{}", v as i64)
            } else {
                format!("x{:016x}", v.to_bits())
            }
        };
        let v = match value {
            DebugValue::Counter(c) => format!("c{}", c),
            DebugValue::Gauge(g) => format!("g{}", f(g.into_inner())),
            DebugValue::Histogram(hs) => format!("h{}", hs.iter().map(|x| f(x.into_inner())).collect::<Vec<_>>().join("/")),
        };
        es.push(format!("{},{},{},{},{},{}", k, hex(ck.key().name()), labels.join(";"), u, d, v));
    }
    es.join("|")
}

fn exec_op(tok: &str, handles: &mut Vec<Handle>) {
    let f: Vec<&str> = tok.split(':').collect();
    static META: Metadata<'static> = Metadata::new("c19", Level::INFO, None);
    match f[0] {
        "D" => {
            let name = unhex(f[4]);
            let kn: KeyName = if f[3] == "1" { KeyName::from_const_str(leak(&name)) } else { KeyName::from(name) };
            let unit = if f[5] == "-" { None } else { Some(UNITS[f[5].parse::<usize>().unwrap()].clone()) };
            let d = unhex(f[6]);
            let desc: SharedString = if f[3] == "1" { SharedString::const_str(leak(&d)) } else { SharedString::from_owned(d) };
            metrics::with_recorder(|r| match f[2] {
                "c" => r.describe_counter(kn, unit, desc),
                "g" => r.describe_gauge(kn, unit, desc),
                _ => r.describe_histogram(kn, unit, desc),
            });
        }
        "R" => {
            let name = unhex(f[4]);
            let labels: Vec<(String, String)> = if f[5].is_empty() {
                vec![]
            } else {
                f[5].split(',').map(|p| { let (a, b) = p.split_once('=').unwrap(); (unhex(a), unhex(b)) }).collect()
            };
            let key = build_key(f[3].parse().unwrap(), &name, &labels);
            let h = metrics::with_recorder(|r| match f[2] {
                "c" => Handle::C(r.register_counter(&key, &META)),
                "g" => Handle::G(r.register_gauge(&key, &META)),
                _ => Handle::H(r.register_histogram(&key, &META)),
            });
            drop(key);
            handles.push(h);
        }
        "U" => {
            let h = &handles[f[2].parse::<usize>().unwrap()];
            match (h, f[3]) {
                (Handle::C(c), "ci") => c.increment(f[4].parse::<u64>().unwrap()),
                (Handle::C(c), "ca") => c.absolute(f[4].parse::<u64>().unwrap()),
                (Handle::G(g), "gs") => g.set(f[4].parse::<i64>().unwrap() as f64),
                (Handle::G(g), "gi") => g.increment(f[4].parse::<i64>().unwrap() as f64),
                (Handle::G(g), "gd") => g.decrement(f[4].parse::<i64>().unwrap() as f64),
                (Handle::H(h), "hr") => h.record(f[4].parse::<i64>().unwrap() as f64),
                _ => panic!("update {} does not fit the handle", tok),
            }
        }
        _ => panic!("bad op {}", tok),
    }
}

fn worker(rec: DebuggingRecorder, snapper: Snapshotter, rx: Receiver<Cmd>, tx: Sender<Result<String, String>>) {
    metrics::with_local_recorder(&rec, || {
        let mut handles: Vec<Handle> = Vec::new();
        for cmd in rx.iter() {
            match cmd {
                Cmd::Quit => break,
                Cmd::Snap => {
                    let r = std::panic::catch_unwind(std::panic::AssertUnwindSafe(|| render(snapper.snapshot().into_vec())));
                    tx.send(r.map_err(|e| panic_text(e))).unwrap();
                }
                Cmd::Op(tok) => {
                    let r = std::panic::catch_unwind(std::panic::AssertUnwindSafe(|| exec_op(&tok, &mut handles)));
                    tx.send(r.map(|_| String::new()).map_err(|e| panic_text(e))).unwrap();
                }
            }
        }
    });
}

fn panic_text(e: Box<dyn std::any::Any + Send>) -> String {
    let s = if let Some(s) = e.downcast_ref::<&str>() { s.to_string() } else if let Some(s) = e.downcast_ref::<String>() { s.clone() } else { "?".into() };
    hex(&s)
}

fn run_case(line: &str) -> String {
    let mut txs = Vec::new();
    let mut rxs = Vec::new();
    let mut snappers = Vec::new();
    let mut joins = Vec::new();
    for _ in 0..2 {
        let rec = DebuggingRecorder::new();
        let snapper = rec.snapshotter();
        snappers.push(snapper.clone());
        let (ctx, crx) = channel::<Cmd>();
        let (rtx, rrx) = channel::<Result<String, String>>();
        joins.push(std::thread::spawn(move || worker(rec, snapper, crx, rtx)));
        txs.push(ctx);
        rxs.push(rrx);
    }
    let mut out = vec!["ok".to_string()];
    for tok in line.split_whitespace() {
        let f: Vec<&str> = tok.split(':').collect();
        let r: usize = f[1].parse().unwrap();
        if f[0] == "S" {
            let res = if f[2] == "w" {
                txs[r].send(Cmd::Snap).unwrap();
                rxs[r].recv().unwrap()
            } else {
                std::panic::catch_unwind(std::panic::AssertUnwindSafe(|| render(snappers[r].snapshot().into_vec()))).map_err(panic_text)
            };
            match res {
                Ok(s) => out.push(format!("S{}[{}]", r, s)),
                Err(p) => { out = vec![format!("panic:{}", p)]; break; }
            }
        } else {
            txs[r].send(Cmd::Op(tok.to_string())).unwrap();
            if let Err(p) = rxs[r].recv().unwrap() { out = vec![format!("panic:{}", p)]; break; }
        }
    }
    for t in &txs { let _ = t.send(Cmd::Quit); }
    for j in joins { let _ = j.join(); }
    out.join(" ")
}

fn main() {
    std::panic::set_hook(Box::new(|_| {}));
    let stdin = std::io::stdin();
    let stdout = std::io::stdout();
    let mut w = std::io::BufWriter::new(stdout.lock());
    for line in stdin.lock().lines() {
        let line = line.unwrap();
        if line.trim().is_empty() { writeln!(w, "ok").unwrap(); continue; }
        writeln!(w, "{}", run_case(&line)).unwrap();
    }
}
