// C19 correspondence driver: one or two real `DebuggingRecorder`s, each installed locally
// (`metrics::with_local_recorder`) on its own worker thread; the main thread feeds the workers one
// operation at a time and waits for the reply, so the history is executed in the given order.
// Every describe / register goes through `metrics::with_recorder` on the worker thread, i.e. to
// whatever recorder is in scope there; updates go through the handles returned by register_*.
//
// stdin: one case per line, space separated ops (strings hex encoded, r = recorder 0|1):
//   D:r:<c|g|h>:<style>:<namehex>:<unit idx|->:<deschex>
//   R:r:<c|g|h>:<style>:<namehex>:<knhex>=<vhex>,<knhex>=<vhex>...      (handle number = order of R on r)
//   U:r:<handle>:<ci|ca|gs|gi|gd|hr>:<integer>
//   S:r:<where>            where = m (snapshot taken on the main thread) | w (on the worker thread)
//   STRESS <recorder threads 1..> <histograms 1..> <values per thread> <paced snapshots>
//            free-running stress round (real threads, no scheduler), see fn stress
//   REGRACE <threads 2..> <fresh keys> <concurrent snapshots, 0 = snapshots only after the join>
//            registration racing registration / update / snapshot, see fn regrace
// stdout: one line per case: `ok` followed by one token per snapshot
//   S<r>[<entry>|<entry>...]   entry = <c|g|h>,<namehex>,<knhex>=<vhex>;...,<unit idx|->,<deschex|->,<value>
//   value = c<u64> | g<i64> | h<i64>/<i64>/...     (the order in which into_vec() / clear_with gave them)
use metrics::{Counter, Gauge, Histogram, Key, KeyName, Label, Level, Metadata, SharedString, Unit};
use metrics_util::debugging::{DebugValue, DebuggingRecorder, Snapshotter};
use metrics_util::MetricKind;
use std::io::{BufRead, Write};
use std::sync::mpsc::{channel, Receiver, Sender};
use std::sync::Arc;

const UNITS: [Unit; 17] = [
    Unit::Count, Unit::Percent, Unit::Seconds, Unit::Milliseconds, Unit::Microseconds, Unit::Nanoseconds,
    Unit::Tebibytes, Unit::Gibibytes, Unit::Mebibytes, Unit::Kibibytes, Unit::Bytes,
    Unit::TerabitsPerSecond, Unit::GigabitsPerSecond, Unit::MegabitsPerSecond, Unit::KilobitsPerSecond,
    Unit::BitsPerSecond, Unit::CountPerSecond,
];

fn unhex(s: &str) -> String {
    let b: Vec<u8> = (0..s.len() / 2).map(|i| u8::from_str_radix(&s[2 * i..2 * i + 2], 16).unwrap()).collect();
    String::from_utf8(b).expect("utf8")
}
fn hex(s: &str) -> String {
    s.bytes().map(|b| format!("{:02x}", b)).collect()
}
fn leak(s: &str) -> &'static str {
    Box::leak(s.to_string().into_boxed_str())
}

// equal keys built in different ways
fn build_key(style: u32, name: &str, labels: &[(String, String)]) -> Key {
    let owned = |ls: &[(String, String)]| -> Vec<Label> { ls.iter().map(|(k, v)| Label::new(k.clone(), v.clone())).collect() };
    let statics = |ls: &[(String, String)]| -> &'static [Label] {
        let v: Vec<Label> = ls.iter().map(|(k, v)| Label::from_static_parts(leak(k), leak(v))).collect();
        Box::leak(v.into_boxed_slice())
    };
    match style % 7 {
        0 => Key::from_parts(name.to_string(), owned(labels)),
        1 => Key::from_static_parts(leak(name), statics(labels)),
        2 => Key::from_static_labels(name.to_string(), statics(labels)),
        3 => {
            let k = Key::from_parts(name.to_string(), owned(labels));
            let c = k.clone();
            drop(k);
            c
        }
        4 => Key::from_name(name.to_string()).with_extra_labels(owned(labels)),
        5 => {
            // shared (Arc) strings
            let ls: Vec<Label> = labels
                .iter()
                .map(|(k, v)| Label::new(SharedString::from_shared(Arc::from(k.as_str())), SharedString::from_shared(Arc::from(v.as_str()))))
                .collect();
            Key::from_parts(SharedString::from_shared(Arc::from(name)), ls)
        }
        _ => {
            // un-hashed static key, cloned before its hash was ever computed
            let k = Key::from_static_parts(leak(name), statics(labels));
            k.clone()
        }
    }
}

enum Handle {
    C(Counter),
    G(Gauge),
    H(Histogram),
}

enum Cmd {
    Op(String),
    Snap,
    Quit,
}

fn render(snap: Vec<(metrics_util::CompositeKey, Option<Unit>, Option<SharedString>, DebugValue)>) -> String {
    let mut es = Vec::new();
    for (ck, unit, desc, value) in snap {
        let k = match ck.kind() {
            MetricKind::Counter => "c",
            MetricKind::Gauge => "g",
            MetricKind::Histogram => "h",
        };
        let labels: Vec<String> = ck.key().labels().map(|l| format!("{}={}", hex(l.key()), hex(l.value()))).collect();
        let u = match unit {
            None => "-".to_string(),
            Some(u) => UNITS.iter().position(|x| *x == u).unwrap().to_string(),
        };
        let d = match desc {
            None => "-".to_string(),
            Some(d) => hex(&d),
        };
        let f = |v: f64| -> String {
            if v.fract() == 0.0 && v.abs() < 9.0e15 && !(v == 0.0 && v.is_sign_negative()) {
                format!("{}", v as i64)
            } else {
                format!("x{:016x}", v.to_bits())
            }
        };
        let v = match value {
            DebugValue::Counter(c) => format!("c{}", c),
            DebugValue::Gauge(g) => format!("g{}", f(g.into_inner())),
            DebugValue::Histogram(hs) => format!("h{}", hs.iter().map(|x| f(x.into_inner())).collect::<Vec<_>>().join("/")),
        };
        es.push(format!("{},{},{},{},{},{}", k, hex(ck.key().name()), labels.join(";"), u, d, v));
    }
    es.join("|")
}

fn exec_op(tok: &str, handles: &mut Vec<Handle>) {
    let f: Vec<&str> = tok.split(':').collect();
    static META: Metadata<'static> = Metadata::new("c19", Level::INFO, None);
    match f[0] {
        "D" => {
            let name = unhex(f[4]);
            let kn: KeyName = if f[3] == "1" { KeyName::from_const_str(leak(&name)) } else { KeyName::from(name) };
            let unit = if f[5] == "-" { None } else { Some(UNITS[f[5].parse::<usize>().unwrap()].clone()) };
            let d = unhex(f[6]);
            let desc: SharedString = if f[3] == "1" { SharedString::const_str(leak(&d)) } else { SharedString::from_owned(d) };
            metrics::with_recorder(|r| match f[2] {
                "c" => r.describe_counter(kn, unit, desc),
                "g" => r.describe_gauge(kn, unit, desc),
                _ => r.describe_histogram(kn, unit, desc),
            });
        }
        "R" => {
            let name = unhex(f[4]);
            let labels: Vec<(String, String)> = if f[5].is_empty() {
                vec![]
            } else {
                f[5].split(',').map(|p| { let (a, b) = p.split_once('=').unwrap(); (unhex(a), unhex(b)) }).collect()
            };
            let key = build_key(f[3].parse().unwrap(), &name, &labels);
            let h = metrics::with_recorder(|r| match f[2] {
                "c" => Handle::C(r.register_counter(&key, &META)),
                "g" => Handle::G(r.register_gauge(&key, &META)),
                _ => Handle::H(r.register_histogram(&key, &META)),
            });
            drop(key);
            handles.push(h);
        }
        "U" => {
            let h = &handles[f[2].parse::<usize>().unwrap()];
            match (h, f[3]) {
                (Handle::C(c), "ci") => c.increment(f[4].parse::<u64>().unwrap()),
                (Handle::C(c), "ca") => c.absolute(f[4].parse::<u64>().unwrap()),
                (Handle::G(g), "gs") => g.set(f[4].parse::<i64>().unwrap() as f64),
                (Handle::G(g), "gi") => g.increment(f[4].parse::<i64>().unwrap() as f64),
                (Handle::G(g), "gd") => g.decrement(f[4].parse::<i64>().unwrap() as f64),
                (Handle::H(h), "hr") => h.record(f[4].parse::<i64>().unwrap() as f64),
                _ => panic!("update {} does not fit the handle", tok),
            }
        }
        _ => panic!("bad op {}", tok),
    }
}

fn worker(rec: DebuggingRecorder, snapper: Snapshotter, rx: Receiver<Cmd>, tx: Sender<Result<String, String>>) {
    metrics::with_local_recorder(&rec, || {
        let mut handles: Vec<Handle> = Vec::new();
        for cmd in rx.iter() {
            match cmd {
                Cmd::Quit => break,
                Cmd::Snap => {
                    let r = std::panic::catch_unwind(std::panic::AssertUnwindSafe(|| render(snapper.snapshot().into_vec())));
                    tx.send(r.map_err(|e| panic_text(e))).unwrap();
                }
                Cmd::Op(tok) => {
                    let r = std::panic::catch_unwind(std::panic::AssertUnwindSafe(|| exec_op(&tok, &mut handles)));
                    tx.send(r.map(|_| String::new()).map_err(|e| panic_text(e))).unwrap();
                }
            }
        }
    });
}

fn panic_text(e: Box<dyn std::any::Any + Send>) -> String {
    let s = if let Some(s) = e.downcast_ref::<&str>() { s.to_string() } else if let Some(s) = e.downcast_ref::<String>() { s.clone() } else { "?".into() };
    hex(&s)
}

fn run_case(line: &str) -> String {
    let mut txs = Vec::new();
    let mut rxs = Vec::new();
    let mut snappers = Vec::new();
    let mut joins = Vec::new();
    for _ in 0..2 {
        let rec = DebuggingRecorder::new();
        let snapper = rec.snapshotter();
        snappers.push(snapper.clone());
        let (ctx, crx) = channel::<Cmd>();
        let (rtx, rrx) = channel::<Result<String, String>>();
        joins.push(std::thread::spawn(move || worker(rec, snapper, crx, rtx)));
        txs.push(ctx);
        rxs.push(rrx);
    }
    let mut out = vec!["ok".to_string()];
    for tok in line.split_whitespace() {
        let f: Vec<&str> = tok.split(':').collect();
        let r: usize = f[1].parse().unwrap();
        if f[0] == "S" {
            let res = if f[2] == "w" {
                txs[r].send(Cmd::Snap).unwrap();
                rxs[r].recv().unwrap()
            } else {
                std::panic::catch_unwind(std::panic::AssertUnwindSafe(|| render(snappers[r].snapshot().into_vec()))).map_err(panic_text)
            };
            match res {
                Ok(s) => out.push(format!("S{}[{}]", r, s)),
                Err(p) => { out = vec![format!("panic:{}", p)]; break; }
            }
        } else {
            txs[r].send(Cmd::Op(tok.to_string())).unwrap();
            if let Err(p) = rxs[r].recv().unwrap() { out = vec![format!("panic:{}", p)]; break; }
        }
    }
    for t in &txs { let _ = t.send(Cmd::Quit); }
    for j in joins { let _ = j.join(); }
    out.join(" ")
}

// Free-running stress round.  One DebuggingRecorder; `threads` recorder threads (each with the
// recorder installed locally) obtain their handles once and then record the distinct values
// t*2^32 + i (integer-valued f64 < 2^53) round-robin into `hists` histograms, bump a shared counter
// by 1 per record and a shared gauge by 1.0 every 16th record, while the main thread takes `snaps`
// snapshots paced over the recording (the k-th when about k/(snaps+1) of all values were recorded).
// After the join, final snapshots are taken until the histograms stay empty.  Reported: how often
// each value was shown (lost = never, dups = more than once, within or across snapshots), values
// never recorded / shown under the wrong histogram, number of snapshots begun while a recorder thread was
// still running, and the final counter / gauge entries.  The verdict is python's (vlib/c19.py).
fn stress(threads: usize, hists: usize, n: usize, snaps: usize) -> String {
    use std::sync::atomic::{AtomicU64, AtomicUsize, Ordering};
    static META: Metadata<'static> = Metadata::new("c19-stress", Level::INFO, None);
    let t0 = std::time::Instant::now();
    let rec = DebuggingRecorder::new();
    let snapper = rec.snapshotter();
    let progress: Vec<AtomicU64> = (0..threads).map(|_| AtomicU64::new(0)).collect();
    let done = AtomicUsize::new(0);
    let barrier = std::sync::Barrier::new(threads + 1);
    let hkey = |j: usize| Key::from_parts("stress_h", vec![Label::new("j", j.to_string())]);
    let mut counts: Vec<Vec<u8>> = vec![vec![0u8; n]; threads];
    let (mut dups, mut invented, mut drains_during, mut paced, mut shown) = (0u64, 0u64, 0u64, 0u64, 0u64);
    let mut final_counter: Option<u64> = None;
    let mut final_gauge: Option<f64> = None;
    let mut absorb = |snap: Vec<(metrics_util::CompositeKey, Option<Unit>, Option<SharedString>, DebugValue)>,
                      counts: &mut Vec<Vec<u8>>| -> u64 {
        let mut got = 0u64;
        for (ck, _, _, value) in snap {
            match value {
                DebugValue::Counter(c) => final_counter = Some(c),
                DebugValue::Gauge(g) => final_gauge = Some(g.into_inner()),
                DebugValue::Histogram(vs) => {
                    let j: usize = ck.key().labels().next().map(|l| l.value().parse().unwrap_or(usize::MAX)).unwrap_or(usize::MAX);
                    for v in vs {
                        got += 1;
                        let f = v.into_inner();
                        if !(f >= 0.0 && f.fract() == 0.0 && f < 9.0e15) { invented += 1; continue; }
                        let x = f as u64;
                        let (t, i) = ((x >> 32) as usize, (x & 0xffff_ffff) as usize);
                        if t >= threads || i >= n || i % hists != j { invented += 1; continue; }
                        let c = &mut counts[t][i];
                        if *c >= 1 { dups += 1; }
                        *c = c.saturating_add(1);
                    }
                }
            }
        }
        got
    };
    std::thread::scope(|sc| {
        for t in 0..threads {
            let (rec, progress, done, barrier, hkey) = (&rec, &progress, &done, &barrier, &hkey);
            sc.spawn(move || {
                metrics::with_local_recorder(rec, || {
                    let hs: Vec<Histogram> = (0..hists).map(|j| metrics::with_recorder(|r| r.register_histogram(&hkey(j), &META))).collect();
                    let c = metrics::with_recorder(|r| r.register_counter(&Key::from_name("stress_c"), &META));
                    let g = metrics::with_recorder(|r| r.register_gauge(&Key::from_name("stress_g"), &META));
                    barrier.wait();
                    for i in 0..n {
                        hs[i % hists].record((((t as u64) << 32) + i as u64) as f64);
                        c.increment(1);
                        if i % 16 == 0 { g.increment(1.0); }
                        if i % 256 == 255 { progress[t].store(i as u64 + 1, Ordering::Relaxed); }
                    }
                    progress[t].store(n as u64, Ordering::Relaxed);
                    done.fetch_add(1, Ordering::SeqCst);
                })
            });
        }
        barrier.wait();
        let total = (threads * n) as u64;
        for k in 1..=snaps as u64 {
            let want = total * k / (snaps as u64 + 1);
            loop {
                if done.load(Ordering::SeqCst) == threads { break; }
                if progress.iter().map(|p| p.load(Ordering::Relaxed)).sum::<u64>() >= want { break; }
                std::hint::spin_loop();
            }
            if done.load(Ordering::SeqCst) == threads { break; }
            drains_during += 1;
            paced += 1;
            shown += absorb(snapper.snapshot().into_vec(), &mut counts);
        }
        // one more that may still overlap the tail of the recording
        if done.load(Ordering::SeqCst) < threads { drains_during += 1; }
        shown += absorb(snapper.snapshot().into_vec(), &mut counts);
    });
    // all recorder threads have finished: drain until nothing is left (a drained histogram must stay empty)
    let mut final_snaps = 0u64;
    let mut after_empty = 0u64;
    loop {
        final_snaps += 1;
        let got = absorb(snapper.snapshot().into_vec(), &mut counts);
        shown += got;
        if got == 0 { break; }
        if final_snaps >= 6 { after_empty = got; break; }
    }
    let lost: u64 = counts.iter().map(|c| c.iter().filter(|x| **x == 0).count() as u64).sum();
    let gauge_expect = (threads * ((n + 15) / 16)) as f64;
    format!(
        "stress threads={} hists={} recorded={} shown={} lost={} dups={} invented={} paced={} drains_during={} final_snaps={} never_empty={} counter={} counter_expect={} gauge={} gauge_expect={} ms={}",
        threads, hists, threads * n, shown, lost, dups, invented, paced, drains_during, final_snaps, after_empty,
        final_counter.map(|c| c.to_string()).unwrap_or("-".into()), threads * n,
        final_gauge.map(|g| g.to_string()).unwrap_or("-".into()), gauge_expect, t0.elapsed().as_millis()
    )
}

// sense-reversing spin barrier: releases all parties within a few hundred ns (std::sync::Barrier wakes
// its waiters one futex at a time, which spreads the "simultaneous" first registrations apart)
struct SpinBarrier {
    n: usize,
    count: std::sync::atomic::AtomicUsize,
    gen: std::sync::atomic::AtomicUsize,
}
impl SpinBarrier {
    fn new(n: usize) -> Self {
        SpinBarrier { n, count: std::sync::atomic::AtomicUsize::new(0), gen: std::sync::atomic::AtomicUsize::new(0) }
    }
    fn wait(&self) {
        use std::sync::atomic::Ordering::*;
        let g = self.gen.load(Acquire);
        if self.count.fetch_add(1, AcqRel) + 1 == self.n {
            self.count.store(0, Relaxed);
            self.gen.store(g.wrapping_add(1), Release);
        } else {
            let mut spins = 0u32;
            while self.gen.load(Acquire) == g {
                spins += 1;
                if spins > 20_000 { std::thread::yield_now(); } else { std::hint::spin_loop(); }
            }
        }
    }
}

// Registration race.  One DebuggingRecorder, `threads` threads each with the recorder installed
// locally.  For every fresh key k = 0..keys (kind = k mod 3: counter, gauge, histogram; name "rr",
// labels id=k and z=1) all threads are released together by a spin barrier and each one performs
// the FIRST registration of that key as far as it can tell -- through Recorder::register_* with a
// key built in its own way (owned / static / with_extra_labels / Arc strings, labels in its own
// order) or, for thread 3, through the counter!/gauge!/histogram! macros -- and immediately updates
// through the handle it was given: counter.increment(t+1), gauge.increment(t+1), histogram.record(
// t*2^32 + k).  Because of the barrier all threads work on the same key at any time and a round is
// complete (every update done) before the next begins.  With `csnaps` > 0 the main thread takes that
// many snapshots while the rounds run (racing registration and updates); after the join final
// snapshots are taken until the histograms stay empty.  Reported (verdict in vlib/c19.py):
//   missing      keys without an entry in the final snapshot        order_bad  entries not in key order
//   counters_bad / gauges_bad   final value != sum of the completed updates (T(T+1)/2)
//   hist_lost / hist_dups / hist_invented   per recorded value over all snapshots
//   regress      a counter seen lower than in an earlier snapshot, or above its final total
//   prefix_missing   a key whose round had completed before a concurrent snapshot began, not listed by it
fn regrace(threads: usize, keys: usize, csnaps: usize) -> String {
    use std::sync::atomic::{AtomicUsize, Ordering};
    static META: Metadata<'static> = Metadata::new("c19-regrace", Level::INFO, None);
    let t0 = std::time::Instant::now();
    let rec = DebuggingRecorder::new();
    let snapper = rec.snapshotter();
    let barrier = SpinBarrier::new(threads);
    let progress = AtomicUsize::new(0); // rounds < progress are complete
    let done = AtomicUsize::new(0);
    let expect: u64 = (threads * (threads + 1) / 2) as u64;

    // bookkeeping over all snapshots
    let mut hist_counts: Vec<Vec<u8>> = vec![vec![0u8; threads]; keys]; // [k][t]
    let mut last_counter: Vec<u64> = vec![0; keys];
    let (mut dups, mut invented, mut regress, mut prefix_missing, mut snaps_during) = (0u64, 0u64, 0u64, 0u64, 0u64);
    let mut examples: Vec<String> = Vec::new();
    let mut ex2: Vec<String> = Vec::new();
    // returns (listed key ids in order, final counter/gauge values seen in this snapshot, histogram values absorbed)
    let mut absorb = |snap: Vec<(metrics_util::CompositeKey, Option<Unit>, Option<SharedString>, DebugValue)>,
                      hist_counts: &mut Vec<Vec<u8>>, last_counter: &mut Vec<u64>|
     -> (Vec<usize>, Vec<Option<f64>>, u64) {
        let mut listed = Vec::with_capacity(snap.len());
        let mut vals: Vec<Option<f64>> = vec![None; keys];
        let mut got = 0u64;
        for (ck, _, _, value) in snap {
            let id: usize = ck.key().labels().find(|l| l.key() == "id").and_then(|l| l.value().parse().ok()).unwrap_or(usize::MAX);
            if id >= keys { invented += 1; continue; }
            listed.push(id);
            match value {
                DebugValue::Counter(c) => {
                    if c < last_counter[id] || c > expect { regress += 1; if examples.len() < 4 { examples.push(format!("c{}:{}<{}", id, c, last_counter[id])); } }
                    last_counter[id] = c;
                    vals[id] = Some(c as f64);
                }
                DebugValue::Gauge(g) => vals[id] = Some(g.into_inner()),
                DebugValue::Histogram(vs) => {
                    for v in vs {
                        got += 1;
                        let f = v.into_inner();
                        if !(f >= 0.0 && f.fract() == 0.0 && f < 9.0e15) { invented += 1; continue; }
                        let x = f as u64;
                        let (t, k) = ((x >> 32) as usize, (x & 0xffff_ffff) as usize);
                        if t >= threads || k != id { invented += 1; continue; }
                        if hist_counts[id][t] >= 1 { dups += 1; }
                        hist_counts[id][t] = hist_counts[id][t].saturating_add(1);
                    }
                }
            }
        }
        (listed, vals, got)
    };

    std::thread::scope(|sc| {
        for t in 0..threads {
            let (rec, barrier, progress, done) = (&rec, &barrier, &progress, &done);
            sc.spawn(move || {
                metrics::with_local_recorder(rec, || {
                    for k in 0..keys {
                        barrier.wait();
                        if t == 0 { progress.store(k, Ordering::Release); }
                        let id = k.to_string();
                        let labels: Vec<(String, String)> = if t % 2 == 0 {
                            vec![("id".to_string(), id.clone()), ("z".to_string(), "1".to_string())]
                        } else {
                            vec![("z".to_string(), "1".to_string()), ("id".to_string(), id.clone())]
                        };
                        let v = (t + 1) as u64;
                        if t == 3 {
                            // the macro path (what applications write)
                            match k % 3 {
                                0 => metrics::counter!("rr", "id" => id.clone(), "z" => "1").increment(v),
                                1 => metrics::gauge!("rr", "id" => id.clone(), "z" => "1").increment(v as f64),
                                _ => metrics::histogram!("rr", "id" => id.clone(), "z" => "1").record((((t as u64) << 32) + k as u64) as f64),
                            }
                        } else {
                            let key = build_key([0u32, 4, 5][t % 3], "rr", &labels);
                            match k % 3 {
                                0 => metrics::with_recorder(|r| r.register_counter(&key, &META)).increment(v),
                                1 => metrics::with_recorder(|r| r.register_gauge(&key, &META)).increment(v as f64),
                                _ => metrics::with_recorder(|r| r.register_histogram(&key, &META)).record((((t as u64) << 32) + k as u64) as f64),
                            }
                        }
                    }
                    barrier.wait();
                    if t == 0 { progress.store(keys, Ordering::Release); }
                    done.fetch_add(1, Ordering::SeqCst);
                })
            });
        }
        for s in 1..=csnaps {
            let want = keys * s / (csnaps + 1);
            while progress.load(Ordering::Acquire) < want && done.load(Ordering::SeqCst) < threads { std::hint::spin_loop(); }
            if done.load(Ordering::SeqCst) == threads { break; }
            let complete = progress.load(Ordering::Acquire); // rounds < complete were finished before this snapshot began
            snaps_during += 1;
            let (listed, _, _) = absorb(snapper.snapshot().into_vec(), &mut hist_counts, &mut last_counter);
            let mut present = vec![false; keys];
            for id in &listed { present[*id] = true; }
            for k in 0..complete { if !present[k] { prefix_missing += 1; if ex2.len() < 4 { ex2.push(format!("absent{}@{}", k, complete)); } } }
        }
    });
    // everything has completed: final snapshots
    let (listed, vals, _) = absorb(snapper.snapshot().into_vec(), &mut hist_counts, &mut last_counter);
    let mut final_snaps = 1u64;
    let mut never_empty = 0u64;
    loop {
        final_snaps += 1;
        let (_, _, got) = absorb(snapper.snapshot().into_vec(), &mut hist_counts, &mut last_counter);
        if got == 0 { break; }
        if final_snaps >= 6 { never_empty = got; break; }
    }
    let mut present = vec![0u32; keys];
    for id in &listed { present[*id] += 1; }
    let missing = present.iter().filter(|c| **c == 0).count();
    let listed_twice = present.iter().filter(|c| **c > 1).count();
    let order_bad = listed.windows(2).filter(|w| w[0] >= w[1]).count();
    let (mut counters_bad, mut gauges_bad, mut hist_lost) = (0u64, 0u64, 0u64);
    for k in 0..keys {
        match k % 3 {
            0 => if vals[k] != Some(expect as f64) { counters_bad += 1; if ex2.len() < 4 { ex2.push(format!("c{}={:?}/{}", k, vals[k], expect)); } },
            1 => if vals[k] != Some(expect as f64) { gauges_bad += 1; if ex2.len() < 4 { ex2.push(format!("g{}={:?}/{}", k, vals[k], expect)); } },
            _ => { let l = hist_counts[k].iter().filter(|c| **c == 0).count() as u64; if l > 0 && ex2.len() < 4 { ex2.push(format!("h{}lost{}", k, l)); } hist_lost += l; }
        }
    }
    format!(
        "regrace threads={} keys={} csnaps={} snaps_during={} missing={} listed_twice={} order_bad={} counters_bad={} gauges_bad={} hist_values={} hist_lost={} hist_dups={} hist_invented={} regress={} prefix_missing={} never_empty={} final_snaps={} ms={} ex={}",
        threads, keys, csnaps, snaps_during, missing, listed_twice, order_bad, counters_bad, gauges_bad,
        (0..keys).filter(|k| k % 3 == 2).count() * threads, hist_lost, dups, invented, regress, prefix_missing, never_empty, final_snaps,
        t0.elapsed().as_millis(), { let mut e = examples.clone(); e.extend(ex2.iter().cloned()); if e.is_empty() { "-".to_string() } else { e.join(",") } }
    )
}

fn main() {
    std::panic::set_hook(Box::new(|_| {}));
    let stdin = std::io::stdin();
    let stdout = std::io::stdout();
    let mut w = std::io::BufWriter::new(stdout.lock());
    for line in stdin.lock().lines() {
        let line = line.unwrap();
        if line.trim().is_empty() { writeln!(w, "ok").unwrap(); continue; }
        if let Some(rest) = line.strip_prefix("STRESS") {
            let a: Vec<usize> = rest.split_whitespace().map(|x| x.parse().unwrap()).collect();
            let r = std::panic::catch_unwind(|| stress(a[0].max(1), a[1].max(1), a[2], a[3]));
            writeln!(w, "{}", r.unwrap_or_else(|e| format!("stress panic:{}", panic_text(e)))).unwrap();
            continue;
        }
        if let Some(rest) = line.strip_prefix("REGRACE") {
            let a: Vec<usize> = rest.split_whitespace().map(|x| x.parse().unwrap()).collect();
            let r = std::panic::catch_unwind(|| regrace(a[0].max(2), a[1], a[2]));
            writeln!(w, "{}", r.unwrap_or_else(|e| format!("regrace panic:{}", panic_text(e)))).unwrap();
            continue;
        }
        writeln!(w, "{}", run_case(&line)).unwrap();
    }
}
