// expect: ok
// Positive control: the same calls in an order safe Rust admits (guard dropped before the recorder's borrow ends).
#[path = "../rec.rs"]
mod rec;
fn main() {
    let recorder = rec::Rec(String::from("r"));
    let outer = rec::Rec(String::from("o"));
    let g0 = metrics::set_default_local_recorder(&outer);
    {
        let guard = metrics::set_default_local_recorder(&recorder);
        metrics::counter!("emitted_in_scope").increment(1);
        drop(guard);
    }
    metrics::with_local_recorder(&recorder, || metrics::counter!("emitted_in_scope").increment(1));
    drop(g0);
    drop(recorder);
}
