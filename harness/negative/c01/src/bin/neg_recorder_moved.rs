// expect: E0505
// The recorder is moved (dropped) while the guard that borrows it is alive.
#[path = "../rec.rs"]
mod rec;
fn main() {
    let recorder = rec::Rec(String::from("r"));
    let guard = metrics::set_default_local_recorder(&recorder);
    drop(recorder);
    metrics::counter!("emitted_after_scope_end").increment(1);
    drop(guard);
}
