// expect: E0597
// The guard escapes the block in which the recorder lives: EndBorrow r while an Alive guard installed r.
#[path = "../rec.rs"]
mod rec;
fn main() {
    let guard = {
        let recorder = rec::Rec(String::from("r"));
        metrics::set_default_local_recorder(&recorder)
    };
    metrics::counter!("emitted_after_scope_end").increment(1);
    drop(guard);
}
