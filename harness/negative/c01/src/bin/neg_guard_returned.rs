// expect: E0515
// A helper builds the recorder on its stack and returns the guard: the borrow ends at return, the guard lives on.
#[path = "../rec.rs"]
mod rec;
fn install() -> metrics::LocalRecorderGuard<'static> {
    let recorder = rec::Rec(String::from("r"));
    metrics::set_default_local_recorder(&recorder)
}
fn main() {
    let guard = install();
    metrics::counter!("emitted_after_scope_end").increment(1);
    drop(guard);
}
