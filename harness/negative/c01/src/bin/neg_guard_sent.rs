// expect: E0277
// The guard is !Send: it cannot be dropped (or forgotten) by a thread other than the one that installed it.
#[path = "../rec.rs"]
mod rec;
fn main() {
    let recorder: &'static rec::Rec = Box::leak(Box::new(rec::Rec(String::from("r"))));
    let guard = metrics::set_default_local_recorder(recorder);
    std::thread::spawn(move || drop(guard)).join().unwrap();
}
