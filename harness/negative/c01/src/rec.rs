// shared by every program of the C01 compile-fail engine: a recorder that is not Copy and owns nothing 'static-unfriendly
use metrics::{Counter, Gauge, Histogram, Key, KeyName, Metadata, Recorder, SharedString, Unit};
pub struct Rec(pub String);
impl Recorder for Rec {
    fn describe_counter(&self, _: KeyName, _: Option<Unit>, _: SharedString) {}
    fn describe_gauge(&self, _: KeyName, _: Option<Unit>, _: SharedString) {}
    fn describe_histogram(&self, _: KeyName, _: Option<Unit>, _: SharedString) {}
    fn register_counter(&self, _: &Key, _: &Metadata<'_>) -> Counter { Counter::noop() }
    fn register_gauge(&self, _: &Key, _: &Metadata<'_>) -> Gauge { Gauge::noop() }
    fn register_histogram(&self, _: &Key, _: &Metadata<'_>) -> Histogram { Histogram::noop() }
}
