// C08 correspondence driver: the sanitisers and line writers of
// metrics_exporter_prometheus::formatting, and whole PrometheusHandle::render() outputs.
// stdin: one case per line, space-separated tokens; strings are hex(UTF-8), "-" = empty string.
//   S <0|1|2|3> <s>                     sanitize_metric_name | label_key | label_value | description
//   H <name> <desc>                     write_help_line(sanitize_metric_name(name), desc)
//   T <name> <c|g|s|h>                  write_type_line(sanitize_metric_name(name), word)
//   L <name> <ng> (k v)* <nl> (k v)* <suffix -|0|1|2> <addl -|l|q> <addlval> <value> <unit -|0..16>
//                                       key_to_parts(Key(name, labels), globals) + write_metric_line
//   R <unit_on 0|1> <global 0|1> <nb> <bound>* <no> (<f|p|s> <matcher string>)* <ng> (k v)* <nf> fam*
//        global = set_buckets(bounds); each override = set_buckets_for_metric(Matcher::Full|Prefix|Suffix, bounds)
//        fam = <c|g|d> <name> <nd> (<unit> <desc>)* <ns> ser*     ser = <nl> (k v)* <nv> <int>*
//                                       build_recorder, describe/register/update, render()
// stdout: one line per case: hex(UTF-8 of the produced text), or `P<hex of panic message>`.
use indexmap::IndexMap;
use metrics::{Key, KeyName, Label, Recorder, Unit};
use metrics_exporter_prometheus::formatting::{
    key_to_parts, sanitize_description, sanitize_label_key, sanitize_label_value, sanitize_metric_name,
    write_help_line, write_metric_line, write_type_line,
};
use metrics_exporter_prometheus::{Matcher, PrometheusBuilder};
use std::io::{BufRead, Write};

static METADATA: metrics::Metadata = metrics::Metadata::new("c08", metrics::Level::INFO, None);

fn unhex(t: &str) -> String {
    if t == "-" {
        return String::new();
    }
    let b: Vec<u8> = (0..t.len() / 2).map(|i| u8::from_str_radix(&t[2 * i..2 * i + 2], 16).unwrap()).collect();
    String::from_utf8(b).unwrap()
}

fn hex(s: &str) -> String {
    let mut o = String::with_capacity(s.len() * 2);
    for b in s.as_bytes() {
        o.push_str(&format!("{:02x}", b));
    }
    o
}

fn unit_of(t: &str) -> Option<Unit> {
    const ALL: [Unit; 17] = [
        Unit::Count, Unit::Percent, Unit::Seconds, Unit::Milliseconds, Unit::Microseconds, Unit::Nanoseconds,
        Unit::Tebibytes, Unit::Gibibytes, Unit::Mebibytes, Unit::Kibibytes, Unit::Bytes,
        Unit::TerabitsPerSecond, Unit::GigabitsPerSecond, Unit::MegabitsPerSecond, Unit::KilobitsPerSecond,
        Unit::BitsPerSecond, Unit::CountPerSecond,
    ];
    if t == "-" { None } else { Some(ALL[t.parse::<usize>().unwrap()]) }
}

struct Toks<'a> { it: std::str::SplitWhitespace<'a> }
impl<'a> Toks<'a> {
    fn s(&mut self) -> &'a str { self.it.next().expect("token") }
    fn string(&mut self) -> String { unhex(self.s()) }
    fn n(&mut self) -> usize { self.s().parse().unwrap() }
    fn pairs(&mut self) -> Vec<(String, String)> {
        let n = self.n();
        (0..n).map(|_| { let k = self.string(); let v = self.string(); (k, v) }).collect()
    }
}

fn run_case(line: &str) -> String {
    let mut t = Toks { it: line.split_whitespace() };
    match t.s() {
        "S" => {
            let w = t.n();
            let s = t.string();
            match w {
                0 => sanitize_metric_name(&s),
                1 => sanitize_label_key(&s),
                2 => sanitize_label_value(&s),
                _ => sanitize_description(&s),
            }
        }
        "H" => {
            let name = t.string();
            let desc = t.string();
            let mut out = String::new();
            write_help_line(&mut out, &sanitize_metric_name(&name), &desc);
            out
        }
        "T" => {
            let name = t.string();
            let word = match t.s() { "c" => "counter", "g" => "gauge", "s" => "summary", _ => "histogram" };
            let mut out = String::new();
            write_type_line(&mut out, &sanitize_metric_name(&name), word);
            out
        }
        "L" => {
            let name = t.string();
            let globals = t.pairs();
            let labels = t.pairs();
            let suffix: Option<&'static str> = match t.s() { "0" => Some("bucket"), "1" => Some("sum"), "2" => Some("count"), _ => None };
            let addl_name: Option<&'static str> = match t.s() { "l" => Some("le"), "q" => Some("quantile"), _ => None };
            let addl_val = t.string();
            let value = t.string();
            let unit = unit_of(t.s());
            // globals are collected the way PrometheusBuilder::add_global_label does
            let mut g: IndexMap<String, String> = IndexMap::new();
            for (k, v) in globals { g.insert(k, v); }
            let key = Key::from_parts(name, labels.iter().map(|(k, v)| Label::new(k.clone(), v.clone())).collect::<Vec<_>>());
            let (sname, slabels) = key_to_parts(&key, Some(&g));
            let mut out = String::new();
            write_metric_line::<String, String>(&mut out, &sname, suffix, &slabels, addl_name.map(|n| (n, addl_val)), value, unit);
            out
        }
        "R" => {
            let on = t.n() == 1;
            let global = t.n() == 1;
            let nb = t.n();
            let bounds: Vec<f64> = (0..nb).map(|_| t.s().parse::<f64>().unwrap()).collect();
            let no = t.n();
            let overrides: Vec<Matcher> = (0..no).map(|_| {
                let k = t.s();
                let m = t.string();
                match k { "f" => Matcher::Full(m), "p" => Matcher::Prefix(m), _ => Matcher::Suffix(m) }
            }).collect();
            let globals = t.pairs();
            let mut b = PrometheusBuilder::new().set_enable_unit_suffix(on);
            if global { b = b.set_buckets(&bounds).unwrap(); }
            for m in overrides { b = b.set_buckets_for_metric(m, &bounds).unwrap(); }
            for (k, v) in globals { b = b.add_global_label(k, v); }
            let rec = b.build_recorder();
            let handle = rec.handle();
            let nf = t.n();
            for _ in 0..nf {
                let kind = t.s();
                let name = t.string();
                let nd = t.n();
                for _ in 0..nd {
                    let unit = unit_of(t.s());
                    let desc = t.string();
                    let kn = KeyName::from(name.clone());
                    match kind {
                        "c" => rec.describe_counter(kn, unit, desc.into()),
                        "g" => rec.describe_gauge(kn, unit, desc.into()),
                        _ => rec.describe_histogram(kn, unit, desc.into()),
                    }
                }
                let ns = t.n();
                for _ in 0..ns {
                    let labels = t.pairs();
                    let key = Key::from_parts(name.clone(), labels.iter().map(|(k, v)| Label::new(k.clone(), v.clone())).collect::<Vec<_>>());
                    let nv = t.n();
                    let vals: Vec<i64> = (0..nv).map(|_| t.s().parse::<i64>().unwrap()).collect();
                    match kind {
                        "c" => { let c = rec.register_counter(&key, &METADATA); for v in vals { c.increment(v as u64); } }
                        "g" => { let g = rec.register_gauge(&key, &METADATA); for v in vals { g.set(v as f64); } }
                        _ => { let h = rec.register_histogram(&key, &METADATA); for v in vals { h.record(v as f64); } }
                    }
                }
            }
            handle.render()
        }
        other => panic!("bad case tag {}", other),
    }
}

fn main() {
    std::panic::set_hook(Box::new(|_| {}));
    let stdin = std::io::stdin();
    let stdout = std::io::stdout();
    let mut w = std::io::BufWriter::new(stdout.lock());
    for line in stdin.lock().lines() {
        let line = line.unwrap();
        if line.trim().is_empty() { continue; }
        let r = std::panic::catch_unwind(|| run_case(&line));
        match r {
            Ok(s) => writeln!(w, "{}", hex(&s)).unwrap(),
            Err(e) => {
                let msg = e.downcast_ref::<String>().cloned().or_else(|| e.downcast_ref::<&str>().map(|s| s.to_string())).unwrap_or_default();
                writeln!(w, "P{}", hex(&msg)).unwrap()
            }
        }
    }
}
