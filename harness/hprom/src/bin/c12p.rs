// C12 (Prometheus level): idle timeout through the real exporter: PrometheusBuilder::idle_timeout +
// mock clock; observations are whole render() calls.
// stdin: `<mask 0..7> <timeout ticks | -> | <op> ...`   ops: U<c|g|h><key>:<v>  A<ticks>  R
// stdout per case: one token per op: u | a | r[<kind><key>=<v>[,<v>]|...]  (series present in that render)
use metrics::{Key, Level, Metadata, Recorder};
use metrics_exporter_prometheus::PrometheusBuilder;
use metrics_util::MetricKindMask;
use std::io::{BufRead, Write};
use std::time::Duration;

static META: Metadata<'static> = Metadata::new("t", Level::INFO, None);

fn mask_of(bits: u8) -> MetricKindMask {
    let mut m = MetricKindMask::NONE;
    if bits & 1 != 0 { m = m | MetricKindMask::COUNTER; }
    if bits & 2 != 0 { m = m | MetricKindMask::GAUGE; }
    if bits & 4 != 0 { m = m | MetricKindMask::HISTOGRAM; }
    m
}

fn parse_render(text: &str) -> String {
    // series lines only: name[{labels}] value ; histograms are summaries: name_sum / name_count
    let mut out: Vec<String> = Vec::new();
    let mut hs: std::collections::BTreeMap<String, (String, String)> = Default::default();
    for line in text.lines() {
        if line.is_empty() || line.starts_with('#') { continue; }
        let (name, val) = match line.rsplit_once(' ') { Some(x) => x, None => continue };
        if name.contains('{') { continue; } // quantile lines
        if let Some(base) = name.strip_suffix("_sum") { hs.entry(base.to_string()).or_default().1 = val.to_string(); }
        else if let Some(base) = name.strip_suffix("_count") { hs.entry(base.to_string()).or_default().0 = val.to_string(); }
        else { out.push(format!("{}={}", &name[1..], val.parse::<f64>().map(|f| format!("{}", f as u64)).unwrap_or(val.to_string()))); }
    }
    for (k, (c, s)) in hs { out.push(format!("{}={},{}", &k[1..], c, s.parse::<f64>().map(|f| format!("{}", f as u64)).unwrap_or(s))); }
    out.sort();
    format!("r[{}]", out.join("|"))
}

fn run_case(line: &str) -> String {
    let (head, ops) = line.split_once('|').unwrap();
    let mut hsx = head.split_whitespace();
    let mask = mask_of(hsx.next().unwrap().parse().unwrap());
    let timeout = match hsx.next().unwrap() { "-" => None, t => Some(Duration::from_nanos(t.parse().unwrap())) };
    let (clock, mock) = quanta::Clock::mock();
    let recorder = PrometheusBuilder::new().idle_timeout(mask, timeout).verif_build_with_clock(clock);
    let handle = recorder.handle();
    let mut out: Vec<String> = Vec::new();
    for tok in ops.split_whitespace() {
        let (c, rest) = tok.split_at(1);
        match c {
            "A" => { mock.increment(rest.parse::<u64>().unwrap()); out.push("a".into()); }
            "R" => out.push(parse_render(&handle.render())),
            "U" => {
                let (k, rest) = rest.split_at(1);
                let (id, v) = rest.split_once(':').unwrap();
                let v: u64 = v.parse().unwrap();
                let key = Key::from_name(format!("m{}{}", k, id));
                match k {
                    "c" => recorder.register_counter(&key, &META).increment(v),
                    "g" => recorder.register_gauge(&key, &META).set(v as f64),
                    _ => recorder.register_histogram(&key, &META).record(v as f64),
                }
                out.push("u".into());
            }
            _ => panic!("bad op {}", tok),
        }
    }
    out.join(" ")
}

fn main() {
    let stdin = std::io::stdin();
    let stdout = std::io::stdout();
    let mut w = std::io::BufWriter::new(stdout.lock());
    for line in stdin.lock().lines() {
        let line = line.unwrap();
        if line.trim().is_empty() { continue; }
        writeln!(w, "{}", run_case(&line)).unwrap();
    }
}
