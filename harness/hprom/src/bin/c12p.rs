// C12 (Prometheus level): idle timeout through the real exporter: PrometheusBuilder::idle_timeout +
// mock clock; observations are whole render() calls.
// stdin: `<mask 0..7> <timeout ticks | -> [<naming mode 0..5>] | <op> ...`   ops: U<c|g|h><key>:<v>  A<ticks>  R
// naming mode (how the key of (kind,id) is spelled; the model treats keys as opaque ids, so the mode
// must not change any observation): 0 plain `m<k><id>`; 1 dotted `m.<k>.<id>` (sanitised by the
// exporter to m_<k>_<id>); 2 non-ASCII tail `m<k><id>` + U+00FC (sanitised to m<k><id>_); 3 plain name +
// one label; 4 dotted + a global label on the builder; 5 per key: id % 4.
// stdout per case: one token per op: u | a | r[<kind><key>=<v>[,<v>]|...]  (series present in that render)
use metrics::{Key, Level, Metadata, Recorder};
use metrics_exporter_prometheus::PrometheusBuilder;
use metrics_util::MetricKindMask;
use std::io::{BufRead, Write};
use std::time::Duration;

static META: Metadata<'static> = Metadata::new("t", Level::INFO, None);

fn mask_of(bits: u8) -> MetricKindMask {
    let mut m = MetricKindMask::NONE;
    if bits & 1 != 0 { m = m | MetricKindMask::COUNTER; }
    if bits & 2 != 0 { m = m | MetricKindMask::GAUGE; }
    if bits & 4 != 0 { m = m | MetricKindMask::HISTOGRAM; }
    m
}

fn parse_render(text: &str) -> String {
    // series lines only: name[{labels}] value ; histograms are summaries: name_sum / name_count
    let mut out: Vec<String> = Vec::new();
    let mut hs: std::collections::BTreeMap<String, (String, String)> = Default::default();
    for line in text.lines() {
        if line.is_empty() || line.starts_with('#') { continue; }
        let (name, val) = match line.rsplit_once(' ') { Some(x) => x, None => continue };
        if name.contains("quantile=\"") { continue; } // quantile lines
        // canonical token: drop the label set and every '_' the sanitiser put in, keep _sum/_count
        let bare = name.split('{').next().unwrap();
        let (stem, suffix) = if let Some(b) = bare.strip_suffix("_sum") { (b, "_sum") }
            else if let Some(b) = bare.strip_suffix("_count") { (b, "_count") } else { (bare, "") };
        let name = format!("{}{}", stem.replace('_', ""), suffix);
        let name = name.as_str();
        if let Some(base) = name.strip_suffix("_sum") { hs.entry(base.to_string()).or_default().1 = val.to_string(); }
        else if let Some(base) = name.strip_suffix("_count") { hs.entry(base.to_string()).or_default().0 = val.to_string(); }
        else { out.push(format!("{}={}", &name[1..], val.parse::<f64>().map(|f| format!("{}", f as u64)).unwrap_or(val.to_string()))); }
    }
    for (k, (c, s)) in hs { out.push(format!("{}={},{}", &k[1..], c, s.parse::<f64>().map(|f| format!("{}", f as u64)).unwrap_or(s))); }
    out.sort();
    format!("r[{}]", out.join("|"))
}

fn run_case(line: &str) -> String {
    // `REAL <mask> <timeout ms> <mode> | ops`: the recorder is built by build_recorder() (the real
    // quanta clock, as in production) and A<ms> is a real sleep
    let (real, line) = match line.strip_prefix("REAL ") { Some(r) => (true, r), None => (false, line) };
    let (head, ops) = line.split_once('|').unwrap();
    let mut hsx = head.split_whitespace();
    let mask = mask_of(hsx.next().unwrap().parse().unwrap());
    let timeout = match hsx.next().unwrap() { "-" => None, "M" => Some(Duration::MAX), t => Some(if real { Duration::from_millis(t.parse().unwrap()) } else { Duration::from_nanos(t.parse().unwrap()) }) };
    let mode: u64 = hsx.next().map(|m| m.parse().unwrap()).unwrap_or(0);
    let (clock, mock) = quanta::Clock::mock();
    let mut builder = PrometheusBuilder::new().idle_timeout(mask, timeout);
    if mode == 4 { builder = builder.add_global_label("env.x", "p"); }
    let recorder = if real { builder.build_recorder() } else { builder.verif_build_with_clock(clock) };
    let handle = recorder.handle();
    let mut out: Vec<String> = Vec::new();
    for tok in ops.split_whitespace() {
        let (c, rest) = tok.split_at(1);
        match c {
            "A" => {
                let d: u64 = rest.parse().unwrap();
                if real { std::thread::sleep(Duration::from_millis(d)); } else { mock.increment(d); }
                out.push("a".into());
            }
            "R" => out.push(parse_render(&handle.render())),
            "U" => {
                let (k, rest) = rest.split_at(1);
                let (id, v) = rest.split_once(':').unwrap();
                let v: u64 = v.parse().unwrap();
                let idn: u64 = id.parse().unwrap();
                let key = match if mode == 5 { idn % 4 } else { mode } {
                    1 | 4 => Key::from_name(format!("m.{}.{}", k, id)),
                    2 => Key::from_name(format!("m{}{}\u{fc}", k, id)),
                    3 => Key::from_parts(format!("m{}{}", k, id), vec![metrics::Label::new("l.a", format!("v{}", id))]),
                    _ => Key::from_name(format!("m{}{}", k, id)),
                };
                match k {
                    "c" => recorder.register_counter(&key, &META).increment(v),
                    "g" => recorder.register_gauge(&key, &META).set(v as f64),
                    _ => recorder.register_histogram(&key, &META).record(v as f64),
                }
                out.push("u".into());
            }
            _ => panic!("bad op {}", tok),
        }
    }
    out.join(" ")
}

fn main() {
    let stdin = std::io::stdin();
    let stdout = std::io::stdout();
    let mut w = std::io::BufWriter::new(stdout.lock());
    let lines: Vec<String> = stdin.lock().lines().map(|l| l.unwrap()).filter(|l| !l.trim().is_empty()).collect();
    if lines.iter().all(|l| l.starts_with("REAL ")) {
        // real-clock histories sleep: run them side by side (each has its own recorder)
        let hs: Vec<_> = lines.into_iter().map(|l| std::thread::spawn(move || run_case(&l))).collect();
        for h in hs { writeln!(w, "{}", h.join().unwrap_or_else(|_| "panic".to_string())).unwrap(); }
        return;
    }
    for line in lines {
        let r = std::panic::catch_unwind(|| run_case(&line)).unwrap_or_else(|_| "panic".to_string());
        writeln!(w, "{}", r).unwrap();
    }
}
