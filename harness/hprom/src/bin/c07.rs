// C07 correspondence driver: a PrometheusRecorder built by PrometheusBuilder::build_recorder(), driven
// by a history of register / update / describe / run_upkeep / render calls; every render() output is
// parsed by a strict exposition-text reader into one record per sample line.
//
// stdin, one case per line (strings hex(UTF-8), "-" = empty string; doubles as decimal text):
//   C <unit_on> <ng> (k v)* <nq> q* <nb|-> b* <no> (<F|P|S> <pattern> <nb> b*)* <nk> (<c|g|r|h> <name> <nl> (k v)*)* | op*
//   ops: R<i>  I<i>:<u64>  A<i>:<u64>  S<i>:<f>  P<i>:<f>  M<i>:<f>  X<i>:<bits hex>  H<i>:<f>
//        D<c|g|h>:<name>:<unit|->:<text>   U   N
//   T <threads> <per_thread> <nkeys> <hist 0|1> <rounds> <gap_us>   free-running stress (see stress())
//   V <nkeys> <per_round> <rounds> <hist 0|1> <renderers>    visibility stress (see visibility())
//   A <a|m|g> <threads> <series> <rounds> <p>                handle atomics under contention (see atomics())
// stdout, one line per case:
//   C: renderings joined by '|'; a rendering = '@' + samples joined by ';' (or "E<hex msg>" if unreadable);
//      sample = fam,type,help,name,labels,extra,value
//        help: '-' | 'h'<hex>;  labels: hex of each  name="value"  joined by '.';
//        extra: n | i (+Inf) | l<f64 bits hex> | q<f64 bits hex>;
//        value: u<u64> | f<f64 bits hex as parsed back by str::parse::<f64>> | x (quantile value)
//   T: recorded=<n per key,..> counts=<..> ctr=<..> renders=<n> drains=<n> nonmonotone=<n> over=<n>
//      (drains = render() + run_upkeep() calls STARTED while recording threads were still running)
//   V: rounds=<n> renders=<n> short=<n> over=<n> settled_bad=<n> first=<round:key:expected:count:sum bits|->
//   A: panics=<n> samples=<monitor renders> nonmonotone=<n> unreadable=<n> ends=<series0 round ends,..>;<series1 ..>;..
//      (counter ends as u64, gauge ends as f64 bits hex; every value is read from a render() of the exporter)
//   P<hex of panic message> if the case panicked.
use metrics::{Key, KeyName, Label, Recorder, Unit};
use metrics_exporter_prometheus::{Matcher, PrometheusBuilder, PrometheusHandle, PrometheusRecorder};
use std::io::{BufRead, Write};
use std::sync::atomic::{AtomicBool, Ordering};

static METADATA: metrics::Metadata = metrics::Metadata::new("c07", metrics::Level::INFO, None);

fn unhex(t: &str) -> String {
    if t == "-" {
        return String::new();
    }
    let b: Vec<u8> = (0..t.len() / 2).map(|i| u8::from_str_radix(&t[2 * i..2 * i + 2], 16).unwrap()).collect();
    String::from_utf8(b).unwrap()
}

fn hex(s: &str) -> String {
    let mut o = String::with_capacity(s.len() * 2);
    for b in s.as_bytes() {
        o.push_str(&format!("{:02x}", b));
    }
    o
}

fn unit_of(t: &str) -> Option<Unit> {
    const ALL: [Unit; 17] = [
        Unit::Count, Unit::Percent, Unit::Seconds, Unit::Milliseconds, Unit::Microseconds, Unit::Nanoseconds,
        Unit::Tebibytes, Unit::Gibibytes, Unit::Mebibytes, Unit::Kibibytes, Unit::Bytes,
        Unit::TerabitsPerSecond, Unit::GigabitsPerSecond, Unit::MegabitsPerSecond, Unit::KilobitsPerSecond,
        Unit::BitsPerSecond, Unit::CountPerSecond,
    ];
    if t == "-" { None } else { Some(ALL[t.parse::<usize>().unwrap()]) }
}

struct Toks<'a> { it: std::str::SplitWhitespace<'a> }
impl<'a> Toks<'a> {
    fn s(&mut self) -> &'a str { self.it.next().expect("token") }
    fn string(&mut self) -> String { unhex(self.s()) }
    fn n(&mut self) -> usize { self.s().parse().unwrap() }
    fn f(&mut self) -> f64 { self.s().parse::<f64>().unwrap() }
    fn pairs(&mut self) -> Vec<(String, String)> {
        let n = self.n();
        (0..n).map(|_| { let k = self.string(); let v = self.string(); (k, v) }).collect()
    }
    fn floats(&mut self) -> Vec<f64> {
        let n = self.n();
        (0..n).map(|_| self.f()).collect()
    }
}

// ------------------------------------------------------------------ strict exposition reader
struct Sample { name: String, labels: Vec<String>, value: String }

fn parse_sample(line: &str) -> Result<Sample, String> {
    let b: Vec<char> = line.chars().collect();
    let mut i = 0;
    while i < b.len() && b[i] != '{' && b[i] != ' ' { i += 1; }
    if i == 0 || i == b.len() { return Err(format!("bad sample line {:?}", line)); }
    let name: String = b[..i].iter().collect();
    let mut labels = Vec::new();
    if b[i] == '{' {
        i += 1;
        loop {
            let st = i;
            while i < b.len() && b[i] != '=' { i += 1; }
            if i + 1 >= b.len() || b[i + 1] != '"' || i == st { return Err(format!("bad label in {:?}", line)); }
            i += 2;
            loop {
                if i >= b.len() { return Err(format!("unterminated label value in {:?}", line)); }
                if b[i] == '\\' { i += 2; continue; }
                if b[i] == '"' { break; }
                i += 1;
            }
            i += 1;
            labels.push(b[st..i].iter().collect::<String>());
            if i >= b.len() { return Err(format!("unterminated label set in {:?}", line)); }
            if b[i] == ',' { i += 1; continue; }
            if b[i] == '}' { i += 1; break; }
            return Err(format!("bad separator in {:?}", line));
        }
    }
    if i >= b.len() || b[i] != ' ' { return Err(format!("no value in {:?}", line)); }
    let value: String = b[i + 1..].iter().collect();
    if value.is_empty() || value.contains(' ') { return Err(format!("bad value in {:?}", line)); }
    Ok(Sample { name, labels, value })
}

fn fbits(txt: &str) -> Result<String, String> {
    txt.parse::<f64>().map(|x| format!("{:016x}", x.to_bits())).map_err(|_| format!("not a float: {:?}", txt))
}

fn parse_render(text: &str) -> Result<String, String> {
    let mut out: Vec<String> = Vec::new();
    let mut fam: Option<(String, usize)> = None; // (name, type)
    let mut help: Option<(String, String)> = None;
    if !text.is_empty() && !text.ends_with('\n') { return Err("text does not end with a newline".into()); }
    for line in text.split('\n') {
        if line.is_empty() { fam = None; help = None; continue; }
        if let Some(r) = line.strip_prefix("# HELP ") {
            if fam.is_some() || help.is_some() { return Err(format!("HELP inside a family: {:?}", line)); }
            let (n, t) = r.split_once(' ').ok_or_else(|| format!("bad HELP {:?}", line))?;
            help = Some((n.to_string(), t.to_string()));
            continue;
        }
        if let Some(r) = line.strip_prefix("# TYPE ") {
            if fam.is_some() { return Err(format!("second TYPE in a family: {:?}", line)); }
            let (n, t) = r.split_once(' ').ok_or_else(|| format!("bad TYPE {:?}", line))?;
            let ty = match t { "counter" => 0, "gauge" => 1, "histogram" => 2, "summary" => 3, _ => return Err(format!("bad type {:?}", line)) };
            if let Some((hn, _)) = &help { if hn != n { return Err(format!("HELP and TYPE names differ: {:?}", line)); } }
            fam = Some((n.to_string(), ty));
            continue;
        }
        if line.starts_with('#') { return Err(format!("unexpected comment {:?}", line)); }
        let (fname, ty) = fam.clone().ok_or_else(|| format!("sample outside a family: {:?}", line))?;
        let mut s = parse_sample(line)?;
        let suffix = s.name.strip_prefix(fname.as_str()).ok_or_else(|| format!("sample {:?} in family {:?}", s.name, fname))?.to_string();
        let mut extra = "n".to_string();
        let value;
        let take_extra = |s: &mut Sample, key: &str| -> Result<String, String> {
            let l = s.labels.pop().ok_or_else(|| format!("missing {} label", key))?;
            let v = l.strip_prefix(&format!("{}=\"", key)).and_then(|r| r.strip_suffix('"')).ok_or_else(|| format!("last label is not {}: {:?}", key, l))?;
            Ok(v.to_string())
        };
        match (ty, suffix.as_str()) {
            (0, "") => { value = format!("u{}", s.value.parse::<u64>().map_err(|_| format!("counter value {:?}", s.value))?); }
            (1, "") => { value = format!("f{}", fbits(&s.value)?); }
            (2, "_bucket") => {
                let le = take_extra(&mut s, "le")?;
                extra = if le == "+Inf" { "i".into() } else { format!("l{}", fbits(&le)?) };
                value = format!("u{}", s.value.parse::<u64>().map_err(|_| format!("bucket value {:?}", s.value))?);
            }
            (3, "") => {
                let q = take_extra(&mut s, "quantile")?;
                extra = format!("q{}", fbits(&q)?);
                fbits(&s.value)?;
                value = "x".into();
            }
            (2, "_sum") | (3, "_sum") => { value = format!("f{}", fbits(&s.value)?); }
            (2, "_count") | (3, "_count") => { value = format!("u{}", s.value.parse::<u64>().map_err(|_| format!("count value {:?}", s.value))?); }
            _ => return Err(format!("sample {:?} does not belong to family {:?} of type {}", s.name, fname, ty)),
        }
        let h = match &help { Some((_, t)) => format!("h{}", hex(t)), None => "-".to_string() };
        let labels: Vec<String> = s.labels.iter().map(|l| hex(l)).collect();
        out.push(format!("{},{},{},{},{},{},{}", hex(&fname), ty, h, hex(&s.name), labels.join("."), extra, value));
    }
    Ok(out.join(";"))
}

// ------------------------------------------------------------------ building the recorder
fn build(t: &mut Toks) -> (PrometheusRecorder, PrometheusHandle) {
    let on = t.n() == 1;
    let mut b = PrometheusBuilder::new().set_enable_unit_suffix(on);
    for (k, v) in t.pairs() { b = b.add_global_label(k, v); }
    let qs = t.floats();
    if !qs.is_empty() { b = b.set_quantiles(&qs).unwrap(); }
    match t.s() {
        "-" => {}
        n => {
            let n: usize = n.parse().unwrap();
            let bs: Vec<f64> = (0..n).map(|_| t.f()).collect();
            b = b.set_buckets(&bs).unwrap();
        }
    }
    let no = t.n();
    for _ in 0..no {
        let kind = t.s();
        let pat = t.string();
        let bs = t.floats();
        let m = match kind { "F" => Matcher::Full(pat), "P" => Matcher::Prefix(pat), _ => Matcher::Suffix(pat) };
        b = b.set_buckets_for_metric(m, &bs).unwrap();
    }
    let rec = b.build_recorder();
    let handle = rec.handle();
    (rec, handle)
}

fn run_case(line: &str) -> String {
    let (head, ops) = line.split_once('|').unwrap();
    let mut t = Toks { it: head.split_whitespace() };
    assert_eq!(t.s(), "C");
    let (rec, handle) = build(&mut t);
    let nk = t.n();
    let mut keys: Vec<(char, Key)> = Vec::new();
    for _ in 0..nk {
        let kind = t.s().chars().next().unwrap();
        let name = t.string();
        let labels = t.pairs();
        keys.push((kind, Key::from_parts(name, labels.iter().map(|(k, v)| Label::new(k.clone(), v.clone())).collect::<Vec<_>>())));
    }
    let mut outs: Vec<String> = Vec::new();
    for tok in ops.split_whitespace() {
        let (c, rest) = tok.split_at(1);
        match c {
            "U" => handle.run_upkeep(),
            "N" => outs.push(match parse_render(&handle.render()) { Ok(s) => format!("@{}", s), Err(e) => format!("E{}", hex(&e)) }),
            "D" => {
                let mut p = rest.split(':');
                let kind = p.next().unwrap();
                let name = unhex(p.next().unwrap());
                let unit = unit_of(p.next().unwrap());
                let text = unhex(p.next().unwrap());
                let kn = KeyName::from(name);
                match kind {
                    "c" => rec.describe_counter(kn, unit, text.into()),
                    "g" => rec.describe_gauge(kn, unit, text.into()),
                    _ => rec.describe_histogram(kn, unit, text.into()),
                }
            }
            _ => {
                let (i, v) = match rest.split_once(':') { Some((i, v)) => (i, v), None => (rest, "") };
                let i: usize = i.parse().unwrap();
                if i >= keys.len() { continue; }
                let (kind, key) = &keys[i];
                match (c, *kind) {
                    ("R", 'c') => { let _ = rec.register_counter(key, &METADATA); }
                    ("R", 'g') | ("R", 'r') => { let _ = rec.register_gauge(key, &METADATA); }
                    ("R", 'h') => { let _ = rec.register_histogram(key, &METADATA); }
                    ("I", 'c') => rec.register_counter(key, &METADATA).increment(v.parse::<u64>().unwrap()),
                    ("A", 'c') => rec.register_counter(key, &METADATA).absolute(v.parse::<u64>().unwrap()),
                    ("S", 'g') => rec.register_gauge(key, &METADATA).set(v.parse::<f64>().unwrap()),
                    ("P", 'g') => rec.register_gauge(key, &METADATA).increment(v.parse::<f64>().unwrap()),
                    ("M", 'g') => rec.register_gauge(key, &METADATA).decrement(v.parse::<f64>().unwrap()),
                    ("X", 'r') => rec.register_gauge(key, &METADATA).set(f64::from_bits(u64::from_str_radix(v, 16).unwrap())),
                    ("H", 'h') => rec.register_histogram(key, &METADATA).record(v.parse::<f64>().unwrap()),
                    _ => {} // an operation that does not fit the key's kind is skipped (as in the model)
                }
            }
        }
    }
    outs.join("|")
}

// ------------------------------------------------------------------ free-running stress
// `threads` recording threads each record `per_thread` samples (value 1.0) round-robin into `nkeys`
// histogram keys and increment one counter per key by 1 per sample, while one thread loops
// render() / run_upkeep(), pausing `gap_us` microseconds between two drains, until they are done; one
// final render() after the join.
fn count_of(text: &str, name: &str) -> Option<u64> {
    for l in text.lines() {
        if let Some(r) = l.strip_prefix(name) {
            if let Some(v) = r.strip_prefix(' ') { return v.parse::<u64>().ok(); }
        }
    }
    None
}

fn stress(line: &str) -> String {
    let mut t = Toks { it: line.split_whitespace() };
    assert_eq!(t.s(), "T");
    let threads = t.n();
    let per_thread = t.n();
    let nkeys = t.n();
    let hist = t.n() == 1;
    let rounds = t.n();
    let gap_us = t.n() as u64;
    let mut recorded = vec![0u64; nkeys];
    let mut counts = vec![0u64; nkeys];
    let mut ctrs = vec![0u64; nkeys];
    let mut renders = 0u64;
    let mut drains = 0u64;
    let mut nonmonotone = 0u64;
    let mut over = 0u64;
    for _ in 0..rounds {
        let mut b = PrometheusBuilder::new();
        if hist { b = b.set_buckets(&[0.5, 2.0]).unwrap(); }
        let rec = b.build_recorder();
        let handle = rec.handle();
        let done = AtomicBool::new(false);
        let total_per_key = |k: usize| -> u64 {
            let mut n = 0u64;
            for th in 0..threads { for j in 0..per_thread { if (th + j) % nkeys == k { n += 1; } } }
            n
        };
        let totals: Vec<u64> = (0..nkeys).map(total_per_key).collect();
        let (r_renders, r_drains, r_nonmono, r_over) = std::thread::scope(|s| {
            let mut hs = Vec::new();
            for th in 0..threads {
                let rec = &rec;
                hs.push(s.spawn(move || {
                    let hk: Vec<_> = (0..nkeys).map(|k| rec.register_histogram(&Key::from_name(format!("h{}", k)), &METADATA)).collect();
                    let ck: Vec<_> = (0..nkeys).map(|k| rec.register_counter(&Key::from_name(format!("c{}", k)), &METADATA)).collect();
                    for j in 0..per_thread {
                        let k = (th + j) % nkeys;
                        hk[k].record(1.0);
                        ck[k].increment(1);
                    }
                }));
            }
            let handle = &handle;
            let done = &done;
            let totals = &totals;
            let r = s.spawn(move || {
                let mut last = vec![0u64; nkeys];
                let (mut n, mut nd, mut nonmono, mut over) = (0u64, 0u64, 0u64, 0u64);
                let mut i = 0u64;
                while !done.load(Ordering::Acquire) {
                    nd += 1;
                    if i % 3 == 2 { handle.run_upkeep(); } else {
                        let text = handle.render();
                        n += 1;
                        for k in 0..nkeys {
                            if let Some(c) = count_of(&text, &format!("h{}_count", k)) {
                                if c < last[k] { nonmono += 1; }
                                if c > totals[k] { over += 1; }
                                last[k] = c;
                            }
                        }
                    }
                    i += 1;
                    if gap_us > 0 { std::thread::sleep(std::time::Duration::from_micros(gap_us)); }
                }
                (n, nd, nonmono, over)
            });
            let results: Vec<_> = hs.into_iter().map(|h| h.join()).collect();
            done.store(true, Ordering::Release);
            let r = r.join();
            if results.iter().any(|x| x.is_err()) { panic!("a recording thread panicked"); }
            r.expect("the render/upkeep thread panicked")
        });
        renders += r_renders;
        drains += r_drains;
        nonmonotone += r_nonmono;
        over += r_over;
        let text = handle.render();
        for k in 0..nkeys {
            recorded[k] += totals[k];
            counts[k] += count_of(&text, &format!("h{}_count", k)).unwrap_or(0);
            ctrs[k] += count_of(&text, &format!("c{}", k)).unwrap_or(0);
            if count_of(&text, &format!("h{}_count", k)).unwrap_or(0) > totals[k] { over += 1; }
        }
    }
    let j = |v: &Vec<u64>| v.iter().map(|x| x.to_string()).collect::<Vec<_>>().join(",");
    format!("recorded={} counts={} ctr={} renders={} drains={} nonmonotone={} over={}", j(&recorded), j(&counts), j(&ctrs), renders, drains, nonmonotone, over)
}

// ------------------------------------------------------------------ visibility stress
// Each round the calling thread records `per_round` samples (value 1.0, round-robin over `nkeys`
// histogram keys); every record() has RETURNED.  Then a barrier releases one run_upkeep() thread and
// `renderers` render() threads together.  No recorder runs concurrently, so each of those renderings
// must show the full cumulative _count and _sum of every key (whichever thread took the samples out
// of the bucket), and so must the settled rendering after the threads joined.
fn fvalue_of(text: &str, name: &str) -> Option<f64> {
    for l in text.lines() {
        if let Some(r) = l.strip_prefix(name) {
            if let Some(v) = r.strip_prefix(' ') { return v.parse::<f64>().ok(); }
        }
    }
    None
}

fn visibility(line: &str) -> String {
    let mut t = Toks { it: line.split_whitespace() };
    assert_eq!(t.s(), "V");
    let nkeys = t.n();
    let per_round = t.n();
    let rounds = t.n();
    let hist = t.n() == 1;
    let renderers = t.n();
    let mut b = PrometheusBuilder::new();
    if hist { b = b.set_buckets(&[0.5, 2.0]).unwrap(); }
    let rec = b.build_recorder();
    let handle = rec.handle();
    let hk: Vec<_> = (0..nkeys).map(|k| rec.register_histogram(&Key::from_parts(format!("v{}", k), vec![Label::new("route", "a")]), &METADATA)).collect();
    let mut recorded = vec![0u64; nkeys];
    let (mut renders, mut short, mut over, mut settled_bad) = (0u64, 0u64, 0u64, 0u64);
    let mut first = String::from("-");
    for round in 0..rounds {
        for j in 0..per_round {
            let k = j % nkeys;
            hk[k].record(1.0);
            recorded[k] += 1;
        }
        let barrier = std::sync::Barrier::new(1 + renderers);
        let texts: Vec<String> = std::thread::scope(|s| {
            let (handle, barrier) = (&handle, &barrier);
            let up = s.spawn(move || { barrier.wait(); handle.run_upkeep(); });
            let rs: Vec<_> = (0..renderers).map(|r| s.spawn(move || {
                barrier.wait();
                // vary who gets to the buckets first; every order is legal
                let spins = match (round + r) % 4 { 0 => 0, 1 => 500, 2 => 2_000, _ => 8_000 };
                for _ in 0..spins { std::hint::spin_loop(); }
                handle.render()
            })).collect();
            up.join().unwrap();
            rs.into_iter().map(|h| h.join().unwrap()).collect()
        });
        let mut judge = |text: &str, settled: bool| {
            for k in 0..nkeys {
                let c = count_of(text, &format!("v{}_count{{route=\"a\"}}", k)).unwrap_or(0);
                let sm = fvalue_of(text, &format!("v{}_sum{{route=\"a\"}}", k)).unwrap_or(0.0);
                let bad = c != recorded[k] || sm != recorded[k] as f64;
                if bad {
                    if settled { settled_bad += 1; } else if c > recorded[k] { over += 1; } else { short += 1; }
                    if first == "-" { first = format!("{}:{}:{}:{}:{:016x}{}", round, k, recorded[k], c, sm.to_bits(), if settled { ":settled" } else { "" }); }
                }
            }
        };
        for text in &texts { renders += 1; judge(text, false); }
        let settled = handle.render();
        judge(&settled, true);
    }
    format!("rounds={} renders={} short={} over={} settled_bad={} first={}", rounds, renders, short, over, settled_bad, first)
}

// ------------------------------------------------------------------ handle atomics under contention
// `threads` workers, each with its OWN handles obtained from the recorder (register_counter /
// register_gauge on the same keys), run `rounds` barrier-released rounds over `series` series; after each
// round worker 0 reads every series from a render() of the exporter; a monitor thread renders all the
// time and (counters) checks that no series ever decreases.  Nothing is excused in this engine.
//   a: worker i publishes absolute(r*p + ((i + r) % T) + 1 + k) on every series k: the round must end at
//      the largest value, r*p + T + k
//   m: worker 0 makes p increments of 2 + r%5, worker 1 absolute(s + r%2), workers i>=2
//      absolute(s - min(s, 3i + r%4)), s = the series' value at the start of the round
//   g: even rounds: every worker p times increment/decrement (by parity of i + r) of i + 1 + r%3;
//      odd rounds: worker 0 set((r%1000 + 1) << 20), worker i>=1 increment(2^i)
fn atomics(line: &str) -> String {
    use std::sync::atomic::AtomicU64 as StdU64;
    use std::sync::atomic::Ordering::SeqCst;
    let mut t = Toks { it: line.split_whitespace() };
    assert_eq!(t.s(), "A");
    let kind = t.s().to_string();
    let nt = t.n();
    let ns = t.n();
    let rounds = t.n() as u64;
    let p = t.n() as u64;
    let gauge = kind == "g";
    let rec = PrometheusBuilder::new().add_global_label("g", "1").build_recorder();
    let handle = rec.handle();
    let name = |k: usize| format!("{}{}", if gauge { "ag" } else { "ac" }, k);
    let keys: Vec<Key> = (0..ns).map(|k| Key::from_parts(name(k), vec![Label::new("s", "x")])).collect();
    let series: Vec<String> = (0..ns).map(|k| format!("{}{{g=\"1\",s=\"x\"}}", name(k))).collect();
    for key in &keys { if gauge { let _ = rec.register_gauge(key, &METADATA); } else { let _ = rec.register_counter(key, &METADATA); } }
    let read = |text: &str, k: usize| -> Option<u64> {
        if gauge { fvalue_of(text, &series[k]).map(|x| x.to_bits()) } else { count_of(text, &series[k]) }
    };
    let cur: Vec<StdU64> = (0..ns).map(|_| StdU64::new(0)).collect();          // value at the start of the round (as read from render)
    let ends: Vec<std::sync::Mutex<Vec<u64>>> = (0..ns).map(|_| std::sync::Mutex::new(Vec::new())).collect();
    let panics = StdU64::new(0);
    let unreadable = StdU64::new(0);
    let stop = AtomicBool::new(false);
    let barrier = std::sync::Barrier::new(nt);
    let arrived = StdU64::new(0);     // spin barrier for the release of the operations (tight start)
    let (samples, nonmono) = std::thread::scope(|sc| {
        let (rec, handle, keys, cur, ends, panics, unreadable, stop, barrier, read, kind, arrived) =
            (&rec, &handle, &keys, &cur, &ends, &panics, &unreadable, &stop, &barrier, &read, &kind, &arrived);
        let mon = sc.spawn(move || {
            let mut last = vec![0u64; ns];
            let (mut n, mut bad) = (0u64, 0u64);
            while !stop.load(SeqCst) {
                let text = handle.render();
                n += 1;
                if !gauge {
                    for k in 0..ns {
                        match read(&text, k) {
                            Some(v) => { if v < last[k] { bad += 1; } last[k] = v; }
                            None => { unreadable.fetch_add(1, SeqCst); }
                        }
                    }
                }
            }
            (n, bad)
        });
        let mut ws = Vec::new();
        for idx in 0..nt {
            ws.push(sc.spawn(move || {
                let i = idx as u64;
                let cs: Vec<metrics::Counter> = if gauge { Vec::new() } else { keys.iter().map(|k| rec.register_counter(k, &METADATA)).collect() };
                let gs: Vec<metrics::Gauge> = if gauge { keys.iter().map(|k| rec.register_gauge(k, &METADATA)).collect() } else { Vec::new() };
                for r in 1..=rounds {
                    barrier.wait();
                    arrived.fetch_add(1, SeqCst);
                    let mut spins = 0u32;
                    while arrived.load(SeqCst) < r * nt as u64 {
                        spins += 1;
                        if spins % 4096 == 0 { std::thread::yield_now(); } else { std::hint::spin_loop(); }
                    }
                    let res = std::panic::catch_unwind(std::panic::AssertUnwindSafe(|| {
                        for kk in 0..ns {
                            let k = (kk + idx) % ns;          // workers walk the series in different orders
                            let s = cur[k].load(SeqCst);
                            match kind.as_str() {
                                "a" => cs[k].absolute(r * p + ((i + r) % nt as u64) + 1 + k as u64),
                                "m" => {
                                    if idx == 0 { for _ in 0..p { cs[k].increment(2 + r % 5); } }
                                    else if idx == 1 { cs[k].absolute(s + r % 2) }
                                    else { cs[k].absolute(s - s.min(3 * i + r % 4)) }
                                }
                                _ => {
                                    if r % 2 == 0 {
                                        let v = (i + 1 + r % 3) as f64;
                                        for _ in 0..p { if (i + r) % 2 == 0 { gs[k].increment(v) } else { gs[k].decrement(v) } }
                                    } else if idx == 0 { gs[k].set(((r % 1000 + 1) << 20) as f64) }
                                    else { gs[k].increment((1u64 << i) as f64) }
                                }
                            }
                        }
                    }));
                    if res.is_err() { panics.fetch_add(1, SeqCst); }
                    barrier.wait();
                    if idx == 0 {
                        let text = handle.render();
                        for k in 0..ns {
                            match read(&text, k) {
                                Some(v) => { ends[k].lock().unwrap().push(v); cur[k].store(v, SeqCst); }
                                None => { unreadable.fetch_add(1, SeqCst); ends[k].lock().unwrap().push(u64::MAX); }
                            }
                        }
                    }
                    barrier.wait();
                }
            }));
        }
        let results: Vec<_> = ws.into_iter().map(|h| h.join()).collect();
        stop.store(true, SeqCst);
        let m = mon.join();
        if results.iter().any(|x| x.is_err()) { panic!("a worker thread panicked outside its operations"); }
        m.expect("the monitor thread panicked")
    });
    let fmt = |v: &Vec<u64>| v.iter().map(|x| if gauge { format!("{:016x}", x) } else { x.to_string() }).collect::<Vec<_>>().join(",");
    let e: Vec<String> = ends.iter().map(|m| fmt(&m.lock().unwrap())).collect();
    format!("panics={} samples={} nonmonotone={} unreadable={} ends={}", panics.load(SeqCst), samples, nonmono, unreadable.load(SeqCst), e.join(";"))
}

fn main() {
    std::panic::set_hook(Box::new(|_| {}));
    let stdin = std::io::stdin();
    let stdout = std::io::stdout();
    let mut w = std::io::BufWriter::new(stdout.lock());
    for line in stdin.lock().lines() {
        let line = line.unwrap();
        if line.trim().is_empty() { continue; }
        let r = std::panic::catch_unwind(|| if line.starts_with('T') { stress(&line) } else if line.starts_with('V') { visibility(&line) } else if line.starts_with('A') { atomics(&line) } else { run_case(&line) });
        match r {
            Ok(s) => writeln!(w, "{}", s).unwrap(),
            Err(e) => {
                let msg = e.downcast_ref::<String>().cloned().or_else(|| e.downcast_ref::<&str>().map(|s| s.to_string())).unwrap_or_default();
                writeln!(w, "P{}", hex(&msg)).unwrap()
            }
        }
    }
}
