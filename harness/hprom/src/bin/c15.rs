// C15 correspondence driver.  One case per stdin line, one output line per case.
//
//  H <b,b,..|-> | <op> <op> ...        metrics_util::storage::Histogram
//        b = 16 hex digits (f64 bits); ops: S<hex> = record(sample); M<hex>,<hex>,.. = record_many (M- = empty batch)
//     -> none                                    (Histogram::new returned None)
//     -> B:<b,b,..> | c,c,..;count;sumbits | ... (bounds echoed from buckets(), then one snapshot per op)
//
//  D <0|1> <g,g,..|-> <namehex> <usfx 0|1> <unit as_str|-> | <F|P|S>:<pathex>:<b,b,..> ...
//        0: DistributionBuilder::new directly on the matchers as given (HashMap insertion order = list order)
//        1: PrometheusBuilder::set_buckets_for_metric (sanitises the matcher) + build_recorder + one sample
//           recorded under the raw name + render; kind read from the `# TYPE` line, bounds from `le="..."`
//           with 1: set_enable_unit_suffix(usfx) and, unless unit is -, describe_histogram!(name, unit, ..)
//     -> <h|s> <H:b,b,..|S> <famhex>   (TYPE-line type ; series rendered ; TYPE-line name;  0: type/distribution/name)
//
//  R <bucket_count> <dur_ns> | A<t>:<vhex> P<t> ...   RollingSummary through Distribution::new_summary/record_samples
//     -> a<count>  |  p:<count>:<sumbits>:<scount>:<minbits>:<maxbits>:<q,q,..>      (one token per op)
//        quantiles 0, 0.5, 0.9, 0.99, 1 as rendered by the exporter: snapshot.quantile(q).unwrap_or(0.0)
//
//  V <bucket_count> <dur_ns> | A<t>:<vhex> P<t> ...   the same operations through the exporter: PrometheusBuilder
//        (set_bucket_count / set_bucket_duration / set_quantiles) + build_recorder under quanta::with_clock(mock):
//        A = set the clock, histogram!("s").record(v);  P = set the clock, handle.render()
//     -> k  |  r:<_count>:<_sum bits>:<q,q,..>      (one token per op; the rendered lines parsed back)
//
//  W <regime 0|1|2> <bucket_count> <dur_ms> | A<vhex> S<ms> P ...   the same through the exporter on the REAL clock
//        (build_recorder(), no clock override, real sleeps): A = record now, S = sleep, P = render.  regime 0: nothing
//        maintains quanta's recent time; 1: a quanta::Upkeep with a 600 s interval runs (process-global); 2: quanta's
//        recent time was set once at start-up.  W lines of one process share one regime and run side by side.
//     -> k@<ms>  |  r:<_count>:<_sum bits>:<q,q,..>@<ms>     (one token per A / P; @ = real ms since the scenario began)
//
//  Q <qhex>                         metrics_util::parse_quantiles(&[q])[0]
//     -> <valuebits> <labelhex> <fchex> <fdhex>   value(), label(), and Display of value / value*100 (the
//        formatting oracle the model is given; computed here with the same expressions as quantile.rs)
use metrics_exporter_prometheus::{Distribution, DistributionBuilder, Matcher, PrometheusBuilder};
use metrics_util::storage::Histogram;
use metrics_util::parse_quantiles;
use std::collections::HashMap;
use std::io::{BufRead, Write};
use std::num::NonZeroU32;
use std::sync::Arc;
use std::time::Duration;

fn f(h: &str) -> f64 {
    f64::from_bits(u64::from_str_radix(h, 16).unwrap())
}
fn bits(x: f64) -> String {
    // all NaNs are one value on the Coq side
    if x.is_nan() { "7ff8000000000000".to_string() } else { format!("{:016x}", x.to_bits()) }
}
fn flist(s: &str) -> Vec<f64> {
    if s == "-" || s.is_empty() { vec![] } else { s.split(',').map(f).collect() }
}
fn unhex(s: &str) -> String {
    let b: Vec<u8> = (0..s.len() / 2).map(|i| u8::from_str_radix(&s[2 * i..2 * i + 2], 16).unwrap()).collect();
    String::from_utf8(b).unwrap()
}
fn blist(v: &[f64]) -> String {
    v.iter().map(|x| bits(*x)).collect::<Vec<_>>().join(",")
}

fn hist_case(rest: &str) -> String {
    let (head, ops) = rest.split_once('|').unwrap();
    let bounds = flist(head.trim());
    let mut h = match Histogram::new(&bounds) {
        None => return "none".to_string(),
        Some(h) => h,
    };
    let mut out = vec![format!("B:{}", blist(&h.buckets().iter().map(|(b, _)| *b).collect::<Vec<_>>()))];
    for tok in ops.split_whitespace() {
        let (c, r) = tok.split_at(1);
        match c {
            "S" => h.record(f(r)),
            "M" => {
                let v = if r == "-" { vec![] } else { flist(r) };
                h.record_many(&v);
            }
            _ => panic!("bad op {}", tok),
        }
        let cs = h.buckets().iter().map(|(_, c)| c.to_string()).collect::<Vec<_>>().join(",");
        out.push(format!("{};{};{}", cs, h.count(), bits(h.sum())));
    }
    out.join(" | ")
}

fn matcher(kind: &str, pat: String) -> Matcher {
    match kind {
        "F" => Matcher::Full(pat),
        "P" => Matcher::Prefix(pat),
        "S" => Matcher::Suffix(pat),
        _ => panic!("bad matcher kind"),
    }
}

fn dist_case(rest: &str) -> String {
    let (head, ovs) = rest.split_once('|').unwrap();
    let mut hs = head.split_whitespace();
    let san = hs.next().unwrap() == "1";
    let g = hs.next().unwrap();
    let global = if g == "-" { None } else { Some(flist(g)) };
    let nh = hs.next().unwrap_or("-");
    let name = if nh == "-" { String::new() } else { unhex(nh) };
    let usfx = hs.next().unwrap_or("0") == "1";
    let unit = match hs.next().unwrap_or("-") { "-" => None, u => Some(metrics::Unit::from_string(u).expect("unit")) };
    let mut overrides: Vec<(Matcher, Vec<f64>)> = Vec::new();
    for tok in ovs.split_whitespace() {
        let mut p = tok.split(':');
        let k = p.next().unwrap();
        let pat = unhex(p.next().unwrap());
        let b = flist(p.next().unwrap());
        overrides.push((matcher(k, pat), b));
    }
    if !san {
        let map = if overrides.is_empty() { None } else {
            let mut m = HashMap::new();
            for (k, v) in overrides { m.insert(k, v); }
            Some(m)
        };
        let b = DistributionBuilder::new(vec![], None, global, None, map);
        let ty = b.get_distribution_type(&name).to_string();
        let d = match b.get_distribution(&name) {
            Distribution::Histogram(h) => format!("H:{}", blist(&h.buckets().iter().map(|(b, _)| *b).collect::<Vec<_>>())),
            Distribution::Summary(..) => "S".to_string(),
        };
        let t = match ty.as_str() { "histogram" => "h", "summary" => "s", _ => "?" };
        format!("{} {} {}", t, d, hexs(&name))
    } else {
        let mut pb = PrometheusBuilder::new().set_enable_unit_suffix(usfx);
        for (k, v) in overrides { pb = pb.set_buckets_for_metric(k, &v).unwrap(); }
        if let Some(g) = global { pb = pb.set_buckets(&g).unwrap(); }
        let rec = pb.build_recorder();
        let handle = rec.handle();
        let n2 = name.clone();
        metrics::with_local_recorder(&rec, move || {
            if let Some(u) = unit { metrics::describe_histogram!(n2.clone(), u, "d"); }
            metrics::histogram!(n2).record(1.0);
        });
        let text = handle.render();
        let mut ty = "?".to_string();
        let mut fam: Option<String> = None;
        let mut les: Vec<f64> = Vec::new();
        let (mut has_q, mut has_inf, mut types) = (false, false, 0);
        let mut series: Vec<String> = Vec::new();
        for line in text.lines() {
            if let Some(r) = line.strip_prefix("# TYPE ") {
                let (f, k) = r.rsplit_once(' ').unwrap();
                types += 1;
                fam = Some(f.to_string());
                ty = match k { "histogram" => "h".into(), "summary" => "s".into(), o => o.to_string() };
                continue;
            }
            if line.starts_with('#') || line.is_empty() { continue; }
            let end = line.find(|c| c == '{' || c == ' ').unwrap();
            series.push(line[..end].to_string());
            if line.contains("quantile=\"") {
                has_q = true;
            } else if let Some(i) = line.find("le=\"") {
                let r = &line[i + 4..];
                let v = &r[..r.find('"').unwrap()];
                if v == "+Inf" { has_inf = true } else { les.push(v.parse::<f64>().unwrap()); }
            }
        }
        let fam = fam.unwrap_or_default();
        // every sample of the family is named after the family: fam, fam_bucket, fam_sum, fam_count
        let named = series.iter().all(|n| n == &fam || *n == format!("{}_bucket", fam) || *n == format!("{}_sum", fam) || *n == format!("{}_count", fam));
        let d = if types == 1 && named && has_q && !has_inf && les.is_empty() { "S".to_string() }
                else if types == 1 && named && !has_q && has_inf && !les.is_empty() { format!("H:{}", blist(&les)) }
                else { return format!("panic:unexpected rendering {}", text.replace('\n', "\\n")); };
        format!("{} {} {}", ty, d, hexs(&fam))
    }
}

fn roll_case(rest: &str) -> String {
    let (head, ops) = rest.split_once('|').unwrap();
    let mut hs = head.split_whitespace();
    let n: u32 = hs.next().unwrap().parse().unwrap();
    let dur: u64 = hs.next().unwrap().parse().unwrap();
    let (clock, mock) = quanta::Clock::mock();
    let mut dist = Distribution::new_summary(Arc::new(vec![]), Duration::from_nanos(dur), NonZeroU32::new(n).unwrap());
    let mut out: Vec<String> = Vec::new();
    let set = |t: u64| {
        let cur = mock.value();
        if t >= cur { mock.increment(t - cur) } else { mock.decrement(cur - t) }
        clock.now()
    };
    for tok in ops.split_whitespace() {
        let (c, r) = tok.split_at(1);
        match c {
            "A" => {
                let (t, v) = r.split_once(':').unwrap();
                let now = set(t.parse().unwrap());
                dist.record_samples(&[(f(v), now)]);
                if let Distribution::Summary(rs, _, _) = &dist { out.push(format!("a{}", rs.count())); }
            }
            "P" => {
                let now = set(r.parse().unwrap());
                if let Distribution::Summary(rs, _, sum) = &dist {
                    let s = rs.snapshot(now);
                    let qs: Vec<f64> = [0.0, 0.5, 0.9, 0.99, 1.0].iter().map(|q| s.quantile(*q).unwrap_or(0.0)).collect();
                    out.push(format!("p:{}:{}:{}:{}:{}:{}", rs.count(), bits(*sum), s.count(), bits(s.min()), bits(s.max()), blist(&qs)));
                }
            }
            _ => panic!("bad op {}", tok),
        }
    }
    out.join(" ")
}

// the rendered lines of the single summary family `s`:  r:<_count>:<_sum bits>:<q,q,..>
fn parse_summary(text: &str) -> Result<String, String> {
    let (mut ty, mut sum, mut count) = (String::new(), None, None);
    let mut qs: Vec<f64> = Vec::new();
    let mut other = false;
    for line in text.lines() {
        if let Some(t) = line.strip_prefix("# TYPE s ") { ty = t.to_string(); }
        else if line.starts_with('#') || line.is_empty() {}
        else if let Some(v) = line.strip_prefix("s_sum ") { sum = v.parse::<f64>().ok(); }
        else if let Some(v) = line.strip_prefix("s_count ") { count = v.parse::<u64>().ok(); }
        else if line.starts_with("s{quantile=\"") { qs.push(line.rsplit(' ').next().unwrap().parse::<f64>().unwrap()); }
        else { other = true; }
    }
    match (sum, count) {
        (Some(sm), Some(c)) if ty == "summary" && !other && qs.len() == 5 => Ok(format!("r:{}:{}:{}", c, bits(sm), blist(&qs))),
        _ => Err(format!("panic:unexpected rendering {}", text.replace('\n', "\\n"))),
    }
}

static REGIME: std::sync::OnceLock<u8> = std::sync::OnceLock::new();

// quanta's recent time is process-global: one regime per process
fn ensure_regime(r: u8) {
    let cur = *REGIME.get_or_init(|| {
        match r {
            1 => {
                // an application (or another library) keeps quanta's recent time up to date only coarsely
                let h = quanta::Upkeep::new(Duration::from_secs(600)).start().expect("upkeep");
                std::mem::forget(h);    // dropping the handle would join a thread that sleeps for the interval
            }
            2 => quanta::set_recent(quanta::Instant::now()),
            _ => {}
        }
        r
    });
    assert!(cur == r, "one real-clock regime per process");
}

fn real_case(rest: &str) -> String {
    let (head, ops) = rest.split_once('|').unwrap();
    let mut hs = head.split_whitespace();
    let _regime: u8 = hs.next().unwrap().parse().unwrap();
    let n: u32 = hs.next().unwrap().parse().unwrap();
    let dur: u64 = hs.next().unwrap().parse().unwrap();
    let rec = PrometheusBuilder::new()
        .set_quantiles(&[0.0, 0.5, 0.9, 0.99, 1.0]).unwrap()
        .set_bucket_count(NonZeroU32::new(n).unwrap())
        .set_bucket_duration(Duration::from_millis(dur)).unwrap()
        .build_recorder();
    let handle = rec.handle();
    let t0 = std::time::Instant::now();
    let mut out: Vec<String> = Vec::new();
    for tok in ops.split_whitespace() {
        let (c, r) = tok.split_at(1);
        match c {
            "A" => {
                let v = f(r);
                metrics::with_local_recorder(&rec, || { metrics::histogram!("s").record(v); });
                out.push(format!("k@{}", t0.elapsed().as_millis()));
            }
            "S" => std::thread::sleep(Duration::from_millis(r.parse().unwrap())),
            "P" => {
                let text = handle.render();
                match parse_summary(&text) {
                    Ok(tok) => out.push(format!("{}@{}", tok, t0.elapsed().as_millis())),
                    Err(e) => return e,
                }
            }
            _ => panic!("bad op {}", tok),
        }
    }
    out.join(" ")
}

fn render_case(rest: &str) -> String {
    let (head, ops) = rest.split_once('|').unwrap();
    let mut hs = head.split_whitespace();
    let n: u32 = hs.next().unwrap().parse().unwrap();
    let dur: u64 = hs.next().unwrap().parse().unwrap();
    let (clock, mock) = quanta::Clock::mock();
    let rec = PrometheusBuilder::new()
        .set_quantiles(&[0.0, 0.5, 0.9, 0.99, 1.0]).unwrap()
        .set_bucket_count(NonZeroU32::new(n).unwrap())
        .set_bucket_duration(Duration::from_nanos(dur)).unwrap()
        .build_recorder();
    let handle = rec.handle();
    let set = |t: u64| {
        let cur = mock.value();
        if t >= cur { mock.increment(t - cur) } else { mock.decrement(cur - t) }
    };
    // Instant::now() inside the recorder (sample timestamps) and inside render (snapshot time) read the mock clock
    quanta::with_clock(&clock, || {
        let mut out: Vec<String> = Vec::new();
        for tok in ops.split_whitespace() {
            let (c, r) = tok.split_at(1);
            match c {
                "A" => {
                    let (t, v) = r.split_once(':').unwrap();
                    set(t.parse().unwrap());
                    let v = f(v);
                    metrics::with_local_recorder(&rec, || { metrics::histogram!("s").record(v); });
                    out.push("k".into());
                }
                "P" => {
                    set(r.parse().unwrap());
                    let text = handle.render();
                    match parse_summary(&text) {
                        Ok(tok) => out.push(tok),
                        Err(e) => return e,
                    }
                }
                _ => panic!("bad op {}", tok),
            }
        }
        out.join(" ")
    })
}

fn hexs(s: &str) -> String {
    if s.is_empty() { "-".to_string() } else { s.bytes().map(|b| format!("{:02x}", b)).collect() }
}

fn quant_case(rest: &str) -> String {
    let q = f(rest.trim());
    let qs = parse_quantiles(&[q]);
    let v = qs[0].value();
    format!("{} {} {} {}", bits(v), hexs(qs[0].label()), hexs(&format!("{}", v)), hexs(&format!("{}", v * 100.0)))
}

fn run_case(line: &str) -> String {
    let (k, rest) = line.split_at(1);
    match k {
        "H" => hist_case(rest),
        "D" => dist_case(rest),
        "R" => roll_case(rest),
        "Q" => quant_case(rest),
        "V" => render_case(rest),
        "W" => real_case(rest),
        _ => panic!("bad case kind"),
    }
}

fn guarded(line: String) -> String {
    match std::panic::catch_unwind(move || run_case(&line)) {
        Ok(s) => s,
        Err(e) => {
            let msg = e.downcast_ref::<String>().cloned().or_else(|| e.downcast_ref::<&str>().map(|s| s.to_string())).unwrap_or_default();
            format!("panic:{}", msg.replace('\n', " "))
        }
    }
}

fn main() {
    std::panic::set_hook(Box::new(|_| {}));
    let stdin = std::io::stdin();
    let stdout = std::io::stdout();
    let mut w = std::io::BufWriter::new(stdout.lock());
    // real-clock scenarios (W) sleep: they are started as they are read and run side by side; every other case is
    // evaluated in place.  Output lines keep the input order.
    enum Slot { Done(String), Running(std::thread::JoinHandle<String>) }
    let mut slots: Vec<Slot> = Vec::new();
    for line in stdin.lock().lines() {
        let line = line.unwrap();
        if line.trim().is_empty() { continue; }
        if let Some(rest) = line.strip_prefix("W ") {
            let regime: u8 = rest.split_whitespace().next().unwrap().parse().unwrap();
            ensure_regime(regime);
            slots.push(Slot::Running(std::thread::spawn(move || guarded(line))));
        } else {
            slots.push(Slot::Done(guarded(line)));
        }
    }
    for s in slots {
        let out = match s { Slot::Done(o) => o, Slot::Running(h) => h.join().unwrap_or_else(|_| "panic:thread".to_string()) };
        writeln!(w, "{}", out).unwrap();
    }
}
