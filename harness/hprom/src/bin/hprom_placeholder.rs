fn main(){}
