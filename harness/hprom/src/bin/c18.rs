// C18 correspondence driver.  One case per stdin line, one output line per case.
//
//  E <entryhex|-> <peer,peer,..|->                         (layer D: pure)
//        peer = 4:<u32 decimal> | 6:<u128 decimal>
//     -> <ipnet> <builder> <std> <bits|->
//        ipnet   = ipnet::IpNet::from_str(entry)                        as 4:<addr>:<plen> | 6:<addr>:<plen> | x
//        builder = PrometheusBuilder::new().add_allowed_address(entry)  (the net it pushed, read through the
//                  cfg(metrics_verif) accessor verif_allowed_addresses)  same syntax, x = Err
//        std     = std::net::IpAddr::from_str(entry)                    as 4:<addr> | 6:<addr> | x
//        bits    = IpNet::contains(&peer) for every peer, against the builder's net (else ipnet's; `-` if neither)
//
//  S <4|6|D> <entryhex,entryhex,..|-> | <step> <step> ...  (layer T: a real exporter on a free port of
//        127.0.0.1 (4), [::1] (6) or the dual-stack wildcard [::] (D))
//        <src> = 4.<u32> | 6.<u128>: the client socket is bound to that source address before connecting (to
//        127.0.0.1 for an IPv4 source, to [::1] for an IPv6 source).  The driver runs in a private network
//        namespace in which every unicast address is local to `lo` (see enter_private_netns), so any source works.
//        steps:  C:<src>:<req>,<req>,..       one connection, sequential keep-alive requests;
//                    <req> = <M><basetargethex>[~pp.qn.hn.hs.hl.ms]   M = G (GET) | P (POST, empty body); padding of the
//                    request head: path segment of pp bytes, query of qn bytes, hn headers of hs bytes, one header
//                    of hl bytes, head written in two pieces ms milliseconds apart (see build_head)
//                G:<src>:<hexbytes>    send bytes, shut down the write side, drain, close
//                H:<src>:<hexbytes>    send bytes and leave the socket open until the end of the scenario
//                R:<src>:<hexbytes>    send bytes, SO_LINGER 0, close (RST)
//                B:<n>:<src>:<targethex>   n concurrent connections, one GET each
//                I                     increment the counter (the rendering changes)
//     -> E                             (add_allowed_address returned Err for some entry)
//     -> one token per step:  c:<renderhex>:<status>/<bodyhex>/<head bytes sent>,..   b:<renderhex>:<..>,..   f   i
//        render = handle.render() taken before the step (and checked to be unchanged after it);
//        status 0 = no well-formed response (body = error text)
use ipnet::IpNet;
use metrics_exporter_prometheus::PrometheusBuilder;
use std::io::{BufRead, Read, Write};
use std::net::{IpAddr, Ipv4Addr, Ipv6Addr, SocketAddr, TcpStream};
use std::str::FromStr;
use std::time::Duration;

fn unhex(s: &str) -> Vec<u8> {
    (0..s.len() / 2).map(|i| u8::from_str_radix(&s[2 * i..2 * i + 2], 16).unwrap()).collect()
}
fn hex(b: &[u8]) -> String {
    let mut s = String::with_capacity(b.len() * 2);
    for x in b {
        s.push_str(&format!("{:02x}", x));
    }
    s
}

fn show_net(n: &IpNet) -> String {
    match n {
        IpNet::V4(a) => format!("4:{}:{}", u32::from(a.addr()), a.prefix_len()),
        IpNet::V6(a) => format!("6:{}:{}", u128::from(a.addr()), a.prefix_len()),
    }
}
fn show_ip(a: &IpAddr) -> String {
    match a {
        IpAddr::V4(a) => format!("4:{}", u32::from(*a)),
        IpAddr::V6(a) => format!("6:{}", u128::from(*a)),
    }
}
fn parse_peer(t: &str) -> IpAddr {
    let (f, v) = t.split_once(':').unwrap();
    match f {
        "4" => IpAddr::V4(Ipv4Addr::from(v.parse::<u32>().unwrap())),
        "6" => IpAddr::V6(Ipv6Addr::from(v.parse::<u128>().unwrap())),
        _ => panic!("bad peer"),
    }
}

fn entry_case(rest: &str) -> String {
    let mut it = rest.split_whitespace();
    let e = it.next().unwrap();
    let entry_bytes = if e == "-" { vec![] } else { unhex(e) };
    let entry = String::from_utf8(entry_bytes).expect("entries are valid UTF-8");
    let peers: Vec<IpAddr> = match it.next() {
        None | Some("-") => vec![],
        Some(p) => p.split(',').map(parse_peer).collect(),
    };
    let lib = IpNet::from_str(&entry).ok();
    let built: Option<IpNet> = match PrometheusBuilder::new().add_allowed_address(&entry) {
        Ok(b) => {
            let v = b.verif_allowed_addresses().expect("Ok(..) leaves an allowlist");
            assert_eq!(v.len(), 1);
            Some(v[0])
        }
        Err(_) => None,
    };
    let stdip = IpAddr::from_str(&entry).ok();
    let net = built.or(lib);
    let bits = match net {
        Some(n) if !peers.is_empty() => {
            peers.iter().map(|p| if n.contains(p) { '1' } else { '0' }).collect::<String>()
        }
        _ => "-".to_string(),
    };
    format!(
        "{} {} {} {}",
        lib.as_ref().map_or("x".to_string(), show_net),
        built.as_ref().map_or("x".to_string(), show_net),
        stdip.as_ref().map_or("x".to_string(), show_ip),
        bits
    )
}

// ------------------------------------------------------------------------------------- layer T
// Generous while the server behaves; once a few requests have gone unanswered in this process (a liveness
// failure is already established) the remaining waits are cut short so that shrinking stays feasible.
static UNANSWERED: std::sync::atomic::AtomicUsize = std::sync::atomic::AtomicUsize::new(0);
fn io_timeout() -> Duration {
    if UNANSWERED.load(std::sync::atomic::Ordering::Relaxed) >= 3 {
        Duration::from_millis(700)
    } else {
        Duration::from_secs(6)
    }
}

fn parse_src(t: &str) -> IpAddr {
    let (f, v) = t.split_once('.').unwrap();
    match f {
        "4" => IpAddr::V4(Ipv4Addr::from(v.parse::<u32>().unwrap())),
        "6" => IpAddr::V6(Ipv6Addr::from(v.parse::<u128>().unwrap())),
        _ => panic!("bad source"),
    }
}

fn connect_from(src: IpAddr, port: u16) -> std::io::Result<socket2::Socket> {
    use socket2::{Domain, Protocol, Socket, Type};
    let (dom, dst) = match src {
        IpAddr::V4(_) => (Domain::IPV4, SocketAddr::new(IpAddr::V4(Ipv4Addr::LOCALHOST), port)),
        IpAddr::V6(_) => (Domain::IPV6, SocketAddr::new(IpAddr::V6(Ipv6Addr::LOCALHOST), port)),
    };
    let s = Socket::new(dom, Type::STREAM, Some(Protocol::TCP))?;
    s.bind(&SocketAddr::new(src, 0).into())?;
    s.connect_timeout(&dst.into(), io_timeout())?;
    // the kernel silently substitutes another source for unusable ones (0.0.0.0, multicast, broadcast)
    let actual = s.local_addr()?.as_socket().map(|a| a.ip());
    assert_eq!(actual, Some(src), "source address was rewritten by the kernel");
    s.set_read_timeout(Some(io_timeout()))?;
    s.set_write_timeout(Some(io_timeout()))?;
    s.set_nodelay(true)?;
    Ok(s)
}

/// Move this process into a fresh network namespace in which `lo` is up and every unicast IPv4/IPv6 address is
/// local (AnyIP routes + ip_nonlocal_bind), so that client sockets can be bound to arbitrary source addresses
/// and the real listener sees them as peer addresses.  Nothing outside the process is affected.
fn enter_private_netns() {
    fn die(m: String) -> ! {
        eprintln!("c18: cannot set up the private network namespace: {}", m);
        std::process::exit(3)
    }
    if unsafe { libc::unshare(libc::CLONE_NEWNET) } != 0 {
        die(format!("unshare(CLONE_NEWNET): {}", std::io::Error::last_os_error()));
    }
    let ip = |args: &[&str]| match std::process::Command::new("ip").args(args).output() {
        Ok(o) if o.status.success() => {}
        Ok(o) => die(format!("ip {:?}: {}", args, String::from_utf8_lossy(&o.stderr))),
        Err(e) => die(format!("ip {:?}: {}", args, e)),
    };
    ip(&["link", "set", "lo", "up"]);
    for (f, v) in [("/proc/sys/net/ipv6/ip_nonlocal_bind", "1"), ("/proc/sys/net/ipv6/bindv6only", "0")] {
        if let Err(e) = std::fs::write(f, v) {
            die(format!("{}: {}", f, e));
        }
    }
    for r in ["::/1", "8000::/1"] {
        ip(&["-6", "route", "add", "local", r, "dev", "lo"]);
    }
    for r in ["0.0.0.0/1", "128.0.0.0/2", "192.0.0.0/3"] {
        ip(&["route", "add", "local", r, "dev", "lo"]);
    }
    // what the generator assumes about the kernel: a dual-stack listener reports an IPv4 client as ::ffff:a.b.c.d
    // and an IPv6 client under its own address
    let l = std::net::TcpListener::bind("[::]:0").unwrap_or_else(|e| die(format!("bind [::]:0: {}", e)));
    let port = l.local_addr().unwrap().port();
    for (src, seen) in [("10.1.2.3", "::ffff:10.1.2.3"), ("2001:db8::7", "2001:db8::7"), ("::2", "::2"), ("0.0.0.1", "::ffff:0.0.0.1")] {
        let c = connect_from(src.parse().unwrap(), port).unwrap_or_else(|e| die(format!("connect from {}: {}", src, e)));
        let (_, peer) = l.accept().unwrap_or_else(|e| die(format!("accept: {}", e)));
        if peer.ip() != seen.parse::<IpAddr>().unwrap() {
            die(format!("a client at {} is reported as {}, expected {}", src, peer.ip(), seen));
        }
        drop(c);
    }
}

/// read one HTTP/1.1 response (status, body) from the stream; `buf` carries bytes read ahead
fn read_response(st: &mut TcpStream, buf: &mut Vec<u8>) -> Result<(u16, Vec<u8>), String> {
    let mut tmp = [0u8; 4096];
    let head_end = loop {
        if let Some(p) = buf.windows(4).position(|w| w == b"\r\n\r\n") {
            break p + 4;
        }
        match st.read(&mut tmp) {
            Ok(0) => return Err(format!("eof after {} bytes", buf.len())),
            Ok(n) => buf.extend_from_slice(&tmp[..n]),
            Err(e) => return Err(format!("read: {:?}", e.kind())),
        }
    };
    let head = String::from_utf8_lossy(&buf[..head_end]).to_string();
    let mut lines = head.split("\r\n");
    let sl = lines.next().unwrap_or("");
    let mut p = sl.split(' ');
    if p.next() != Some("HTTP/1.1") {
        return Err(format!("status line {:?}", sl));
    }
    let status: u16 = p.next().and_then(|x| x.parse().ok()).ok_or_else(|| format!("status line {:?}", sl))?;
    let mut clen: Option<usize> = None;
    for l in lines {
        if let Some((k, v)) = l.split_once(':') {
            if k.eq_ignore_ascii_case("content-length") {
                clen = v.trim().parse().ok();
            }
            if k.eq_ignore_ascii_case("transfer-encoding") {
                return Err("chunked response not expected".into());
            }
        }
    }
    let rest: Vec<u8> = buf[head_end..].to_vec();
    buf.clear();
    buf.extend_from_slice(&rest);
    match clen {
        Some(n) => {
            while buf.len() < n {
                match st.read(&mut tmp) {
                    Ok(0) => return Err("eof in body".into()),
                    Ok(k) => buf.extend_from_slice(&tmp[..k]),
                    Err(e) => return Err(format!("read body: {:?}", e.kind())),
                }
            }
            let body = buf[..n].to_vec();
            let rest = buf[n..].to_vec();
            *buf = rest;
            Ok((status, body))
        }
        None => {
            loop {
                match st.read(&mut tmp) {
                    Ok(0) => break,
                    Ok(k) => buf.extend_from_slice(&tmp[..k]),
                    Err(e) => return Err(format!("read body: {:?}", e.kind())),
                }
            }
            let body = std::mem::take(buf);
            Ok((status, body))
        }
    }
}

fn show_resp(r: &Resp) -> String {
    match &r.0 {
        Ok((s, b)) => format!("{}/{}/{}", s, hex(b), r.1),
        Err(e) => format!("0/{}/{}", hex(e.as_bytes()), r.1),
    }
}

/// one request: method, base target and the padding that sets the size of the request head
#[derive(Clone)]
struct Req {
    m: char,
    base: Vec<u8>,
    pp: usize, // "/" + pp x 's' appended to the path
    qn: usize, // "?q=" + qn x 'a' appended as the query
    hn: usize, // hn headers "X-Pad-<i>: " + hs x 'v'
    hs: usize,
    hl: usize, // one header "Cookie: " + hl x 'c'
    ms: u64,   // the head is written in two pieces with this pause in between
}

fn parse_req(t: &str) -> Req {
    let m = t.chars().next().unwrap();
    let (b, pad) = match t[1..].split_once('~') {
        Some((b, p)) => (b, p),
        None => (&t[1..], ""),
    };
    let v: Vec<usize> = if pad.is_empty() { vec![] } else { pad.split('.').map(|x| x.parse().unwrap()).collect() };
    let g = |i: usize| v.get(i).copied().unwrap_or(0);
    Req { m, base: unhex(b), pp: g(0), qn: g(1), hn: g(2), hs: g(3), hl: g(4), ms: g(5) as u64 }
}

fn build_head(r: &Req, last: bool) -> Vec<u8> {
    let mut req = Vec::with_capacity(r.base.len() + r.pp + r.qn + r.hn * (r.hs + 16) + r.hl + 128);
    req.extend_from_slice(if r.m == 'P' { b"POST " } else { b"GET " });
    req.extend_from_slice(&r.base);
    if r.pp > 0 {
        req.push(b'/');
        req.resize(req.len() + r.pp, b's');
    }
    if r.qn > 0 {
        req.extend_from_slice(b"?q=");
        req.resize(req.len() + r.qn, b'a');
    }
    req.extend_from_slice(b" HTTP/1.1\r\nHost: c18\r\n");
    for i in 0..r.hn {
        req.extend_from_slice(format!("X-Pad-{}: ", i).as_bytes());
        req.resize(req.len() + r.hs, b'v');
        req.extend_from_slice(b"\r\n");
    }
    if r.hl > 0 {
        req.extend_from_slice(b"Cookie: ");
        req.resize(req.len() + r.hl, b'c');
        req.extend_from_slice(b"\r\n");
    }
    if r.m == 'P' {
        req.extend_from_slice(b"Content-Length: 0\r\n");
    }
    if last {
        req.extend_from_slice(b"Connection: close\r\n");
    }
    req.extend_from_slice(b"\r\n");
    req
}

type Resp = (Result<(u16, Vec<u8>), String>, usize);

fn do_conn(src: IpAddr, port: u16, reqs: &[Req]) -> Vec<Resp> {
    let mut out = vec![];
    let sock = match connect_from(src, port) {
        Ok(s) => s,
        Err(e) => {
            for _ in reqs {
                out.push((Err(format!("connect: {:?}", e.kind())), 0));
            }
            return out;
        }
    };
    let mut st: TcpStream = sock.into();
    let mut buf = vec![];
    for (i, r) in reqs.iter().enumerate() {
        let head = build_head(r, i + 1 == reqs.len());
        // a server that refuses a head early may reset the connection while it is still being written: the
        // response, if any, is read regardless of a write error
        let cut = if r.ms > 0 { head.len() / 2 } else { head.len() };
        let w = st.write_all(&head[..cut]).and_then(|_| {
            if r.ms > 0 {
                std::thread::sleep(Duration::from_millis(r.ms));
            }
            st.write_all(&head[cut..])
        });
        let mut resp = read_response(&mut st, &mut buf);
        if let (Err(e), Err(we)) = (&resp, &w) {
            resp = Err(format!("{} after write: {:?}", e, we.kind()));
        }
        if resp.is_err() {
            UNANSWERED.fetch_add(1, std::sync::atomic::Ordering::Relaxed);
        }
        out.push((resp, head.len()));
    }
    out
}

fn server_case(rest: &str) -> String {
    let (head, steps) = rest.split_once('|').unwrap();
    let mut hs = head.split_whitespace();
    let listen_ip: IpAddr = match hs.next().unwrap() {
        "4" => IpAddr::V4(Ipv4Addr::LOCALHOST),
        "6" => IpAddr::V6(Ipv6Addr::LOCALHOST),
        "D" => IpAddr::V6(Ipv6Addr::UNSPECIFIED),
        _ => panic!("bad listener kind"),
    };
    let head = hs.next().unwrap();
    let mut b = PrometheusBuilder::new();
    if head != "-" {
        for e in head.split(',') {
            let entry = String::from_utf8(unhex(e)).expect("entries are valid UTF-8");
            b = match b.add_allowed_address(&entry) {
                Ok(b) => b,
                Err(_) => return "E".to_string(),
            };
        }
    }
    let rt = tokio::runtime::Builder::new_multi_thread().worker_threads(2).enable_all().build().unwrap();
    // find a free port: bind, read the port, release, let the exporter bind it (retry on a lost race)
    let mut started = None;
    let mut b = Some(b);
    for _attempt in 0..20 {
        let port = {
            let l = std::net::TcpListener::bind(SocketAddr::new(listen_ip, 0)).unwrap();
            l.local_addr().unwrap().port()
        };
        // PrometheusBuilder is not Clone: rebuild the allowlist through the public API on every attempt
        let mut nb = PrometheusBuilder::new();
        if head != "-" {
            for e in head.split(',') {
                nb = nb.add_allowed_address(String::from_utf8(unhex(e)).unwrap()).unwrap();
            }
        }
        let _ = b.take();
        let nb = nb.with_http_listener(SocketAddr::new(listen_ip, port));
        let built = {
            let _g = rt.enter();
            nb.build()
        };
        match built {
            Ok((recorder, fut)) => {
                let jh = rt.spawn(fut);
                started = Some((port, recorder, jh));
                break;
            }
            Err(_) => continue,
        }
    }
    let (port, recorder, jh) = started.expect("could not start an exporter on a free loopback port");
    let handle = recorder.handle();
    metrics::with_local_recorder(&recorder, || {
        metrics::describe_counter!("c18_hits", "number of hits");
        metrics::counter!("c18_hits", "svc" => "a").increment(1);
        metrics::gauge!("c18_level").set(7.0);
    });
    let mut held: Vec<socket2::Socket> = vec![];
    let mut out: Vec<String> = vec![];
    for tok in steps.split_whitespace() {
        let parts: Vec<&str> = tok.split(':').collect();
        match parts[0] {
            "I" => {
                metrics::with_local_recorder(&recorder, || {
                    metrics::counter!("c18_hits", "svc" => "a").increment(1);
                });
                out.push("i".into());
            }
            "C" => {
                let src = parse_src(parts[1]);
                let reqs: Vec<Req> = parts[2].split(',').map(parse_req).collect();
                let before = handle.render();
                let rs = do_conn(src, port, &reqs);
                let after = handle.render();
                assert_eq!(before, after, "rendering changed without an update");
                out.push(format!(
                    "c:{}:{}",
                    hex(before.as_bytes()),
                    rs.iter().map(show_resp).collect::<Vec<_>>().join(",")
                ));
            }
            "B" => {
                let n: usize = parts[1].parse().unwrap();
                let src = parse_src(parts[2]);
                let target = parse_req(&format!("G{}", parts[3]));
                let before = handle.render();
                let ths: Vec<_> = (0..n)
                    .map(|_| {
                        let t = target.clone();
                        std::thread::spawn(move || do_conn(src, port, &[t]).remove(0))
                    })
                    .collect();
                let rs: Vec<_> = ths.into_iter().map(|t| t.join().unwrap()).collect();
                let after = handle.render();
                assert_eq!(before, after, "rendering changed without an update");
                out.push(format!(
                    "b:{}:{}",
                    hex(before.as_bytes()),
                    rs.iter().map(show_resp).collect::<Vec<_>>().join(",")
                ));
            }
            "G" | "H" | "R" => {
                let src = parse_src(parts[1]);
                let bytes = unhex(parts.get(2).copied().unwrap_or(""));
                if let Ok(s) = connect_from(src, port) {
                    let mut st: TcpStream = s.try_clone().unwrap().into();
                    let _ = st.write_all(&bytes);
                    match parts[0] {
                        "G" => {
                            let _ = s.shutdown(std::net::Shutdown::Write);
                            let _ = s.set_read_timeout(Some(Duration::from_millis(300)));
                            let mut sink = [0u8; 1024];
                            let mut total = 0;
                            while let Ok(n) = st.read(&mut sink) {
                                total += n;
                                if n == 0 || total > 1 << 16 {
                                    break;
                                }
                            }
                        }
                        "H" => held.push(s),
                        _ => {
                            let _ = s.set_linger(Some(Duration::from_secs(0)));
                            drop(st);
                            drop(s);
                        }
                    }
                }
                out.push("f".into());
            }
            _ => panic!("bad step {}", tok),
        }
    }
    drop(held);
    jh.abort();
    rt.shutdown_background();
    out.join(" ")
}

fn main() {
    enter_private_netns();
    let stdin = std::io::stdin();
    let stdout = std::io::stdout();
    let mut w = std::io::BufWriter::new(stdout.lock());
    for line in stdin.lock().lines() {
        let line = line.unwrap();
        let line = line.trim_end();
        if line.is_empty() {
            continue;
        }
        let (k, rest) = line.split_at(1);
        let rest = rest.trim_start().to_string();
        let kind = k.to_string();
        let r = std::panic::catch_unwind(move || match kind.as_str() {
            "E" => entry_case(&rest),
            "S" => server_case(&rest),
            _ => panic!("bad case kind"),
        });
        match r {
            Ok(s) => writeln!(w, "{}", s).unwrap(),
            Err(e) => {
                let m = e
                    .downcast_ref::<String>()
                    .cloned()
                    .or_else(|| e.downcast_ref::<&str>().map(|s| s.to_string()))
                    .unwrap_or_else(|| "?".into());
                writeln!(w, "PANIC {}", hex(m.as_bytes())).unwrap()
            }
        }
        w.flush().unwrap();
    }
}
