fn main(){}
