//! C11 driver: one scenario per stdin line, run against a REAL `metrics-exporter-tcp` exporter on a
//! loopback port with real client sockets.  Prints, per scenario, one line: the transport thread's
//! hook log (its nondeterministic inputs), the bytes every harness client read, and flags.
//!
//! scenario line (space separated `key=value`):
//!   limit=none|N            TcpBuilder::buffer_size
//!   inj=-|s<x>|e|b,...      fault plan for the first conn.write calls (short write / EINTR / EAGAIN)
//!   pre=D;D;..  mid=D;D;..  describes before the first client connects / between the phases,
//!                           D = kind.name.unit.desc (kind c|g|h, unit a Unit string or `-`)
//!   clients=F,S,C,R,L       F fast reader, S stalled reader (tiny SO_RCVBUF, reads only at the end),
//!                           C closes after phase 1, R resets (SO_LINGER 0) after phase 1, L joins late
//!   threads=T;T;..          T = name/op+op+../k=v,k=v/n1/n2  (n1 emissions in phase 1, n2 in phase 2)
//!   pad=N                   extra label `pad` of N bytes on every metric (frame size)
#![cfg(metrics_verif)]
use metrics::{Key, Label, Level, Metadata, Recorder, SharedString, Unit};
use metrics_exporter_tcp::verif::{self, Ev, Inj, W};
use metrics_exporter_tcp::{TcpBuilder, TcpRecorder};
use std::io::{BufRead, Read, Write};
use std::net::{SocketAddr, TcpStream};
use std::sync::atomic::{AtomicBool, AtomicUsize, Ordering};
use std::sync::{Arc, Mutex};
use std::time::{Duration, Instant};

static META: Metadata<'static> = Metadata::new("c11", Level::INFO, None);

fn hex(b: &[u8]) -> String {
    let mut s = String::with_capacity(b.len() * 2);
    for x in b {
        s.push_str(&format!("{:02x}", x));
    }
    s
}

struct Client {
    kind: char,
    port: u16,
    buf: Arc<Mutex<Vec<u8>>>,
    go: Arc<AtomicBool>,   // start reading
    stop: Arc<AtomicBool>, // stop reading, keep the socket open
    leave: Arc<AtomicBool>, // close / reset
    th: Option<std::thread::JoinHandle<()>>,
}

fn connect(kind: char, port: u16) -> Option<Client> {
    use socket2::{Domain, Socket, Type};
    let sock = Socket::new(Domain::IPV4, Type::STREAM, None).ok()?;
    if kind == 'S' {
        let _ = sock.set_recv_buffer_size(1024);
    }
    let addr: SocketAddr = ([127, 0, 0, 1], port).into();
    sock.connect(&addr.into()).ok()?;
    let stream: TcpStream = sock.into();
    let lport = stream.local_addr().ok()?.port();
    stream.set_read_timeout(Some(Duration::from_millis(5))).ok()?;
    let buf = Arc::new(Mutex::new(Vec::new()));
    let go = Arc::new(AtomicBool::new(kind != 'S'));
    let stop = Arc::new(AtomicBool::new(false));
    let leave = Arc::new(AtomicBool::new(false));
    let (b2, g2, s2, l2) = (buf.clone(), go.clone(), stop.clone(), leave.clone());
    let th = std::thread::spawn(move || {
        let mut stream = stream;
        let mut tmp = vec![0u8; 65536];
        loop {
            if l2.load(Ordering::Acquire) {
                if kind == 'R' {
                    let s: socket2::Socket = stream.into();
                    let _ = s.set_linger(Some(Duration::from_secs(0)));
                    drop(s);
                } else {
                    drop(stream);
                }
                return;
            }
            if s2.load(Ordering::Acquire) {
                std::thread::sleep(Duration::from_millis(2));
                continue;
            }
            if !g2.load(Ordering::Acquire) {
                std::thread::sleep(Duration::from_millis(1));
                continue;
            }
            match stream.read(&mut tmp) {
                Ok(0) => {
                    // exporter closed the connection; nothing more will arrive
                    std::thread::sleep(Duration::from_millis(2));
                }
                Ok(n) => b2.lock().unwrap().extend_from_slice(&tmp[..n]),
                Err(_) => {}
            }
        }
    });
    Some(Client { kind, port: lport, buf, go, stop, leave, th: Some(th) })
}

struct Pace {
    port: u16,
    cap: usize,
    sent: Mutex<usize>,
    resync: AtomicUsize,
}

impl Pace {
    /// Wait until fewer than `cap` channel messages are in flight, then run `f` (which sends one).
    fn send(&self, always: bool, f: impl FnOnce()) {
        let mut sent = self.sent.lock().unwrap();
        let t0 = Instant::now();
        loop {
            let (recv, ss, exited) = verif::with_inst(self.port, |i| (i.received, i.should_send, i.exited.is_some()));
            if exited || *sent < recv + self.cap {
                if always || ss {
                    *sent += 1;
                }
                break;
            }
            if t0.elapsed() > Duration::from_millis(400) {
                // lost track (a message was gated or dropped): resynchronise
                self.resync.fetch_add(1, Ordering::Relaxed);
                *sent = recv + if always || ss { 1 } else { 0 };
                break;
            }
            std::thread::sleep(Duration::from_micros(100));
        }
        f();
    }

    fn drained(&self) -> bool {
        let sent = *self.sent.lock().unwrap();
        verif::with_inst(self.port, |i| i.received >= sent)
    }
}

fn wait_until(ms: u64, mut f: impl FnMut() -> bool) -> bool {
    let t0 = Instant::now();
    loop {
        if f() {
            return true;
        }
        if t0.elapsed() > Duration::from_millis(ms) {
            return false;
        }
        std::thread::sleep(Duration::from_micros(300));
    }
}

fn describe(rec: &TcpRecorder, d: &str) {
    let p: Vec<&str> = d.split('.').collect();
    let unit = if p[2] == "-" { None } else { Unit::from_string(p[2]) };
    let name: metrics::KeyName = p[1].to_string().into();
    let desc: SharedString = p[3].to_string().into();
    match p[0] {
        "c" => rec.describe_counter(name, unit, desc),
        "g" => rec.describe_gauge(name, unit, desc),
        _ => rec.describe_histogram(name, unit, desc),
    }
}

#[derive(Clone)]
struct ThreadSpec {
    name: String,
    ops: Vec<String>,
    labels: Vec<(String, String)>,
    n1: usize,
    n2: usize,
}

fn emit(rec: &TcpRecorder, tid: usize, spec: &ThreadSpec, j: usize, pad: usize) {
    let mut labels: Vec<Label> = spec.labels.iter().map(|(k, v)| Label::new(k.clone(), v.clone())).collect();
    labels.push(Label::new("t", tid.to_string()));
    if pad > 0 {
        labels.push(Label::new("pad", "x".repeat(pad)));
    }
    let key = Key::from_parts(spec.name.clone(), labels);
    let v = (j + 1) as u64;
    match spec.ops[j % spec.ops.len()].as_str() {
        "ci" => rec.register_counter(&key, &META).increment(v),
        "ca" => rec.register_counter(&key, &META).absolute(v),
        "gi" => rec.register_gauge(&key, &META).increment(v as f64),
        "gd" => rec.register_gauge(&key, &META).decrement(v as f64),
        "gs" => rec.register_gauge(&key, &META).set(v as f64),
        _ => rec.register_histogram(&key, &META).record(v as f64),
    }
}

fn ev_str(e: &Ev) -> String {
    match e {
        Ev::Start { limit } => format!("S:{}", limit.map(|n| n.to_string()).unwrap_or("none".into())),
        Ev::Exit { panicking } => format!("X:{}", *panicking as u8),
        Ev::Accept { token, peer_port, meta_order } => format!(
            "A:{}:{}:{}",
            token,
            peer_port,
            meta_order.iter().map(|n| hex(n.as_bytes())).collect::<Vec<_>>().join(",")
        ),
        Ev::WakeBegin => "WB".into(),
        Ev::RecvMeta { name, mtype, unit, desc } => format!(
            "M:{}:{}:{}:{}",
            hex(name.as_bytes()),
            mtype,
            unit.as_ref().map(|u| format!("u{}", hex(u.as_bytes()))).unwrap_or("-".into()),
            hex(desc.as_bytes())
        ),
        Ev::RecvMetric { name, labels, op, value } => format!(
            "K:{}:{}:{}:{}",
            hex(name.as_bytes()),
            labels.iter().map(|(k, v)| format!("{}={}", hex(k.as_bytes()), hex(v.as_bytes()))).collect::<Vec<_>>().join(","),
            op,
            value
        ),
        Ev::Batch { frames } => format!("B:{}", frames.iter().map(|f| hex(f)).collect::<Vec<_>>().join(",")),
        Ev::Fanout { token } => format!("F:{}", token),
        Ev::Enqueue { token, dropped } => format!("Q:{}:{}", token, dropped),
        Ev::Write { token, len, res, injected } => format!(
            "W:{}:{}:{}:{}",
            token,
            len,
            match res {
                W::Wrote(n) => format!("{}", n),
                W::WouldBlock => "b".into(),
                W::Interrupted => "i".into(),
                W::Err(_) => "e".into(),
            },
            *injected as u8
        ),
        Ev::Remove { token } => format!("R:{}", token),
        Ev::WakeEnd => "WE".into(),
        Ev::Writable { token } => format!("T:{}", token),
        Ev::Count { inc, count, should_send } => format!("C:{}:{}:{}", if *inc { "+" } else { "-" }, count, *should_send as u8),
    }
}

/// Shrink the kernel send buffer of the exporter's listening socket (found among this process's
/// descriptors by its port), so that accepted sockets inherit a small fixed SO_SNDBUF and a stalled
/// reader produces real short writes and EAGAIN after a few kilobytes.
fn shrink_sndbuf(port: u16, size: usize) {
    use std::os::fd::{FromRawFd, IntoRawFd};
    for fd in 3..512 {
        let s = unsafe { socket2::Socket::from_raw_fd(fd) };
        let hit = s.local_addr().ok().and_then(|a| a.as_socket()).map(|a| a.port() == port).unwrap_or(false)
            && s.is_listener().unwrap_or(false);
        if hit {
            let _ = s.set_send_buffer_size(size);
        }
        let _ = s.into_raw_fd();
    }
}

fn free_port() -> u16 {
    std::net::TcpListener::bind("127.0.0.1:0").and_then(|l| l.local_addr()).map(|a| a.port()).unwrap_or(0)
}

fn run(line: &str) -> String {
    let mut limit: Option<usize> = Some(1024);
    let mut inj: Vec<Inj> = vec![];
    let mut pre: Vec<String> = vec![];
    let mut mid: Vec<String> = vec![];
    let mut kinds: Vec<char> = vec![];
    let mut threads: Vec<ThreadSpec> = vec![];
    let mut pad = 0usize;
    let mut sndbuf = 0usize;
    for tok in line.split_whitespace() {
        let (k, v) = match tok.split_once('=') {
            Some(x) => x,
            None => continue,
        };
        match k {
            "limit" => limit = if v == "none" { None } else { v.parse().ok() },
            "inj" => {
                for t in v.split(',').filter(|t| !t.is_empty()) {
                    inj.push(match &t[..1] {
                        "s" => Inj::Short(t[1..].parse().unwrap_or(0)),
                        "e" => Inj::Eintr,
                        "b" => Inj::Block,
                        _ => Inj::Pass,
                    });
                }
            }
            "pre" => pre = v.split(';').filter(|t| !t.is_empty()).map(|s| s.to_string()).collect(),
            "mid" => mid = v.split(';').filter(|t| !t.is_empty()).map(|s| s.to_string()).collect(),
            "clients" => kinds = v.split(',').filter(|t| !t.is_empty()).map(|s| s.chars().next().unwrap()).collect(),
            "pad" => pad = v.parse().unwrap_or(0),
            "sndbuf" => sndbuf = v.parse().unwrap_or(0),
            "threads" => {
                for t in v.split(';').filter(|t| !t.is_empty()) {
                    let p: Vec<&str> = t.split('/').collect();
                    threads.push(ThreadSpec {
                        name: p[0].to_string(),
                        ops: p[1].split('+').map(|s| s.to_string()).collect(),
                        labels: p[2]
                            .split(',')
                            .filter(|s| !s.is_empty())
                            .filter_map(|kv| kv.split_once(':').map(|(a, b)| (a.to_string(), b.to_string())))
                            .collect(),
                        n1: p[3].parse().unwrap_or(0),
                        n2: p[4].parse().unwrap_or(0),
                    });
                }
            }
            _ => {}
        }
    }

    // --- the real exporter
    let mut built = None;
    for _ in 0..20 {
        let port = free_port();
        if port == 0 {
            continue;
        }
        verif::with_inst(port, |i| i.plan = inj.iter().cloned().collect());
        let addr: SocketAddr = ([127, 0, 0, 1], port).into();
        match TcpBuilder::new().listen_address(addr).buffer_size(limit).build() {
            Ok(r) => {
                built = Some((port, r));
                break;
            }
            Err(_) => continue,
        }
    }
    let (port, rec) = match built {
        Some(x) => x,
        None => return "error=build".into(),
    };
    let rec = Arc::new(rec);
    if sndbuf > 0 {
        shrink_sndbuf(port, sndbuf);
    }
    let pace = Arc::new(Pace { port, cap: limit.unwrap_or(256).max(1), sent: Mutex::new(0), resync: AtomicUsize::new(0) });
    let mut served = true;
    let mut quiet = true;

    // started (or died)?
    wait_until(3000, || verif::with_inst(port, |i| !i.log.is_empty()));
    std::thread::sleep(Duration::from_millis(2));
    let dead = |port: u16| verif::with_inst(port, |i| i.exited.is_some() || i.log.len() > 200_000);

    // phase 0: describes known before anybody connects
    for d in &pre {
        pace.send(true, || describe(&rec, d));
    }
    if !wait_until(2000, || pace.drained() || dead(port)) || dead(port) {
        served = false;
    }

    let mut clients: Vec<Option<Client>> = vec![];
    let accepted = |port: u16, c: &Client| verif::with_inst(port, |i| i.accepted_ports.contains(&c.port));
    for &k in &kinds {
        if k == 'L' || !served {
            clients.push(None);
            continue;
        }
        match connect(k, port) {
            Some(c) => {
                if !wait_until(3000, || accepted(port, &c) || dead(port)) || dead(port) {
                    served = false;
                }
                clients.push(Some(c));
            }
            None => {
                served = false;
                clients.push(None);
            }
        }
    }

    let run_phase = |phase: usize| {
        let mut hs = vec![];
        for (tid, spec) in threads.iter().enumerate() {
            let (rec, pace, spec) = (rec.clone(), pace.clone(), spec.clone());
            let (from, to) = if phase == 1 { (0, spec.n1) } else { (spec.n1, spec.n1 + spec.n2) };
            hs.push(std::thread::spawn(move || {
                for j in from..to {
                    pace.send(false, || emit(&rec, tid + 1, &spec, j, pad));
                }
            }));
        }
        for h in hs {
            let _ = h.join();
        }
    };

    let mut nudges = 0usize;
    if served {
        run_phase(1);
        wait_until(1000, || pace.drained());
        // leavers leave (after having read something, if anything was written to them)
        wait_until(300, || {
            clients.iter().flatten().filter(|c| c.kind == 'C' || c.kind == 'R').all(|c| !c.buf.lock().unwrap().is_empty())
        });
        for c in clients.iter().flatten() {
            if c.kind == 'C' || c.kind == 'R' {
                c.leave.store(true, Ordering::Release);
            }
        }
        for c in clients.iter_mut().flatten() {
            if c.kind == 'C' || c.kind == 'R' {
                if let Some(h) = c.th.take() {
                    let _ = h.join();
                }
            }
        }
        for d in &mid {
            pace.send(true, || describe(&rec, d));
        }
        wait_until(1000, || pace.drained());
        for (i, &k) in kinds.iter().enumerate() {
            if k == 'L' {
                if let Some(c) = connect('L', port) {
                    if !wait_until(3000, || accepted(port, &c) || dead(port)) {
                        served = false;
                    }
                    clients[i] = Some(c);
                } else {
                    served = false;
                }
            }
        }
        run_phase(2);
        // stalled readers wake up
        for c in clients.iter().flatten() {
            c.go.store(true, Ordering::Release);
        }
        // quiescence: channel drained, every staying client's queue written out and read
        let nudge = ThreadSpec { name: "zz".into(), ops: vec!["ci".into()], labels: vec![], n1: 0, n2: 0 };
        let t0 = Instant::now();
        let mut last_nudge = Instant::now();
        let mut stable: Option<(usize, Instant)> = None;
        loop {
            let ok = pace.drained()
                && verif::with_inst(port, |i| {
                    let mut tok_of = std::collections::HashMap::new();
                    for e in &i.log {
                        if let Ev::Accept { token, peer_port, .. } = e {
                            tok_of.insert(*peer_port, *token);
                        }
                    }
                    clients.iter().flatten().filter(|c| c.kind != 'C' && c.kind != 'R').all(|c| {
                        let tok = match tok_of.get(&c.port) {
                            Some(t) => *t,
                            None => return false,
                        };
                        let (n, full) = i.written.get(&tok).cloned().unwrap_or((0, true));
                        full && c.buf.lock().unwrap().len() == n
                    }) && i.plan.is_empty()
                        && {
                            // not in the middle of a fan-out: the last WakeBegin with a non-empty
                            // batch has reached its WakeEnd
                            let mut mid = false;
                            for e in i.log.iter().rev() {
                                match e {
                                    Ev::WakeEnd => break,
                                    Ev::Batch { frames } => {
                                        mid = !frames.is_empty();
                                        break;
                                    }
                                    Ev::WakeBegin => {
                                        mid = true;
                                        break;
                                    }
                                    _ => {}
                                }
                            }
                            !mid
                        }
                });
            let loglen = verif::with_inst(port, |i| i.log.len());
            if ok {
                match stable {
                    Some((l, t)) if l == loglen => {
                        if Instant::now().duration_since(t) > Duration::from_millis(3) {
                            break;
                        }
                    }
                    _ => stable = Some((loglen, Instant::now())),
                }
                std::thread::sleep(Duration::from_micros(300));
                continue;
            }
            stable = None;
            if t0.elapsed() > Duration::from_millis(3000) || dead(port) {
                quiet = false;
                break;
            }
            if last_nudge.elapsed() > Duration::from_millis(8) {
                pace.send(false, || emit(&rec, 0, &nudge, nudges, 0));
                nudges += 1;
                last_nudge = Instant::now();
            }
            std::thread::sleep(Duration::from_micros(500));
        }
    }

    // snapshot: readers stop first, then the log (so that model.sent >= what was read)
    for c in clients.iter().flatten() {
        c.stop.store(true, Ordering::Release);
    }
    std::thread::sleep(Duration::from_millis(6));
    let (log, panicked, planleft, spinning) = verif::with_inst(port, |i| {
        let n = i.log.len();
        (i.log.iter().take(4000).cloned().collect::<Vec<_>>(), i.exited == Some(true), i.plan.len(), n > 200_000)
    });
    if spinning {
        served = false;
    }
    let mut out = String::new();
    out.push_str(&format!(
        "served={} quiet={} panic={} spin={} nudges={} resync={} planleft={} ",
        served as u8,
        quiet as u8,
        panicked as u8,
        spinning as u8,
        nudges,
        pace.resync.load(Ordering::Relaxed),
        planleft
    ));
    out.push_str("clients=");
    let cs: Vec<String> = kinds
        .iter()
        .zip(clients.iter())
        .map(|(k, c)| match c {
            Some(c) => format!("{}:{}:{}", k, c.port, hex(&c.buf.lock().unwrap())),
            None => format!("{}:0:", k),
        })
        .collect();
    out.push_str(&cs.join(","));
    out.push_str(" log=");
    out.push_str(&log.iter().map(ev_str).collect::<Vec<_>>().join(";"));
    // let the reader threads go
    for c in clients.iter_mut().flatten() {
        c.leave.store(true, Ordering::Release);
        if let Some(h) = c.th.take() {
            let _ = h.join();
        }
    }
    // forget the log of this instance
    verif::with_inst(port, |i| {
        i.log.clear();
        i.log.shrink_to_fit();
    });
    out
}


// ------------------------------------------------------------------------------------------------
// Free-running stress engine (`stress key=value ...` line): a real exporter, reading clients, emitter
// threads that emit at about the transport's drain rate (a short spin between emissions), never
// more than the configured buffer in flight (rounds of `per` emissions per emitter, then a wait
// until every client has received all of them).  Judged by the delivery clause: every emitted
// metric arrives at every client, per emitter in order, each frame whole.  Only "never arrives"
// (no byte of progress at any client for `wait` ms while emissions are outstanding) is a stall.

fn rd_varint(b: &[u8], pos: &mut usize) -> Option<u64> {
    let mut v: u64 = 0;
    let mut shift = 0;
    loop {
        let x = *b.get(*pos)?;
        *pos += 1;
        v |= ((x & 0x7f) as u64) << shift;
        if x < 0x80 {
            return Some(v);
        }
        shift += 7;
        if shift > 63 {
            return None;
        }
    }
}

/// one protobuf message -> (field, wire type, varint value or payload range)
fn rd_fields(b: &[u8]) -> Option<Vec<(u64, u8, u64, usize, usize)>> {
    let mut pos = 0;
    let mut out = vec![];
    while pos < b.len() {
        let tag = rd_varint(b, &mut pos)?;
        let (f, wt) = (tag >> 3, (tag & 7) as u8);
        match wt {
            0 => out.push((f, wt, rd_varint(b, &mut pos)?, 0, 0)),
            1 => {
                if pos + 8 > b.len() {
                    return None;
                }
                out.push((f, wt, 0, pos, pos + 8));
                pos += 8;
            }
            2 => {
                let n = rd_varint(b, &mut pos)? as usize;
                if pos + n > b.len() {
                    return None;
                }
                out.push((f, wt, 0, pos, pos + n));
                pos += n;
            }
            5 => {
                if pos + 4 > b.len() {
                    return None;
                }
                out.push((f, wt, 0, pos, pos + 4));
                pos += 4;
            }
            _ => return None,
        }
    }
    Some(out)
}

/// Event body -> Some((name, counter increment)) for a metric, None-in-Ok for metadata
fn rd_event(body: &[u8]) -> Result<Option<(String, u64)>, String> {
    let fs = rd_fields(body).ok_or("event does not parse")?;
    if fs.len() != 1 || fs[0].1 != 2 {
        return Err("event is not one length-delimited field".into());
    }
    let (f, _, _, a, z) = fs[0];
    if f == 1 {
        return Ok(None);
    }
    if f != 2 {
        return Err(format!("unknown event field {}", f));
    }
    let m = &body[a..z];
    let ms = rd_fields(m).ok_or("metric does not parse")?;
    let mut name = String::new();
    let mut val = None;
    for (f, wt, v, a, z) in ms {
        if f == 1 && wt == 2 {
            name = String::from_utf8_lossy(&m[a..z]).to_string();
        }
        if f == 4 && wt == 0 {
            val = Some(v);
        }
    }
    match val {
        Some(v) => Ok(Some((name, v))),
        None => Err("metric without increment_counter".into()),
    }
}

#[derive(Default)]
struct SState {
    got: Vec<u64>, // per emitter: last value received (values are 1, 2, 3, ...)
    bytes: u64,
    err: Option<String>,
}

fn stress_reader(mut stream: TcpStream, st: Arc<Mutex<SState>>, stop: Arc<AtomicBool>) {
    let _ = stream.set_read_timeout(Some(Duration::from_millis(5)));
    let mut pending: Vec<u8> = Vec::new();
    let mut tmp = vec![0u8; 1 << 16];
    while !stop.load(Ordering::Acquire) {
        let n = match stream.read(&mut tmp) {
            Ok(0) => {
                std::thread::sleep(Duration::from_millis(1));
                continue;
            }
            Ok(n) => n,
            Err(_) => continue,
        };
        pending.extend_from_slice(&tmp[..n]);
        let mut pos = 0;
        let mut evs = vec![];
        let mut err = None;
        loop {
            let mut p = pos;
            let len = match rd_varint(&pending, &mut p) {
                Some(l) => l as usize,
                None => break,
            };
            if p + len > pending.len() {
                break;
            }
            match rd_event(&pending[p..p + len]) {
                Ok(Some(e)) => evs.push(e),
                Ok(None) => {}
                Err(e) => {
                    err = Some(format!("frame at stream offset does not decode: {}", e));
                    break;
                }
            }
            pos = p + len;
        }
        pending.drain(..pos);
        let mut g = st.lock().unwrap();
        g.bytes += n as u64;
        for (name, v) in evs {
            let idx = name.strip_prefix('e').and_then(|x| x.parse::<usize>().ok());
            match idx {
                Some(i) if i < g.got.len() => {
                    if v != g.got[i] + 1 && g.err.is_none() {
                        g.err = Some(format!("emitter {}: expected value {} next, received {}", name, g.got[i] + 1, v));
                    }
                    g.got[i] = v;
                }
                _ => {
                    if g.err.is_none() {
                        g.err = Some(format!("metric with unknown name {}", name));
                    }
                }
            }
        }
        if g.err.is_none() {
            g.err = err;
        }
    }
}

fn stress(line: &str) -> String {
    let mut limit: Option<usize> = Some(4096);
    let (mut nclients, mut nemit, mut per, mut spin, mut secs, mut wait) = (1usize, 1usize, 300u64, 250u64, 8u64, 10_000u64);
    for tok in line.split_whitespace() {
        if let Some((k, v)) = tok.split_once('=') {
            match k {
                "limit" => limit = if v == "none" { None } else { v.parse().ok() },
                "clients" => nclients = v.parse().unwrap_or(1),
                "emitters" => nemit = v.parse().unwrap_or(1),
                "per" => per = v.parse().unwrap_or(300),
                "spin" => spin = v.parse().unwrap_or(250),
                "secs" => secs = v.parse().unwrap_or(8),
                "wait" => wait = v.parse().unwrap_or(10_000),
                _ => {}
            }
        }
    }
    let mut built = None;
    for _ in 0..20 {
        let port = free_port();
        if port == 0 {
            continue;
        }
        let addr: SocketAddr = ([127, 0, 0, 1], port).into();
        if let Ok(r) = TcpBuilder::new().listen_address(addr).buffer_size(limit).build() {
            built = Some((port, r));
            break;
        }
    }
    let (port, rec) = match built {
        Some(x) => x,
        None => return "error=build".into(),
    };
    let rec = Arc::new(rec);
    let stop = Arc::new(AtomicBool::new(false));
    let mut states = vec![];
    let mut readers = vec![];
    for _ in 0..nclients {
        let stream = match TcpStream::connect(("127.0.0.1", port)) {
            Ok(s) => s,
            Err(_) => return "stress ok=0 kind=connect".into(),
        };
        let lport = stream.local_addr().map(|a| a.port()).unwrap_or(0);
        if !wait_until(10_000, || verif::with_inst(port, |i| i.accepted_ports.contains(&lport))) {
            return "stress ok=0 kind=not-accepted".into();
        }
        let st = Arc::new(Mutex::new(SState { got: vec![0; nemit], bytes: 0, err: None }));
        let (s2, stop2) = (st.clone(), stop.clone());
        readers.push(std::thread::spawn(move || stress_reader(stream, s2, stop2)));
        states.push(st);
    }
    // emitters: persistent threads, one round at a time
    let go = Arc::new(AtomicUsize::new(0));
    let done = Arc::new(AtomicUsize::new(0));
    let mut emitters = vec![];
    for e in 0..nemit {
        let (rec, go, done, stop) = (rec.clone(), go.clone(), done.clone(), stop.clone());
        emitters.push(std::thread::spawn(move || {
            let key = Key::from_parts(format!("e{}", e), vec![Label::new("t", e.to_string())]);
            let counter = rec.register_counter(&key, &META);
            let mut round = 0usize;
            let mut seq = 0u64;
            loop {
                while go.load(Ordering::Acquire) <= round {
                    if stop.load(Ordering::Acquire) {
                        return;
                    }
                    std::hint::spin_loop();
                }
                for i in 0..per {
                    seq += 1;
                    counter.increment(seq);
                    let until = Instant::now() + Duration::from_nanos(((i + round as u64 + e as u64) % 32) * spin);
                    while Instant::now() < until {
                        std::hint::spin_loop();
                    }
                }
                round += 1;
                done.fetch_add(1, Ordering::AcqRel);
            }
        }));
    }
    let t0 = Instant::now();
    let mut rounds = 0u64;
    let mut verdict = String::new();
    'outer: while t0.elapsed() < Duration::from_secs(secs) {
        rounds += 1;
        go.store(rounds as usize, Ordering::Release);
        while done.load(Ordering::Acquire) < rounds as usize * nemit {
            std::thread::yield_now();
        }
        let want = rounds * per;
        let mut last_bytes: u64 = 0;
        let mut last_progress = Instant::now();
        loop {
            let mut all = true;
            let mut bytes = 0;
            for (ci, st) in states.iter().enumerate() {
                let g = st.lock().unwrap();
                bytes += g.bytes;
                if let Some(e) = &g.err {
                    verdict = format!("kind=order client={} round={} detail={}", ci, rounds, e.replace(' ', "_"));
                    break 'outer;
                }
                if g.got.iter().any(|&v| v < want) {
                    all = false;
                }
            }
            if all {
                break;
            }
            if bytes != last_bytes {
                last_bytes = bytes;
                last_progress = Instant::now();
            } else if last_progress.elapsed() > Duration::from_millis(wait) {
                // which metric is the first one missing
                let mut miss = String::new();
                let mut recv = 0;
                for (ci, st) in states.iter().enumerate() {
                    let g = st.lock().unwrap();
                    recv += g.got.iter().sum::<u64>();
                    for (e, &v) in g.got.iter().enumerate() {
                        if v < want && miss.is_empty() {
                            miss = format!("client{}:e{}:{}", ci, e, v + 1);
                        }
                    }
                }
                verdict = format!(
                    "kind=stall round={} emitted={} received={} first_missing={} waited_ms={}",
                    rounds,
                    want * nemit as u64 * nclients as u64,
                    recv,
                    miss,
                    wait
                );
                break 'outer;
            }
            std::thread::sleep(Duration::from_micros(150));
        }
        verif::with_inst(port, |i| i.log.clear());
    }
    stop.store(true, Ordering::Release);
    for h in emitters {
        let _ = h.join();
    }
    for h in readers {
        let _ = h.join();
    }
    verif::with_inst(port, |i| {
        i.log.clear();
        i.log.shrink_to_fit();
    });
    if verdict.is_empty() {
        format!("stress ok=1 rounds={} emitted={} secs={:.1}", rounds, rounds * per * nemit as u64, t0.elapsed().as_secs_f64())
    } else {
        format!("stress ok=0 {}", verdict)
    }
}

fn main() {
    let stdin = std::io::stdin();
    let stdout = std::io::stdout();
    for line in stdin.lock().lines() {
        let line = match line {
            Ok(l) => l,
            Err(_) => break,
        };
        let res = std::panic::catch_unwind(|| if line.starts_with("stress") { stress(&line) } else { run(&line) }).unwrap_or_else(|_| "error=driver-panic".into());
        let mut o = stdout.lock();
        let _ = writeln!(o, "{}", res);
        let _ = o.flush();
    }
}
