// C09 end-to-end engine (both tiers): a real exporter built with the public DogStatsDBuilder API against a
// harness UnixListener (unix:// = length-prefixed stream), a few metrics emitted over several flush intervals,
// everything received on the socket printed as one hex string.
//
// stdin, one scenario per line:  <max|-> <+prefix hex|-> <telemetry 0|1> <aggressive 0|1> <cycles> <interval ms>
//                                 [<metrics|-> [<dist 0|1>]]      metrics: c:<name hex>,g:<name hex>,h:<name hex>,...
// All scenarios of one invocation run concurrently (one thread each); output lines are in input order.
// stdout per scenario:           <hex of the byte stream received> (`-` if empty), or `ERR:<what>`
// A line `B a:<addr hex> m:<n> ...` instead applies with_remote_address / with_maximum_payload_length in order and
// then calls the real build(): prints `ok`, `err` (build() refused) or `early` (a setter refused).
// Metrics emitted every cycle through the exporter's recorder. Without a metrics field: counter `reqs` (+3), counter
// with a long name (rejected for small maxima), gauge `temp{room=a}`, histogram `lat` with 40 values. With one: every
// listed counter +3, gauge set, histogram 6 values, under exactly the given names (the check draws them in relation
// to the global prefix).
use metrics::{Key, Label, Level, Metadata, Recorder};
use metrics_exporter_dogstatsd::{AggregationMode, DogStatsDBuilder};
use std::io::{BufRead, Read, Write as _};
use std::os::unix::net::UnixListener;
use std::time::{Duration, Instant};

fn unhex(s: &str) -> Vec<u8> {
    (0..s.len() / 2).map(|i| u8::from_str_radix(&s[2 * i..2 * i + 2], 16).unwrap()).collect()
}

fn on_frame_boundary(buf: &[u8]) -> bool {
    let mut pos = 0usize;
    while pos < buf.len() {
        if pos + 4 > buf.len() {
            return false;
        }
        let n = u32::from_le_bytes([buf[pos], buf[pos + 1], buf[pos + 2], buf[pos + 3]]) as usize;
        pos += 4 + n;
    }
    pos == buf.len()
}

fn build_only(line: &str) -> String {
    let mut b = DogStatsDBuilder::default().with_flush_interval(Duration::from_secs(3600)).with_telemetry(false);
    for tok in line.split_whitespace().skip(1) {
        let (k, v) = tok.split_once(':').unwrap();
        let r = if k == "a" {
            b.with_remote_address(String::from_utf8(unhex(v)).unwrap())
        } else {
            b.with_maximum_payload_length(v.parse().unwrap())
        };
        b = match r {
            Ok(b) => b,
            Err(_) => return "early".to_string(),
        };
    }
    match b.build() {
        Ok(_) => "ok".to_string(),
        Err(_) => "err".to_string(),
    }
}

fn scenario(line: &str, n: usize) -> String {
    if line.starts_with('B') {
        return build_only(line);
    }
    let f: Vec<&str> = line.split_whitespace().collect();
    let dir = std::env::temp_dir().join(format!("c09e2e-{}-{}", std::process::id(), n));
    let _ = std::fs::remove_dir_all(&dir);
    std::fs::create_dir_all(&dir).unwrap();
    let path = dir.join("d.sock");
    let listener = UnixListener::bind(&path).unwrap();
    let cycles: usize = f[4].parse().unwrap();
    let interval = Duration::from_millis(f[5].parse().unwrap());

    let mut b = DogStatsDBuilder::default()
        .with_remote_address(format!("unix://{}", path.display()))
        .unwrap()
        .with_flush_interval(interval)
        .with_telemetry(f[2] == "1")
        .with_aggregation_mode(if f[3] == "1" { AggregationMode::Aggressive } else { AggregationMode::Conservative })
        .with_global_labels(vec![Label::new("env", "e2e")])
        .send_histograms_as_distributions(f.len() > 7 && f[7] == "1");
    if f[0] != "-" {
        b = match b.with_maximum_payload_length(f[0].parse().unwrap()) {
            Ok(b) => b,
            Err(e) => return format!("ERR:{}", e),
        };
    }
    if f[1] != "-" {
        b = b.set_global_prefix(String::from_utf8(unhex(&f[1][1..])).unwrap());
    }
    let recorder = match b.build() {
        Ok(r) => r,
        Err(e) => return format!("ERR:{}", e),
    };

    // reader: accept one connection, read until the deadline
    let total = interval * (cycles as u32 + 3);
    let reader = std::thread::spawn(move || {
        let mut buf = Vec::new();
        listener.set_nonblocking(true).unwrap();
        let deadline = Instant::now() + total;
        let mut stream = loop {
            match listener.accept() {
                Ok((s, _)) => break s,
                Err(_) if Instant::now() < deadline => std::thread::sleep(Duration::from_millis(5)),
                Err(_) => return buf,
            }
        };
        stream.set_nonblocking(false).unwrap();
        stream.set_read_timeout(Some(Duration::from_millis(20))).unwrap();
        let mut chunk = [0u8; 65536];
        // read until the deadline, then stop as soon as the bytes received end on a frame boundary (the exporter
        // keeps flushing gauges forever, so the socket never goes quiet; frames are written with one write_all each)
        let hard = deadline + Duration::from_millis(500);
        loop {
            match stream.read(&mut chunk) {
                Ok(0) => break,
                Ok(k) => buf.extend_from_slice(&chunk[..k]),
                Err(_) => {}
            }
            let now = Instant::now();
            if now >= hard || (now >= deadline && on_frame_boundary(&buf)) {
                break;
            }
        }
        buf
    });

    static META: Metadata<'static> = Metadata::new("c09e2e", Level::INFO, None);
    if f.len() > 6 && f[6] != "-" {
        let mut cs = Vec::new();
        let mut gs = Vec::new();
        let mut hs = Vec::new();
        for tok in f[6].split(',') {
            let (k, v) = tok.split_once(':').unwrap();
            let key = Key::from_name(String::from_utf8(unhex(v)).unwrap());
            match k {
                "c" => cs.push(recorder.register_counter(&key, &META)),
                "g" => gs.push(recorder.register_gauge(&key, &META)),
                _ => hs.push(recorder.register_histogram(&key, &META)),
            }
        }
        for cyc in 0..cycles {
            for c in &cs {
                c.increment(3);
            }
            for g in &gs {
                g.set(20.5 + cyc as f64);
            }
            for h in &hs {
                for i in 0..6 {
                    h.record(0.25 * (i as f64) + cyc as f64);
                }
            }
            std::thread::sleep(interval);
        }
    } else {
        let c = recorder.register_counter(&Key::from_name("reqs"), &META);
        let long = recorder.register_counter(
            &Key::from_name("a_counter_with_a_name_that_is_much_longer_than_the_small_payload_limits_used_here"),
            &META,
        );
        let g = recorder.register_gauge(&Key::from_parts("temp", vec![Label::new("room", "a")]), &META);
        let h = recorder.register_histogram(&Key::from_name("lat"), &META);
        for cyc in 0..cycles {
            c.increment(3);
            long.increment(1);
            g.set(20.5 + cyc as f64);
            for i in 0..40 {
                h.record(0.25 * (i as f64) + cyc as f64);
            }
            std::thread::sleep(interval);
        }
    }
    let buf = reader.join().unwrap();
    let _ = std::fs::remove_dir_all(&dir);
    if buf.is_empty() {
        return "-".to_string();
    }
    let mut s = String::with_capacity(buf.len() * 2);
    for x in &buf {
        s.push_str(&format!("{:02x}", x));
    }
    s
}

fn main() {
    let stdin = std::io::stdin();
    let lines: Vec<String> =
        stdin.lock().lines().map(|l| l.unwrap()).filter(|l| !l.trim().is_empty()).collect();
    let handles: Vec<_> = lines
        .into_iter()
        .enumerate()
        .map(|(n, line)| std::thread::spawn(move || scenario(&line, n)))
        .collect();
    let stdout = std::io::stdout();
    let mut w = stdout.lock();
    for h in handles {
        writeln!(w, "{}", h.join().unwrap()).unwrap();
    }
}
