fn main(){}
