// C09 correspondence driver: the real PayloadWriter (through metrics_exporter_dogstatsd::verif_driver).
//
// stdin, one case per line (all strings hex-encoded UTF-8; `-` = absent / empty list):
//   <max> <lp 0|1> <+prefix|-> <glabels|-> | <op> <op> ...
//   labels: k=v;k=v        (hex=hex)
//   ops: c:<name>:<labels>:<u64>:<ts|->            write_counter
//        g:<name>:<labels>:<f64 bits hex>:<ts|->   write_gauge
//        h:<name>:<labels>:<rate bits hex|->:<f64 bits hex,...|->   write_histogram
//        d:...                                     write_distribution (same fields as h)
//        D:<k|->                                   payloads(), take k (all) payloads, drop the iterator
// stdout, one line per case, one token per op executed; execution stops at the first panic:
//   W:<pw>:<pd>:<value strings hex,..|->:<aux string hex|->     (aux = timestamp or sample-rate string)
//   P:<value strings>:<aux>                                     the write panicked
//   D:<avail>:<payload hex,..|->       P                        (drain / drain panicked)
//   N                                                           PayloadWriter::new panicked
// Further case kinds (first token a letter):
//   B <op> ...        DogStatsDBuilder through its public API: a:<addr hex> = with_remote_address, m:<n> =
//                     with_maximum_payload_length; then the cfg(metrics_verif) hook verif_forwarder_config() (what build()
//                     validates and hands to the forwarder).  Output: A:<ok|es|er>:<rp>:<rw>  M:<ok|ec>
//                     C:<transport id>:<max>:<lp>:<display hex> | C:ec ; stops at the first error (the builder is
//                     consumed).  rp/rw: whether std's to_socket_addrs accepts the text after the first "://" / the
//                     whole text (oracle data for the model; `-` if there is no "://").
//   F <aggressive> <dist> <max> <lp> <+prefix|-> <glabels|-> <now> | c:<name>:<labels>:<inc,inc..>
//                     g:<name>:<labels>:<f64 bits> h:<name>:<labels>:<f64 bits>:<count>
//                     one flush of State through verif_state_driver::Driver (at most one metric per kind).
//                     Output: F:<payload hex,..|-> V:<value string hex> per metric in input order, T:<now string hex>
// The value/aux strings are what itoa/ryu (the crates the writer uses) produce for the op's numbers; the
// check feeds them to the Coq model as data.
use metrics::{Key, Label};
use metrics_exporter_dogstatsd::verif_driver::Writer;
use metrics_exporter_dogstatsd::{verif_state_driver, BuildError, DogStatsDBuilder};
use std::io::{BufRead, Write as _};
use std::net::ToSocketAddrs;
use std::panic::{catch_unwind, AssertUnwindSafe};

fn unhex(s: &str) -> Vec<u8> {
    (0..s.len() / 2).map(|i| u8::from_str_radix(&s[2 * i..2 * i + 2], 16).unwrap()).collect()
}
fn unhex_str(s: &str) -> String {
    String::from_utf8(unhex(s)).expect("case strings are UTF-8")
}
fn hex(b: &[u8]) -> String {
    let mut s = String::with_capacity(b.len() * 2);
    for x in b {
        s.push_str(&format!("{:02x}", x));
    }
    s
}
fn hexlist(v: &[Vec<u8>]) -> String {
    if v.is_empty() { "-".to_string() } else { v.iter().map(|b| hex(b)).collect::<Vec<_>>().join(",") }
}
fn labels_of(s: &str) -> Vec<Label> {
    if s == "-" {
        return Vec::new();
    }
    s.split(';')
        .map(|kv| {
            let (k, v) = kv.split_once('=').unwrap();
            Label::new(unhex_str(k), unhex_str(v))
        })
        .collect()
}
fn f64_of(s: &str) -> f64 {
    f64::from_bits(u64::from_str_radix(s, 16).unwrap())
}
fn fmt_f64(v: f64) -> Vec<u8> {
    let mut b = ryu::Buffer::new();
    b.format(v).as_bytes().to_vec()
}
fn fmt_u64(v: u64) -> Vec<u8> {
    let mut b = itoa::Buffer::new();
    b.format(v).as_bytes().to_vec()
}
fn opt_hex(v: &Option<Vec<u8>>) -> String {
    match v {
        None => "-".to_string(),
        Some(b) => hex(b),
    }
}

fn run_builder(line: &str) -> String {
    let mut out: Vec<String> = Vec::new();
    let mut b = DogStatsDBuilder::default();
    for tok in line.split_whitespace().skip(1) {
        let (k, v) = tok.split_once(':').unwrap();
        match k {
            "a" => {
                let addr = unhex_str(v);
                let rw = addr.as_str().to_socket_addrs().is_ok();
                let rp = match addr.find("://") {
                    Some(i) => if addr[i + 3..].to_socket_addrs().is_ok() { "1" } else { "0" },
                    None => "-",
                };
                match b.with_remote_address(&addr) {
                    Ok(nb) => {
                        b = nb;
                        out.push(format!("A:ok:{}:{}", rp, rw as u8));
                    }
                    Err(BuildError::InvalidRemoteAddress { reason }) => {
                        let kind = if reason.starts_with("invalid scheme") { "es" } else { "er" };
                        out.push(format!("A:{}:{}:{}", kind, rp, rw as u8));
                        return out.join(" ");
                    }
                    Err(_) => {
                        out.push(format!("A:ec:{}:{}", rp, rw as u8));
                        return out.join(" ");
                    }
                }
            }
            "m" => match b.with_maximum_payload_length(v.parse().unwrap()) {
                Ok(nb) => {
                    b = nb;
                    out.push("M:ok".to_string());
                }
                Err(_) => {
                    out.push("M:ec".to_string());
                    return out.join(" ");
                }
            },
            _ => panic!("bad builder op {}", tok),
        }
    }
    match b.verif_forwarder_config() {
        Ok((tid, disp, max, lp)) => out.push(format!("C:{}:{}:{}:{}", tid, max, lp as u8, hex(disp.as_bytes()))),
        Err(_) => out.push("C:ec".to_string()),
    }
    out.join(" ")
}

fn run_flush(line: &str) -> String {
    let (head, ops) = line.split_once('|').unwrap();
    let hs: Vec<&str> = head.split_whitespace().collect();
    let aggressive = hs[1] == "1";
    let config = verif_state_driver::Config {
        aggressive,
        histogram_sampling: false,
        histogram_reservoir_size: 1024,
        histograms_as_distributions: hs[2] == "1",
        global_labels: labels_of(hs[6]),
        global_prefix: if hs[5] == "-" { None } else { Some(unhex_str(&hs[5][1..])) },
        max_payload_len: hs[3].parse().unwrap(),
        length_prefixed: hs[4] == "1",
    };
    let now: u64 = hs[7].parse().unwrap();
    let mut vals: Vec<String> = Vec::new();
    let r = catch_unwind(AssertUnwindSafe(|| {
        let mut d = verif_state_driver::Driver::new(config);
        for tok in ops.split_whitespace() {
            let f: Vec<&str> = tok.split(':').collect();
            let key = Key::from_parts(unhex_str(f[1]), labels_of(f[2]));
            match f[0] {
                "c" => {
                    let c = d.counter(&key);
                    let mut sum: u64 = 0;
                    if f[3] != "-" {
                        for inc in f[3].split(',') {
                            let v: u64 = inc.parse().unwrap();
                            c.increment(v);
                            sum = sum.wrapping_add(v);
                        }
                    }
                    vals.push(hex(&fmt_u64(sum)));
                }
                "g" => {
                    let v = f64_of(f[3]);
                    d.gauge(&key).set(v);
                    vals.push(hex(&fmt_f64(v)));
                }
                "h" => {
                    let v = f64_of(f[3]);
                    let h = d.histogram(&key);
                    for _ in 0..f[4].parse::<usize>().unwrap() {
                        h.record(v);
                    }
                    vals.push(hex(&fmt_f64(v)));
                }
                _ => panic!("bad flush op {}", tok),
            }
        }
        d.flush_once(now).0
    }));
    let mut out = Vec::new();
    match r {
        Ok(ps) => out.push(format!("F:{}", hexlist(&ps))),
        Err(_) => out.push("P".to_string()),
    }
    for v in vals {
        out.push(format!("V:{}", v));
    }
    out.push(format!("T:{}", hex(&fmt_u64(now))));
    out.join(" ")
}

fn run_case(line: &str) -> String {
    if line.starts_with("B") {
        return run_builder(line);
    }
    if line.starts_with("F") {
        return run_flush(line);
    }
    let (head, ops) = line.split_once('|').unwrap();
    let mut hs = head.split_whitespace();
    let max: usize = hs.next().unwrap().parse().unwrap();
    let lp = hs.next().unwrap() == "1";
    let prefix = match hs.next().unwrap() {
        "-" => None,
        p => Some(unhex_str(&p[1..])),
    };
    let glabels = labels_of(hs.next().unwrap());
    let mut w = match catch_unwind(|| Writer::new(max, lp, prefix, glabels)) {
        Ok(w) => w,
        Err(_) => return "N".to_string(),
    };
    let mut out: Vec<String> = Vec::new();
    for tok in ops.split_whitespace() {
        let f: Vec<&str> = tok.split(':').collect();
        match f[0] {
            "c" | "g" => {
                let key = Key::from_parts(unhex_str(f[1]), labels_of(f[2]));
                let ts: Option<u64> = if f[4] == "-" { None } else { Some(f[4].parse().unwrap()) };
                let aux = ts.map(fmt_u64);
                let (vs, r) = if f[0] == "c" {
                    let v: u64 = f[3].parse().unwrap();
                    (fmt_u64(v), catch_unwind(AssertUnwindSafe(|| w.write_counter(&key, v, ts))))
                } else {
                    let v = f64_of(f[3]);
                    (fmt_f64(v), catch_unwind(AssertUnwindSafe(|| w.write_gauge(&key, v, ts))))
                };
                match r {
                    Ok((pw, pd)) => out.push(format!("W:{}:{}:{}:{}", pw, pd, hex(&vs), opt_hex(&aux))),
                    Err(_) => {
                        out.push(format!("P:{}:{}", hex(&vs), opt_hex(&aux)));
                        break;
                    }
                }
            }
            "h" | "d" => {
                let key = Key::from_parts(unhex_str(f[1]), labels_of(f[2]));
                let rate: Option<f64> = if f[3] == "-" { None } else { Some(f64_of(f[3])) };
                let vals: Vec<f64> = if f[4] == "-" { Vec::new() } else { f[4].split(',').map(f64_of).collect() };
                let aux = rate.map(fmt_f64);
                let vs: Vec<Vec<u8>> = vals.iter().map(|v| fmt_f64(*v)).collect();
                let r = if f[0] == "h" {
                    catch_unwind(AssertUnwindSafe(|| w.write_histogram(&key, &vals, rate)))
                } else {
                    catch_unwind(AssertUnwindSafe(|| w.write_distribution(&key, &vals, rate)))
                };
                match r {
                    Ok((pw, pd)) => out.push(format!("W:{}:{}:{}:{}", pw, pd, hexlist(&vs), opt_hex(&aux))),
                    Err(_) => {
                        out.push(format!("P:{}:{}", hexlist(&vs), opt_hex(&aux)));
                        break;
                    }
                }
            }
            "D" => {
                let k: Option<usize> = if f[1] == "-" { None } else { Some(f[1].parse().unwrap()) };
                match catch_unwind(AssertUnwindSafe(|| w.drain(k))) {
                    Ok((ps, avail)) => out.push(format!("D:{}:{}", avail, hexlist(&ps))),
                    Err(_) => {
                        out.push("P".to_string());
                        break;
                    }
                }
            }
            _ => panic!("bad op {}", tok),
        }
    }
    out.join(" ")
}

fn main() {
    std::panic::set_hook(Box::new(|_| {}));
    let stdin = std::io::stdin();
    let stdout = std::io::stdout();
    let mut w = std::io::BufWriter::new(stdout.lock());
    for line in stdin.lock().lines() {
        let line = line.unwrap();
        if line.trim().is_empty() {
            continue;
        }
        writeln!(w, "{}", run_case(&line)).unwrap();
    }
}
