// C09 correspondence driver: the real PayloadWriter (through metrics_exporter_dogstatsd::verif_driver).
//
// stdin, one case per line (all strings hex-encoded UTF-8; `-` = absent / empty list):
//   <max> <lp 0|1> <+prefix|-> <glabels|-> | <op> <op> ...
//   labels: k=v;k=v        (hex=hex)
//   ops: c:<name>:<labels>:<u64>:<ts|->            write_counter
//        g:<name>:<labels>:<f64 bits hex>:<ts|->   write_gauge
//        h:<name>:<labels>:<rate bits hex|->:<f64 bits hex,...|->   write_histogram
//        d:...                                     write_distribution (same fields as h)
//        D:<k|->                                   payloads(), take k (all) payloads, drop the iterator
// stdout, one line per case, one token per op executed; execution stops at the first panic:
//   W:<pw>:<pd>:<value strings hex,..|->:<aux string hex|->     (aux = timestamp or sample-rate string)
//   P:<value strings>:<aux>                                     the write panicked
//   D:<avail>:<payload hex,..|->       P                        (drain / drain panicked)
//   N                                                           PayloadWriter::new panicked
// The value/aux strings are what itoa/ryu (the crates the writer uses) produce for the op's numbers; the
// check feeds them to the Coq model as data.
use metrics::{Key, Label};
use metrics_exporter_dogstatsd::verif_driver::Writer;
use std::io::{BufRead, Write as _};
use std::panic::{catch_unwind, AssertUnwindSafe};

fn unhex(s: &str) -> Vec<u8> {
    (0..s.len() / 2).map(|i| u8::from_str_radix(&s[2 * i..2 * i + 2], 16).unwrap()).collect()
}
fn unhex_str(s: &str) -> String {
    String::from_utf8(unhex(s)).expect("case strings are UTF-8")
}
fn hex(b: &[u8]) -> String {
    let mut s = String::with_capacity(b.len() * 2);
    for x in b {
        s.push_str(&format!("{:02x}", x));
    }
    s
}
fn hexlist(v: &[Vec<u8>]) -> String {
    if v.is_empty() { "-".to_string() } else { v.iter().map(|b| hex(b)).collect::<Vec<_>>().join(",") }
}
fn labels_of(s: &str) -> Vec<Label> {
    if s == "-" {
        return Vec::new();
    }
    s.split(';')
        .map(|kv| {
            let (k, v) = kv.split_once('=').unwrap();
            Label::new(unhex_str(k), unhex_str(v))
        })
        .collect()
}
fn f64_of(s: &str) -> f64 {
    f64::from_bits(u64::from_str_radix(s, 16).unwrap())
}
fn fmt_f64(v: f64) -> Vec<u8> {
    let mut b = ryu::Buffer::new();
    b.format(v).as_bytes().to_vec()
}
fn fmt_u64(v: u64) -> Vec<u8> {
    let mut b = itoa::Buffer::new();
    b.format(v).as_bytes().to_vec()
}
fn opt_hex(v: &Option<Vec<u8>>) -> String {
    match v {
        None => "-".to_string(),
        Some(b) => hex(b),
    }
}

fn run_case(line: &str) -> String {
    let (head, ops) = line.split_once('|').unwrap();
    let mut hs = head.split_whitespace();
    let max: usize = hs.next().unwrap().parse().unwrap();
    let lp = hs.next().unwrap() == "1";
    let prefix = match hs.next().unwrap() {
        "-" => None,
        p => Some(unhex_str(&p[1..])),
    };
    let glabels = labels_of(hs.next().unwrap());
    let mut w = match catch_unwind(|| Writer::new(max, lp, prefix, glabels)) {
        Ok(w) => w,
        Err(_) => return "N".to_string(),
    };
    let mut out: Vec<String> = Vec::new();
    for tok in ops.split_whitespace() {
        let f: Vec<&str> = tok.split(':').collect();
        match f[0] {
            "c" | "g" => {
                let key = Key::from_parts(unhex_str(f[1]), labels_of(f[2]));
                let ts: Option<u64> = if f[4] == "-" { None } else { Some(f[4].parse().unwrap()) };
                let aux = ts.map(fmt_u64);
                let (vs, r) = if f[0] == "c" {
                    let v: u64 = f[3].parse().unwrap();
                    (fmt_u64(v), catch_unwind(AssertUnwindSafe(|| w.write_counter(&key, v, ts))))
                } else {
                    let v = f64_of(f[3]);
                    (fmt_f64(v), catch_unwind(AssertUnwindSafe(|| w.write_gauge(&key, v, ts))))
                };
                match r {
                    Ok((pw, pd)) => out.push(format!("W:{}:{}:{}:{}", pw, pd, hex(&vs), opt_hex(&aux))),
                    Err(_) => {
                        out.push(format!("P:{}:{}", hex(&vs), opt_hex(&aux)));
                        break;
                    }
                }
            }
            "h" | "d" => {
                let key = Key::from_parts(unhex_str(f[1]), labels_of(f[2]));
                let rate: Option<f64> = if f[3] == "-" { None } else { Some(f64_of(f[3])) };
                let vals: Vec<f64> = if f[4] == "-" { Vec::new() } else { f[4].split(',').map(f64_of).collect() };
                let aux = rate.map(fmt_f64);
                let vs: Vec<Vec<u8>> = vals.iter().map(|v| fmt_f64(*v)).collect();
                let r = if f[0] == "h" {
                    catch_unwind(AssertUnwindSafe(|| w.write_histogram(&key, &vals, rate)))
                } else {
                    catch_unwind(AssertUnwindSafe(|| w.write_distribution(&key, &vals, rate)))
                };
                match r {
                    Ok((pw, pd)) => out.push(format!("W:{}:{}:{}:{}", pw, pd, hexlist(&vs), opt_hex(&aux))),
                    Err(_) => {
                        out.push(format!("P:{}:{}", hexlist(&vs), opt_hex(&aux)));
                        break;
                    }
                }
            }
            "D" => {
                let k: Option<usize> = if f[1] == "-" { None } else { Some(f[1].parse().unwrap()) };
                match catch_unwind(AssertUnwindSafe(|| w.drain(k))) {
                    Ok((ps, avail)) => out.push(format!("D:{}:{}", avail, hexlist(&ps))),
                    Err(_) => {
                        out.push("P".to_string());
                        break;
                    }
                }
            }
            _ => panic!("bad op {}", tok),
        }
    }
    out.join(" ")
}

fn main() {
    std::panic::set_hook(Box::new(|_| {}));
    let stdin = std::io::stdin();
    let stdout = std::io::stdout();
    let mut w = std::io::BufWriter::new(stdout.lock());
    for line in stdin.lock().lines() {
        let line = line.unwrap();
        if line.trim().is_empty() {
            continue;
        }
        writeln!(w, "{}", run_case(&line)).unwrap();
    }
}
