// C10 correspondence driver: the real dogstatsd aggregation (storage.rs, state.rs, recorder.rs) through
// metrics_exporter_dogstatsd::verif_state_driver.
//
// stdin, one case per line. Strings are hex-encoded UTF-8, `-` = absent / empty.
//
// (O) sequential history through State::flush:
//   O <aggr 0|1> <dist 0|1> <samp 0|1> <rsv> <max> <lp 0|1> <+prefix|-> <glabels|-> | <key> <key> ... | <op> <op> ...
//     key = <name>/<labels|->      labels = k=v,k=v
//     op  = rc:<k> rg:<k> rh:<k>            register only (handle obtained from the recorder, no update)
//           ci:<k>:<u64> ca:<k>:<u64>       Counter::increment / Counter::absolute
//           gs:<k>:<i64> gi:<k>:<i64> gd:<k>:<i64>   Gauge::set / increment / decrement (integer-valued f64)
//           hr:<k>:<i64>                    Histogram::record
//           F:<now>                         one forwarder iteration with clock reading <now>
//   stdout: one token per flush  F:<payload hex,..|->:<counter_points>:<gauge_points>:<histogram_points>
//           `P` = the flush panicked (stop), `N` = constructing the driver panicked.
//   Handles are obtained from the recorder at the first op naming (kind, key) and kept, as an application does.
//
// (S) schedule replay on ONE counter key `c` and ONE gauge key `g` of a driver in default configuration:
//   S <prog>|<prog>|... ; <tid> <tid> ...
//     prog = comma list of  i<u64> a<u64>  (counter increment/absolute, through the metrics::Counter handle)
//                           s<i64> p<i64> m<i64>  (gauge set / increment / decrement through metrics::Gauge)
//                           fc (AtomicCounter::flush)  fg (AtomicGauge::flush)  fs (State::flush, one forwarder iteration)
//   stdout: <t>:<site> ... ; <res>,..|<res>,.. ; <done 0/1> ; <final counter delta>/<final counter updates>/<final gauge>/<final gauge updates>
//     res = u | c<delta>/<updates> | g<value>/<updates> | s<delta or ->/<gauge value>/<counter_points>/<gauge_points>
//   The final flushes are performed sequentially after every thread has finished (raw flushes).
use metrics::{Counter, Gauge, Histogram, Key, Label};
use metrics_exporter_dogstatsd::verif_state_driver::{Config, Driver};
use std::collections::HashMap;
use std::io::{BufRead, Write as _};
use std::panic::{catch_unwind, AssertUnwindSafe};
use std::sync::{Arc, Mutex};

fn unhex(s: &str) -> Vec<u8> {
    (0..s.len() / 2).map(|i| u8::from_str_radix(&s[2 * i..2 * i + 2], 16).unwrap()).collect()
}
fn unhex_str(s: &str) -> String {
    String::from_utf8(unhex(s)).expect("case strings are UTF-8")
}
fn hex(b: &[u8]) -> String {
    let mut s = String::with_capacity(b.len() * 2);
    for x in b {
        s.push_str(&format!("{:02x}", x));
    }
    s
}
fn labels_of(s: &str) -> Vec<Label> {
    if s == "-" {
        return Vec::new();
    }
    s.split(',')
        .map(|kv| {
            let (k, v) = kv.split_once('=').unwrap();
            Label::new(unhex_str(k), unhex_str(v))
        })
        .collect()
}

fn run_o(line: &str) -> String {
    let parts: Vec<&str> = line.splitn(3, '|').collect();
    let mut hs = parts[0].split_whitespace();
    hs.next(); // "O"
    let aggressive = hs.next().unwrap() == "1";
    let dist = hs.next().unwrap() == "1";
    let samp = hs.next().unwrap() == "1";
    let rsv: usize = hs.next().unwrap().parse().unwrap();
    let max: usize = hs.next().unwrap().parse().unwrap();
    let lp = hs.next().unwrap() == "1";
    let prefix = match hs.next().unwrap() {
        "-" => None,
        p => Some(unhex_str(&p[1..])),
    };
    let glabels = labels_of(hs.next().unwrap());
    let keys: Vec<Key> = parts[1]
        .split_whitespace()
        .map(|k| {
            let (n, l) = k.split_once('/').unwrap();
            Key::from_parts(unhex_str(n), labels_of(l))
        })
        .collect();
    let cfg = Config {
        aggressive,
        histogram_sampling: samp,
        histogram_reservoir_size: rsv,
        histograms_as_distributions: dist,
        global_labels: glabels,
        global_prefix: prefix,
        max_payload_len: max,
        length_prefixed: lp,
    };
    let mut d = match catch_unwind(AssertUnwindSafe(|| Driver::new(cfg))) {
        Ok(d) => d,
        Err(_) => return "N".to_string(),
    };
    let mut cs: HashMap<usize, Counter> = HashMap::new();
    let mut gs: HashMap<usize, Gauge> = HashMap::new();
    let mut hsn: HashMap<usize, Histogram> = HashMap::new();
    let mut out: Vec<String> = Vec::new();
    for tok in parts[2].split_whitespace() {
        let f: Vec<&str> = tok.split(':').collect();
        if f[0] == "F" {
            let now: u64 = f[1].parse().unwrap();
            match catch_unwind(AssertUnwindSafe(|| d.flush_once(now))) {
                Ok((ps, (cp, gp, hp))) => {
                    let l = if ps.is_empty() { "-".to_string() } else { ps.iter().map(|p| hex(p)).collect::<Vec<_>>().join(",") };
                    out.push(format!("F:{}:{}:{}:{}", l, cp, gp, hp));
                }
                Err(_) => {
                    out.push("P".to_string());
                    break;
                }
            }
            continue;
        }
        let k: usize = f[1].parse().unwrap();
        match f[0] {
            "rc" | "ci" | "ca" => {
                let h = cs.entry(k).or_insert_with(|| d.counter(&keys[k]));
                match f[0] {
                    "ci" => h.increment(f[2].parse().unwrap()),
                    "ca" => h.absolute(f[2].parse().unwrap()),
                    _ => {}
                }
            }
            "rg" | "gs" | "gi" | "gd" => {
                let h = gs.entry(k).or_insert_with(|| d.gauge(&keys[k]));
                match f[0] {
                    "gs" => h.set(f[2].parse::<i64>().unwrap() as f64),
                    "gi" => h.increment(f[2].parse::<i64>().unwrap() as f64),
                    "gd" => h.decrement(f[2].parse::<i64>().unwrap() as f64),
                    _ => {}
                }
            }
            "rh" | "hr" => {
                let h = hsn.entry(k).or_insert_with(|| d.histogram(&keys[k]));
                if f[0] == "hr" {
                    h.record(f[2].parse::<i64>().unwrap() as f64);
                }
            }
            _ => panic!("bad op {}", tok),
        }
    }
    out.join(" ")
}

fn fz(v: f64) -> String {
    if v.fract() == 0.0 && v.abs() < 9.0e15 {
        format!("{}", v as i64)
    } else {
        format!("{}!nonint", v.to_bits())
    }
}

// value field of a payload `name:<value>|...`
fn payload_value(p: &[u8]) -> String {
    let s = String::from_utf8_lossy(p).to_string();
    let first = s.split('|').next().unwrap_or("");
    first.split(':').nth(1).unwrap_or("?").to_string()
}

fn run_s(line: &str) -> String {
    let body = line.trim_start_matches('S').trim();
    let (progs, sched) = body.split_once(';').unwrap();
    let progs: Vec<Vec<String>> = progs
        .trim()
        .split('|')
        .map(|p| p.trim().split(',').filter(|s| !s.is_empty()).map(|s| s.to_string()).collect())
        .collect();
    let sched: Vec<usize> = sched.split_whitespace().map(|s| s.parse().unwrap()).collect();
    let d = Driver::new(Config {
        aggressive: false,
        histogram_sampling: false,
        histogram_reservoir_size: 16,
        histograms_as_distributions: false,
        global_labels: Vec::new(),
        global_prefix: None,
        max_payload_len: 8192,
        length_prefixed: false,
    });
    let ck = Key::from_name("c");
    let gk = Key::from_name("g");
    let counter = d.counter(&ck);
    let gauge = d.gauge(&gk);
    let rawc = d.raw_counter(&ck);
    let rawg = d.raw_gauge(&gk);
    let d = Arc::new(Mutex::new(d));
    let results: Arc<Mutex<Vec<Vec<String>>>> = Arc::new(Mutex::new(vec![Vec::new(); progs.len()]));
    let mut threads: Vec<Box<dyn FnOnce() + Send>> = Vec::new();
    for (tid, prog) in progs.iter().cloned().enumerate() {
        let results = results.clone();
        let (counter, gauge, rawc, rawg, d) = (counter.clone(), gauge.clone(), rawc.clone(), rawg.clone(), d.clone());
        threads.push(Box::new(move || {
            for c in prog {
                let tok = match c.as_str() {
                    "fc" => {
                        let (dl, u) = rawc.flush();
                        format!("c{}/{}", dl, u)
                    }
                    "fg" => {
                        let (v, u) = rawg.flush();
                        format!("g{}/{}", fz(v), u)
                    }
                    "fs" => {
                        // only one thread of a case runs `fs` (the forwarder); try_lock keeps a bad case from hanging
                        match d.try_lock() {
                            Ok(mut drv) => {
                                let (ps, (cp, gp, _)) = drv.flush_once(0);
                                let mut cv = "-".to_string();
                                let mut gv = "?".to_string();
                                let mut extra = String::new();
                                for p in &ps {
                                    if p.starts_with(b"c:") && cv == "-" {
                                        cv = payload_value(p);
                                    } else if p.starts_with(b"g:") && gv == "?" {
                                        let s = payload_value(p);
                                        gv = match s.parse::<f64>() {
                                            Ok(v) => fz(v),
                                            Err(_) => format!("{}!unparsed", s),
                                        };
                                    } else {
                                        extra.push_str("!extra");
                                    }
                                }
                                format!("s{}/{}/{}/{}{}", cv, gv, cp, gp, extra)
                            }
                            Err(_) => "s-/?/0/0!twoforwarders".to_string(),
                        }
                    }
                    _ => {
                        let (op, arg) = c.split_at(1);
                        match op {
                            "i" => counter.increment(arg.parse().unwrap()),
                            "a" => counter.absolute(arg.parse().unwrap()),
                            "s" => gauge.set(arg.parse::<i64>().unwrap() as f64),
                            "p" => gauge.increment(arg.parse::<i64>().unwrap() as f64),
                            "m" => gauge.decrement(arg.parse::<i64>().unwrap() as f64),
                            _ => panic!("bad op {}", c),
                        }
                        "u".to_string()
                    }
                };
                results.lock().unwrap()[tid].push(tok);
            }
        }));
    }
    let out = sched::run(&sched, threads, 100000);
    let res = results.lock().unwrap().clone();
    let (fd, fu) = rawc.flush();
    let (gv, gu) = rawg.flush();
    let trace: Vec<String> = out.steps.iter().map(|(t, s)| format!("{}:{}", t, s)).collect();
    let rs: Vec<String> = res.iter().map(|r| r.join(",")).collect();
    format!("{} ; {} ; {} ; {}/{}/{}/{}", trace.join(" "), rs.join("|"), if out.all_finished { 1 } else { 0 }, fd, fu, fz(gv), gu)
}

// (X) free-running stress, no scheduler: `X <threads> <incs per thread> <value> <mode 0 raw | 1 State::flush | 2 alternate>`
//   <threads> updater threads increment counter `c` <incs> times by <value> and set gauge `g` to their index, while
//   one thread flushes in a loop; after the join the main thread sets the gauge to 424242, and the flusher's
//   last flushes run. stdout: `X <sum of all deltas mod 2^64> <largest delta> <flushes> <non-zero deltas> <last gauge value>`
fn run_x(line: &str) -> String {
    use std::sync::atomic::{AtomicBool, Ordering};
    let f: Vec<&str> = line.split_whitespace().collect();
    let threads: usize = f[1].parse().unwrap();
    let incs: u64 = f[2].parse().unwrap();
    let value: u64 = f[3].parse().unwrap();
    let mode: u32 = f[4].parse().unwrap();
    let mut d = Driver::new(Config {
        aggressive: false,
        histogram_sampling: false,
        histogram_reservoir_size: 16,
        histograms_as_distributions: false,
        global_labels: Vec::new(),
        global_prefix: None,
        max_payload_len: 8192,
        length_prefixed: false,
    });
    let ck = Key::from_name("c");
    let gk = Key::from_name("g");
    let counter = d.counter(&ck);
    let gauge = d.gauge(&gk);
    let rawc = d.raw_counter(&ck);
    let rawg = d.raw_gauge(&gk);
    let stop = Arc::new(AtomicBool::new(false));
    let mut hs = Vec::new();
    for t in 0..threads {
        let (counter, gauge) = (counter.clone(), gauge.clone());
        hs.push(std::thread::spawn(move || {
            for i in 0..incs {
                counter.increment(value);
                if i % 64 == 0 {
                    gauge.set(t as f64);
                }
            }
        }));
    }
    let stop2 = stop.clone();
    let flusher = std::thread::spawn(move || {
        let (mut sum, mut max, mut flushes, mut nonzero, mut lastg) = (0u64, 0u64, 0u64, 0u64, String::from("?"));
        let mut round = 0u64;
        let mut extra = 0u32;
        loop {
            let finishing = stop2.load(Ordering::SeqCst);
            let use_state = mode == 1 || (mode == 2 && round % 2 == 1);
            round += 1;
            flushes += 1;
            if use_state {
                let (ps, _) = d.flush_once(0);
                for p in &ps {
                    if p.starts_with(b"c:") {
                        let v: u64 = payload_value(p).parse().unwrap_or(u64::MAX);
                        sum = sum.wrapping_add(v);
                        max = max.max(v);
                        if v != 0 {
                            nonzero += 1;
                        }
                    } else if p.starts_with(b"g:") {
                        lastg = payload_value(p).parse::<f64>().map(fz).unwrap_or_else(|_| "?".to_string());
                    }
                }
            } else {
                let (v, _) = rawc.flush();
                sum = sum.wrapping_add(v);
                max = max.max(v);
                if v != 0 {
                    nonzero += 1;
                }
                lastg = fz(rawg.flush().0);
            }
            if finishing {
                // three more rounds after the stop flag was seen: the first may still find data, the others must not
                extra += 1;
                if extra >= 3 {
                    break;
                }
            }
        }
        (sum, max, flushes, nonzero, lastg)
    });
    for h in hs {
        h.join().unwrap();
    }
    gauge.set(424242.0);
    stop.store(true, Ordering::SeqCst);
    let (sum, max, flushes, nonzero, lastg) = flusher.join().unwrap();
    format!("X {} {} {} {} {}", sum, max, flushes, nonzero, lastg)
}

// (Y) free-running histogram stress, no scheduler, sampling off:
//   `Y <recorders> <values per recorder> <keys 1|2> <dist 0|1> <sleep between flushes, us> <recorder sleep every 1024 values, us>`
//   recorder t records the distinct integer-valued values t*n .. t*n+n-1 (as f64) into histogram key h<i % keys> while one
//   thread runs forwarder iterations (State::flush through flush_once) with the given pause; after the join it flushes
//   until two consecutive iterations carry no histogram payload. Every payload is parsed and every value counted.
//   stdout: `Y <total> <values seen twice or more> <fabricated values> <values never seen> <flushes begun while recording> <flushes>`
fn run_y(line: &str) -> String {
    use std::sync::atomic::{AtomicBool, Ordering};
    let f: Vec<&str> = line.split_whitespace().collect();
    let recorders: usize = f[1].parse().unwrap();
    let n: usize = f[2].parse().unwrap();
    let keys: usize = f[3].parse().unwrap();
    let dist = f[4] == "1";
    let pause = std::time::Duration::from_micros(f[5].parse().unwrap());
    let rpause = std::time::Duration::from_micros(f[6].parse().unwrap());
    let mut d = Driver::new(Config {
        aggressive: false,
        histogram_sampling: false,
        histogram_reservoir_size: 16,
        histograms_as_distributions: dist,
        global_labels: Vec::new(),
        global_prefix: None,
        max_payload_len: 8192,
        length_prefixed: false,
    });
    let hs: Vec<Histogram> = (0..keys).map(|k| d.histogram(&Key::from_name(format!("h{}", k)))).collect();
    let total = recorders * n;
    let recording = Arc::new(AtomicBool::new(true));
    let mut threads = Vec::new();
    for t in 0..recorders {
        let hs = hs.clone();
        threads.push(std::thread::spawn(move || {
            for i in 0..n {
                hs[i % hs.len()].record((t * n + i) as f64);
                if i % 1024 == 1023 && !rpause.is_zero() {
                    std::thread::sleep(rpause);
                }
            }
        }));
    }
    let rec2 = recording.clone();
    let flusher = std::thread::spawn(move || {
        let mut counts = vec![0u8; total];
        let (mut fabricated, mut flushes, mut during, mut empty_rounds) = (0u64, 0u64, 0u64, 0u32);
        loop {
            let still = rec2.load(Ordering::SeqCst);
            if still {
                during += 1;
            }
            flushes += 1;
            let (ps, _) = d.flush_once(0);
            let mut any = false;
            for p in &ps {
                if !p.starts_with(b"h") {
                    continue;
                }
                any = true;
                let s = String::from_utf8_lossy(p);
                let head = s.split('|').next().unwrap_or("");
                for v in head.split(':').skip(1) {
                    match v.parse::<f64>() {
                        Ok(x) if x >= 0.0 && x.fract() == 0.0 && (x as usize) < total => {
                            let c = &mut counts[x as usize];
                            *c = c.saturating_add(1);
                        }
                        _ => fabricated += 1,
                    }
                }
            }
            if !still {
                if any {
                    empty_rounds = 0;
                } else {
                    empty_rounds += 1;
                    if empty_rounds >= 2 {
                        break;
                    }
                }
            } else {
                std::thread::sleep(pause);
            }
        }
        let dups = counts.iter().filter(|c| **c >= 2).count();
        let lost = counts.iter().filter(|c| **c == 0).count();
        (dups, fabricated, lost, during, flushes)
    });
    for h in threads {
        h.join().unwrap();
    }
    recording.store(false, Ordering::SeqCst);
    let (dups, fabricated, lost, during, flushes) = flusher.join().unwrap();
    format!("Y {} {} {} {} {} {}", total, dups, fabricated, lost, during, flushes)
}

// (E) end to end: a real exporter built with the public DogStatsDBuilder (synchronous backend, telemetry off) sending to a
//   harness-owned UDP socket: `E <aggressive 0|1> <prefix 0|1> <global labels 0|1> <distributions 0|1> <flush interval ms>`
//   script: counter `ec` += 3, += 4; gauge `eg` = 42; histogram `eh` records 5, 6, 7; wait until the counter's closing zero
//   has arrived, stay idle for 5 more intervals; counter += 10, gauge = -7; wait for the closing zero, idle 5 more intervals.
//   stdout: `E <datagram hex>,<datagram hex>,...` in arrival order (`-` if none), the real Forwarder::run loop produced them.
fn run_e(line: &str) -> String {
    use metrics::Recorder as _;
    use metrics_exporter_dogstatsd::{AggregationMode, DogStatsDBuilder};
    use std::time::{Duration, Instant};
    static METADATA: metrics::Metadata<'static> = metrics::Metadata::new("verif", metrics::Level::INFO, None);
    let f: Vec<&str> = line.split_whitespace().collect();
    let aggressive = f[1] == "1";
    let prefix = f[2] == "1";
    let labels = f[3] == "1";
    let dist = f[4] == "1";
    let interval = Duration::from_millis(f[5].parse().unwrap());
    let sock = std::net::UdpSocket::bind("127.0.0.1:0").unwrap();
    sock.set_read_timeout(Some(Duration::from_millis(10))).unwrap();
    let port = sock.local_addr().unwrap().port();
    let mut b = DogStatsDBuilder::default()
        .with_remote_address(format!("127.0.0.1:{}", port))
        .unwrap()
        .with_flush_interval(interval)
        .with_telemetry(false)
        .send_histograms_as_distributions(dist)
        .with_aggregation_mode(if aggressive { AggregationMode::Aggressive } else { AggregationMode::Conservative });
    if prefix {
        b = b.set_global_prefix("app");
    }
    if labels {
        b = b.with_global_labels(vec![Label::new("env", "t")]);
    }
    let recorder = b.build().unwrap();
    let got: Arc<Mutex<Vec<Vec<u8>>>> = Arc::new(Mutex::new(Vec::new()));
    let stop = Arc::new(std::sync::atomic::AtomicBool::new(false));
    let (got2, stop2) = (got.clone(), stop.clone());
    let rx = std::thread::spawn(move || {
        let mut buf = vec![0u8; 65536];
        while !stop2.load(std::sync::atomic::Ordering::SeqCst) {
            if let Ok(n) = sock.recv(&mut buf) {
                got2.lock().unwrap().push(buf[..n].to_vec());
            }
        }
    });
    // counter values received so far (datagram = one metric line here)
    let counter_vals = |got: &Arc<Mutex<Vec<Vec<u8>>>>| -> Vec<u64> {
        got.lock()
            .unwrap()
            .iter()
            .filter(|d| String::from_utf8_lossy(d).split(':').next().map_or(false, |n| n.ends_with("ec")))
            .map(|d| payload_value(d).parse().unwrap_or(u64::MAX))
            .collect()
    };
    // wait until the deltas received add up to `total` and a zero has followed, at most 5 s
    let wait_closed = |total: u64| {
        let t0 = Instant::now();
        while t0.elapsed() < Duration::from_secs(5) {
            let v = counter_vals(&got);
            let sum: u64 = v.iter().fold(0u64, |a, x| a.wrapping_add(*x));
            if sum == total && v.last() == Some(&0) && v.iter().any(|x| *x != 0) {
                return;
            }
            std::thread::sleep(Duration::from_millis(5));
        }
    };
    let c = recorder.register_counter(&Key::from_name("ec"), &METADATA);
    c.increment(3);
    c.increment(4);
    let g = recorder.register_gauge(&Key::from_name("eg"), &METADATA);
    g.set(42.0);
    let h = recorder.register_histogram(&Key::from_name("eh"), &METADATA);
    h.record(5.0);
    h.record(6.0);
    h.record(7.0);
    wait_closed(7);
    std::thread::sleep(interval * 5);
    c.increment(10);
    g.set(-7.0);
    wait_closed(17);
    std::thread::sleep(interval * 5);
    stop.store(true, std::sync::atomic::Ordering::SeqCst);
    rx.join().unwrap();
    let v = got.lock().unwrap();
    if v.is_empty() {
        "E -".to_string()
    } else {
        format!("E {}", v.iter().map(|d| hex(d)).collect::<Vec<_>>().join(","))
    }
}

// (U) end to end over a Unix STREAM socket with back-pressure: a real exporter (DogStatsDBuilder, `unix://` remote, length-prefixed
//   frames) against a harness-owned listener whose agent, on every connection, reads the first bytes, PAUSES, then drains.
//   `U <values per batch> <max payload len> <write timeout ms> <agent pause ms> <flush interval ms> <aggressive 0|1> <prefix 0|1>`
//   script: counter `uc` += 5, gauge `ug` = 1, histogram `uh` records 0..n-1 (sampling on, reservoir > n: ONE frame of ~8 bytes per
//   value); wait pause + 500 ms; counter += 7, gauge = 2, records n..2n-1; wait pause + 700 ms; stop the agent.
//   The agent decodes every connection's byte stream strictly: [u32 LE len][payload], len in 1..=max, payload = exactly one well-formed
//   line of a known metric; a connection may END inside a frame (that is what a timed-out write_all leaves behind) but the bytes of that
//   partial frame must still be payload text. stdout:
//   `U <connections> <whole frames> <largest frame> <truncated tails> <hist values seen twice> <fabricated> <distinct hist values> <counter sum> <largest counter delta> <gauge values ,-joined|-> <errors> | <first error>`
fn run_u(line: &str) -> String {
    use metrics::Recorder as _;
    use metrics_exporter_dogstatsd::{AggregationMode, DogStatsDBuilder};
    use std::io::Read as _;
    use std::sync::atomic::{AtomicBool, AtomicUsize, Ordering};
    use std::time::Duration;
    static METADATA: metrics::Metadata<'static> = metrics::Metadata::new("verif", metrics::Level::INFO, None);
    static SEQ: AtomicUsize = AtomicUsize::new(0);
    let f: Vec<&str> = line.split_whitespace().collect();
    let n: usize = f[1].parse().unwrap();
    let maxp: usize = f[2].parse().unwrap();
    let wt = Duration::from_millis(f[3].parse().unwrap());
    let pause = Duration::from_millis(f[4].parse().unwrap());
    let interval = Duration::from_millis(f[5].parse().unwrap());
    let aggressive = f[6] == "1";
    let prefix = f[7] == "1";
    let path = format!("/tmp/c10-uds-{}-{}.sock", std::process::id(), SEQ.fetch_add(1, Ordering::SeqCst));
    let _ = std::fs::remove_file(&path);
    let listener = std::os::unix::net::UnixListener::bind(&path).unwrap();
    listener.set_nonblocking(true).unwrap();
    let stop = Arc::new(AtomicBool::new(false));
    let stop2 = stop.clone();
    let agent = std::thread::spawn(move || {
        let mut streams: Vec<Vec<u8>> = Vec::new();
        while !stop2.load(Ordering::SeqCst) {
            let mut conn = match listener.accept() {
                Ok((c, _)) => c,
                Err(_) => {
                    std::thread::sleep(Duration::from_millis(2));
                    continue;
                }
            };
            conn.set_nonblocking(false).unwrap();
            conn.set_read_timeout(Some(Duration::from_millis(20))).unwrap();
            let mut got: Vec<u8> = Vec::new();
            let mut buf = vec![0u8; 1 << 16];
            let mut paused = false;
            loop {
                match conn.read(&mut buf[..if paused { 1 << 16 } else { 16 }]) {
                    Ok(0) => break,
                    Ok(k) => {
                        got.extend_from_slice(&buf[..k]);
                        if !paused {
                            paused = true;
                            std::thread::sleep(pause);
                        }
                    }
                    Err(_) => {
                        if stop2.load(Ordering::SeqCst) {
                            break;
                        }
                    }
                }
            }
            streams.push(got);
        }
        streams
    });
    let mut b = DogStatsDBuilder::default()
        .with_remote_address(format!("unix://{}", path))
        .unwrap()
        .with_maximum_payload_length(maxp)
        .unwrap()
        .with_write_timeout(wt)
        .with_flush_interval(interval)
        .with_telemetry(false)
        .with_histogram_sampling(true)
        .with_histogram_reservoir_size(2 * n + 1024)
        .with_aggregation_mode(if aggressive { AggregationMode::Aggressive } else { AggregationMode::Conservative });
    if prefix {
        b = b.set_global_prefix("app");
    }
    let recorder = b.build().unwrap();
    let c = recorder.register_counter(&Key::from_name("uc"), &METADATA);
    let g = recorder.register_gauge(&Key::from_name("ug"), &METADATA);
    let h = recorder.register_histogram(&Key::from_name("uh"), &METADATA);
    c.increment(5);
    g.set(1.0);
    for i in 0..n {
        h.record(i as f64);
    }
    std::thread::sleep(pause + Duration::from_millis(500));
    c.increment(7);
    g.set(2.0);
    for i in n..2 * n {
        h.record(i as f64);
    }
    std::thread::sleep(pause + Duration::from_millis(700));
    stop.store(true, Ordering::SeqCst);
    let streams = agent.join().unwrap();
    let _ = std::fs::remove_file(&path);

    // strict decoding
    let pfx = if prefix { "app." } else { "" };
    let text_ok = |b: &[u8]| b.iter().all(|x| *x == b'\n' || (0x20..0x7f).contains(x));
    let (mut frames, mut maxframe, mut trunc, mut fab, mut csum, mut cmax) = (0u64, 0usize, 0u64, 0u64, 0u64, 0u64);
    let mut counts = vec![0u8; 2 * n];
    let mut gvals: Vec<String> = Vec::new();
    let mut errs: Vec<String> = Vec::new();
    for (ci, st) in streams.iter().enumerate() {
        let mut pos = 0usize;
        while pos < st.len() {
            if st.len() - pos < 4 {
                trunc += 1;
                break;
            }
            let l = u32::from_le_bytes([st[pos], st[pos + 1], st[pos + 2], st[pos + 3]]) as usize;
            if l == 0 || l > maxp {
                errs.push(format!("connection {} offset {}: frame length {} outside 1..={}", ci, pos, l, maxp));
                break;
            }
            if pos + 4 + l > st.len() {
                let part = &st[pos + 4..];
                trunc += 1;
                if !text_ok(part) || part.iter().rev().skip(1).any(|x| *x == b'\n') {
                    errs.push(format!("connection {} offset {}: the {} bytes of an unfinished frame (declared {}) are not one payload line", ci, pos, part.len(), l));
                }
                break;
            }
            let body = &st[pos + 4..pos + 4 + l];
            pos += 4 + l;
            frames += 1;
            maxframe = maxframe.max(l);
            if !text_ok(body) || body.last() != Some(&b'\n') || body[..l - 1].contains(&b'\n') {
                errs.push(format!("connection {} frame {} ({} bytes) is not one text line", ci, frames, l));
                continue;
            }
            let line = std::str::from_utf8(&body[..l - 1]).unwrap();
            let fields: Vec<&str> = line.split('|').collect();
            let head: Vec<&str> = fields[0].split(':').collect();
            let ty = fields.get(1).copied().unwrap_or("?");
            let has_ts = fields.iter().skip(2).any(|x| x.starts_with('T'));
            let name = head[0];
            if name == format!("{}uc", pfx) && ty == "c" && head.len() == 2 && has_ts == aggressive {
                match head[1].parse::<u64>() {
                    Ok(v) => {
                        csum = csum.wrapping_add(v);
                        cmax = cmax.max(v);
                    }
                    Err(_) => errs.push(format!("connection {} frame {}: bad counter value {}", ci, frames, head[1])),
                }
            } else if name == format!("{}ug", pfx) && ty == "g" && head.len() == 2 && has_ts == aggressive {
                gvals.push(head[1].to_string());
            } else if name == format!("{}uh", pfx) && ty == "d" && !has_ts {
                for v in &head[1..] {
                    match v.parse::<f64>() {
                        Ok(x) if x >= 0.0 && x.fract() == 0.0 && (x as usize) < 2 * n => {
                            let c = &mut counts[x as usize];
                            *c = c.saturating_add(1);
                        }
                        _ => fab += 1,
                    }
                }
            } else {
                errs.push(format!("connection {} frame {}: unexpected message {:?}", ci, frames, &line[..line.len().min(60)]));
            }
        }
    }
    let dups = counts.iter().filter(|c| **c >= 2).count();
    let distinct = counts.iter().filter(|c| **c >= 1).count();
    format!(
        "U {} {} {} {} {} {} {} {} {} {} {} | {}",
        streams.len(),
        frames,
        maxframe,
        trunc,
        dups,
        fab,
        distinct,
        csum,
        cmax,
        if gvals.is_empty() { "-".to_string() } else { gvals.join(",") },
        errs.len(),
        errs.first().cloned().unwrap_or_default()
    )
}

// (A) free-running absolute rounds on ONE counter, barrier-released, no scheduler:
//   `A <rounds> <threads> <values per thread> <mode>`
//   mode 0: the counter is re-based sequentially first (absolute(base), flush), then <threads> publishers call absolute() with
//           distinct increasing values (each publish takes the next ticket: always at the frontier) while one thread flushes in a loop; after the join two more
//           flushes. No increment ever runs, so no re-basing absolute races anything: none of the open classes applies.
//           Per round: no delta may exceed (largest value - base), no prefix sum of the deltas may exceed it (current never moves
//           backwards), and at quiescence the deltas add up to exactly largest value - base.
//   mode 1: ONE thread publishes increasing absolutes while <threads> threads increment by 1, NO flush during the round (a single
//           absolute thread cannot overlap two re-basings, and nothing can straddle): at quiescence the flushed delta must not
//           exceed everything added (increments + largest absolute), i.e. last <= current.
//   stdout: `A <rounds> <bad rounds> <flushes during publishing> <non-zero deltas during publishing> <deltas> | <first error>`
fn run_a(line: &str) -> String {
    use std::sync::atomic::{AtomicUsize, Ordering};
    use std::sync::Barrier;
    let f: Vec<&str> = line.split_whitespace().collect();
    let rounds: usize = f[1].parse().unwrap();
    let threads: usize = f[2].parse().unwrap();
    let k: u64 = f[3].parse().unwrap();
    let mode: u32 = f[4].parse().unwrap();
    let d = Driver::new(Config {
        aggressive: false,
        histogram_sampling: false,
        histogram_reservoir_size: 16,
        histograms_as_distributions: false,
        global_labels: Vec::new(),
        global_prefix: None,
        max_payload_len: 8192,
        length_prefixed: false,
    });
    let (mut bad, mut during, mut nonzero, mut ndeltas) = (0u64, 0u64, 0u64, 0u64);
    let mut first_err = String::new();
    for r in 0..rounds {
        let rc = d.raw_counter(&Key::from_name(format!("a{}", r)));
        let t64 = threads as u64;
        if mode == 0 {
            let base = 1000u64 + r as u64;
            rc.absolute(base);
            let _ = rc.flush();
            // every publish takes the next ticket: all threads always publish values at the frontier (distinct, globally increasing)
            let maxv = base + k * t64;
            let barrier = Arc::new(Barrier::new(threads + 1));
            let finished = Arc::new(AtomicUsize::new(0));
            let ticket = Arc::new(std::sync::atomic::AtomicU64::new(0));
            let mut hs = Vec::new();
            for _ in 0..threads {
                let (rc, barrier, finished, ticket) = (rc.clone(), barrier.clone(), finished.clone(), ticket.clone());
                hs.push(std::thread::spawn(move || {
                    barrier.wait();
                    for _ in 0..k {
                        rc.absolute(base + 1 + ticket.fetch_add(1, Ordering::Relaxed));
                    }
                    finished.fetch_add(1, Ordering::SeqCst);
                }));
            }
            let (rc2, barrier2, finished2) = (rc.clone(), barrier.clone(), finished.clone());
            let fl = std::thread::spawn(move || {
                barrier2.wait();
                let mut ds: Vec<u64> = Vec::new();
                while finished2.load(Ordering::SeqCst) < threads {
                    ds.push(rc2.flush().0);
                }
                ds
            });
            for h in hs {
                h.join().unwrap();
            }
            let mut ds = fl.join().unwrap();
            during += ds.len() as u64;
            nonzero += ds.iter().filter(|x| **x != 0).count() as u64;
            ds.push(rc.flush().0);
            ds.push(rc.flush().0);
            ndeltas += ds.len() as u64;
            let room = maxv - base;
            let mut sum = 0u64;
            let mut err = String::new();
            for (i, x) in ds.iter().enumerate() {
                if *x > room {
                    err = format!("round {}: delta #{} = {} exceeds largest value - base = {}", r, i, x, room);
                    break;
                }
                sum += *x;
                if sum > room {
                    err = format!("round {}: the first {} deltas add up to {} > largest value - base = {} (current moved backwards)", r, i + 1, sum, room);
                    break;
                }
            }
            if err.is_empty() && sum != room {
                err = format!("round {}: at quiescence the deltas add up to {}, largest value - base = {}", r, sum, room);
            }
            if !err.is_empty() {
                bad += 1;
                if first_err.is_empty() {
                    first_err = err;
                }
            }
        } else {
            let barrier = Arc::new(Barrier::new(threads + 1));
            let mut hs = Vec::new();
            for _ in 0..threads {
                let (rc, barrier) = (rc.clone(), barrier.clone());
                hs.push(std::thread::spawn(move || {
                    barrier.wait();
                    for _ in 0..k {
                        rc.increment(1);
                    }
                }));
            }
            {
                let (rc, barrier) = (rc.clone(), barrier.clone());
                hs.push(std::thread::spawn(move || {
                    barrier.wait();
                    for i in 1..=k {
                        rc.absolute(1000 + i);
                    }
                }));
            }
            for h in hs {
                h.join().unwrap();
            }
            let d1 = rc.flush().0;
            let d2 = rc.flush().0;
            ndeltas += 2;
            let bound = k * t64 + 1000 + k;
            if d1 > bound || d2 != 0 {
                bad += 1;
                if first_err.is_empty() {
                    first_err = format!("round {}: at quiescence flush returned {} then {}; everything ever added is {}", r, d1, d2, bound);
                }
            }
        }
    }
    format!("A {} {} {} {} {} | {}", rounds, bad, during, nonzero, ndeltas, first_err)
}

// only the storage.rs sites take part in the schedule; the registry's own yield points (6xx, C06) inside
// State::flush are passed through (the registry is not part of this model)
fn c10_site(site: u32) -> bool {
    (1001..=1014).contains(&site)
}

fn main() {
    std::panic::set_hook(Box::new(|_| {}));
    sched::set_site_filter(Some(c10_site));
    let stdin = std::io::stdin();
    let stdout = std::io::stdout();
    let mut w = std::io::BufWriter::new(stdout.lock());
    for line in stdin.lock().lines() {
        let line = line.unwrap();
        if line.trim().is_empty() {
            continue;
        }
        let r = if line.starts_with('S') { run_s(&line) } else if line.starts_with('X') { run_x(&line) } else if line.starts_with('Y') { run_y(&line) } else if line.starts_with('E') { run_e(&line) } else if line.starts_with('U') { run_u(&line) } else if line.starts_with('A') { run_a(&line) } else { run_o(&line) };
        writeln!(w, "{}", r).unwrap();
    }
}
