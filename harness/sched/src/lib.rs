//! Deterministic scheduler for the `metrics::__verif` yield points.
//!
//! Participating threads park at every yield/spin point; the controller releases exactly one
//! thread per step, following a schedule (a list of thread indices). A scheduled thread that has
//! already finished (or an index out of range) is a no-op, exactly as in the Coq model
//! (`Common/Interleave.v`). When the schedule is exhausted the remaining threads are run to
//! completion round-robin (lowest index first, one step each per round), up to a step limit.
//!
//! One step of thread t = everything t executes from the point it was parked at up to (not
//! including) the access guarded by the next yield point it reaches, i.e. exactly one guarded
//! shared-memory access (the first step runs from the thread's start to its first yield point and
//! performs no guarded access: site 0).
use std::cell::Cell;
use std::sync::{Arc, Condvar, Mutex};

#[derive(Clone, Copy, PartialEq, Eq, Debug)]
enum St {
    Running,
    Parked(u32),
    Finished,
}

struct Shared {
    st: Vec<St>,
    granted: Vec<bool>,
}

struct Ctl {
    m: Mutex<Shared>,
    cv: Condvar,
}

thread_local! {
    static ME: Cell<Option<(usize, *const Ctl)>> = Cell::new(None);
}

static SITE_FILTER: std::sync::atomic::AtomicUsize = std::sync::atomic::AtomicUsize::new(0);

/// Optional process-wide filter: when set, a yield/spin point whose site the filter rejects is
/// ignored (the thread does not park there). Default: none, every site parks. Used by drivers whose
/// scheduled code passes through instrumented code of other properties (e.g. registry sites 6xx
/// inside the dogstatsd `State::flush`).
pub fn set_site_filter(f: Option<fn(u32) -> bool>) {
    SITE_FILTER.store(f.map_or(0, |f| f as usize), std::sync::atomic::Ordering::SeqCst);
}

fn callback(site: u32, _spin: bool) {
    let raw = SITE_FILTER.load(std::sync::atomic::Ordering::SeqCst);
    if raw != 0 {
        // SAFETY: only ever stored from a `fn(u32) -> bool` in `set_site_filter`.
        let f: fn(u32) -> bool = unsafe { std::mem::transmute::<usize, fn(u32) -> bool>(raw) };
        if !f(site) {
            return;
        }
    }
    ME.with(|me| {
        if let Some((tid, ctl)) = me.get() {
            // SAFETY: the controller outlives every participating thread (joined in `run`).
            let ctl: &Ctl = unsafe { &*ctl };
            park(ctl, tid, site);
        }
    });
}

fn park(ctl: &Ctl, tid: usize, site: u32) {
    let mut g = ctl.m.lock().unwrap();
    g.st[tid] = St::Parked(site);
    ctl.cv.notify_all();
    while !g.granted[tid] {
        g = ctl.cv.wait(g).unwrap();
    }
    g.granted[tid] = false;
    g.st[tid] = St::Running;
}

/// One executed step: (thread index, site the thread was parked at when released).
/// A no-op step (finished thread / out of range) is recorded with site `u32::MAX`.
pub type Step = (usize, u32);

pub struct Outcome {
    pub steps: Vec<Step>,
    /// true if every thread finished within the step limit
    pub all_finished: bool,
}

/// Trace entry appended for a scheduled thread that ended by panicking.
pub const PANIC_SITE: u32 = u32::MAX - 1;

/// Runs `threads` under `schedule`. `limit` bounds the number of round-robin tail steps.
pub fn run(schedule: &[usize], threads: Vec<Box<dyn FnOnce() + Send>>, limit: usize) -> Outcome {
    metrics::__verif::set_callback(Some(callback));
    let n = threads.len();
    let ctl = Arc::new(Ctl {
        m: Mutex::new(Shared { st: vec![St::Running; n], granted: vec![false; n] }),
        cv: Condvar::new(),
    });
    let mut handles = Vec::new();
    for (tid, f) in threads.into_iter().enumerate() {
        let ctl2 = ctl.clone();
        handles.push(std::thread::spawn(move || {
            let p: *const Ctl = &*ctl2;
            ME.with(|me| me.set(Some((tid, p))));
            park(&ctl2, tid, 0);
            let r = std::panic::catch_unwind(std::panic::AssertUnwindSafe(f));
            ME.with(|me| me.set(None));
            let mut g = ctl2.m.lock().unwrap();
            g.st[tid] = St::Finished;
            ctl2.cv.notify_all();
            drop(g);
            if let Err(e) = r {
                std::panic::resume_unwind(e);
            }
        }));
    }
    let mut steps = Vec::new();
    let quiescent = |g: &Shared| g.st.iter().all(|s| *s != St::Running) && g.granted.iter().all(|x| !*x);
    let step = |tid: usize, steps: &mut Vec<Step>| {
        let mut g = ctl.m.lock().unwrap();
        while !quiescent(&g) {
            g = ctl.cv.wait(g).unwrap();
        }
        if tid >= n {
            steps.push((tid, u32::MAX));
            return;
        }
        match g.st[tid] {
            St::Parked(site) => {
                steps.push((tid, site));
                g.granted[tid] = true;
                ctl.cv.notify_all();
                // wait until it parks again or finishes
                while g.granted[tid] || g.st[tid] == St::Running {
                    g = ctl.cv.wait(g).unwrap();
                }
            }
            _ => steps.push((tid, u32::MAX)),
        }
    };
    for &tid in schedule {
        step(tid, &mut steps);
    }
    let mut budget = limit;
    let mut all_finished;
    loop {
        {
            let mut g = ctl.m.lock().unwrap();
            while !quiescent(&g) {
                g = ctl.cv.wait(g).unwrap();
            }
            all_finished = g.st.iter().all(|s| *s == St::Finished);
        }
        if all_finished || budget == 0 {
            break;
        }
        for tid in 0..n {
            let fin = { ctl.m.lock().unwrap().st[tid] == St::Finished };
            if !fin && budget > 0 {
                step(tid, &mut steps);
                budget -= 1;
            }
        }
    }
    if !all_finished {
        // release everybody so the process can go on (threads run free from here)
        let mut g = ctl.m.lock().unwrap();
        for t in 0..n {
            g.granted[t] = true;
        }
        ctl.cv.notify_all();
        drop(g);
        // keep granting until all finished
        loop {
            let mut g = ctl.m.lock().unwrap();
            if g.st.iter().all(|s| *s == St::Finished) {
                break;
            }
            for t in 0..n {
                g.granted[t] = true;
            }
            ctl.cv.notify_all();
            let _g = ctl.cv.wait_timeout(g, std::time::Duration::from_millis(1)).unwrap();
        }
    }
    // a scheduled thread that panicked (and whose driver did not catch it) leaves a trace entry
    // (tid, PANIC_SITE) that no model trace contains, so the run disagrees with the model instead of
    // passing silently with that thread's remaining work missing
    for (tid, h) in handles.into_iter().enumerate() {
        if h.join().is_err() {
            steps.push((tid, PANIC_SITE));
        }
    }
    Outcome { steps, all_finished }
}
