(* C05 — the checker on the model, stage 2: clause S2 of Spec.spec_run for the slices handed to the
   threads' callbacks (written-before-read and no fabrication, read on trace positions):
   every slice of every data_with / clear_with call of the model's run has its 506 position in the
   trace, and every value in it is found in the push table with a 502 (slot write) position that
   is strictly earlier.  Every case, every schedule, round-robin tail included
   (Common/InterleaveTrace.exec_full_trace).
   Ledger tied to the trace so far:
     (L1) #502-steps of thread u = pushes among its first cidx calls (+1 between 502 and 503);
     (L2) every value in a slot has its 502 position recorded;
     (L3) the slices handed to thread u so far (completed calls, then the walk in progress) are in
          one-to-one order with u's 506 positions, each value written before that position.   *)
From Coq Require Import List NArith Bool Arith Lia.
Import ListNotations.
Require Import MV.Common.Interleave MV.Common.InterleaveTrace MV.C05.Model MV.C05.Spec MV.C05.Exec.
Require Import MV.C05.ProofsSeq MV.C05.ProofsInv MV.C05.ProofsCor MV.C05.ProofsUniq MV.C05.ProofsCons MV.C05.ProofsProg MV.C05.ProofsTrace1.
Local Open Scope nat_scope.

(* ---- positions *)
Lemma positions_snoc tr : forall i t s e,
  positions (tr ++ [e]) i t s =
  positions tr i t s ++ (if (N.eqb (fst e) t && N.eqb (snd e) s)%bool then [i + length tr] else []).
Proof.
  induction tr as [|[t' s'] r IH]; intros i t s [et es]; cbn [app positions length fst snd].
  - rewrite Nat.add_0_r. destruct ((et =? t)%N && (es =? s)%N)%bool; reflexivity.
  - rewrite IH. cbn [fst snd]. replace (S i + length r) with (i + S (length r)) by lia.
    destruct ((t' =? t)%N && (s' =? s)%N)%bool; reflexivity.
Qed.

Lemma positions_lt tr : forall i t s q, In q (positions tr i t s) -> q < i + length tr.
Proof.
  induction tr as [|[t' s'] r IH]; intros i t s q H; cbn [positions length] in *; [destruct H|].
  destruct ((t' =? t)%N && (s' =? s)%N)%bool.
  - destruct H as [<-|H]; [lia|]. specialize (IH _ _ _ _ H). lia.
  - specialize (IH _ _ _ _ H). lia.
Qed.

Lemma nth_error_app_l {A} (l l' : list A) n x : nth_error l n = Some x -> nth_error (l ++ l') n = Some x.
Proof. intros H. rewrite nth_error_app1; auto. apply nth_error_Some. congruence. Qed.

(* ---- pushes of a program *)
Definition is_push (c : call) : bool := match c with CPush _ => true | _ => false end.
Definition npush (p : list call) : nat := length (filter is_push p).
Definition ordv (ps : list (list call)) (x : val) : nat :=
  npush (firstn (N.to_nat (snd (fst x))) (nth (N.to_nat (fst (fst x))) ps [])).

Lemma npush_firstn_S p k c : nth_error p k = Some c ->
  npush (firstn (S k) p) = npush (firstn k p) + (if is_push c then 1 else 0).
Proof.
  revert k. induction p as [|a r IH]; intros [|k] H; cbn in H; try discriminate.
  - inversion H; subst. unfold npush. cbn. destruct (is_push c); reflexivity.
  - specialize (IH k H). unfold npush in *.
    change (firstn (S (S k)) (a :: r)) with (a :: firstn (S k) r). change (firstn (S k) (a :: r)) with (a :: firstn k r).
    cbn [filter]. destruct (is_push a); cbn [length]; lia.
Qed.

(* ---- the push table *)
Lemma zip_pwrite t claims : forall p k0 ws ds k v,
  nth_error p k = Some (CPush v) ->
  exists i, find (fun i => val_eqb (px i) (t, (k0 + N.of_nat k)%N, v)) (zip_pinfo (push_calls t p k0) claims ws ds) = Some i /\
            pwrite i = nth_error ws (npush (firstn k p)).
Proof.
  induction p as [|c r IH]; intros k0 ws ds [|k] v H; cbn in H; try discriminate.
  - inversion H; subst c. cbn [push_calls zip_pinfo find px]. rewrite N.add_0_r.
    unfold val_eqb. rewrite !N.eqb_refl. cbn [andb]. eexists. split; [reflexivity|].
    cbn [pwrite firstn npush filter length]. destruct ws; reflexivity.
  - replace (k0 + N.of_nat (S k))%N with ((k0 + 1) + N.of_nat k)%N by lia.
    destruct c as [v0| | |]; cbn [push_calls]; try (specialize (IH (k0 + 1)%N ws ds k v H);
      replace (npush (firstn (S k) (_ :: r))) with (npush (firstn k r)) by (unfold npush; reflexivity); exact IH).
    cbn [zip_pinfo find px]. unfold val_eqb at 1.
    replace ((k0 =? k0 + 1 + N.of_nat k)%N) with false by (symmetry; apply N.eqb_neq; lia).
    rewrite andb_false_r. cbn [andb].
    destruct (IH (k0 + 1)%N (tl ws) (tl ds) k v H) as (i & Hf & Hw). exists i. split; [exact Hf|].
    rewrite Hw. unfold npush. cbn [firstn filter is_push length]. destruct ws; [destruct (length _); reflexivity|reflexivity].
Qed.

Lemma zip_other_thread t t' claims : forall p k0 ws ds k v, t <> t' ->
  find (fun i => val_eqb (px i) (t', k, v)) (zip_pinfo (push_calls t p k0) claims ws ds) = None.
Proof.
  induction p as [|c r IH]; intros k0 ws ds k v Hne; cbn [push_calls zip_pinfo find]; auto.
  destruct c; cbn [push_calls zip_pinfo find px]; auto.
  unfold val_eqb at 1. replace ((t =? t')%N) with false by (symmetry; apply N.eqb_neq; exact Hne). cbn [andb]. auto.
Qed.

Lemma find_app {A} (f : A -> bool) a b : find f (a ++ b) = match find f a with Some y => Some y | None => find f b end.
Proof. induction a as [|x r IH]; cbn; auto. destruct (f x); auto. Qed.

Lemma pinfos_find tr : forall ps t0 u p k v,
  nth_error ps u = Some p -> nth_error p k = Some (CPush v) ->
  exists i, find_info (pinfos tr t0 ps) ((t0 + N.of_nat u)%N, N.of_nat k, v) = Some i /\
            pwrite i = nth_error (positions tr 0 (t0 + N.of_nat u)%N 502) (npush (firstn k p)).
Proof.
  induction ps as [|q r IH]; intros t0 [|u] p k v Hp Hk; cbn in Hp; try discriminate; cbn [pinfos]; unfold find_info; rewrite find_app.
  - inversion Hp; subst q. rewrite N.add_0_r.
    destruct (zip_pwrite t0 (positions tr 0 t0 501) p 0%N (positions tr 0 t0 502) (positions tr 0 t0 503) k v Hk) as (i & Hf & Hw).
    rewrite N.add_0_l in Hf. rewrite Hf. eauto.
  - rewrite zip_other_thread by lia.
    replace (t0 + N.of_nat (S u))%N with ((t0 + 1) + N.of_nat u)%N by lia. apply (IH (t0 + 1)%N u p k v Hp Hk).
Qed.

(* ---- the read calls *)
Definition slices_of (rs : list res) : list (list val) :=
  flat_map (fun r => match r with RData sl | RClear sl => sl | _ => [] end) rs.

Lemma zip_in (sl : list (list val)) : forall P q x, In (q, x) (zip_slices sl P) -> exists m, nth_error sl m = Some x /\ q = nth_error P m.
Proof.
  induction sl as [|y r IH]; intros P q x H; cbn in H; [destruct H|]. destruct H as [E|H].
  - inversion E; subst. exists 0. split; [reflexivity|]. destruct P; reflexivity.
  - destruct (IH _ _ _ H) as (m & Hm & Hq). exists (S m). split; auto. rewrite Hq. destruct P; [destruct m; reflexivity|reflexivity].
Qed.

Lemma nth_error_skipn {A} (l : list A) n m : nth_error (skipn n l) m = nth_error l (n + m).
Proof. revert l. induction n; intros [|a l]; cbn; auto. destruct m; reflexivity. Qed.

Lemma rcalls_thread_rsl tr t : forall rs P p530 p540 p541 p520 c q x,
  In c (rcalls_thread tr t rs P p530 p540 p541 p520) -> In (q, x) (rsl c) ->
  exists m, nth_error (slices_of rs) m = Some x /\ q = nth_error P m.
Proof.
  induction rs as [|r rs IH]; intros P p530 p540 p541 p520 c q x Hc Hx; cbn [rcalls_thread] in Hc; [destruct Hc|].
  destruct r as [|sl|sl|b]; cbn [slices_of flat_map app].
  - eapply IH; eauto.
  - destruct Hc as [<-|Hc].
    + cbn [rsl] in Hx. destruct (zip_in _ _ _ _ Hx) as (m & Hm & Hq). exists m. split; [apply nth_error_app_l; exact Hm|exact Hq].
    + destruct (IH _ _ _ _ _ _ _ _ Hc Hx) as (m & Hm & Hq). exists (length sl + m). split.
      * rewrite nth_error_app2 by lia. replace (length sl + m - length sl) with m by lia. exact Hm.
      * rewrite Hq. apply nth_error_skipn.
  - destruct Hc as [<-|Hc].
    + cbn [rsl] in Hx. destruct (zip_in _ _ _ _ Hx) as (m & Hm & Hq). exists m. split; [apply nth_error_app_l; exact Hm|exact Hq].
    + destruct (IH _ _ _ _ _ _ _ _ Hc Hx) as (m & Hm & Hq). exists (length sl + m). split.
      * rewrite nth_error_app2 by lia. replace (length sl + m - length sl) with m by lia. exact Hm.
      * rewrite Hq. apply nth_error_skipn.
  - destruct Hc as [<-|Hc]; [cbn [rsl] in Hx; destruct Hx|]. eapply IH; eauto.
Qed.

Lemma rcalls_in tr : forall rss t0 c, In c (rcalls tr t0 rss) ->
  exists u rs, nth_error rss u = Some rs /\
    In c (rcalls_thread tr (t0 + N.of_nat u)%N rs (positions tr 0 (t0 + N.of_nat u)%N 506) (positions tr 0 (t0 + N.of_nat u)%N 530)
            (positions tr 0 (t0 + N.of_nat u)%N 540) (positions tr 0 (t0 + N.of_nat u)%N 541) (positions tr 0 (t0 + N.of_nat u)%N 520)).
Proof.
  induction rss as [|rs r IH]; intros t0 c H; cbn [rcalls] in H; [destruct H|]. apply in_app_or in H. destruct H as [H|H].
  - exists 0, rs. rewrite N.add_0_r. auto.
  - destruct (IH _ _ H) as (u & rs' & Hu & Hc). exists (S u), rs'. split; auto.
    replace (t0 + N.of_nat (S u))%N with (t0 + 1 + N.of_nat u)%N by lia. exact Hc.
Qed.

(* ---- the ledger *)
Definition p4flag (p : pc) : nat := match p with P4 _ _ _ => 1 | _ => 0 end.
Definition acc_of (p : pc) : list (list val) :=
  match p with W1 _ _ a | W2 _ _ _ a | WS _ _ a | WD _ _ a | WN _ _ a => a | _ => [] end.
Definition all_slices (l : local) : list (list val) := slices_of (rev (results l)) ++ rev (acc_of (pcl l)).

Lemma slices_of_app a b : slices_of (a ++ b) = slices_of a ++ slices_of b.
Proof. unfold slices_of. apply flat_map_app. Qed.

Section Ledger.
  Variable B : nat.
  Hypothesis HB : 1 <= B.
  Variable fxc : bool.
  Variable ps : list (list call).
  Notation step := (step B true fxc).

  Definition wb (tr : list (N * N)) (x : val) (q : nat) : Prop :=
    exists w, nth_error (positions tr 0 (fst (fst x)) 502) (ordv ps x) = Some w /\ w < q.

  Lemma wb_mono tr e x q : wb tr x q -> wb (tr ++ [e]) x q.
  Proof. intros (w & Hw & Hq). exists w. split; auto. rewrite positions_snoc. apply nth_error_app_l. exact Hw. Qed.

  Definition Ledger (c : @config shared local) (tr : list (N * N)) : Prop :=
    (forall u l, nth_error (snd c) u = Some l ->
       length (positions tr 0 (N.of_nat u) 502) = npush (firstn (N.to_nat (cidx l)) (nth u ps [])) + p4flag (pcl l) /\
       length (positions tr 0 (N.of_nat u) 506) = length (all_slices l) /\
       forall m sl q, nth_error (all_slices l) m = Some sl -> nth_error (positions tr 0 (N.of_nat u) 506) m = Some q ->
                      forall x, In x sl -> wb tr x q /\ genuine ps x) /\
    (forall b i x, slot (heap (fst c)) b i = Some x ->
                   exists w, nth_error (positions tr 0 (fst (fst x)) 502) (ordv ps x) = Some w).

  Definition RW (c : @config shared local) (tr : list (N * N)) : Prop := All B c /\ R ps c /\ Ledger c tr.

  Lemma p4flag_enter m k td rs : p4flag (pcl (enter m k td rs)) = 0.
  Proof. destruct td as [|[]]; reflexivity. Qed.
  Lemma acc_enter m k td rs : acc_of (pcl (enter m k td rs)) = [].
  Proof. destruct td as [|[]]; reflexivity. Qed.
  Lemma results_enter m k td rs : results (enter m k td rs) = rs.
  Proof. destruct td as [|[]]; reflexivity. Qed.

  (* the push count of a thread changes only at its 502 step *)
  Lemma step_count s l s' l' p :
    skipn (N.to_nat (cidx l)) p = cur (pcl l) ++ todo l -> step s l = Some (s', l') -> site l <> 502%N ->
    npush (firstn (N.to_nat (cidx l')) p) + p4flag (pcl l') = npush (firstn (N.to_nat (cidx l)) p) + p4flag (pcl l).
  Proof.
    intros Hsk Hst Hs. unfold site in Hs.
    step_inv Hst Epc; unfold finish; rewrite ?cidx_enter, ?p4flag_enter; cbn [goto mk pcl cidx p4flag]; try lia;
      try (exfalso; apply Hs; reflexivity);
      rewrite N2Nat.inj_add; cbn [N.to_nat Pos.to_nat Pos.iter_op]; rewrite Nat.add_1_r;
      cbn [cur app] in Hsk; rewrite (npush_firstn_S p _ _ (proj2 (skipn_S _ _ _ _ Hsk))); cbn [is_push]; try lia;
      destruct clr; cbn [is_push]; lia.
  Qed.

  (* the slices handed to a thread grow only at its 506 step, by the slice read there *)
  Lemma step_slices s l s' l' : step s l = Some (s', l') ->
    (forall clr b acc, pcl l = WD clr b acc ->
       all_slices l' = all_slices l ++ [data_of (getb (heap s) b) (tones (bdone (getb (heap s) b)))]) /\
    (site l <> 506%N -> all_slices l' = all_slices l).
  Proof.
    intros Hst. unfold all_slices, site.
    step_inv Hst Epc; unfold finish; rewrite ?acc_enter, ?results_enter; cbn [goto mk pcl results acc_of rev];
      (split; [intros clr0 b0 acc0 E0; try discriminate E0|intros Hs; try (exfalso; apply Hs; reflexivity)]);
      rewrite ?slices_of_app, ?app_nil_r; cbn [slices_of flat_map walk_res app]; rewrite ?app_nil_r; auto;
      try (destruct clr; cbn [walk_res slices_of flat_map app]; rewrite ?app_nil_r; auto; fail).
    inversion E0; subst. rewrite app_assoc. reflexivity.
  Qed.

  Lemma positions_other tr t u s e : fst e = N.of_nat t -> t <> u ->
    positions (tr ++ [e]) 0 (N.of_nat u) s = positions tr 0 (N.of_nat u) s.
  Proof.
    intros E Hne. rewrite positions_snoc, E.
    replace (N.eqb (N.of_nat t) (N.of_nat u)) with false by (symmetry; apply N.eqb_neq; lia). cbn [andb]. apply app_nil_r.
  Qed.

  Lemma positions_self tr t s s0 :
    positions (tr ++ [(N.of_nat t, s0)]) 0 (N.of_nat t) s =
    positions tr 0 (N.of_nat t) s ++ (if N.eqb s0 s then [length tr] else []).
  Proof. rewrite positions_snoc. cbn [fst snd]. rewrite N.eqb_refl. reflexivity. Qed.

  Theorem RW_step : trace_step_preserves step site RW.
  Proof.
    intros s ls t l s' l' tr (HA & HR & [HL HS]) Hl Hst.
    destruct (R_step B HB fxc ps s ls t l s' l' (conj HA HR) Hl Hst) as [HA' HR'].
    split; [exact HA'|split; [exact HR'|]].
    pose proof HA as (HI & H1 & _). pose proof HR as (R1 & R2 & _). cbn [fst snd] in *.
    destruct (R1 t l Hl) as (pt & Hpt & Hsk). destruct (H1 t l Hl) as [Hme Hids].
    assert (Hnth : nth t ps [] = pt) by (apply nth_error_nth; exact Hpt).
    destruct (HL t l Hl) as (L502 & L506 & Lwb).
    destruct (step_slices s l s' l' Hst) as [Sl1 Sl2].
    set (e := (N.of_nat t, site l)).
    assert (Hmono : forall x q, wb tr x q -> wb (tr ++ [e]) x q) by (intros; apply wb_mono; auto).
    split; cbn [fst snd].
    - intros u y Hy. destruct (nth_error_upd_cases _ _ _ _ _ Hy) as [[-> ->]|[Hne E]].
      + (* the stepping thread *)
        unfold e. rewrite !positions_self. split; [|split].
        * destruct (N.eqb (site l) 502) eqn:E502.
          -- apply N.eqb_eq in E502. unfold site in E502. rewrite app_length. cbn [length].
             destruct (pcl l) eqn:Epc; try discriminate E502; try (destruct clr; discriminate E502).
             unfold Model.step in Hst. rewrite Epc in Hst. inversion Hst; subst s' l'.
             cbn [goto mk pcl cidx p4flag]. rewrite L502. cbn [p4flag]. lia.
          -- apply N.eqb_neq in E502. rewrite app_nil_r, L502, Hnth.
             symmetry. apply (step_count s l s' l' pt Hsk Hst E502).
        * destruct (N.eqb (site l) 506) eqn:E506.
          -- apply N.eqb_eq in E506. unfold site in E506.
             destruct (pcl l) eqn:Epc; try discriminate E506; try (destruct clr; discriminate E506).
             rewrite (Sl1 _ _ _ eq_refl), !app_length. cbn [length]. lia.
          -- apply N.eqb_neq in E506. rewrite app_nil_r, (Sl2 E506). exact L506.
        * intros m sl q Hm Hq x Hx.
          destruct (N.eqb (site l) 506) eqn:E506.
          -- apply N.eqb_eq in E506. unfold site in E506.
             destruct (pcl l) eqn:Epc; try discriminate E506; try (destruct clr; discriminate E506).
             rewrite (Sl1 _ _ _ eq_refl) in Hm.
             destruct (Nat.lt_ge_cases m (length (all_slices l))) as [Hlt|Hge].
             ++ rewrite nth_error_app1 in Hm by exact Hlt. rewrite nth_error_app1 in Hq by lia.
                destruct (Lwb m sl q Hm Hq x Hx) as [Hw Hg]. split; [apply Hmono; exact Hw|exact Hg].
             ++ rewrite nth_error_app2 in Hm by exact Hge. rewrite nth_error_app2 in Hq by lia.
                rewrite L506 in Hq. destruct (m - length (all_slices l)) as [|m']; [|destruct m'; discriminate Hm].
                cbn in Hm, Hq. inversion Hm; subst sl. inversion Hq; subst q.
                assert (Hb : b < length (heap s)).
                { pose proof (proj2 (proj2 HI) t l Hl) as Hp. unfold pc_ok in Hp. rewrite Epc in Hp. exact Hp. }
                destruct (delivery_reads_written_slots B HB (s, ls) b x HI Hb Hx) as (j & _ & Hs). cbn [fst] in Hs.
                split; [|apply (R2 b j x Hs)].
                destruct (HS b j x Hs) as (w & Hw). apply Hmono. exists w. split; [exact Hw|].
                apply nth_error_In in Hw. apply positions_lt in Hw. lia.
          -- apply N.eqb_neq in E506. rewrite app_nil_r in Hq. rewrite (Sl2 E506) in Hm.
             destruct (Lwb m sl q Hm Hq x Hx) as [Hw Hg]. split; [apply Hmono; exact Hw|exact Hg].
      + (* another thread: nothing of its own changes *)
        unfold e. rewrite !(positions_other tr t u) by auto. destruct (HL u y E) as (A1 & A2 & A3).
        split; [exact A1|split; [exact A2|]]. intros m sl q Hm Hq x Hx.
        destruct (A3 m sl q Hm Hq x Hx) as [Hw Hg]. split; [apply Hmono; exact Hw|exact Hg].
    - (* slots *)
      intros b i x Hx.
      destruct (slot_new B HB fxc s ls t l s' l' b i x HI Hl Hst Hx) as [Hold|(b0 & i0 & Epc)].
      + destruct (HS b i x Hold) as (w & Hw). exists w. rewrite positions_snoc. apply nth_error_app_l. exact Hw.
      + destruct (Hids x ltac:(rewrite Epc; reflexivity)) as [Hx1 Hx2].
        exists (length tr). unfold e. rewrite Hx1, Hme, positions_self. unfold site. rewrite Epc. cbn [N.eqb Pos.eqb].
        assert (Eo : ordv ps x = length (positions tr 0 (N.of_nat t) 502)).
        { unfold ordv. rewrite Hx1, Hx2, Hme, Nat2N.id, L502, Epc. cbn [p4flag]. lia. }
        rewrite Eo, nth_error_app2 by lia. rewrite Nat.sub_diag. reflexivity.
  Qed.

  Theorem RW_noop : trace_noop_preserves RW.
  Proof.
    intros c tr t (HA & HR & [HL HS]). split; [exact HA|split; [exact HR|]].
    assert (P : forall u s, s <> noop_site -> positions (tr ++ [(N.of_nat t, noop_site)]) 0 u s = positions tr 0 u s).
    { intros u s Hs. rewrite positions_snoc. cbn [fst snd].
      replace (N.eqb noop_site s) with false by (symmetry; apply N.eqb_neq; auto). rewrite andb_false_r. apply app_nil_r. }
    assert (N1 : 502%N <> noop_site) by (unfold noop_site; discriminate).
    assert (N2 : 506%N <> noop_site) by (unfold noop_site; discriminate).
    split.
    - intros u l Hl. rewrite !P by auto. destruct (HL u l Hl) as (A1 & A2 & A3). split; [exact A1|split; [exact A2|]].
      intros m sl q Hm Hq x Hx. destruct (A3 m sl q Hm Hq x Hx) as [Hw Hg]. split; [apply wb_mono; exact Hw|exact Hg].
    - intros b i x Hx. rewrite P by auto. apply (HS b i x Hx).
  Qed.

  Lemma RW_init : RW (init_config ps) [].
  Proof.
    split; [exact (All_init B HB fxc ps)|split; [exact (R_init B HB ps)|]]. split.
    - intros u l Hl. cbn [snd init_config] in Hl. destruct (init_local_facts _ _ _ _ Hl) as (p & Hp & E1 & E2 & _).
      assert (Er : results l = []).
      { revert Hl. generalize 0%N. clear. revert u. induction ps as [|q r IH]; intros u n H; destruct u; cbn in H; try discriminate.
        - inversion H. reflexivity. - eapply IH; eauto. }
      unfold all_slices. rewrite E1, E2, Er. cbn. split; [reflexivity|split; [reflexivity|]]. intros m sl q Hm. destruct m; discriminate.
    - intros b i x E. cbn in E. rewrite slot_out in E by (cbn; lia). discriminate.
  Qed.
End Ledger.

(* ---- clause S2 (thread slices) on the model *)
Theorem spec_written_before_read_on_model (c : case) :
  let '(tr, rss, _, _, _) := run_case c in
  forallb (fun rc => forallb (fun qs => slice_genuine (pinfos tr 0 (progs_of c)) (fst qs) (snd qs) &&
                                         match fst qs with Some _ => true | None => false end) (rsl rc))
          (rcalls tr 0 rss) = true.
Proof.
  unfold run_case, out_gen. assert (HB : 1 <= BS) by (unfold BS; lia).
  pose proof (exec_full_trace (step BS true true) site (RW BS (progs_of c)) (RW_step BS HB true (progs_of c))
                (RW_noop BS (progs_of c)) rr_fuel (map N.to_nat (snd c)) (init_config (progs_of c))
                (RW_init BS HB true (progs_of c))) as H.
  fold (run_gen BS true true c) in H. destruct (run_gen BS true true c) as [cf tr]. cbn [fst snd] in H.
  destruct H as (_ & _ & [HL _]).
  apply forallb_forall. intros rc Hrc. apply forallb_forall. intros [q sl] Hq. cbn [fst snd].
  destruct (rcalls_in tr _ _ _ Hrc) as (u & rs & Hu & Hc). rewrite N.add_0_l in Hc.
  rewrite nth_error_map in Hu. destruct (nth_error (snd cf) u) as [l|] eqn:El; [|discriminate]. cbn in Hu. inversion Hu; subst rs.
  destruct (rcalls_thread_rsl tr _ _ _ _ _ _ _ _ _ _ Hc Hq) as (m & Hm & Eq).
  destruct (HL u l El) as (_ & L506 & Lwb).
  assert (Hm' : nth_error (all_slices l) m = Some sl) by (apply nth_error_app_l; exact Hm).
  assert (Hlt : m < length (positions tr 0 (N.of_nat u) 506)).
  { rewrite L506. apply nth_error_Some. congruence. }
  destruct (nth_error (positions tr 0 (N.of_nat u) 506) m) as [qq|] eqn:Eqq; [|apply nth_error_None in Eqq; lia].
  subst q. rewrite andb_true_r. unfold slice_genuine. apply forallb_forall. intros x Hx.
  destruct (Lwb m sl qq Hm' Eqq x Hx) as [(w & Hw & Hwq) (p & Hp & Hk)].
  destruct x as [[xt xk] xv]. cbn [fst snd] in *.
  destruct (pinfos_find tr (progs_of c) 0%N (N.to_nat xt) p (N.to_nat xk) xv Hp Hk) as (i & Hf & Hpw).
  rewrite N.add_0_l in Hf, Hpw. repeat rewrite N2Nat.id in Hf. repeat rewrite N2Nat.id in Hpw. rewrite Hf, Hpw.
  unfold ordv in Hw. cbn [fst snd] in Hw. rewrite (nth_error_nth _ _ _ Hp) in Hw. rewrite Hw.
  apply Nat.ltb_lt. exact Hwq.
Qed.
