(* C05 — executable entry points for the correspondence check (schedule replay). *)
From Coq Require Import List NArith Bool Arith.
Import ListNotations.
Require Export MV.Common.Interleave MV.C05.Model MV.C05.Spec.
Open Scope N_scope.

(* API calls of a case.  Besides the four calls of the machine, the HistogramFn entry points of the
   bucket (metrics-util/src/storage/mod.rs): record(v) = push(v) (an [XCall (CPush v)]), and
   record_many(v, n) - the trait's default: n times record(v) - which the machine runs as n
   consecutive push calls, each with its own call index (= its own ghost identity); n = 0 is no
   call at all. *)
Inductive xcall := XCall (c : call) | XMany (v n : N).
Definition expand_prog (p : list xcall) : list call :=
  flat_map (fun x => match x with XCall c => [c] | XMany v n => repeat (CPush v) (N.to_nat n) end) p.
Definition plain (ps : list (list call)) : list (list xcall) := map (map XCall) ps.

(* a case: the per-thread programs and a schedule (thread indices) *)
Definition case := (list (list xcall) * list N)%type.
Definition progs_of (c : case) : list (list call) := map expand_prog (fst c).

(* observable: step trace, per-thread results (oldest first), everybody finished, the slices a
   final single-threaded data_with shows, anomaly count reported by the driver *)
Definition OUT := (list (N * N) * list (list res) * bool * list (list val) * N)%type.

Definition BS : nat := 64.            (* BLOCK_SIZE on 64-bit targets *)
Definition rr_fuel : nat := 3000.     (* rounds of the round-robin tail *)

(* the final sequential read: a dedicated thread running one data_with alone.  Its fuel (rounds =
   steps, there is one thread) is derived from the state: the reader spends 2 steps before the first
   block and at most 4 per block, and block ids strictly decrease along the chain, so
   4 * (number of blocks ever allocated) + 8 always suffices when nothing is in flight
   (ProofsTrace6.final_read_finishes).  It used to be the constant 400: a live chain of more than
   ~133 blocks then made the model's final read give up and return [] (DESIGN.md Appendix B). *)
Definition final_fuel (s : shared) : nat := 4 * length (heap s) + 8.
Definition final_data (B : nat) (fxa fxc : bool) (s : shared) : list (list val) :=
  let '(cf, _) := exec_rr (step B fxa fxc) site (final_fuel s) (s, [init_local 4294967295 [CData]]) in
  match snd cf with
  | [l] => match results l with [RData sl] => sl | _ => [] end
  | _ => []
  end.

Definition run_gen (B : nat) (fxa fxc : bool) (c : case) : (@config shared local) * list (N * N) :=
  exec_full (step B fxa fxc) site rr_fuel (init_config (progs_of c)) (map N.to_nat (snd c)).

Definition out_gen (B : nat) (fxa fxc : bool) (c : case) : OUT :=
  let '(cf, tr) := run_gen B fxa fxc c in
  (tr, map (fun l => rev (results l)) (snd cf), all_done (step B fxa fxc) cf, final_data B fxa fxc (fst cf), 0).

Definition run_case (c : case) : OUT := out_gen BS true true c.

Fixpoint list_eqb {A} (eqb : A -> A -> bool) (a b : list A) : bool :=
  match a, b with
  | [], [] => true
  | x :: r, y :: r' => eqb x y && list_eqb eqb r r'
  | _, _ => false
  end.
Definition pair_eqb (a b : N * N) : bool := (fst a =? fst b) && (snd a =? snd b).
Definition res_eqb (a b : res) : bool :=
  match a, b with
  | RPush, RPush => true
  | RData x, RData y | RClear x, RClear y => list_eqb (list_eqb val_eqb) x y
  | REmpty x, REmpty y => Bool.eqb x y
  | _, _ => false
  end.
Definition out_eqb (a b : OUT) : bool :=
  let '(t1, r1, d1, f1, n1) := a in let '(t2, r2, d2, f2, n2) := b in
  list_eqb pair_eqb t1 t2 && list_eqb (list_eqb res_eqb) r1 r2 && Bool.eqb d1 d2
  && list_eqb (list_eqb val_eqb) f1 f2 && (n1 =? n2).

Definition spec_ok (c : case) (o : OUT) : bool :=
  let '(tr, rss, done, final, anom) := o in spec_run (progs_of c) tr rss done final anom.

(* open known finding C05-late-claim (class 1): in the model's execution of the case some
   fetch_add returns an index < B on a block that is not reachable from `tail` any more *)
Definition late_claim_gen (B : nat) (fxa fxc : bool) (c : case) : bool := late (fst (fst (run_gen B fxa fxc c))).
Definition known_class (c : case) : option N := if late_claim_gen BS true true c then Some 1 else None.

Definition verdicts (l : list (N * case * OUT)) : list (N * bool * bool * option N) :=
  map (fun '(i, c, o) => (i, out_eqb (run_case c) o, spec_ok c o, known_class c)) l.
