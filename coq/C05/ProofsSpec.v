(* C05 — what the executable checker means, and the part of "the model satisfies the checker"
   that follows from the proved invariants.
   spec_ok_sound: spec_ok = true on an observed run implies, at the Prop level: no anomaly, the
   results have the shape of the programs, no identity handed to clearing reads twice, the final
   read has no duplicates, and - when everybody finished - the identities of all push calls of
   the programs are exactly (no duplicates, same number, all present) those handed to clears
   plus those of the final read.  (The clauses about trace positions - written-before-read,
   snapshot completeness, claim order - are not given a Prop-level reading here.)
   no_double_clear_on_model: clause S1 (no identity handed to clears twice) holds on the model's
   run of EVERY case, by C05_no_identity_cleared_twice.                                        *)
From Coq Require Import List NArith Bool Arith Lia.
Import ListNotations.
Require Import MV.Common.Interleave MV.C05.Model MV.C05.Spec MV.C05.Exec.
Require Import MV.C05.ProofsSeq MV.C05.ProofsInv MV.C05.ProofsCor MV.C05.ProofsUniq.
Local Open Scope nat_scope.

Definition cleared_out (rss : list (list res)) : list val := flat_map (flat_map res_cleared) rss.
Definition all_pushes (ps : list (list call)) (t : N) : list val :=
  (fix go (ps : list (list call)) (t : N) := match ps with [] => [] | p :: r => push_calls t p 0 ++ go r (t + 1)%N end) ps t.

Lemma id_eqb_iff a b : id_eqb a b = true <-> vid a = vid b.
Proof.
  destruct a as [[a1 a2] a3], b as [[b1 b2] b3]. unfold id_eqb, vid. cbn. rewrite andb_true_iff, !N.eqb_eq.
  split; [intros [-> ->]; reflexivity|intros E; inversion E; auto].
Qed.

Lemma memb_iff x l : memb x l = true <-> In (vid x) (map vid l).
Proof.
  unfold memb. rewrite existsb_exists, in_map_iff. split.
  - intros (y & Hy & E). exists y. apply id_eqb_iff in E. auto.
  - intros (y & E & Hy). exists y. split; auto. apply id_eqb_iff. auto.
Qed.

Lemma nodupb_iff l : nodupb l = true <-> NoDup (map vid l).
Proof.
  induction l as [|x r IH]; cbn; [split; [constructor|reflexivity]|].
  rewrite andb_true_iff, negb_true_iff, IH. split.
  - intros [H1 H2]. constructor; auto. intros Hin. apply memb_iff in Hin. congruence.
  - intros H. inversion H; subst. split; auto. destruct (memb x r) eqn:E; auto. apply memb_iff in E. contradiction.
Qed.

Lemma handed_zip sl ps : flat_map snd (zip_slices sl ps) = concat sl.
Proof. revert ps. induction sl as [|x r IH]; intros ps; cbn; auto. rewrite IH. reflexivity. Qed.

Lemma cleared_thread tr t rs : forall p506 p530 p540 p541 p520,
  flat_map handed (filter is_clear (rcalls_thread tr t rs p506 p530 p540 p541 p520)) = flat_map res_cleared rs.
Proof.
  induction rs as [|r rs IH]; intros; cbn [rcalls_thread]; auto.
  destruct r as [|sl|sl|b]; [apply IH| | |destruct b];
    cbn [filter]; unfold is_clear at 1; cbn [rkind N.eqb Pos.eqb]; cbn [flat_map res_cleared app]; try apply IH.
  unfold handed at 1. cbn [rsl]. rewrite handed_zip, IH. reflexivity.
Qed.

Lemma cleared_rcalls tr : forall rss t, flat_map handed (filter is_clear (rcalls tr t rss)) = cleared_out rss.
Proof.
  induction rss as [|rs r IH]; intros t; cbn [rcalls]; auto.
  rewrite filter_app, flat_map_app, cleared_thread, IH. reflexivity.
Qed.

Lemma px_zip xs c w d : map px (zip_pinfo xs c w d) = xs.
Proof. revert w d. induction xs as [|x r IH]; intros; cbn; auto. rewrite IH. reflexivity. Qed.

Lemma px_pinfos tr : forall ps t, map px (pinfos tr t ps) = all_pushes ps t.
Proof. induction ps as [|p r IH]; intros t; cbn; auto. rewrite map_app, px_zip, IH. reflexivity. Qed.

Theorem spec_ok_sound ps tr rss done final anom :
  spec_run ps tr rss done final anom = true ->
  anom = 0%N /\ all2 follows ps rss = true /\
  NoDup (map vid (cleared_out rss)) /\ NoDup (map vid (concat final)) /\
  (done = true ->
     NoDup (map vid (cleared_out rss ++ concat final)) /\
     (forall x, In x (all_pushes ps 0) -> In (vid x) (map vid (cleared_out rss ++ concat final))) /\
     length (cleared_out rss ++ concat final) = length (all_pushes ps 0)).
Proof.
  unfold spec_run. cbv zeta. rewrite !andb_true_iff. rewrite cleared_rcalls.
  intros ((((((((((H0 & H0') & H1) & H1') & H1'') & _) & _) & _) & _) & _) & H5).
  split; [apply N.eqb_eq; exact H0|]. split; [exact H0'|].
  split; [apply nodupb_iff; exact H1|]. split; [apply nodupb_iff; exact H1''|].
  intros ->. rewrite !andb_true_iff in H5. destruct H5 as ((Ha & Hb) & Hc).
  split; [apply nodupb_iff; exact Ha|]. split.
  - intros x Hx. rewrite <- (px_pinfos tr) in Hx. apply in_map_iff in Hx. destruct Hx as (i & <- & Hi).
    rewrite forallb_forall in Hb. apply memb_iff. apply Hb. exact Hi.
  - apply Nat.eqb_eq in Hc. rewrite Hc, <- (px_pinfos tr), map_length. reflexivity.
Qed.

(* ---- clause S1 on the model, every case *)
Lemma cntl_flat_map_rev {A} id (g : A -> list val) (l : list A) : cntl id (flat_map g (rev l)) = cntl id (flat_map g l).
Proof.
  induction l as [|a r IH]; cbn [rev flat_map]; auto.
  rewrite flat_map_app, !cntl_app, IH. cbn [flat_map]. rewrite app_nil_r. lia.
Qed.

Lemma cntl_threads id (g : local -> list val) ls : cntl id (flat_map g ls) = sumf (fun l => cntl id (g l)) ls.
Proof. induction ls as [|a r IH]; cbn [flat_map sumf]; auto. rewrite cntl_app, IH. reflexivity. Qed.

Lemma sumf_le {A} (f g : A -> nat) ls : (forall x, f x <= g x) -> sumf f ls <= sumf g ls.
Proof. intros H. induction ls as [|a r IH]; cbn; auto. specialize (H a). lia. Qed.

Theorem no_double_clear_on_model (c : case) :
  let '(tr, rss, _, _, _) := run_case c in
  nodupb (flat_map handed (filter is_clear (rcalls tr 0 rss))) = true.
Proof.
  unfold run_case, out_gen. destruct (run_gen BS true true c) as [cf tr] eqn:E.
  rewrite cleared_rcalls. apply nodupb_iff. apply (NoDup_count_occ NN_dec). intros id.
  assert (HB : 1 <= BS) by (unfold BS; lia).
  assert (HA : All BS cf).
  { replace cf with (fst (run_gen BS true true c)) by (rewrite E; reflexivity). unfold run_gen.
    apply invariant_exec_full; [exact (All_step BS HB true)|exact (All_init BS HB true (progs_of c))]. }
  destruct HA as (_ & _ & _ & _ & _ & [H5 _]). specialize (H5 id).
  change (count_occ NN_dec (map vid (cleared_out (map (fun l => rev (results l)) (snd cf)))) id)
    with (cntl id (cleared_out (map (fun l => rev (results l)) (snd cf)))).
  unfold cleared_out. rewrite flat_map_concat_map, map_map, <- flat_map_concat_map, cntl_threads.
  eapply Nat.le_trans; [|exact H5]. apply sumf_le. intros l. rewrite cntl_flat_map_rev.
  unfold cnt, cleared_local. rewrite cntl_app. lia.
Qed.
