(* C05 — the link to the thread programs, for every schedule:
   (R1) a thread is always at the call of its program that its call index names;
   (R2) no fabrication: every value found in a slot is the value a push call of the program was
        given, tagged with that call's (thread, index);
   (R3) every COMPLETED push call (index below the thread's call index) has its value in a
        published slot.                                                                        *)
From Coq Require Import List NArith Bool Arith Lia.
Import ListNotations.
Require Import MV.Common.Interleave MV.C05.Model MV.C05.ProofsSeq MV.C05.ProofsInv MV.C05.ProofsCor MV.C05.ProofsUniq MV.C05.ProofsCons.
Local Open Scope nat_scope.

(* the call a program counter belongs to *)
Definition cur (p : pc) : list call :=
  match p with
  | Start | Done => []
  | P0 x | P1 x | P2 x _ _ | P3 x _ _ | P4 x _ _ | P5 x _ | P6 x _ _ => [CPush (snd x)]
  | W0 clr | W1 clr _ _ | W2 clr _ _ _ | WS clr _ _ | WD clr _ _ | WN clr _ _ => [if clr then CClear else CData]
  | C1 _ => [CClear]
  | E0 | E1 _ | E2 _ | E3 _ => [CEmpty]
  end.

Definition genuine (ps : list (list call)) (x : val) : Prop :=
  exists p, nth_error ps (N.to_nat (fst (fst x))) = Some p /\ nth_error p (N.to_nat (snd (fst x))) = Some (CPush (snd x)).

Section Prog.
  Variable B : nat.
  Hypothesis HB : 1 <= B.
  Variable fxc : bool.
  Variable ps : list (list call).
  Notation step := (step B true fxc).

  Definition at_call (u : nat) (l : local) : Prop :=
    exists p, nth_error ps u = Some p /\ skipn (N.to_nat (cidx l)) p = cur (pcl l) ++ todo l.

  Definition R (c : @config shared local) : Prop :=
    (forall u l, nth_error (snd c) u = Some l -> at_call u l) /\
    (forall b i x, slot (heap (fst c)) b i = Some x -> genuine ps x) /\
    (forall u l p k v, nth_error (snd c) u = Some l -> nth_error ps u = Some p -> k < N.to_nat (cidx l) ->
                       nth_error p k = Some (CPush v) ->
                       exists b i, slot (heap (fst c)) b i = Some (N.of_nat u, N.of_nat k, v) /\ pub (heap (fst c)) b i).

  Lemma skipn_S {A} (p : list A) k c r : skipn k p = c :: r -> skipn (S k) p = r /\ nth_error p k = Some c.
  Proof.
    revert k. induction p as [|a q IH]; intros [|k] H; cbn in *; try discriminate.
    - inversion H; subst. auto.
    - apply IH. exact H.
  Qed.

  Lemma cur_enter m k td rs : cur (pcl (enter m k td rs)) ++ todo (enter m k td rs) = td.
  Proof. destruct td as [|[] r]; reflexivity. Qed.

  (* one step keeps the thread at the right call; if the call index moves it moves by one, past
     the call [c] the thread was in *)
  Lemma step_at_call s l s' l' p :
    skipn (N.to_nat (cidx l)) p = cur (pcl l) ++ todo l -> step s l = Some (s', l') ->
    skipn (N.to_nat (cidx l')) p = cur (pcl l') ++ todo l' /\
    (cidx l' = cidx l \/ (cidx l' = (cidx l + 1)%N /\ exists c, cur (pcl l) = [c])).
  Proof.
    intros H Hst. step_inv Hst Epc; unfold finish; rewrite ?cur_enter, ?cidx_enter; cbn [goto mk pcl cidx todo cur] in *;
      try (split; [exact H|left; reflexivity]; fail);
      try (split; [destruct clr; exact H|left; reflexivity]; fail);
      try (rewrite N2Nat.inj_add; cbn [N.to_nat Pos.to_nat Pos.iter_op]; rewrite Nat.add_1_r;
           split; [apply (skipn_S _ _ _ _ H)|right; split; [reflexivity|eauto]]; fail).
  Qed.

  (* a slot value after a step was there before, or is the value written by this very step *)
  Lemma slot_new s ls t l s' l' b i x :
    Inv B (s, ls) -> nth_error ls t = Some l -> step s l = Some (s', l') ->
    slot (heap s') b i = Some x -> slot (heap s) b i = Some x \/ exists b0 i0, pcl l = P3 x b0 i0.
  Proof.
    intros HI Hl Hst Hx. pose proof HI as (HO & HC & HP). cbn [fst snd] in *.
    pose proof (HP t l Hl) as Hpl. unfold pc_ok in Hpl.
    step_inv Hst Epc; cbn [heap with_heap] in Hx; auto;
      try (rewrite slot_app in Hx; auto; fail);
      try (rewrite slot_setb_same in Hx by (try tauto; reflexivity); auto; fail);
      try contradiction.
    (* 502 *)
    destruct Hpl as (Hb & Hi & Hnone). unfold slot in *. rewrite getb_setb in Hx by exact Hb.
    destruct (Nat.eqb b b0) eqn:E1; [|left; exact Hx]. apply Nat.eqb_eq in E1. subst b0. cbn [bslot] in Hx.
    destruct (Nat.eq_dec i i0) as [->|Hne].
    - rewrite nth_set_nth_same in Hx by (destruct (proj1 HO b Hb); lia). inversion Hx; subst. right. eauto.
    - rewrite nth_set_nth_other in Hx by auto. left. exact Hx.
  Qed.

  (* the call index moves past a push call only at the publication step *)
  Lemma step_finish_push s ls t l s' l' v :
    Inv B (s, ls) -> nth_error ls t = Some l -> step s l = Some (s', l') ->
    cidx l' = (cidx l + 1)%N -> cur (pcl l) = [CPush v] ->
    exists x b i, pcl l = P4 x b i /\ snd x = v /\ slot (heap s') b i = Some x /\ pub (heap s') b i.
  Proof.
    intros HI Hl Hst Hc Hcur. pose proof HI as (HO & HC & HP). cbn [fst snd] in *.
    pose proof (HP t l Hl) as Hpl. unfold pc_ok in Hpl.
    step_inv Hst Epc; unfold finish in Hc; rewrite ?cidx_enter in Hc; cbn [goto mk cidx] in Hc; try lia;
      cbn [cur] in Hcur; try discriminate Hcur; try (destruct clr; discriminate Hcur).
    destruct Hpl as (Hb & Hi & Hsome). destruct (proj1 HO b Hb) as [Ld Ls].
    exists x, b, i. inversion Hcur. repeat split; auto.
    - unfold slot. cbn [heap with_heap]. rewrite getb_setb_same by exact Hb. cbn [bslot]. exact Hsome.
    - unfold pub. cbn [heap with_heap]. rewrite getb_setb_same by exact Hb. cbn [bdone]. apply nth_set_nth_same. lia.
  Qed.

  Theorem R_step : step_preserves step (fun c => All B c /\ R c).
  Proof.
    intros s ls t l s' l' [HA (R1 & R2 & R3)] Hl Hst. split; [eapply (All_step B HB fxc); eauto|].
    pose proof HA as (HI & H1 & _). pose proof HI as (HO & HC & HP). cbn [fst snd] in *.
    destruct (H1 t l Hl) as [Hme Hids]. destruct (R1 t l Hl) as (pt & Hpt & Hsk).
    destruct (step_at_call s l s' l' pt Hsk Hst) as [Hsk' Hcidx].
    split; [|split]; cbn [fst snd].
    - intros u y Hy. destruct (nth_error_upd_cases _ _ _ _ _ Hy) as [[-> ->]|[Hne E]]; [exists pt; auto|eauto].
    - intros b i x Hx. destruct (slot_new s ls t l s' l' b i x HI Hl Hst Hx) as [Hold|(b0 & i0 & Epc)]; [eauto|].
      destruct (Hids x ltac:(rewrite Epc; reflexivity)) as [Hx1 Hx2].
      exists pt. rewrite Hx1, Hme, Nat2N.id, Hx2. split; [exact Hpt|].
      rewrite Epc in Hsk. cbn [cur app] in Hsk. apply (skipn_S _ _ _ _ Hsk).
    - intros u y p k v Hy Hp Hk Hnk.
      assert (Hmono : forall b i x, slot (heap s) b i = Some x -> pub (heap s) b i ->
                                    slot (heap s') b i = Some x /\ pub (heap s') b i).
      { intros b i x Hs Hpb. split; [eapply (slot_mono B HB fxc); eauto|].
        assert (Hb : b < length (heap s)) by (eapply slot_lt; eauto).
        apply (proj1 (step_block B HB fxc s ls t l s' l' b HI Hl Hst Hb)). exact Hpb. }
      destruct (nth_error_upd_cases _ _ _ _ _ Hy) as [[-> ->]|[Hne E]].
      + rewrite Hpt in Hp. inversion Hp; subst p.
        destruct Hcidx as [Ec|[Ec (c & Hcur)]].
        * rewrite Ec in Hk. destruct (R3 t l pt k v Hl Hpt Hk Hnk) as (b & i & Hs & Hpb).
          exists b, i. apply Hmono; auto.
        * rewrite Ec, N2Nat.inj_add in Hk. cbn [N.to_nat Pos.to_nat Pos.iter_op] in Hk.
          destruct (Nat.eq_dec k (N.to_nat (cidx l))) as [->|Hne].
          -- rewrite Hcur in Hsk. cbn [app] in Hsk. destruct (skipn_S _ _ _ _ Hsk) as [_ Hn]. rewrite Hn in Hnk. inversion Hnk; subst c.
             destruct (step_finish_push s ls t l s' l' v HI Hl Hst Ec Hcur) as (x & b & i & Epc & Hv & Hs & Hpb).
             destruct (Hids x ltac:(rewrite Epc; reflexivity)) as [Hx1 Hx2].
             exists b, i. split; [|exact Hpb]. rewrite Hs. f_equal.
             destruct x as [[xt xk] xv]. cbn [fst snd] in *. subst. rewrite N2Nat.id, Hme. reflexivity.
          -- destruct (R3 t l pt k v Hl Hpt ltac:(lia) Hnk) as (b & i & Hs & Hpb). exists b, i. apply Hmono; auto.
      + destruct (R3 u y p k v E Hp Hk Hnk) as (b & i & Hs & Hpb). exists b, i. apply Hmono; auto.
  Qed.

  Lemma init_local_facts : forall n qs u l, nth_error (init_locals n qs) u = Some l ->
    exists p, nth_error qs u = Some p /\ pcl l = Start /\ cidx l = 0%N /\ todo l = p.
  Proof.
    intros n qs. revert n. induction qs as [|q r IH]; intros n u l H; destruct u; cbn in H; try discriminate.
    - inversion H; subst. exists q. cbn. auto.
    - apply (IH _ _ _ H).
  Qed.

  Lemma R_init : R (init_config ps).
  Proof.
    unfold R, init_config, init_shared. cbn [fst snd heap]. split; [|split].
    - intros u l Hl. destruct (init_local_facts _ _ _ _ Hl) as (p & Hp & E1 & E2 & E3). exists p. split; auto.
      rewrite E1, E2, E3. reflexivity.
    - intros b i x E. rewrite slot_out in E by (cbn; lia). discriminate.
    - intros u l p k v Hl _ Hk. destruct (init_local_facts _ _ _ _ Hl) as (p' & _ & _ & E2 & _).
      rewrite E2 in Hk. cbn in Hk. lia.
  Qed.

  Theorem reachable_R sched : R (fst (exec step site (init_config ps) sched)).
  Proof.
    apply (invariant_all_schedules step site (fun c => All B c /\ R c) R_step sched (init_config ps)).
    split; [apply (All_init B HB fxc)|apply R_init].
  Qed.
End Prog.
