(* C05 — AtomicBucket (metrics-util/src/storage/bucket.rs) as an interleaving machine.

   One model step = one shared-memory access of the source = one yield site of the hook commit:
     Block::push            501 write.fetch_add   502 slot write   503 read.fetch_or
     Block::is_quiesced     504 read.load (len)   505 write.load
     Block::data            506 read.load (len) ; the callback f(data) runs inside this step
     Block::next_has_completed_writes (next_len before fix 1a8142c)
                            507 next.load         508 read.load of the next block
     AtomicBucket::push     510 tail.load   511 CAS null->fresh   512 CAS tail->fresh
                            (513 next.store of the fresh block: only BEFORE the fix, [fxa = false];
                             since the fix the link is written on the still private block and is
                             part of step 512)
     is_empty               520 tail.load   521 read.load of the head, then while a block shows nothing:
                            507 next.load   508 read.load of that next block (loop since fix 0248974)
     data_with              530 tail.load   531 spin (one iteration of the wait loop)   532 next.load
     clear_with             540 tail.load   541 CAS tail->null   542 spin   543 next.load
   The block size is the parameter [B]; [fxa]/[fxc] select the code after (true) / before (false)
   the fix: commits (fxa: hand-over link order f69617a; fxc: is_empty looking at the whole bitmap
   1a8142c AND walking the whole chain 0248974; the intermediate code - whole bitmap, one look-back -
   is ProofsEmpty.step_lookback1).
   Every pushed value is a triple (thread, index of the call in the thread's program, payload):
   the ghost identity is part of the value (the driver's value type carries the same triple).
   Blocks are never reused (epoch reclamation is not modelled): a block id is its heap position.
   Ghost state (never read by control flow): [late].                                             *)
From Coq Require Import List NArith Bool Arith.
Import ListNotations.
Require Import MV.Common.Interleave.

Definition val := (N * N * N)%type.

Record block := { bw : nat; bdone : list bool; bslot : list (option val); bnxt : option nat }.

Inductive call := CPush (v : N) | CData | CClear | CEmpty.
Inductive res :=
| RPush
| RData (sl : list (list val))      (* slices handed to the data_with callback, in order *)
| RClear (sl : list (list val))     (* slices handed to the clear_with callback, in order *)
| REmpty (b : bool).

Inductive pc :=
| Start
| P0 (x : val)                              (* 510 *)
| P1 (x : val)                              (* 511 *)
| P2 (x : val) (b : nat) (second : bool)    (* 501; second = the block this thread just installed *)
| P3 (x : val) (b : nat) (i : nat)          (* 502 *)
| P4 (x : val) (b : nat) (i : nat)          (* 503 *)
| P5 (x : val) (b : nat)                    (* 512 *)
| P6 (x : val) (b nb : nat)                 (* 513, before the fix only *)
| W0 (clr : bool)                           (* 530 / 540 *)
| C1 (b : nat)                              (* 541 *)
| W1 (clr : bool) (b : nat) (acc : list (list val))               (* 504 *)
| W2 (clr : bool) (b : nat) (len : nat) (acc : list (list val))   (* 505 *)
| WS (clr : bool) (b : nat) (acc : list (list val))               (* 531 / 542 *)
| WD (clr : bool) (b : nat) (acc : list (list val))               (* 506 *)
| WN (clr : bool) (b : nat) (acc : list (list val))               (* 532 / 543 *)
| E0                                        (* 520 *)
| E1 (b : nat)                              (* 521 *)
| E2 (b : nat)                              (* 507 *)
| E3 (nb : nat)                             (* 508 *)
| Done.

Record local := { me : N; pcl : pc; todo : list call; cidx : N; results : list res (* newest first *) }.
Record shared := { heap : list block; tail : option nat; late : bool }.

Definition garbage : val := (4294967295, 4294967295, 4294967295)%N.

(* ---- list / heap helpers *)
Fixpoint set_nth {A} (l : list A) (i : nat) (x : A) : list A :=
  match l, i with
  | [], _ => []
  | _ :: r, O => x :: r
  | y :: r, S i' => y :: set_nth r i' x
  end.

(* usize::trailing_ones of the read bitmap *)
Fixpoint tones (l : list bool) : nat :=
  match l with true :: r => S (tones r) | _ => O end.

Definition empty_block : block := {| bw := 0; bdone := []; bslot := []; bnxt := None |}.
Definition getb (h : list block) (b : nat) : block := nth b h empty_block.
Definition setb (h : list block) (b : nat) (k : block) : list block := set_nth h b k.

Definition slot_val (o : option val) : val := match o with Some v => v | None => garbage end.
(* &slots[0..len] *)
Definition data_of (k : block) (len : nat) : list val := map slot_val (firstn len (bslot k)).

(* is b reachable from the tail pointer? (ghost; fuel = heap size) *)
Fixpoint reach_from (h : list block) (fuel : nat) (o : option nat) (b : nat) : bool :=
  match fuel, o with
  | _, None => false
  | O, _ => false
  | S f, Some c => if Nat.eqb c b then true else reach_from h f (bnxt (getb h c)) b
  end.
Definition reachable (s : shared) (b : nat) : bool := reach_from (heap s) (length (heap s)) (tail s) b.

Section Machine.
  Variable B : nat.           (* BLOCK_SIZE *)
  Variable fxa fxc : bool.    (* true = the code after the respective fix: commit *)

  Definition newb (nx : option nat) : block :=
    {| bw := 0; bdone := repeat false B; bslot := repeat None B; bnxt := nx |}.

  Definition mk (m : N) (p : pc) (td : list call) (k : N) (rs : list res) : local :=
    {| me := m; pcl := p; todo := td; cidx := k; results := rs |}.

  Definition enter (m k : N) (td : list call) (rs : list res) : local :=
    match td with
    | [] => mk m Done [] k rs
    | CPush v :: rest => mk m (P0 (m, k, v)) rest k rs
    | CData :: rest => mk m (W0 false) rest k rs
    | CClear :: rest => mk m (W0 true) rest k rs
    | CEmpty :: rest => mk m E0 rest k rs
    end.
  Definition finish (l : local) (r : res) : local := enter (me l) (cidx l + 1)%N (todo l) (r :: results l).
  Definition goto (l : local) (p : pc) : local := mk (me l) p (todo l) (cidx l) (results l).

  Definition walk_res (clr : bool) (acc : list (list val)) : res :=
    if clr then RClear (rev acc) else RData (rev acc).

  Definition with_heap (s : shared) (h : list block) : shared := {| heap := h; tail := tail s; late := late s |}.

  (* Block::len() == 0 (before fxc) / the bitmap is all zero (since fxc) *)
  Definition looks_empty (k : block) : bool :=
    if fxc then negb (existsb (fun x => x) (bdone k)) else Nat.eqb (tones (bdone k)) 0.

  (* 508: the bitmap of a block behind the head.  Since fix 0248974 (fxc, together with the whole-bitmap
     test of 1a8142c) is_empty walks the whole chain: a block that shows nothing sends the thread on
     to that block's link (507 again); before, the answer was given after this one look-back. *)
  Definition e3_next (l : local) (nb : nat) (e : bool) : local :=
    if fxc then (if e then goto l (E2 nb) else finish l (REmpty false)) else finish l (REmpty e).

  Definition step (s : shared) (l : local) : option (shared * local) :=
    match pcl l with
    | Start => Some (s, enter (me l) (cidx l) (todo l) (results l))
    | P0 x =>
        match tail s with
        | None => Some (s, goto l (P1 x))
        | Some b => Some (s, goto l (P2 x b false))
        end
    | P1 x =>
        match tail s with
        | None =>
            let nb := length (heap s) in
            Some ({| heap := heap s ++ [newb None]; tail := Some nb; late := late s |}, goto l (P2 x nb false))
        | Some b => Some (s, goto l (P2 x b false))      (* lost the race: use the winner's block *)
        end
    | P2 x b second =>
        let k := getb (heap s) b in
        let i := bw k in
        let k' := {| bw := S i; bdone := bdone k; bslot := bslot k; bnxt := bnxt k |} in
        let s' := {| heap := setb (heap s) b k'; tail := tail s;
                     late := late s || (Nat.ltb i B && negb (reachable s b)) |} in
        if Nat.ltb i B then Some (s', goto l (P3 x b i))
        else if second then Some (s', goto l (P0 x))
        else Some (s', goto l (P5 x b))
    | P3 x b i =>
        let k := getb (heap s) b in
        let k' := {| bw := bw k; bdone := bdone k; bslot := set_nth (bslot k) i (Some x); bnxt := bnxt k |} in
        Some (with_heap s (setb (heap s) b k'), goto l (P4 x b i))
    | P4 x b i =>
        let k := getb (heap s) b in
        let k' := {| bw := bw k; bdone := set_nth (bdone k) i true; bslot := bslot k; bnxt := bnxt k |} in
        Some (with_heap s (setb (heap s) b k'), finish l RPush)
    | P5 x b =>
        match tail s with
        | Some c =>
            if Nat.eqb c b then
              let nb := length (heap s) in
              if fxa
              then Some ({| heap := heap s ++ [newb (Some b)]; tail := Some nb; late := late s |}, goto l (P2 x nb true))
              else Some ({| heap := heap s ++ [newb None]; tail := Some nb; late := late s |}, goto l (P6 x b nb))
            else Some (s, goto l (P0 x))
        | None => Some (s, goto l (P0 x))
        end
    | P6 x b nb =>
        let k := getb (heap s) nb in
        let k' := {| bw := bw k; bdone := bdone k; bslot := bslot k; bnxt := Some b |} in
        Some (with_heap s (setb (heap s) nb k'), goto l (P2 x nb true))
    | W0 clr =>
        match tail s with
        | None => Some (s, finish l (walk_res clr []))
        | Some b => Some (s, goto l (if clr then C1 b else W1 false b []))
        end
    | C1 b =>
        match tail s with
        | Some c =>
            if Nat.eqb c b
            then Some ({| heap := heap s; tail := None; late := late s |}, goto l (W1 true b []))
            else Some (s, finish l (RClear []))
        | None => Some (s, finish l (RClear []))
        end
    | W1 clr b acc =>
        let len := tones (bdone (getb (heap s) b)) in
        if Nat.eqb len B then Some (s, goto l (WD clr b acc)) else Some (s, goto l (W2 clr b len acc))
    | W2 clr b len acc =>
        if Nat.eqb (Nat.min (bw (getb (heap s) b)) B) len
        then Some (s, goto l (WD clr b acc)) else Some (s, goto l (WS clr b acc))
    | WS clr b acc => Some (s, goto l (W1 clr b acc))
    | WD clr b acc =>
        let k := getb (heap s) b in
        Some (s, goto l (WN clr b (data_of k (tones (bdone k)) :: acc)))
    | WN clr b acc =>
        match bnxt (getb (heap s) b) with
        | None => Some (s, finish l (walk_res clr acc))
        | Some nb => Some (s, goto l (W1 clr nb acc))
        end
    | E0 =>
        match tail s with
        | None => Some (s, finish l (REmpty true))
        | Some b => Some (s, goto l (E1 b))
        end
    | E1 b =>
        if looks_empty (getb (heap s) b) then Some (s, goto l (E2 b)) else Some (s, finish l (REmpty false))
    | E2 b =>
        match bnxt (getb (heap s) b) with
        | None => Some (s, finish l (REmpty true))
        | Some nb => Some (s, goto l (E3 nb))
        end
    | E3 nb => Some (s, e3_next l nb (looks_empty (getb (heap s) nb)))
    | Done => None
    end.
End Machine.

Definition site (l : local) : N :=
  match pcl l with
  | Start => 0 | P0 _ => 510 | P1 _ => 511 | P2 _ _ _ => 501 | P3 _ _ _ => 502 | P4 _ _ _ => 503
  | P5 _ _ => 512 | P6 _ _ _ => 513
  | W0 false => 530 | W0 true => 540 | C1 _ => 541
  | W1 _ _ _ => 504 | W2 _ _ _ _ => 505
  | WS false _ _ => 531 | WS true _ _ => 542
  | WD _ _ _ => 506
  | WN false _ _ => 532 | WN true _ _ => 543
  | E0 => 520 | E1 _ => 521 | E2 _ => 507 | E3 _ => 508
  | Done => 0
  end%N.

Definition init_shared : shared := {| heap := []; tail := None; late := false |}.
Definition init_local (m : N) (p : list call) : local :=
  {| me := m; pcl := Start; todo := p; cidx := 0%N; results := [] |}.
Fixpoint init_locals (m : N) (ps : list (list call)) : list local :=
  match ps with [] => [] | p :: r => init_local m p :: init_locals (m + 1)%N r end.
Definition init_config (ps : list (list call)) : @config shared local := (init_shared, init_locals 0%N ps).
