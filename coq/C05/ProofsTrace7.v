(* C05 — the checker on the model, stage 7: clause S5 of Spec.spec_run.  When every thread of the
   model's run is done and the case is outside the late-claim class, the identities of all push
   calls of the programs are exactly those handed to clears plus those of the final read
   (no duplicate, every push present, same number).  From conservation at the final
   configuration, Done threads owning nothing, and ProofsTrace6.final_read_finishes.           *)
From Coq Require Import List NArith Bool Arith Lia.
Import ListNotations.
Require Import MV.Common.Interleave MV.Common.InterleaveTrace MV.C05.Model MV.C05.Spec MV.C05.Exec.
Require Import MV.C05.ProofsSeq MV.C05.ProofsInv MV.C05.ProofsCor MV.C05.ProofsUniq MV.C05.ProofsCons MV.C05.ProofsProg
               MV.C05.ProofsSnap MV.C05.ProofsOrder MV.C05.ProofsSpec MV.C05.ProofsTrace1 MV.C05.ProofsTrace2 MV.C05.ProofsTrace3
               MV.C05.ProofsTrace4 MV.C05.ProofsTrace6.
Local Open Scope nat_scope.

(* ---- the pushes of the programs *)
Lemma push_calls_in t : forall p k0 x, In x (push_calls t p k0) <->
  exists k v, nth_error p k = Some (CPush v) /\ x = (t, (k0 + N.of_nat k)%N, v).
Proof.
  induction p as [|c r IH]; intros k0 x; cbn [push_calls].
  - split; [intros []|intros (k & v & H & _); destruct k; discriminate H].
  - assert (Shift : (exists k v, nth_error r k = Some (CPush v) /\ x = (t, (k0 + 1 + N.of_nat k)%N, v)) <->
                    (exists k v, nth_error (c :: r) (S k) = Some (CPush v) /\ x = (t, (k0 + N.of_nat (S k))%N, v))).
    { split; intros (k & v & H & E); exists k, v; (split; [exact H|]); rewrite E; f_equal; f_equal; lia. }
    destruct c as [v0| | |]; cbn [In]; rewrite ?IH, Shift; split.
    + intros [<-|(k & v & H & E)]; [exists 0, v0; split; [reflexivity|]; f_equal; f_equal; lia|exists (S k), v; auto].
    + intros (k & v & H & E). destruct k as [|k]; [cbn in H; inversion H; subst; left; f_equal; f_equal; lia|right; exists k, v; auto].
    + intros (k & v & H & E). exists (S k), v. auto.
    + intros (k & v & H & E). destruct k as [|k]; [discriminate H|exists k, v; auto].
    + intros (k & v & H & E). exists (S k), v. auto.
    + intros (k & v & H & E). destruct k as [|k]; [discriminate H|exists k, v; auto].
    + intros (k & v & H & E). exists (S k), v. auto.
    + intros (k & v & H & E). destruct k as [|k]; [discriminate H|exists k, v; auto].
Qed.

Lemma all_pushes_in : forall ps t0 x, In x (all_pushes ps t0) <->
  exists u p k v, nth_error ps u = Some p /\ nth_error p k = Some (CPush v) /\ x = ((t0 + N.of_nat u)%N, N.of_nat k, v).
Proof.
  induction ps as [|q r IH]; intros t0 x.
  - split; [intros []|intros (u & p & k & v & H & _); destruct u; discriminate H].
  - change (all_pushes (q :: r) t0) with (push_calls t0 q 0 ++ all_pushes r (t0 + 1)%N). rewrite in_app_iff, push_calls_in, IH. split.
    + intros [(k & v & H & E)|(u & p & k & v & Hu & H & E)].
      * exists 0, q, k, v. split; [reflexivity|split; [exact H|]]. rewrite E. f_equal; f_equal; lia.
      * exists (S u), p, k, v. split; [exact Hu|split; [exact H|]]. rewrite E. f_equal; f_equal; lia.
    + intros (u & p & k & v & Hu & H & E). destruct u as [|u].
      * cbn in Hu. inversion Hu; subst p. left. exists k, v. split; [exact H|]. rewrite E. f_equal; f_equal; lia.
      * right. exists u, p, k, v. split; [exact Hu|split; [exact H|]]. rewrite E. f_equal; f_equal; lia.
Qed.

Lemma push_calls_nodup t : forall p k0, NoDup (map vid (push_calls t p k0)).
Proof.
  induction p as [|c r IH]; intros k0; cbn [push_calls map]; [constructor|].
  destruct c; cbn [map]; auto. constructor; auto.
  intros Hin. apply in_map_iff in Hin. destruct Hin as (x & Ex & Hx). apply push_calls_in in Hx. destruct Hx as (k & v' & _ & ->).
  unfold vid in Ex. cbn in Ex. inversion Ex. lia.
Qed.

Lemma all_pushes_nodup : forall ps t0, NoDup (map vid (all_pushes ps t0)).
Proof.
  induction ps as [|q r IH]; intros t0; [constructor|].
  change (all_pushes (q :: r) t0) with (push_calls t0 q 0 ++ all_pushes r (t0 + 1)%N). rewrite map_app.
  apply NoDup_app_intro; [apply push_calls_nodup|apply IH|].
  intros id H1 H2. apply in_map_iff in H1. destruct H1 as (x & Ex & Hx). apply in_map_iff in H2. destruct H2 as (y & Ey & Hy).
  apply push_calls_in in Hx. destruct Hx as (k & v & _ & ->). apply all_pushes_in in Hy. destruct Hy as (u & p & k' & v' & _ & _ & ->).
  unfold vid in *. cbn in *. subst id. inversion Ey. lia.
Qed.

Lemma genuine_in_pushes ps x : genuine ps x -> In x (all_pushes ps 0).
Proof.
  destruct x as [[t k] v]. intros (p & Hp & Hk). cbn [fst snd] in *. apply all_pushes_in.
  exists (N.to_nat t), p, (N.to_nat k), v. split; [exact Hp|split; [exact Hk|]]. rewrite N.add_0_l, !N2Nat.id. reflexivity.
Qed.

(* ---- Done threads *)
Lemma step_none_done B fxc s l : step B true fxc s l = None -> pcl l = Done.
Proof.
  unfold step. destruct (pcl l); try reflexivity; intros H; exfalso;
    repeat match type of H with
           | context [match tail ?ss with _ => _ end] => destruct (tail ss)
           | context [match bnxt ?k with _ => _ end] => destruct (bnxt k)
           | context [if ?c then _ else _] => destruct c
           end; discriminate H.
Qed.

Definition done_todo (c : @config shared local) : Prop :=
  forall u l, nth_error (snd c) u = Some l -> pcl l = Done -> todo l = [].

Lemma done_todo_step B fxc : step_preserves (step B true fxc) done_todo.
Proof.
  intros s ls t l s' l' H Hl Hst u y Hy Hd. cbn [snd] in *.
  destruct (nth_error_upd_cases _ _ _ _ _ Hy) as [[-> ->]|[Hne E]]; [|eauto].
  assert (En : forall m k td rs, pcl (enter m k td rs) = Done -> todo (enter m k td rs) = []) by (intros m k [|[]] rs E; try discriminate E; reflexivity).
  step_inv Hst Epc; unfold finish in *; try (apply En; exact Hd); cbn [goto mk pcl] in Hd; try discriminate Hd; destruct clr; discriminate Hd.
Qed.

Definition val_eq_dec : forall a b : val, {a = b} + {a <> b}.
Proof. repeat decide equality. Defined.

Definition PF (B : nat) (ps : list (list call)) (c : @config shared local) : Prop :=
  AllK B c /\ R ps c /\ F ps c /\ done_todo c.

Lemma PF_step B (HB : 1 <= B) fxc ps : step_preserves (step B true fxc) (PF B ps).
Proof.
  intros s ls t l s' l' (HK & HR & HF & HD) Hl Hst. pose proof (proj1 HK) as HA.
  destruct (F_step B HB fxc ps s ls t l s' l' (conj HA (conj HR HF)) Hl Hst) as (_ & HR' & HF').
  split; [exact (AllK_step B HB fxc s ls t l s' l' HK Hl Hst)|split; [exact HR'|split; [exact HF'|]]].
  exact (done_todo_step B fxc s ls t l s' l' HD Hl Hst).
Qed.

Theorem spec_conservation_on_model (c : case) : known_class c = None ->
  let '(tr, rss, done, final, _) := run_case c in
  done = true ->
  let rhs := flat_map handed (filter is_clear (rcalls tr 0 rss)) ++ concat final in
  nodupb rhs && forallb (fun i => memb (px i) rhs) (pinfos tr 0 (progs_of c))
  && Nat.eqb (length rhs) (length (pinfos tr 0 (progs_of c))) = true.
Proof.
  intros Hk. pose proof (no_double_clear_on_model c) as HS1.
  unfold run_case, out_gen in *. assert (HB : 1 <= BS) by (unfold BS; lia).
  set (ps := progs_of c) in *.
  assert (HP : PF BS ps (fst (run_gen BS true true c))).
  { unfold run_gen. apply (invariant_exec_full (step BS true true) site (PF BS ps) (PF_step BS HB true ps)).
    split; [exact (AllK_init BS HB true ps)|split; [exact (R_init BS HB ps)|split]].
    - first [exact (F_init BS HB ps) | exact (F_init BS ps) | exact (F_init ps)].
    - intros u l Hl Hd. cbn [snd init_config] in Hl. destruct (init_local_facts _ _ _ _ Hl) as (p & _ & E1 & _). congruence. }
  assert (HL : late (fst (fst (run_gen BS true true c))) = false).
  { unfold known_class, late_claim_gen in Hk. destruct (late (fst (fst (run_gen BS true true c)))); [discriminate|reflexivity]. }
  destruct (run_gen BS true true c) as [[s ls] tr]. cbn [fst snd] in *.
  intros Hdone. cbv zeta. rewrite cleared_rcalls in *.
  destruct HP as (HK & (R1 & R2 & R3) & [HLen HF] & HD). pose proof (proj1 HK) as HA. cbn [fst snd] in *.
  (* everybody is Done *)
  assert (Hd : forall u l, nth_error ls u = Some l -> pcl l = Done).
  { intros u l Hl. unfold all_done in Hdone. rewrite forallb_forall in Hdone.
    assert (Hu : In u (seq 0 (length ls))) by (apply in_seq; split; [lia|]; cbn; apply nth_error_Some; congruence).
    specialize (Hdone u Hu). unfold finished in Hdone. cbn [fst snd] in Hdone. rewrite Hl in Hdone.
    destruct (step BS true true s l) as [[? ?]|] eqn:Es; [discriminate|]. eapply step_none_done; eauto. }
  destruct (final_read_finishes BS HB true s ls HA Hd) as [Fcov Fonly]. cbv zeta in Fcov, Fonly.
  destruct (final_read_props BS HB true s ls HA) as (Fnd & _ & _). cbv zeta in Fnd.
  set (fin := final_data BS true true s) in *.
  set (CL := cleared_out (map (fun l => rev (results l)) ls)) in *.
  destruct (conservation BS (s, ls) HK HL) as (C1 & C2 & C3 & _). cbn [fst snd] in *.
  pose proof HA as (HI & _ & _ & H3 & _).
  (* cleared values = what the Done threads were handed *)
  assert (CLin : forall x, In x CL <-> cleared_in ls x).
  { intros x. unfold CL, cleared_out. rewrite in_flat_map. split.
    - intros (rs & Hrs & Hx). apply in_map_iff in Hrs. destruct Hrs as (l & <- & Hl). apply In_nth_error in Hl. destruct Hl as [u Hu].
      exists u, l. split; [exact Hu|]. unfold cleared_local. rewrite (Hd u l Hu). cbn [acc_cleared app].
      rewrite in_flat_map in *. destruct Hx as (r & Hr & Hx). exists r. split; [apply in_rev; exact Hr|exact Hx].
    - intros (u & l & Hu & Hx). exists (rev (results l)). split; [apply in_map_iff; exists l; split; [reflexivity|eapply nth_error_In; eauto]|].
      unfold cleared_local in Hx. rewrite (Hd u l Hu) in Hx. cbn [acc_cleared app] in Hx.
      rewrite in_flat_map in *. destruct Hx as (r & Hr & Hx). exists r. split; [apply in_rev in Hr; exact Hr|exact Hx]. }
  assert (NoRoot : forall d, Owned (s, ls) d -> Reach (heap s) (tail s) d).
  { intros d [R|(u & l & Hu & R)]; [exact R|]. cbn [fst snd] in *. unfold root in R. rewrite (Hd u l Hu) in R. destruct (Reach_None _ _ R). }
  (* 1. no duplicate *)
  assert (N1 : NoDup (map vid (CL ++ concat fin))).
  { rewrite map_app. apply NoDup_app_intro; [apply nodupb_iff; exact HS1|exact Fnd|].
    intros id H1 H2. apply in_map_iff in H1. destruct H1 as (x & Ex & Hx). apply in_map_iff in H2. destruct H2 as (y & Ey & Hy).
    apply CLin in Hx. destruct (C2 x Hx) as (b & i & Hs & Hno & _). destruct (Fonly y Hy) as (d & j & Hs' & Rd).
    destruct (H3 b i d j x y Hs Hs' ltac:(unfold vid in *; congruence)) as [-> _]. apply Hno. left. exact Rd. }
  (* 2. every push is there *)
  assert (N2 : forall x, In x (all_pushes ps 0) -> In x (CL ++ concat fin)).
  { intros x Hx. apply all_pushes_in in Hx. destruct Hx as (u & p & k & v & Hp & Hkv & ->). rewrite N.add_0_l.
    assert (Hu : exists l, nth_error ls u = Some l).
    { destruct (nth_error ls u) as [l|] eqn:El; [eauto|]. apply nth_error_None in El. assert (u < length ps) by (apply nth_error_Some; congruence). lia. }
    destruct Hu as [l Hl]. destruct (R1 u l Hl) as (p' & Hp' & Hsk). rewrite Hp in Hp'. inversion Hp'; subst p'.
    rewrite (Hd u l Hl), (HD u l Hl (Hd u l Hl)) in Hsk. cbn [cur app] in Hsk.
    assert (Hkc : k < N.to_nat (cidx l)).
    { assert (k < length p) by (apply nth_error_Some; congruence).
      destruct (Nat.lt_ge_cases k (N.to_nat (cidx l))); auto. exfalso.
      assert (E : skipn (N.to_nat (cidx l)) p <> []).
      { intros E. apply (f_equal (@length call)) in E. rewrite skipn_length in E. cbn in E. lia. }
      contradiction. }
    destruct (R3 u l p k v Hl Hp Hkc Hkv) as (b & i & Hs & Hpb).
    destruct (in_dec val_eq_dec (N.of_nat u, N.of_nat k, v) (concat fin)) as [Hin|Hnin]; [apply in_or_app; right; exact Hin|].
    apply in_or_app. left. apply CLin. apply (C1 b i _ Hs Hpb). intros HOw. apply Hnin. apply (Fcov b i _ (NoRoot b HOw) Hs Hpb). }
  (* 3. nothing else is there *)
  assert (N3 : forall x, In x (CL ++ concat fin) -> In x (all_pushes ps 0)).
  { intros x Hx. apply genuine_in_pushes. apply in_app_or in Hx. destruct Hx as [Hx|Hx].
    - apply CLin in Hx. destruct (C2 x Hx) as (b & i & Hs & _). apply (R2 b i x Hs).
    - destruct (Fonly x Hx) as (d & j & Hs & _). apply (R2 d j x Hs). }
  rewrite !andb_true_iff. split; [split|].
  - apply nodupb_iff. exact N1.
  - apply forallb_forall. intros i Hi. apply memb_iff. apply in_map. apply N2. rewrite <- (px_pinfos tr). apply in_map. exact Hi.
  - apply Nat.eqb_eq. rewrite <- (map_length px), (px_pinfos tr), <- (map_length vid (CL ++ concat fin)), <- (map_length vid (all_pushes ps 0)).
    apply Nat.le_antisymm.
    + apply NoDup_incl_length; [exact N1|]. intros id Hid. apply in_map_iff in Hid. destruct Hid as (x & <- & Hx). apply in_map. apply N3. exact Hx.
    + apply NoDup_incl_length; [apply all_pushes_nodup|]. intros id Hid. apply in_map_iff in Hid. destruct Hid as (x & <- & Hx). apply in_map. apply N2. exact Hx.
Qed.
