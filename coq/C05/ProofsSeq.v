(* C05 — sequential refinement: every COMPLETE call, run alone from a quiescent state, behaves as
   the corresponding operation on a bag (kept as the list of block contents, newest block first),
   for every block size B >= 1.  Code after both fixes (fxa = fxc = true).                      *)
From Coq Require Import List NArith Bool Arith Lia Permutation.
Import ListNotations.
Require Import MV.Common.Interleave MV.C05.Model.

(* ---- list / heap lemmas (shared with the invariant proofs) *)
Lemma set_nth_length {A} (l : list A) i x : length (set_nth l i x) = length l.
Proof. revert i. induction l as [|y r IH]; intros [|i]; cbn; auto. Qed.

Lemma nth_set_nth_same {A} (l : list A) i x d : i < length l -> nth i (set_nth l i x) d = x.
Proof. revert i. induction l as [|y r IH]; intros [|i] H; cbn in *; try lia; auto. apply IH. lia. Qed.

Lemma nth_set_nth_other {A} (l : list A) i j x d : i <> j -> nth j (set_nth l i x) d = nth j l d.
Proof. revert i j. induction l as [|y r IH]; intros [|i] [|j] H; cbn; auto; try congruence. Qed.

Lemma setb_length h b k : length (setb h b k) = length h.
Proof. apply set_nth_length. Qed.

Lemma getb_setb_same h b k : b < length h -> getb (setb h b k) b = k.
Proof. apply nth_set_nth_same. Qed.

Lemma getb_setb_other h b c k : b <> c -> getb (setb h b k) c = getb h c.
Proof. apply nth_set_nth_other. Qed.

Lemma getb_app_old h k c : c < length h -> getb (h ++ [k]) c = getb h c.
Proof. intros H. unfold getb. apply app_nth1. exact H. Qed.

Lemma getb_app_new h k : getb (h ++ [k]) (length h) = k.
Proof. unfold getb. rewrite app_nth2 by lia. rewrite Nat.sub_diag. reflexivity. Qed.

Lemma tones_repeat n l : tones (repeat true n ++ false :: l) = n.
Proof. induction n; cbn; auto. Qed.

Lemma tones_repeat_all n : tones (repeat true n) = n.
Proof. induction n; cbn; auto. Qed.

Lemma tones_q n m : tones (repeat true n ++ repeat false m) = n.
Proof. destruct m; cbn [repeat]; [rewrite app_nil_r; apply tones_repeat_all|apply tones_repeat]. Qed.

Lemma set_nth_done n m : set_nth (repeat true n ++ repeat false (S m)) n true = repeat true (S n) ++ repeat false m.
Proof. induction n; cbn in *; auto. f_equal. exact IHn. Qed.

Lemma set_nth_slot (vs : list val) m x :
  set_nth (map Some vs ++ repeat None (S m)) (length vs) (Some x) = map Some (vs ++ [x]) ++ repeat None m.
Proof. induction vs; cbn in *; auto. f_equal. exact IHvs. Qed.

Lemma data_of_q k (vs : list val) rest :
  bslot k = map Some vs ++ rest -> data_of k (length vs) = vs.
Proof.
  intros E. unfold data_of. rewrite E. clear E. induction vs as [|v r IH]; cbn; auto.
  f_equal. exact IH.
Qed.

(* the step at 508 either moves on to the link of that block or returns *)
Lemma e3_next_cases fxc l nb e : e3_next fxc l nb e = goto l (E2 nb) \/ exists r, e3_next fxc l nb e = finish l (REmpty r).
Proof. unfold e3_next. destruct fxc; [destruct e|]; eauto. Qed.

(* ---- run-alone semantics *)
Section Seq.
  Variable B : nat.
  Hypothesis HB : 1 <= B.
  Notation step := (step B true true).

  Inductive steps : shared -> local -> shared -> local -> Prop :=
  | st_refl s l : steps s l s l
  | st_step s l s1 l1 s2 l2 : step s l = Some (s1, l1) -> steps s1 l1 s2 l2 -> steps s l s2 l2.

  Lemma steps_trans s l s1 l1 s2 l2 : steps s l s1 l1 -> steps s1 l1 s2 l2 -> steps s l s2 l2.
  Proof. induction 1; intros; auto. eapply st_step; eauto. Qed.

  (* a quiescent block holding exactly vs *)
  Definition QBlock (k : block) (vs : list val) : Prop :=
    length vs = Nat.min (bw k) B /\
    bdone k = repeat true (length vs) ++ repeat false (B - length vs) /\
    bslot k = map Some vs ++ repeat None (B - length vs).

  (* the chain from an optional block id: ids strictly decrease (blocks link to older ones) *)
  Inductive Chain (h : list block) : option nat -> list nat -> Prop :=
  | ch_nil : Chain h None []
  | ch_cons b ids : b < length h -> (forall c, In c ids -> c < b) ->
                    Chain h (bnxt (getb h b)) ids -> Chain h (Some b) (b :: ids).

  (* quiescent state with contents cs (one list per block, newest block first) *)
  Definition SeqState (s : shared) (cs : list (list val)) : Prop :=
    exists ids, Chain (heap s) (tail s) ids /\
                Forall2 (fun b vs => QBlock (getb (heap s) b) vs) ids cs /\
                Forall (fun vs => length vs = B) (tl cs).

  (* ---- the bag specification *)
  Definition push_contents (x : val) (cs : list (list val)) : list (list val) :=
    match cs with
    | [] => [[x]]
    | hd :: r => if Nat.ltb (length hd) B then (hd ++ [x]) :: r else [x] :: hd :: r
    end.
  Definition bag_next (id : N * N) (c : call) (cs : list (list val)) : list (list val) :=
    match c with
    | CPush v => push_contents (fst id, snd id, v) cs
    | CClear => []
    | _ => cs
    end.
  Definition bag_res (c : call) (cs : list (list val)) : res :=
    match c with
    | CPush _ => RPush
    | CData => RData cs
    | CClear => RClear cs
    | CEmpty => REmpty (match concat cs with [] => true | _ => false end)
    end.

  Lemma push_contents_perm x cs : Permutation (concat (push_contents x cs)) (x :: concat cs).
  Proof.
    unfold push_contents. destruct cs as [|hd r]; [cbn; auto|].
    destruct (Nat.ltb (length hd) B); cbn [concat]; [|cbn; auto].
    rewrite <- app_assoc. cbn [app]. apply Permutation_sym, Permutation_middle.
  Qed.

  (* ---- frame lemmas for chains *)
  Lemma Chain_frame h h' o ids :
    length h <= length h' ->
    (forall b, In b ids -> bnxt (getb h' b) = bnxt (getb h b)) ->
    Chain h o ids -> Chain h' o ids.
  Proof.
    intros HL Hn C. induction C; constructor; auto; try lia.
    rewrite Hn by (left; auto). apply IHC. intros; apply Hn; right; auto.
  Qed.

  Lemma Chain_lt h o ids : Chain h o ids -> forall c, In c ids -> c < length h.
  Proof. induction 1; intros c Hc; [destruct Hc|destruct Hc as [->|Hc]; auto]. Qed.

  Lemma Chain_app h k o ids : Chain h o ids -> Chain (h ++ [k]) o ids.
  Proof.
    induction 1; constructor; auto.
    - rewrite app_length; cbn; lia.
    - rewrite getb_app_old by auto. auto.
  Qed.

  Lemma goto_mk m p td k rs q : goto (mk m p td k rs) q = mk m q td k rs.
  Proof. reflexivity. Qed.
  Lemma finish_mk m p td k rs r : finish (mk m p td k rs) r = enter m (k + 1)%N td (r :: rs).
  Proof. reflexivity. Qed.

  (* one step of a thread whose local state is written [mk ..]; leaves the side condition that
     the step function evaluates as claimed *)
  Ltac one := rewrite ?goto_mk; eapply st_step; [unfold Model.step; cbn [pcl mk] | ].
  Ltac fin := rewrite ?goto_mk, ?finish_mk; apply st_refl.

  (* ---- the walk of data_with / clear_with over a quiescent chain *)
  Lemma walk_steps s clr m td k rs : forall ids cs b acc,
    Chain (heap s) (Some b) ids ->
    Forall2 (fun b vs => QBlock (getb (heap s) b) vs) ids cs ->
    steps s (mk m (W1 clr b acc) td k rs) s
          (enter m (k + 1)%N td (walk_res clr (rev cs ++ acc) :: rs)).
  Proof.
    induction ids as [|b0 ids IH]; intros cs b acc C F; [inversion C|].
    assert (b0 = b) by (inversion C; auto). subst b0.
    inversion C as [|? ? Hlt Hdec H4]; subst.
    inversion F as [|? vs ? cs' Q F']; subst. destruct Q as (Q1 & Q2 & Q3).
    assert (Ht : tones (bdone (getb (heap s) b)) = length vs) by (rewrite Q2; apply tones_q).
    assert (Hd : data_of (getb (heap s) b) (length vs) = vs) by (eapply data_of_q; eauto).
    (* reach WD *)
    assert (S1 : steps s (mk m (W1 clr b acc) td k rs) s (mk m (WD clr b acc) td k rs)).
    { destruct (Nat.eqb (length vs) B) eqn:E.
      - one; [rewrite Ht, E; reflexivity|]. fin.
      - one; [rewrite Ht, E; reflexivity|].
        one; [rewrite <- Q1, Nat.eqb_refl; reflexivity|]. fin. }
    eapply steps_trans; [exact S1|].
    one; [rewrite Ht, Hd; reflexivity|].
    destruct (bnxt (getb (heap s) b)) as [nb|] eqn:En.
    - one; [rewrite En; reflexivity|].
      specialize (IH cs' nb (vs :: acc) H4 F').
      cbn [rev]. rewrite <- app_assoc. cbn [app]. rewrite ?goto_mk. exact IH.
    - inversion H4; subst. inversion F'; subst.
      one; [rewrite En; reflexivity|].
      cbn [rev app]. fin.
  Qed.

  Lemma setb_setb h b k1 k2 : setb (setb h b k1) b k2 = setb h b k2.
  Proof. unfold setb. revert b. induction h as [|y r IH]; intros [|b]; cbn; auto. f_equal. apply IH. Qed.

  Lemma Chain_None h ids : Chain h None ids -> ids = [].
  Proof. inversion 1; auto. Qed.

  Lemma existsb_q n m : existsb (fun x : bool => x) (repeat true n ++ repeat false m) = negb (Nat.eqb n 0).
  Proof. destruct n; cbn; auto. induction m; cbn; auto. Qed.

  (* ---- pushing into a block that still has room *)
  Lemma push_into s m td k rs x b sec vs :
    b < length (heap s) -> QBlock (getb (heap s) b) vs -> length vs < B ->
    exists s', steps s (mk m (P2 x b sec) td k rs) s' (enter m (k + 1)%N td (RPush :: rs)) /\
               tail s' = tail s /\ length (heap s') = length (heap s) /\
               (forall c, c <> b -> getb (heap s') c = getb (heap s) c) /\
               QBlock (getb (heap s') b) (vs ++ [x]) /\
               bnxt (getb (heap s') b) = bnxt (getb (heap s) b).
  Proof.
    intros Hb (Q1 & Q2 & Q3) Hlt.
    assert (Hw : bw (getb (heap s) b) = length vs) by lia.
    assert (HBn : B - length vs = S (B - S (length vs))) by lia.
    eexists. split.
    - one. { rewrite Hw. replace (Nat.ltb (length vs) B) with true by (symmetry; apply Nat.ltb_lt; lia). reflexivity. }
      one. { cbn [heap tail late with_heap]. rewrite getb_setb_same by exact Hb. cbn [bw bdone bslot bnxt].
             rewrite setb_setb, Q3, HBn, set_nth_slot. reflexivity. }
      one. { cbn [heap tail late with_heap]. rewrite getb_setb_same by exact Hb. cbn [bw bdone bslot bnxt].
             rewrite setb_setb, Q2, HBn, set_nth_done. reflexivity. }
      fin.
    - cbn [heap tail late with_heap]. repeat split.
      + apply setb_length.
      + intros c Hc. apply getb_setb_other. auto.
      + rewrite getb_setb_same by exact Hb. cbn [bw]. rewrite app_length. cbn [length]. lia.
      + rewrite getb_setb_same by exact Hb. cbn [bdone]. rewrite app_length. cbn [length].
        replace (length vs + 1) with (S (length vs)) by lia. reflexivity.
      + rewrite getb_setb_same by exact Hb. cbn [bslot]. rewrite app_length. cbn [length].
        replace (length vs + 1) with (S (length vs)) by lia. reflexivity.
      + rewrite getb_setb_same by exact Hb. reflexivity.
  Qed.

  Lemma QBlock_newb nx : QBlock (newb B nx) [].
  Proof. unfold QBlock, newb. cbn. rewrite Nat.sub_0_r. auto. Qed.

  Lemma Forall2_frame (P Q : nat -> list val -> Prop) ids cs :
    (forall b vs, In b ids -> P b vs -> Q b vs) -> Forall2 P ids cs -> Forall2 Q ids cs.
  Proof. intros H F. induction F; constructor; auto. - apply H; [left|]; auto. - apply IHF. intros; apply H; [right|]; auto. Qed.

  (* ---- the four calls *)
  Theorem seq_call s cs m k c td rs :
    SeqState s cs ->
    exists s', steps s (enter m k (c :: td) rs) s' (enter m (k + 1)%N td (bag_res c cs :: rs)) /\
               SeqState s' (bag_next (m, k) c cs).
  Proof.
    intros (ids & C & F & Hfull).
    destruct c as [v| | |]; cbn [enter bag_res bag_next fst snd].
    - (* push *)
      destruct (tail s) as [b|] eqn:Et.
      + inversion C as [|? ids' Hlt Hdec C']; subst.
        inversion F as [|? vs ? cs' Q F']; subst. cbn [tl] in Hfull.
        destruct (Nat.ltb (length vs) B) eqn:Ev.
        * (* room in the head block *)
          apply Nat.ltb_lt in Ev.
          destruct (push_into s m td k rs (m, k, v) b false vs Hlt Q Ev) as (s' & St & T' & L' & O' & Q' & N').
          exists s'. split.
          { one; [rewrite Et; reflexivity|]. rewrite ?goto_mk. exact St. }
          unfold push_contents. replace (Nat.ltb (length vs) B) with true by (symmetry; apply Nat.ltb_lt; lia).
          exists (b :: ids'). split; [|split].
          -- rewrite T', Et. apply Chain_frame with (h := heap s); [lia| |exact C].
             intros c [->|Hc]; auto. rewrite O'; auto. specialize (Hdec c Hc). lia.
          -- constructor; auto. eapply Forall2_frame; [|exact F'].
             intros c vs' Hc Hq. rewrite O'; auto. specialize (Hdec c Hc). lia.
          -- exact Hfull.
        * (* head block full: hand-over *)
          apply Nat.ltb_ge in Ev. destruct Q as (Q1 & Q2 & Q3).
          assert (Hw : B <= bw (getb (heap s) b)) by lia.
          set (k1 := {| bw := S (bw (getb (heap s) b)); bdone := bdone (getb (heap s) b);
                        bslot := bslot (getb (heap s) b); bnxt := bnxt (getb (heap s) b) |}).
          set (s1 := {| heap := setb (heap s) b k1; tail := Some b;
                        late := late s || (false && negb (reachable s b)) |}).
          set (s2 := {| heap := heap s1 ++ [newb B (Some b)]; tail := Some (length (heap s1)); late := late s1 |}).
          assert (L1 : length (heap s1) = length (heap s)) by apply setb_length.
          assert (Hnb : length (heap s1) < length (heap s2)) by (cbn [s2 heap]; rewrite app_length; cbn; lia).
          assert (Qn : QBlock (getb (heap s2) (length (heap s1))) []).
          { cbn [s2 heap]. rewrite getb_app_new. apply QBlock_newb. }
          destruct (push_into s2 m td k rs (m, k, v) (length (heap s1)) true [] Hnb Qn ltac:(cbn; lia))
            as (s' & St & T' & L' & O' & Q' & N').
          exists s'. split.
          { one; [rewrite Et; reflexivity|].
            one. { replace (Nat.ltb (bw (getb (heap s) b)) B) with false by (symmetry; apply Nat.ltb_ge; lia). reflexivity. }
            one. { cbn [tail]. rewrite Et, Nat.eqb_refl. reflexivity. }
            rewrite ?goto_mk. exact St. }
          unfold push_contents. replace (Nat.ltb (length vs) B) with false by (symmetry; apply Nat.ltb_ge; lia).
          assert (L2 : length (heap s') = S (length (heap s))).
          { rewrite L'. cbn [s2 heap]. rewrite app_length, L1. cbn. lia. }
          assert (G1 : forall c, c < length (heap s) -> c <> b -> getb (heap s') c = getb (heap s) c).
          { intros c Hc Hne. rewrite O' by lia. cbn [s2 heap]. rewrite getb_app_old by lia.
            cbn [s1 heap]. apply getb_setb_other. auto. }
          assert (G2 : getb (heap s') b = k1).
          { rewrite O' by lia. cbn [s2 heap]. rewrite getb_app_old by lia. cbn [s1 heap]. apply getb_setb_same. exact Hlt. }
          exists (length (heap s1) :: b :: ids'). split; [|split].
          -- rewrite T'. cbn [s2 tail]. constructor.
             ++ lia.
             ++ intros c [<-|Hc]; [lia|]. specialize (Hdec c Hc). lia.
             ++ rewrite N'. cbn [s2 heap]. rewrite getb_app_new. cbn [newb bnxt].
                constructor; [lia|exact Hdec|]. rewrite G2. cbn [k1 bnxt].
                apply Chain_frame with (h := heap s); [lia| |exact C'].
                intros c Hc. rewrite G1; auto. { eapply Chain_lt; eauto. } { specialize (Hdec c Hc). lia. }
          -- constructor; [exact Q'|]. constructor.
             ++ rewrite G2. unfold QBlock. cbn [k1 bw bdone bslot]. repeat split; auto. lia.
             ++ eapply Forall2_frame; [|exact F']. intros c vs' Hc Hq. rewrite G1; auto.
                { eapply Chain_lt; eauto. } { specialize (Hdec c Hc). lia. }
          -- cbn [tl]. constructor; [lia|exact Hfull].
      + (* empty bucket: install the first block *)
        apply Chain_None in C. subst ids. inversion F; subst.
        set (s2 := {| heap := heap s ++ [newb B None]; tail := Some (length (heap s)); late := late s |}).
        assert (Hnb : length (heap s) < length (heap s2)) by (cbn [s2 heap]; rewrite app_length; cbn; lia).
        assert (Qn : QBlock (getb (heap s2) (length (heap s))) []).
        { cbn [s2 heap]. rewrite getb_app_new. apply QBlock_newb. }
        destruct (push_into s2 m td k rs (m, k, v) (length (heap s)) false [] Hnb Qn ltac:(cbn; lia))
          as (s' & St & T' & L' & O' & Q' & N').
        exists s'. split.
        { one; [rewrite Et; reflexivity|]. one; [rewrite Et; reflexivity|]. rewrite ?goto_mk. exact St. }
        cbn [push_contents]. exists [length (heap s)]. split; [|split].
        * rewrite T'. cbn [s2 tail]. constructor; [lia|intros c []|].
          rewrite N'. cbn [s2 heap]. rewrite getb_app_new. cbn [newb bnxt]. constructor.
        * constructor; [exact Q'|constructor].
        * cbn [tl]. constructor.
    - (* data_with *)
      exists s. split; [|exists ids; auto].
      destruct (tail s) as [b|] eqn:Et.
      + one; [rewrite Et; reflexivity|]. rewrite ?goto_mk.
        pose proof (walk_steps s false m td k rs ids cs b [] C F) as W.
        cbn [walk_res] in W. rewrite app_nil_r, rev_involutive in W. exact W.
      + apply Chain_None in C. subst ids. inversion F; subst.
        one; [rewrite Et; reflexivity|]. fin.
    - (* clear_with *)
      destruct (tail s) as [b|] eqn:Et.
      + exists {| heap := heap s; tail := None; late := late s |}. split.
        * one; [rewrite Et; reflexivity|].
          one; [rewrite Et, Nat.eqb_refl; reflexivity|]. rewrite ?goto_mk.
          pose proof (walk_steps {| heap := heap s; tail := None; late := late s |} true m td k rs ids cs b [] C F) as W.
          cbn [walk_res] in W. rewrite app_nil_r, rev_involutive in W. exact W.
        * exists []. cbn [heap tail tl]. repeat split; constructor.
      + apply Chain_None in C. subst ids. inversion F; subst.
        exists s. split; [one; [rewrite Et; reflexivity|]; fin|].
        exists []. rewrite Et. repeat split; constructor.
    - (* is_empty *)
      exists s. split; [|exists ids; auto].
      destruct (tail s) as [b|] eqn:Et.
      + inversion C as [|? ids' Hlt Hdec C']; subst.
        inversion F as [|? vs ? cs' Q F']; subst. cbn [tl] in Hfull.
        destruct Q as (Q1 & Q2 & Q3).
        one; [rewrite Et; reflexivity|].
        destruct vs as [|v0 vs].
        * (* nothing completed in the head block: look at the next one *)
          one. { unfold looks_empty. rewrite Q2, existsb_q. cbn. reflexivity. }
          destruct (bnxt (getb (heap s) b)) as [nb|] eqn:En.
          -- one; [rewrite En; reflexivity|].
             inversion C' as [|? ids'' Hlt' Hdec' C'']; subst.
             inversion F' as [|? vs' ? cs'' Q' F'']; subst. destruct Q' as (Q1' & Q2' & Q3').
             inversion Hfull as [|? ? Hl ?]; subst.
             one. { unfold looks_empty. rewrite Q2', existsb_q. reflexivity. }
             destruct vs' as [|v1 vs']; [cbn in Hl; lia|]. cbn. fin.
          -- apply Chain_None in C'. subst ids'. inversion F'; subst.
             one; [rewrite En; reflexivity|]. cbn. fin.
        * one. { unfold looks_empty. rewrite Q2, existsb_q. cbn. reflexivity. }
          cbn. fin.
      + apply Chain_None in C. subst ids. inversion F; subst.
        one; [rewrite Et; reflexivity|]. cbn. fin.
  Qed.

  Lemma SeqState_init : SeqState init_shared [].
  Proof. exists []. cbn. repeat split; constructor. Qed.

  (* running alone is deterministic: a completed run is THE run *)
  Lemma steps_det s l s1 l1 s2 l2 :
    steps s l s1 l1 -> steps s l s2 l2 -> step s1 l1 = None -> step s2 l2 = None -> s1 = s2 /\ l1 = l2.
  Proof.
    intros H. revert s2 l2. induction H as [s l|s l sa la sb lb E H IH]; intros s2 l2 H2 N1 N2.
    - inversion H2; subst; auto. congruence.
    - inversion H2; subst; [congruence|]. rewrite E in H0. inversion H0; subst. apply IH; auto.
  Qed.

  (* ---- a sequence of complete calls, each tagged (thread, index of the call) *)
  Inductive seq_exec : shared -> list (N * N * call) -> shared -> list res -> Prop :=
  | se_nil s : seq_exec s [] s []
  | se_cons s m k c rest s1 r s2 rs :
      steps s (enter m k [c] []) s1 (enter m (k + 1)%N [] [r]) -> seq_exec s1 rest s2 rs ->
      seq_exec s ((m, k, c) :: rest) s2 (r :: rs).

  Fixpoint bag_run (cs : list (list val)) (calls : list (N * N * call)) : list res * list (list val) :=
    match calls with
    | [] => ([], cs)
    | (m, k, c) :: r => let '(rs, cs') := bag_run (bag_next (m, k) c cs) r in (bag_res c cs :: rs, cs')
    end.

  Theorem seq_bag calls : forall s cs, SeqState s cs ->
    exists s', seq_exec s calls s' (fst (bag_run cs calls)) /\ SeqState s' (snd (bag_run cs calls)).
  Proof.
    induction calls as [|[[m k] c] r IH]; intros s cs H.
    - exists s. split; [constructor|exact H].
    - destruct (seq_call s cs m k c [] [] H) as (s1 & St & H1).
      destruct (IH s1 _ H1) as (s2 & Ex & H2).
      exists s2. cbn [bag_run]. destruct (bag_run (bag_next (m, k) c cs) r) as [rs cs'] eqn:E.
      cbn [fst snd] in *. split; [econstructor; eauto|exact H2].
  Qed.

  (* ---- record_many(v, n) = the n consecutive push calls the machine runs for it (Exec.expand_prog):
     it adds exactly n copies of v, each under its own call index; n = 0 adds nothing *)
  Fixpoint many_calls (m k v : N) (n : nat) : list (N * N * call) :=
    match n with O => [] | S n' => (m, k, CPush v) :: many_calls m (k + 1)%N v n' end.
  Fixpoint many_vals (m k v : N) (n : nat) : list val :=
    match n with O => [] | S n' => (m, k, v) :: many_vals m (k + 1)%N v n' end.

  Lemma bag_run_many m v n : forall k cs,
    fst (bag_run cs (many_calls m k v n)) = repeat RPush n /\
    Permutation (concat (snd (bag_run cs (many_calls m k v n)))) (many_vals m k v n ++ concat cs).
  Proof.
    induction n as [|n IH]; intros k cs; cbn [many_calls many_vals bag_run repeat app]; [split; auto|].
    destruct (IH (k + 1)%N (bag_next (m, k) (CPush v) cs)) as [E P].
    destruct (bag_run (bag_next (m, k) (CPush v) cs) (many_calls m (k + 1)%N v n)) as [rs cs'] eqn:Eb.
    cbn [fst snd bag_res] in *. split; [rewrite E; reflexivity|].
    eapply Permutation_trans; [exact P|]. cbn [bag_next fst snd].
    eapply Permutation_trans; [apply Permutation_app_head; apply push_contents_perm|].
    apply Permutation_sym. apply Permutation_middle.
  Qed.

  Theorem seq_record_many s cs m k v n :
    SeqState s cs ->
    exists s' cs', seq_exec s (many_calls m k v n) s' (repeat RPush n) /\ SeqState s' cs' /\
                   Permutation (concat cs') (many_vals m k v n ++ concat cs) /\
                   (n = 0 -> s' = s /\ cs' = cs).
  Proof.
    intros H. destruct (seq_bag (many_calls m k v n) s cs H) as (s' & Ex & H').
    destruct (bag_run_many m v n k cs) as [E P]. rewrite E in Ex.
    exists s', (snd (bag_run cs (many_calls m k v n))). split; [exact Ex|split; [exact H'|split; [exact P|]]].
    intros ->. cbn in *. inversion Ex; subst. auto.
  Qed.
End Seq.
