(* C05 — stage 14: clause S3 for data_with and is_empty = true calls on EVERY case outside the late-claim
   class: the snapshot / is_empty invariants run along the trace with the obligation set "genuine push,
   503 position below the call's start, NOT attributed to a clear whose CAS position is below the start"
   (ProofsTrace13.Att); at the start every such obligation sits in a block reachable from tail
   (ProofsTrace13.detached).                                                                      *)
From Coq Require Import List NArith Arith Lia Bool.
Import ListNotations.
Require Import MV.Common.Interleave MV.Common.InterleaveTrace MV.C05.Model MV.C05.Spec MV.C05.Exec.
Require Import MV.C05.ProofsSeq MV.C05.ProofsInv MV.C05.ProofsCor MV.C05.ProofsUniq MV.C05.ProofsCons MV.C05.ProofsProg
               MV.C05.ProofsSnap MV.C05.ProofsEmpty MV.C05.ProofsOrder MV.C05.ProofsSpec MV.C05.ProofsTrace1 MV.C05.ProofsTrace2
               MV.C05.ProofsTrace3 MV.C05.ProofsTrace4 MV.C05.ProofsTrace5 MV.C05.ProofsTrace6 MV.C05.ProofsTrace7 MV.C05.ProofsTrace8 MV.C05.ProofsTrace9
               MV.C05.ProofsTrace10 MV.C05.ProofsTrace12 MV.C05.ProofsTrace13.
Local Open Scope nat_scope.

Lemma Reach_rf h : (forall b c, b < length h -> bnxt (getb h b) = Some c -> c < b) ->
  forall fuel c b, c < fuel -> c < length h -> Reach h (Some c) b -> reach_from h fuel (Some c) b = true.
Proof.
  intros Hdec. induction fuel as [|f IH]; intros c b Hc Hl HR; [lia|]. cbn [reach_from].
  destruct (Nat.eqb c b) eqn:E; [reflexivity|]. inversion HR; subst; [rewrite Nat.eqb_refl in E; discriminate|].
  destruct (bnxt (getb h c)) as [c'|] eqn:En; [|inversion H0]. pose proof (Hdec c c' Hl En). apply IH; [lia|lia|exact H0].
Qed.

Section Snap.
  Variable B : nat.
  Hypothesis HB : 1 <= B.
  Variable ps : list (list call).
  Notation step := (step B true true).

  Definition Obq (tr : list (N * N)) (p : nat) (c : @config shared local) (d i : nat) (x : val) : Prop :=
    Obp ps tr p (heap (fst c)) d i x /\ ~ Att tr c x p.

  Lemma late_back s l s' l' : step s l = Some (s', l') -> late s' = false -> late s = false.
  Proof. intros Hst HL. destruct (late s) eqn:E; auto. rewrite (late_mono B true s l s' l' Hst E) in HL. discriminate. Qed.

  (* a published slot that is not attributed sits in a block reachable from tail *)
  Lemma unattributed_reach tr s ls x d i : RG B ps (s, ls) tr -> late s = false -> slot (heap s) d i = Some x -> pub (heap s) d i ->
    ~ Att tr (s, ls) x (length tr) -> Reach (heap s) (tail s) d.
  Proof.
    intros HG HL Hs Hp NA. destruct (reach_from (heap s) (length (heap s)) (tail s) d) eqn:Er; [apply (reach_from_Reach _ _ _ _ Er)|].
    exfalso. apply (detached B HB ps tr s ls x d i HG HL Hs Hp); [|exact NA]. intros R.
    pose proof HG as (((((_ & O2 & O3 & _) & _) & _) & _) & _). cbn [fst snd] in *.
    destruct (tail s) as [c|] eqn:Et; [|inversion R].
    rewrite (Reach_rf (heap s)) in Er; [discriminate| |apply O3; reflexivity|apply O3; reflexivity|exact R].
    intros b0 c0 H0 H1. apply (O2 b0 c0 H0 H1).
  Qed.

  Definition DataLq (c : @config shared local) (tr : list (N * N)) : Prop :=
    forall u l, nth_error (snd c) u = Some l ->
      let P := positions tr 0 (N.of_nat u) 530 in
      let DS := datas (rev (results l)) in
      (in_walk l -> exists P' p, P = P' ++ [p] /\ length P' = length DS /\ SnapInv u (Obq tr p c) (results l) c) /\
      (~ in_walk l -> length P = length DS) /\
      (forall m sl p, nth_error DS m = Some sl -> nth_error P m = Some p ->
                      forall x, genuine ps x -> pub_lt ps tr x p -> ~ Att tr c x p -> In x (concat sl)).

  Definition RHd (c : @config shared local) (tr : list (N * N)) : Prop := RG B ps c tr /\ (late (fst c) = false -> DataLq c tr).

  Theorem RHd_step : trace_step_preserves step site RHd.
  Proof.
    intros s ls t l s' l' tr (HG & HD0) Hl Hst.
    pose proof (RG_step B HB ps s ls t l s' l' tr HG Hl Hst) as HG'. split; [exact HG'|]. cbn [fst]. intros HL'.
    pose proof (late_back s l s' l' Hst HL') as HL. specialize (HD0 HL). rename HD0 into HD.
    pose proof HG as (HRP & _). pose proof HG' as (HRP' & _).
    pose proof HRP as (HA & HR & _). pose proof HRP' as (HA' & HR' & _).
    set (e := (N.of_nat t, site l)) in *. set (n := length tr).
    assert (AttM : forall x p, Att tr (s, ls) x p -> Att (tr ++ [e]) (s', upd ls t l') x p).
    { intros x p H. exact (Att_step B HB ps s ls t l s' l' tr x p HG Hl Hst HL H). }
    assert (Back : forall p d i x, p <= n -> Obq (tr ++ [e]) p (s', upd ls t l') d i x -> Obq tr p (s, ls) d i x).
    { intros p d i x Hp [H NA]. split; [exact (Obp_back B HB true ps s ls t l s' l' tr e p d i x HRP HRP' Hl Hst Hp H)|].
      intros A. exact (NA (AttM x p A)). }
    assert (Keep : forall u0 p r0, p <= n -> SnapInv u0 (Obq tr p (s, ls)) r0 (s, ls) -> SnapInv u0 (Obq (tr ++ [e]) p (s', upd ls t l')) r0 (s', upd ls t l')).
    { intros u0 p r0 Hp HSn.
      destruct (Snap_step B HB true u0 (Obq tr p (s, ls)) r0 s ls t l s' l' (conj HA HSn) Hl Hst) as [_ HSn'].
      eapply SnapInv_ext; [|exact HSn']. intros d i x H. apply Back; auto. }
    intros u y Hy. cbn [fst snd] in *. cbv zeta.
    destruct (nth_error_upd_cases _ _ _ _ _ Hy) as [[-> ->]|[Hne E]].
    - destruct (HD t l Hl) as (D1 & D2 & D3). cbv zeta in D1, D2, D3. cbn [fst snd] in *.
      unfold e. rewrite P530_self. fold e.
      assert (D3' : forall m sl p, nth_error (datas (rev (results l))) m = Some sl -> nth_error (positions tr 0 (N.of_nat t) 530) m = Some p ->
                                   forall x, genuine ps x -> pub_lt ps (tr ++ [e]) x p -> ~ Att (tr ++ [e]) (s', upd ls t l') x p -> In x (concat sl)).
      { intros m sl p Hm Hp x Hg Hpl NA. apply (D3 m sl p Hm Hp x Hg).
        - apply (pub_lt_back B HB ps tr e x p); [|exact Hpl]. apply nth_error_In in Hp. apply pos_lt in Hp. lia.
        - intros A. exact (NA (AttM x p A)). }
      destruct (step_walk_cases B true s l s' l' Hst) as [(Epc & Es & Hcase)|[(Hw & Hsite & Hcase)|(Hnw & Hsite & Hnw' & Hds)]].
      + subst s'. assert (Hnw : ~ in_walk l) by (unfold in_walk; rewrite Epc; auto). specialize (D2 Hnw).
        replace (N.eqb (site l) 530) with true by (symmetry; apply N.eqb_eq; unfold site; rewrite Epc; reflexivity). fold n.
        destruct Hcase as [(b0 & Et & ->)|(Et & ->)].
        * cbn [goto mk results]. split; [|split].
          -- intros _. exists (positions tr 0 (N.of_nat t) 530), n. split; [reflexivity|split; [exact D2|]].
             assert (Hsp : forall d i x, Obq (tr ++ [e]) n (s, upd ls t (goto l (W1 false b0 []))) d i x -> slot (heap s) d i = Some x /\ pub (heap s) d i).
             { intros d i x ((Hpl & Hg & Hs) & _). cbn [fst] in Hs. split; [exact Hs|].
               destruct (completed_slot B HB ps (s, upd ls t (goto l (W1 false b0 []))) (tr ++ [e]) x n HRP' Hg Hpl) as (d0 & i0 & Hs0 & Hp0). cbn [fst] in *.
               destruct HA' as (_ & _ & _ & H3' & _). destruct (H3' d i d0 i0 x x Hs Hs0 eq_refl) as [-> ->]. exact Hp0. }
             split.
             ++ exact Hsp.
             ++ intros l0 Hl0. cbn [snd] in Hl0. rewrite (nth_error_upd_same _ _ _ _ Hl) in Hl0. inversion Hl0; subst l0. left. split; [reflexivity|].
                unfold snap_pc. cbn [goto mk pcl]. intros d i x HO. right. cbn [fst].
                destruct (Hsp d i x HO) as [Hs Hp]. destruct HO as [_ NA]. rewrite <- Et.
                apply (unattributed_reach tr s ls x d i HG HL Hs Hp). intros A. exact (NA (AttM x n A)).
          -- intros Hw. exfalso. unfold in_walk in Hw. cbn [goto mk pcl] in Hw. tauto.
          -- intros m sl p Hm Hp x Hg Hpl NA. apply (D3' m sl p Hm); auto.
             rewrite nth_error_app1 in Hp; auto. rewrite D2. apply nth_error_Some. congruence.
        * assert (Eres : forall m k td rs, results (enter m k td rs) = rs) by (intros m k [|[]] rs; reflexivity).
          assert (Ewk : forall m k td rs, ~ in_walk (enter m k td rs)) by (intros m k [|[]] rs H; exact H).
          unfold finish. rewrite Eres. cbn [rev]. rewrite datas_app. cbn [datas flat_map app].
          split; [intros Hw; destruct (Ewk _ _ _ _ Hw)|split].
          -- intros _. rewrite !app_length. cbn [length]. lia.
          -- intros m sl p Hm Hp x Hg Hpl NA.
             destruct (Nat.lt_ge_cases m (length (datas (rev (results l))))) as [Hlt|Hge].
             ++ rewrite nth_error_app1 in Hm by exact Hlt. rewrite nth_error_app1 in Hp by lia. apply (D3' m sl p Hm Hp x Hg Hpl NA).
             ++ exfalso. rewrite nth_error_app2 in Hp by lia. rewrite D2 in Hp. destruct (m - _) as [|k] eqn:Ek; [|destruct k; discriminate Hp].
                cbn in Hp. inversion Hp; subst p.
                destruct (completed_slot B HB ps _ _ x n HRP' Hg Hpl) as (d0 & i0 & Hs0 & Hp0). cbn [fst] in Hs0, Hp0.
                pose proof (unattributed_reach tr s ls x d0 i0 HG HL Hs0 Hp0 (fun A => NA (AttM x n A))) as R. rewrite Et in R. inversion R.
      + replace (N.eqb (site l) 530) with false by (symmetry; apply N.eqb_neq; exact Hsite). rewrite app_nil_r.
        destruct (D1 Hw) as (P' & p & EP & ELen & HSn).
        assert (Hpn : p <= n).
        { assert (In p (positions tr 0 (N.of_nat t) 530)) by (rewrite EP; apply in_or_app; right; left; reflexivity).
          apply pos_lt in H. unfold n. lia. }
        pose proof (Keep t p (results l) Hpn HSn) as HSn'.
        destruct Hcase as [[Hw' Er]|[Hnw' (sl & Er)]].
        * rewrite Er. split; [|split].
          -- intros _. exists P', p. split; [exact EP|split; [exact ELen|exact HSn']].
          -- intros H. contradiction.
          -- exact D3'.
        * rewrite Er. cbn [rev]. rewrite datas_app. cbn [datas flat_map app].
          destruct HSn' as [_ HT']. cbn [snd] in HT'.
          destruct (HT' l' (nth_error_upd_same _ _ _ _ Hl)) as [[Er' _]|(rs1 & sl' & Er' & Hin)].
          { exfalso. rewrite Er in Er'. apply (f_equal (@length res)) in Er'. cbn in Er'. lia. }
          assert (Eq : sl' = sl).
          { rewrite Er in Er'. change (RData sl :: results l) with ([RData sl] ++ results l) in Er'.
            change (RData sl' :: results l) with ([RData sl'] ++ results l) in Er'. rewrite app_assoc in Er'.
            apply app_inv_tail in Er'. destruct rs1 as [|r1 rs1]; [cbn in Er'; inversion Er'; reflexivity|].
            apply (f_equal (@length res)) in Er'. rewrite app_length in Er'. cbn in Er'. lia. }
          subst sl'. split; [intros H; contradiction|split].
          -- intros _. rewrite EP, !app_length. cbn [length]. lia.
          -- intros m sl0 p0 Hm Hp x Hg Hpl NA.
             destruct (Nat.lt_ge_cases m (length (datas (rev (results l))))) as [Hlt|Hge].
             ++ rewrite nth_error_app1 in Hm by exact Hlt. apply (D3' m sl0 p0 Hm Hp x Hg Hpl NA).
             ++ rewrite nth_error_app2 in Hm by exact Hge. destruct (m - length (datas (rev (results l)))) as [|k] eqn:Ek; [|destruct k; discriminate Hm].
                cbn in Hm. inversion Hm; subst sl0.
                assert (Em : m = length P') by lia. rewrite EP, Em, nth_error_app2, Nat.sub_diag in Hp by lia. cbn in Hp. inversion Hp; subst p0.
                destruct (completed_slot B HB ps _ _ x p HRP' Hg Hpl) as (d0 & i0 & Hs0 & _). cbn [fst] in Hs0.
                apply (Hin d0 i0 x). split; [split; [exact Hpl|split; [exact Hg|exact Hs0]]|exact NA].
      + replace (N.eqb (site l) 530) with false by (symmetry; apply N.eqb_neq; exact Hsite). rewrite app_nil_r, Hds.
        split; [intros H; contradiction|split; [intros _; exact (D2 Hnw)|exact D3']].
    - unfold e. rewrite positions_snoc. cbn [fst snd].
      replace (N.eqb (N.of_nat t) (N.of_nat u)) with false by (symmetry; apply N.eqb_neq; lia). cbn [andb]. rewrite app_nil_r.
      destruct (HD u y E) as (D1 & D2 & D3). cbv zeta in D1, D2, D3. cbn [fst snd] in *.
      split; [|split; [exact D2|]].
      + intros Hw. destruct (D1 Hw) as (P' & p & EP & ELen & HSn). exists P', p. split; [exact EP|split; [exact ELen|]].
        apply Keep; [|exact HSn].
        assert (In p (positions tr 0 (N.of_nat u) 530)) by (rewrite EP; apply in_or_app; right; left; reflexivity).
        apply pos_lt in H. unfold n. lia.
      + intros m sl p Hm Hp x Hg Hpl NA. apply (D3 m sl p Hm Hp x Hg).
        * apply (pub_lt_back B HB ps tr (N.of_nat t, site l) x p); [|exact Hpl]. apply nth_error_In in Hp. apply pos_lt in Hp. lia.
        * intros A. exact (NA (AttM x p A)).
  Qed.

  Theorem RHd_noop : trace_noop_preserves RHd.
  Proof.
    intros c tr t (HG & HD0). split; [exact (RG_noop B ps c tr t HG)|]. intros HL. specialize (HD0 HL). rename HD0 into HD.
    assert (P : forall u, positions (tr ++ [(N.of_nat t, noop_site)]) 0 u 530 = positions tr 0 u 530).
    { intros u. rewrite positions_snoc. cbn [fst snd]. replace (N.eqb noop_site 530) with false by reflexivity. rewrite andb_false_r. apply app_nil_r. }
    intros u l Hl. rewrite P. destruct (HD u l Hl) as (D1 & D2 & D3). cbv zeta in *. split; [|split; [exact D2|]].
    - intros Hw. destruct (D1 Hw) as (P' & p & EP & ELen & HSn). exists P', p. split; [exact EP|split; [exact ELen|]].
      eapply SnapInv_ext; [|exact HSn]. intros d i x ((Hpl & Hg & Hs) & NA). split; [split; [|split; [exact Hg|exact Hs]]|].
      + apply (pub_lt_back B HB ps tr (N.of_nat t, noop_site) x p); [|exact Hpl].
        assert (In p (positions tr 0 (N.of_nat u) 530)) by (rewrite EP; apply in_or_app; right; left; reflexivity).
        apply pos_lt in H. lia.
      + intros A. exact (NA (Att_noop tr c t x p A)).
    - intros m sl p Hm Hp x Hg Hpl NA. apply (D3 m sl p Hm Hp x Hg).
      + apply (pub_lt_back B HB ps tr (N.of_nat t, noop_site) x p); [|exact Hpl]. apply nth_error_In in Hp. apply pos_lt in Hp. lia.
      + intros A. exact (NA (Att_noop tr c t x p A)).
  Qed.

  Lemma RHd_init : RHd (init_config ps) [].
  Proof.
    split; [exact (RG_init B HB ps)|]. intros _.
    intros u l Hl. cbn [snd init_config] in Hl. destruct (init_local_facts _ _ _ _ Hl) as (p & _ & E1 & _).
    assert (Er : results l = []).
    { revert Hl. generalize 0%N. clear. revert u. induction ps as [|q r IH]; intros u n H; destruct u; cbn in H; try discriminate.
      - inversion H. reflexivity. - eapply IH; eauto. }
    cbv zeta. rewrite Er. cbn. unfold in_walk. rewrite E1. split; [intros []|split; [reflexivity|]]. intros m sl q Hm. destruct m; discriminate.
  Qed.
End Snap.

Section Emp.
  Variable B : nat.
  Hypothesis HB : 1 <= B.
  Variable ps : list (list call).
  Notation step := (step B true true).

  Definition EmpLq (c : @config shared local) (tr : list (N * N)) : Prop :=
    forall u l, nth_error (snd c) u = Some l ->
      let P := positions tr 0 (N.of_nat u) 520 in
      let ES := empties (rev (results l)) in
      (in_emp l -> exists P' p b0, P = P' ++ [p] /\ length P' = length ES /\ EmpInv u b0 (Obq ps tr p c) (results l) c) /\
      (~ in_emp l -> length P = length ES) /\
      (forall m p, nth_error ES m = Some true -> nth_error P m = Some p ->
                   forall x, genuine ps x -> pub_lt ps tr x p -> ~ Att tr c x p -> False).

  Definition RHe (c : @config shared local) (tr : list (N * N)) : Prop := RG B ps c tr /\ (late (fst c) = false -> EmpLq c tr).

  Theorem RHe_step : trace_step_preserves step site RHe.
  Proof.
    intros s ls t l s' l' tr (HG & HD0) Hl Hst.
    pose proof (RG_step B HB ps s ls t l s' l' tr HG Hl Hst) as HG'. split; [exact HG'|]. cbn [fst]. intros HL'.
    pose proof (late_back B s l s' l' Hst HL') as HL. specialize (HD0 HL). rename HD0 into HD.
    pose proof HG as (HRP & _). pose proof HG' as (HRP' & _).
    pose proof HRP as (HA & HR & _). pose proof HRP' as (HA' & HR' & _).
    set (e := (N.of_nat t, site l)) in *. set (n := length tr).
    assert (AttM : forall x p, Att tr (s, ls) x p -> Att (tr ++ [e]) (s', upd ls t l') x p).
    { intros x p H. exact (Att_step B HB ps s ls t l s' l' tr x p HG Hl Hst HL H). }
    assert (Back : forall p d i x, p <= n -> Obq ps (tr ++ [e]) p (s', upd ls t l') d i x -> Obq ps tr p (s, ls) d i x).
    { intros p d i x Hp [H NA]. split; [exact (Obp_back B HB true ps s ls t l s' l' tr e p d i x HRP HRP' Hl Hst Hp H)|].
      intros A. exact (NA (AttM x p A)). }
    assert (Keep : forall u0 b0 p r0, p <= n -> EmpInv u0 b0 (Obq ps tr p (s, ls)) r0 (s, ls) ->
                                      EmpInv u0 b0 (Obq ps (tr ++ [e]) p (s', upd ls t l')) r0 (s', upd ls t l')).
    { intros u0 b0 p r0 Hp HSn.
      destruct (Emp_step B HB u0 b0 (Obq ps tr p (s, ls)) r0 s ls t l s' l' (conj HA HSn) Hl Hst) as [_ HSn'].
      eapply EmpInv_ext; [|exact HSn']. intros d i x H. apply Back; auto. }
    intros u y Hy. cbn [fst snd] in *. cbv zeta.
    destruct (nth_error_upd_cases _ _ _ _ _ Hy) as [[-> ->]|[Hne E]].
    - destruct (HD t l Hl) as (D1 & D2 & D3). cbv zeta in D1, D2, D3. cbn [fst snd] in *.
      unfold e. rewrite P520_self. fold e.
      assert (D3' : forall m p, nth_error (empties (rev (results l))) m = Some true -> nth_error (positions tr 0 (N.of_nat t) 520) m = Some p ->
                                forall x, genuine ps x -> pub_lt ps (tr ++ [e]) x p -> ~ Att (tr ++ [e]) (s', upd ls t l') x p -> False).
      { intros m p Hm Hp x Hg Hpl NA. apply (D3 m p Hm Hp x Hg).
        - apply (pub_lt_back B HB ps tr e x p); [|exact Hpl]. apply nth_error_In in Hp. apply pos_lt in Hp. lia.
        - intros A. exact (NA (AttM x p A)). }
      destruct (step_emp_cases B s l s' l' Hst) as [(Epc & Es & Hcase)|[(Hw & Hsite & Hcase)|(Hnw & Hsite & Hnw' & Hds)]].
      + subst s'. assert (Hnw : ~ in_emp l) by (unfold in_emp; rewrite Epc; auto). specialize (D2 Hnw).
        replace (N.eqb (site l) 520) with true by (symmetry; apply N.eqb_eq; unfold site; rewrite Epc; reflexivity). fold n.
        destruct Hcase as [(b0 & Et & ->)|(Et & ->)].
        * cbn [goto mk results]. split; [|split].
          -- intros _. exists (positions tr 0 (N.of_nat t) 520), n, b0. split; [reflexivity|split; [exact D2|]].
             pose proof HA as ((HO & _) & _).
             split; [split; [apply (proj1 (proj2 (proj2 HO)) b0 Et)|]|].
             ++ intros d i x ((Hpl & Hg & Hs) & NA). cbn [fst] in *.
                destruct (completed_slot B HB ps (s, upd ls t (goto l (E1 b0))) (tr ++ [e]) x n HRP' Hg Hpl) as (d0 & i0 & Hs0 & Hp0). cbn [fst] in *.
                destruct HA' as (_ & _ & _ & H3' & _). destruct (H3' d i d0 i0 x x Hs Hs0 eq_refl) as [-> ->]. split; [|exact Hp0].
                rewrite <- Et. apply (unattributed_reach B HB ps tr s ls x d0 i0 HG HL Hs0 Hp0). intros A. exact (NA (AttM x n A)).
             ++ intros l0 Hl0. cbn [snd] in Hl0. rewrite (nth_error_upd_same _ _ _ _ Hl) in Hl0. inversion Hl0; subst l0. left. split; [reflexivity|].
                unfold emp_pc. cbn [goto mk pcl]. reflexivity.
          -- intros Hw. exfalso. unfold in_emp in Hw. cbn [goto mk pcl] in Hw. tauto.
          -- intros m p Hm Hp x Hg Hpl NA. apply (D3' m p Hm) with (x := x); auto.
             rewrite nth_error_app1 in Hp; auto. rewrite D2. apply nth_error_Some. congruence.
        * assert (Eres : forall m k td rs, results (enter m k td rs) = rs) by (intros m k [|[]] rs; reflexivity).
          assert (Ewk : forall m k td rs, ~ in_emp (enter m k td rs)) by (intros m k [|[]] rs H; exact H).
          unfold finish. rewrite Eres. cbn [rev]. rewrite empties_app. cbn [empties flat_map app].
          split; [intros Hw; destruct (Ewk _ _ _ _ Hw)|split].
          -- intros _. rewrite !app_length. cbn [length]. lia.
          -- intros m p Hm Hp x Hg Hpl NA.
             destruct (Nat.lt_ge_cases m (length (empties (rev (results l))))) as [Hlt|Hge].
             ++ rewrite nth_error_app1 in Hm by exact Hlt. rewrite nth_error_app1 in Hp by lia. apply (D3' m p Hm Hp x Hg Hpl NA).
             ++ rewrite nth_error_app2 in Hp by lia. rewrite D2 in Hp. destruct (m - _) as [|k] eqn:Ek; [|destruct k; discriminate Hp].
                cbn in Hp. inversion Hp; subst p.
                destruct (completed_slot B HB ps _ _ x n HRP' Hg Hpl) as (d0 & i0 & Hs0 & Hp0). cbn [fst] in Hs0, Hp0.
                pose proof (unattributed_reach B HB ps tr s ls x d0 i0 HG HL Hs0 Hp0 (fun A => NA (AttM x n A))) as R. rewrite Et in R. inversion R.
      + replace (N.eqb (site l) 520) with false by (symmetry; apply N.eqb_neq; exact Hsite). rewrite app_nil_r.
        destruct (D1 Hw) as (P' & p & b0 & EP & ELen & HSn).
        assert (Hpn : p <= n).
        { assert (In p (positions tr 0 (N.of_nat t) 520)) by (rewrite EP; apply in_or_app; right; left; reflexivity).
          apply pos_lt in H. unfold n. lia. }
        pose proof (Keep t b0 p (results l) Hpn HSn) as HSn'.
        destruct Hcase as [[Hw' Er]|[Hnw' (r & Er)]].
        * rewrite Er. split; [|split].
          -- intros _. exists P', p, b0. split; [exact EP|split; [exact ELen|exact HSn']].
          -- intros H. contradiction.
          -- exact D3'.
        * rewrite Er. cbn [rev]. rewrite empties_app. cbn [empties flat_map app].
          destruct HSn' as [_ HT']. cbn [snd] in HT'.
          destruct (HT' l' (nth_error_upd_same _ _ _ _ Hl)) as [[Er' _]|(rs1 & r' & Er' & Htrue & _)].
          { exfalso. rewrite Er in Er'. apply (f_equal (@length res)) in Er'. cbn in Er'. lia. }
          assert (Eq : r' = r).
          { rewrite Er in Er'. change (REmpty r :: results l) with ([REmpty r] ++ results l) in Er'.
            change (REmpty r' :: results l) with ([REmpty r'] ++ results l) in Er'. rewrite app_assoc in Er'.
            apply app_inv_tail in Er'. destruct rs1 as [|r1 rs1]; [cbn in Er'; inversion Er'; reflexivity|].
            apply (f_equal (@length res)) in Er'. rewrite app_length in Er'. cbn in Er'. lia. }
          subst r'. split; [intros H; contradiction|split].
          -- intros _. rewrite EP, !app_length. cbn [length]. lia.
          -- intros m p0 Hm Hp x Hg Hpl NA.
             destruct (Nat.lt_ge_cases m (length (empties (rev (results l))))) as [Hlt|Hge].
             ++ rewrite nth_error_app1 in Hm by exact Hlt. apply (D3' m p0 Hm Hp x Hg Hpl NA).
             ++ rewrite nth_error_app2 in Hm by exact Hge. destruct (m - length (empties (rev (results l)))) as [|k] eqn:Ek; [|destruct k; discriminate Hm].
                cbn in Hm. inversion Hm; subst r.
                assert (Em : m = length P') by lia. rewrite EP, Em, nth_error_app2, Nat.sub_diag in Hp by lia. cbn in Hp. inversion Hp; subst p0.
                destruct (completed_slot B HB ps _ _ x p HRP' Hg Hpl) as (d0 & i0 & Hs0 & _). cbn [fst] in Hs0.
                apply (Htrue eq_refl d0 i0 x). split; [split; [exact Hpl|split; [exact Hg|exact Hs0]]|exact NA].
      + replace (N.eqb (site l) 520) with false by (symmetry; apply N.eqb_neq; exact Hsite). rewrite app_nil_r, Hds.
        split; [intros H; contradiction|split; [intros _; exact (D2 Hnw)|exact D3']].
    - unfold e. rewrite positions_snoc. cbn [fst snd].
      replace (N.eqb (N.of_nat t) (N.of_nat u)) with false by (symmetry; apply N.eqb_neq; lia). cbn [andb]. rewrite app_nil_r.
      destruct (HD u y E) as (D1 & D2 & D3). cbv zeta in D1, D2, D3. cbn [fst snd] in *.
      split; [|split; [exact D2|]].
      + intros Hw. destruct (D1 Hw) as (P' & p & b0 & EP & ELen & HSn). exists P', p, b0. split; [exact EP|split; [exact ELen|]].
        apply Keep; [|exact HSn].
        assert (In p (positions tr 0 (N.of_nat u) 520)) by (rewrite EP; apply in_or_app; right; left; reflexivity).
        apply pos_lt in H. unfold n. lia.
      + intros m p Hm Hp x Hg Hpl NA. apply (D3 m p Hm Hp x Hg).
        * apply (pub_lt_back B HB ps tr (N.of_nat t, site l) x p); [|exact Hpl]. apply nth_error_In in Hp. apply pos_lt in Hp. lia.
        * intros A. exact (NA (AttM x p A)).
  Qed.

  Theorem RHe_noop : trace_noop_preserves RHe.
  Proof.
    intros c tr t (HG & HD0). split; [exact (RG_noop B ps c tr t HG)|]. intros HL. specialize (HD0 HL). rename HD0 into HD.
    assert (P : forall u, positions (tr ++ [(N.of_nat t, noop_site)]) 0 u 520 = positions tr 0 u 520).
    { intros u. rewrite positions_snoc. cbn [fst snd]. replace (N.eqb noop_site 520) with false by reflexivity. rewrite andb_false_r. apply app_nil_r. }
    intros u l Hl. rewrite P. destruct (HD u l Hl) as (D1 & D2 & D3). cbv zeta in *. split; [|split; [exact D2|]].
    - intros Hw. destruct (D1 Hw) as (P' & p & b0 & EP & ELen & HSn). exists P', p, b0. split; [exact EP|split; [exact ELen|]].
      eapply EmpInv_ext; [|exact HSn]. intros d i x ((Hpl & Hg & Hs) & NA). split; [split; [|split; [exact Hg|exact Hs]]|].
      + apply (pub_lt_back B HB ps tr (N.of_nat t, noop_site) x p); [|exact Hpl].
        assert (In p (positions tr 0 (N.of_nat u) 520)) by (rewrite EP; apply in_or_app; right; left; reflexivity).
        apply pos_lt in H. lia.
      + intros A. exact (NA (Att_noop tr c t x p A)).
    - intros m p Hm Hp x Hg Hpl NA. apply (D3 m p Hm Hp x Hg).
      + apply (pub_lt_back B HB ps tr (N.of_nat t, noop_site) x p); [|exact Hpl]. apply nth_error_In in Hp. apply pos_lt in Hp. lia.
      + intros A. exact (NA (Att_noop tr c t x p A)).
  Qed.

  Lemma RHe_init : RHe (init_config ps) [].
  Proof.
    split; [exact (RG_init B HB ps)|]. intros _.
    intros u l Hl. cbn [snd init_config] in Hl. destruct (init_local_facts _ _ _ _ Hl) as (p & _ & E1 & _).
    assert (Er : results l = []).
    { revert Hl. generalize 0%N. clear. revert u. induction ps as [|q r IH]; intros u n H; destruct u; cbn in H; try discriminate.
      - inversion H. reflexivity. - eapply IH; eauto. }
    cbv zeta. rewrite Er. cbn. unfold in_emp. rewrite E1. split; [intros []|split; [reflexivity|]]. intros m q Hm. destruct m; discriminate.
  Qed.
End Emp.
