(* C05 — the checker on the model, stage 5: clause S4 of Spec.spec_run (inside one slice the claim
   positions - the last 501 step of the pushing thread before its 502 step - strictly increase),
   for the slices handed to the threads' callbacks and for the final read, on every case.
   Claim ledger: per block the list C b of the trace positions at which its slots 0, 1, .. were
   claimed (strictly increasing, as long as min(w, B)); a thread between claim and slot write has
   that position as its last 501; a written slot's claim position, as the checker computes it, is
   C b at its index.  Slice shape: every slice is slot 0 .. slot (len-1) of one block.            *)
From Coq Require Import List NArith Bool Arith Lia.
Import ListNotations.
Require Import MV.Common.Interleave MV.Common.InterleaveTrace MV.C05.Model MV.C05.Spec MV.C05.Exec.
Require Import MV.C05.ProofsSeq MV.C05.ProofsInv MV.C05.ProofsCor MV.C05.ProofsUniq MV.C05.ProofsCons MV.C05.ProofsProg
               MV.C05.ProofsSnap MV.C05.ProofsOrder MV.C05.ProofsSpec MV.C05.ProofsTrace1 MV.C05.ProofsTrace2 MV.C05.ProofsTrace3
               MV.C05.ProofsTrace4.
Local Open Scope nat_scope.

(* ---- the checker's helpers *)
Lemma last_below_snoc l n p : forall acc, p <= n -> last_below (l ++ [n]) p acc = last_below l p acc.
Proof.
  induction l as [|q r IH]; intros acc H; cbn [app last_below].
  - replace (Nat.ltb n p) with false by (symmetry; apply Nat.ltb_ge; exact H). reflexivity.
  - destruct (Nat.ltb q p); auto.
Qed.

Lemma last_below_all l q p : forall acc, (forall y, In y (l ++ [q]) -> y < p) -> last_below (l ++ [q]) p acc = Some q.
Proof.
  induction l as [|a r IH]; intros acc H; cbn [app last_below].
  - replace (Nat.ltb q p) with true by (symmetry; apply Nat.ltb_lt; apply H; left; reflexivity). reflexivity.
  - replace (Nat.ltb a p) with true by (symmetry; apply Nat.ltb_lt; apply H; left; reflexivity).
    apply IH. intros y Hy. apply H. right. exact Hy.
Qed.

Lemma increasing_somes (l : list (option nat)) :
  (forall j, j < length l -> exists q, nth_error l j = Some (Some q)) ->
  (forall j q q', nth_error l j = Some (Some q) -> nth_error l (S j) = Some (Some q') -> q < q') ->
  increasing l = true.
Proof.
  induction l as [|a r IH]; intros H1 H2; [reflexivity|].
  destruct (H1 0 ltac:(cbn; lia)) as [q Hq]. cbn in Hq. inversion Hq; subst a.
  destruct r as [|b r']; [reflexivity|].
  destruct (H1 1 ltac:(cbn; lia)) as [q' Hq']. cbn in Hq'. inversion Hq'; subst b.
  change (olt (Some q) (Some q') && increasing (Some q' :: r') = true). apply andb_true_iff. split.
  - cbn. apply Nat.ltb_lt. apply (H2 0 q q'); reflexivity.
  - apply IH.
    + intros j Hj. apply (H1 (S j)). cbn in *. lia.
    + intros j a b Ha Hb. apply (H2 (S j) a b); assumption.
Qed.

Lemma zip_pclaim claims : forall xs ws ds i, In i (zip_pinfo xs claims ws ds) ->
  pclaim i = match pwrite i with Some q => last_below claims q None | None => None end.
Proof. induction xs as [|x r IH]; intros ws ds i H; cbn in H; [destruct H|]. destruct H as [<-|H]; [reflexivity|eauto]. Qed.

Lemma zip_thread t claims : forall p k0 ws ds i, In i (zip_pinfo (push_calls t p k0) claims ws ds) -> fst (fst (px i)) = t.
Proof.
  induction p as [|c r IH]; intros k0 ws ds i H; cbn [push_calls] in H; [destruct H|].
  destruct c; cbn [push_calls zip_pinfo] in H; try (eapply IH; eauto; fail).
  destruct H as [<-|H]; [reflexivity|eapply IH; eauto].
Qed.

Lemma pinfos_pclaim tr : forall ps t0 i, In i (pinfos tr t0 ps) ->
  pclaim i = match pwrite i with Some q => last_below (positions tr 0 (fst (fst (px i))) 501) q None | None => None end.
Proof.
  induction ps as [|p r IH]; intros t0 i H; cbn [pinfos] in H; [destruct H|]. apply in_app_or in H. destruct H as [H|H].
  - rewrite (zip_thread _ _ _ _ _ _ _ H). eapply zip_pclaim; eauto.
  - eapply IH; eauto.
Qed.

Lemma find_info_px tbl x i : find_info tbl x = Some i -> In i tbl /\ px i = x.
Proof.
  unfold find_info. intros H. apply find_some in H. destruct H as [Hin He]. split; [exact Hin|].
  destruct (px i) as [[a1 a2] a3], x as [[b1 b2] b3]. unfold val_eqb in He. apply andb_true_iff in He. destruct He as [He E3].
  apply andb_true_iff in He. destruct He as [E1 E2]. apply N.eqb_eq in E1, E2, E3. congruence.
Qed.

(* a slice is slot 0 .. slot (len-1) of one block *)
Definition prefix_of (h : list block) (sl : list val) : Prop :=
  exists b, forall j, j < length sl -> slot h b j = Some (nth j sl garbage).

Section Claims.
  Variable B : nat.
  Hypothesis HB : 1 <= B.
  Variable fxc : bool.
  Variable ps : list (list call).
  Notation step := (step B true fxc).

  Definition ClaimL (c : @config shared local) (tr : list (N * N)) : Prop :=
    exists C : nat -> list nat,
      (forall b, length (C b) = if Nat.ltb b (length (heap (fst c))) then Nat.min (bw (getb (heap (fst c)) b)) B else 0) /\
      (forall b i j q q', i < j -> nth_error (C b) i = Some q -> nth_error (C b) j = Some q' -> q < q') /\
      (forall b i q, nth_error (C b) i = Some q -> q < length tr) /\
      (forall u l x b i, nth_error (snd c) u = Some l -> pcl l = P3 x b i ->
                         exists P q, positions tr 0 (N.of_nat u) 501 = P ++ [q] /\ nth_error (C b) i = Some q) /\
      (forall b i x, slot (heap (fst c)) b i = Some x ->
                     exists w q, nth_error (positions tr 0 (fst (fst x)) 502) (ordv ps x) = Some w /\
                                 last_below (positions tr 0 (fst (fst x)) 501) w None = Some q /\ nth_error (C b) i = Some q).

  Definition Shape (c : @config shared local) : Prop :=
    forall u l sl, nth_error (snd c) u = Some l -> In sl (all_slices l) -> prefix_of (heap (fst c)) sl.

  Definition RC (c : @config shared local) (tr : list (N * N)) : Prop := RW B ps c tr /\ Shape c /\ ClaimL c tr.

  Lemma prefix_mono s ls t l s' l' sl :
    Inv B (s, ls) -> nth_error ls t = Some l -> step s l = Some (s', l') -> prefix_of (heap s) sl -> prefix_of (heap s') sl.
  Proof. intros HI Hl Hst [b Hb]. exists b. intros j Hj. exact (slot_mono B HB fxc s ls t l s' l' b j _ HI Hl Hst (Hb j Hj)). Qed.

  Lemma Shape_step s ls t l s' l' : All B (s, ls) -> Shape (s, ls) -> nth_error ls t = Some l -> step s l = Some (s', l') ->
    Shape (s', upd ls t l').
  Proof.
    intros HA HS Hl Hst u y sl Hy Hin. pose proof HA as (HI & _). cbn [fst snd] in *.
    destruct (nth_error_upd_cases _ _ _ _ _ Hy) as [[-> ->]|[Hne E]].
    - destruct (step_slices B fxc s l s' l' Hst) as [Sl1 Sl2].
      destruct (N.eqb (site l) 506) eqn:E506.
      + apply N.eqb_eq in E506. unfold site in E506.
        destruct (pcl l) eqn:Epc; try discriminate E506; try (destruct clr; discriminate E506).
        rewrite (Sl1 _ _ _ eq_refl) in Hin. apply in_app_or in Hin. destruct Hin as [Hin|[<-|[]]].
        * exact (prefix_mono s ls t l s' l' sl HI Hl Hst (HS t l sl Hl Hin)).
        * assert (Es : s' = s) by (unfold Model.step in Hst; rewrite Epc in Hst; inversion Hst; reflexivity). subst s'.
          assert (Hb : b < length (heap s)).
          { pose proof (proj2 (proj2 HI) t l Hl) as Hp. unfold pc_ok in Hp. rewrite Epc in Hp. exact Hp. }
          destruct (slice_in_slot_order B HB s ls b HI Hb) as [Hlen Hnth]. cbv zeta in Hlen, Hnth.
          exists b. intros j Hj. rewrite Hlen in Hj. destruct (Hnth j Hj) as (x & Hs & En). rewrite En. exact Hs.
      + apply N.eqb_neq in E506. rewrite (Sl2 E506) in Hin. exact (prefix_mono s ls t l s' l' sl HI Hl Hst (HS t l sl Hl Hin)).
    - exact (prefix_mono s ls t l s' l' sl HI Hl Hst (HS u y sl E Hin)).
  Qed.

  (* ---- local facts about one step *)
  Lemma slot_new' s ls t l s' l' b i x :
    Inv B (s, ls) -> nth_error ls t = Some l -> step s l = Some (s', l') ->
    slot (heap s') b i = Some x -> slot (heap s) b i = Some x \/ pcl l = P3 x b i.
  Proof.
    intros HI Hl Hst Hx. pose proof HI as (HO & HC & HP). cbn [fst snd] in *.
    pose proof (HP t l Hl) as Hpl. unfold pc_ok in Hpl.
    step_inv Hst Epc; cbn [heap with_heap] in Hx; auto;
      try (rewrite slot_app in Hx; auto; fail);
      try (rewrite slot_setb_same in Hx by (try tauto; reflexivity); auto; fail);
      try contradiction.
    destruct Hpl as (Hb & Hi & Hnone). unfold slot in *. rewrite getb_setb in Hx by exact Hb.
    destruct (Nat.eqb b b0) eqn:E1; [|left; exact Hx]. apply Nat.eqb_eq in E1. subst b0. cbn [bslot] in Hx.
    destruct (Nat.eq_dec i i0) as [->|Hne].
    - rewrite nth_set_nth_same in Hx by (destruct (proj1 HO b Hb); lia). inversion Hx; subst. right. reflexivity.
    - rewrite nth_set_nth_other in Hx by auto. left. exact Hx.
  Qed.

  Lemma step_to_P3 s l s' l' x b i : step s l = Some (s', l') -> pcl l' = P3 x b i ->
    exists sec, pcl l = P2 x b sec /\ i = bw (getb (heap s) b) /\ i < B.
  Proof.
    intros Hst H. assert (Ep : forall m k td rs y c j, pcl (enter m k td rs) <> P3 y c j) by (intros m k [|[]] rs y c j; discriminate).
    step_inv Hst Epc; unfold finish in H; try (exfalso; eapply Ep; eauto; fail);
      cbn [goto mk pcl] in H; try discriminate H; try (destruct clr; discriminate H).
    inversion H; subst. exists second. repeat split; auto. apply Nat.ltb_lt. assumption.
  Qed.

  Lemma step_claim_bw s l s' l' x b sec : step s l = Some (s', l') -> pcl l = P2 x b sec -> b < length (heap s) ->
    bw (getb (heap s') b) = S (bw (getb (heap s) b)) /\ length (heap s') = length (heap s) /\
    (forall d, d <> b -> getb (heap s') d = getb (heap s) d).
  Proof.
    intros Hst Epc Hb. unfold Model.step in Hst. rewrite Epc in Hst. cbn zeta in Hst.
    destruct (Nat.ltb (bw (getb (heap s) b)) B); [|destruct sec]; inversion Hst; subst; cbn [heap];
      (split; [rewrite getb_setb_same by exact Hb; reflexivity|split; [apply setb_length|intros d Hd; apply getb_setb_other; auto]]).
  Qed.

  Lemma step_new_bw s l s' l' : step s l = Some (s', l') -> length (heap s') = S (length (heap s)) ->
    bw (getb (heap s') (length (heap s))) = 0.
  Proof.
    intros Hst HL. step_inv Hst Epc; cbn [heap with_heap] in *; rewrite ?setb_length in HL; try lia;
      rewrite getb_app_new; reflexivity.
  Qed.

  Lemma site_P2 l x b sec : pcl l = P2 x b sec -> site l = 501%N.
  Proof. intros E. unfold site. rewrite E. reflexivity. Qed.
  Lemma site_P3 l x b i : pcl l = P3 x b i -> site l = 502%N.
  Proof. intros E. unfold site. rewrite E. reflexivity. Qed.
  Lemma site_501 l : site l = 501%N -> exists x b sec, pcl l = P2 x b sec.
  Proof. unfold site. destruct (pcl l); try discriminate; try (destruct clr; discriminate). eauto. Qed.

  Lemma K1_unclaimed s ls t l s' l' (C : nat -> list nat) :
    Inv B (s, ls) -> nth_error ls t = Some l -> step s l = Some (s', l') ->
    (forall x b sec, pcl l <> P2 x b sec) ->
    (forall b, length (C b) = if Nat.ltb b (length (heap s)) then Nat.min (bw (getb (heap s) b)) B else 0) ->
    forall b, length (C b) = if Nat.ltb b (length (heap s')) then Nat.min (bw (getb (heap s') b)) B else 0.
  Proof.
    intros HI Hl Hst Hno K1 b. specialize (K1 b).
    assert (Hbw : b < length (heap s) -> bw (getb (heap s') b) = bw (getb (heap s) b)).
    { intros Hb. apply (step_bw B fxc s ls t l s' l' b HI Hl Hst Hb). intros x b0 sec E. exfalso. eapply Hno; eauto. }
    destruct (Nat.ltb b (length (heap s))) eqn:Eb.
    - apply Nat.ltb_lt in Eb. rewrite (Hbw Eb).
      replace (Nat.ltb b (length (heap s'))) with true; [exact K1|].
      symmetry. apply Nat.ltb_lt. destruct (step_length B HB fxc s l s' l' Hst) as [EL|[EL _]]; lia.
    - apply Nat.ltb_ge in Eb. destruct (step_length B HB fxc s l s' l' Hst) as [EL|[EL _]].
      + replace (Nat.ltb b (length (heap s'))) with false by (symmetry; apply Nat.ltb_ge; lia). exact K1.
      + destruct (Nat.eq_dec b (length (heap s))) as [->|Hne].
        * replace (Nat.ltb (length (heap s)) (length (heap s'))) with true by (symmetry; apply Nat.ltb_lt; lia).
          rewrite (step_new_bw s l s' l' Hst EL), K1. reflexivity.
        * replace (Nat.ltb b (length (heap s'))) with false by (symmetry; apply Nat.ltb_ge; lia). exact K1.
  Qed.

  Lemma nth_error_snoc_last {A} (l : list A) x : nth_error (l ++ [x]) (length l) = Some x.
  Proof. rewrite nth_error_app2 by lia. rewrite Nat.sub_diag. reflexivity. Qed.

  Theorem RC_step : trace_step_preserves step site RC.
  Proof.
    intros s ls t l s' l' tr (HRW & HSh & HCl) Hl Hst.
    pose proof (RW_step B HB fxc ps s ls t l s' l' tr HRW Hl Hst) as HRW'.
    pose proof HRW as (HA & HR & [HL HS]). pose proof HA as (HI & H1 & _). pose proof HI as (HO & HCk & HP).
    split; [exact HRW'|split; [exact (Shape_step s ls t l s' l' HA HSh Hl Hst)|]]. cbn [fst snd] in *.
    destruct HCl as (C & K1 & K2 & K3 & K4 & K5). cbn [fst snd] in *.
    pose proof (HP t l Hl) as Hpl. unfold pc_ok in Hpl.
    set (n := length tr). set (e := (N.of_nat t, site l)).
    (* the block claimed by this step, if any *)
    set (cl := match pcl l with
               | P2 _ b _ => if Nat.ltb (bw (getb (heap s) b)) B then Some b else None
               | _ => None end).
    set (C' := fun b' => match cl with Some b => if Nat.eqb b' b then C b' ++ [n] else C b' | None => C b' end).
    assert (Cpre : forall b' i q, nth_error (C b') i = Some q -> nth_error (C' b') i = Some q).
    { intros b' i q H. unfold C'. destruct cl as [b|]; auto. destruct (Nat.eqb b' b); auto. apply nth_error_app_l. exact H. }
    assert (P501 : forall u, positions (tr ++ [e]) 0 (N.of_nat u) 501 =
                             positions tr 0 (N.of_nat u) 501 ++ (if Nat.eqb u t && N.eqb (site l) 501 then [n] else [])).
    { intros u. rewrite positions_snoc. unfold e. cbn [fst snd]. destruct (Nat.eq_dec u t) as [->|Hne].
      - rewrite N.eqb_refl, Nat.eqb_refl. reflexivity.
      - replace (N.eqb (N.of_nat t) (N.of_nat u)) with false by (symmetry; apply N.eqb_neq; lia).
        replace (Nat.eqb u t) with false by (symmetry; apply Nat.eqb_neq; auto). reflexivity. }
    assert (LBmono : forall u w acc, w < n -> last_below (positions (tr ++ [e]) 0 (N.of_nat u) 501) w acc =
                                              last_below (positions tr 0 (N.of_nat u) 501) w acc).
    { intros u w acc Hw. rewrite P501. destruct (Nat.eqb u t && N.eqb (site l) 501); [|rewrite app_nil_r; reflexivity].
      apply last_below_snoc. lia. }
    exists C'. split; [|split; [|split; [|split]]]; cbn [fst snd].
    - (* K1 *)
      intros b'. unfold C', cl. destruct (pcl l) eqn:Epc;
        try (apply (K1_unclaimed s ls t l s' l' C HI Hl Hst); [intros ? ? ? E0; rewrite Epc in E0; discriminate E0|exact K1]).
      destruct (step_claim_bw s l s' l' x b second Hst Epc Hpl) as (Ebw & EL & Eoth). rewrite EL.
      pose proof (K1 b') as K1b. pose proof (K1 b) as K1bb.
      replace (Nat.ltb b (length (heap s))) with true in K1bb by (symmetry; apply Nat.ltb_lt; exact Hpl).
      destruct (Nat.ltb (bw (getb (heap s) b)) B) eqn:Elt.
      + apply Nat.ltb_lt in Elt. destruct (Nat.eqb b' b) eqn:Eb.
        * apply Nat.eqb_eq in Eb. subst b'. rewrite app_length. cbn [length].
          replace (Nat.ltb b (length (heap s))) with true by (symmetry; apply Nat.ltb_lt; exact Hpl). rewrite Ebw, K1bb. lia.
        * apply Nat.eqb_neq in Eb. rewrite (Eoth b' Eb). exact K1b.
      + apply Nat.ltb_ge in Elt. destruct (Nat.eq_dec b' b) as [->|Hne].
        * replace (Nat.ltb b (length (heap s))) with true by (symmetry; apply Nat.ltb_lt; exact Hpl). rewrite Ebw, K1bb. lia.
        * rewrite (Eoth b' Hne). exact K1b.
    - (* K2 *)
      intros b' i j q q' Hij Hi Hj. unfold C' in Hi, Hj. destruct cl as [b|]; [|exact (K2 b' i j q q' Hij Hi Hj)].
      destruct (Nat.eqb b' b); [|exact (K2 b' i j q q' Hij Hi Hj)].
      destruct (Nat.lt_ge_cases j (length (C b'))) as [Hjl|Hjl].
      + rewrite nth_error_app1 in Hi, Hj by lia. exact (K2 b' i j q q' Hij Hi Hj).
      + rewrite nth_error_app2 in Hj by lia. destruct (j - length (C b')) as [|k] eqn:Ej; [|destruct k; discriminate Hj].
        cbn in Hj. inversion Hj; subst q'. rewrite nth_error_app1 in Hi by lia. apply (K3 b' i q Hi).
    - (* K3 *)
      intros b' i q H. rewrite app_length. cbn [length]. unfold C' in H. destruct cl as [b|]; [|specialize (K3 b' i q H); lia].
      destruct (Nat.eqb b' b); [|specialize (K3 b' i q H); lia].
      destruct (Nat.lt_ge_cases i (length (C b'))) as [Hil|Hil].
      + rewrite nth_error_app1 in H by lia. specialize (K3 b' i q H). lia.
      + rewrite nth_error_app2 in H by lia. destruct (i - length (C b')) as [|k]; [|destruct k; discriminate H].
        cbn in H. inversion H. fold n. lia.
    - (* K4 *)
      intros u y x0 b0 i0 Hy Hpc. destruct (nth_error_upd_cases _ _ _ _ _ Hy) as [[-> ->]|[Hne E]].
      + destruct (step_to_P3 s l s' l' x0 b0 i0 Hst Hpc) as (sec & Epc & Ei & Hlt).
        rewrite P501, Nat.eqb_refl, (site_P2 l _ _ _ Epc). cbn [andb N.eqb Pos.eqb].
        exists (positions tr 0 (N.of_nat t) 501), n. split; [reflexivity|].
        unfold C', cl. rewrite Epc. replace (Nat.ltb (bw (getb (heap s) b0)) B) with true by (symmetry; apply Nat.ltb_lt; lia).
        rewrite Nat.eqb_refl. assert (Hb0 : b0 < length (heap s)) by (rewrite Epc in Hpl; exact Hpl).
        pose proof (K1 b0) as K1b. replace (Nat.ltb b0 (length (heap s))) with true in K1b by (symmetry; apply Nat.ltb_lt; exact Hb0).
        replace i0 with (length (C b0)) by (rewrite K1b; lia). apply nth_error_snoc_last.
      + destruct (K4 u y x0 b0 i0 E Hpc) as (P & q & HP' & Hq). exists P, q. split; [|apply Cpre; exact Hq].
        rewrite P501. replace (Nat.eqb u t) with false by (symmetry; apply Nat.eqb_neq; auto). cbn [andb]. rewrite app_nil_r. exact HP'.
    - (* K5 *)
      intros b0 i0 x0 Hx.
      assert (Thr : exists ux, fst (fst x0) = N.of_nat ux).
      { exists (N.to_nat (fst (fst x0))). rewrite N2Nat.id. reflexivity. }
      destruct Thr as [ux Eux].
      destruct (slot_new' s ls t l s' l' b0 i0 x0 HI Hl Hst Hx) as [Hold|Epc].
      + destruct (K5 b0 i0 x0 Hold) as (w & q & Hw & Hlb & Hq). exists w, q.
        assert (Hwn : w < n) by (apply nth_error_In in Hw; apply positions_lt in Hw; unfold n; lia).
        split; [rewrite positions_snoc; apply nth_error_app_l; exact Hw|split; [|apply Cpre; exact Hq]].
        rewrite Eux in *. rewrite LBmono by exact Hwn. exact Hlb.
      + (* the slot written by this very step *)
        destruct (H1 t l Hl) as [Hme Hids]. destruct (Hids x0 ltac:(rewrite Epc; reflexivity)) as [Hx1 Hx2].
        destruct (K4 t l x0 b0 i0 Hl Epc) as (P & q & HP' & Hq).
        destruct (HL t l Hl) as (L502 & _).
        exists n, q. rewrite Hx1, Hme. unfold e. rewrite !positions_self, (site_P3 l _ _ _ Epc). cbn [N.eqb Pos.eqb].
        rewrite app_nil_r. split; [|split].
        * assert (Eo : ordv ps x0 = length (positions tr 0 (N.of_nat t) 502)).
          { unfold ordv. rewrite Hx1, Hx2, Hme, Nat2N.id, L502, Epc. cbn [p4flag]. lia. }
          rewrite Eo. apply nth_error_snoc_last.
        * rewrite HP'. apply last_below_all. intros yy Hyy. rewrite <- HP' in Hyy. apply positions_lt in Hyy. unfold n. lia.
        * apply Cpre. exact Hq.
  Qed.

  Theorem RC_noop : trace_noop_preserves RC.
  Proof.
    intros c tr t (HRW & HSh & (C & K1 & K2 & K3 & K4 & K5)). split; [apply RW_noop; exact HRW|split; [exact HSh|]].
    assert (P : forall u s, s <> noop_site -> positions (tr ++ [(N.of_nat t, noop_site)]) 0 u s = positions tr 0 u s).
    { intros u s Hs. rewrite positions_snoc. cbn [fst snd].
      replace (N.eqb noop_site s) with false by (symmetry; apply N.eqb_neq; auto). rewrite andb_false_r. apply app_nil_r. }
    assert (N1 : 501%N <> noop_site) by (unfold noop_site; discriminate).
    assert (N2 : 502%N <> noop_site) by (unfold noop_site; discriminate).
    exists C. split; [exact K1|split; [exact K2|split; [|split]]].
    - intros b i q H. rewrite app_length. cbn. specialize (K3 b i q H). lia.
    - intros u l x b i Hl Hpc. rewrite P by auto. eauto.
    - intros b i x Hx. rewrite !P by auto. eauto.
  Qed.

  Lemma RC_init : RC (init_config ps) [].
  Proof.
    split; [exact (RW_init B HB fxc ps)|split].
    - intros u l sl Hl Hin. cbn [snd init_config] in Hl. destruct (init_local_facts _ _ _ _ Hl) as (p & _ & E1 & _).
      assert (Er : results l = []).
      { revert Hl. generalize 0%N. clear. revert u. induction ps as [|q r IH]; intros u n H; destruct u; cbn in H; try discriminate.
        - inversion H. reflexivity. - eapply IH; eauto. }
      unfold all_slices in Hin. rewrite E1, Er in Hin. destruct Hin.
    - exists (fun _ => []). cbn [fst snd init_config init_shared heap]. split; [intros b; reflexivity|].
      split; [intros b i j q q' _ H; destruct i; discriminate H|]. split; [intros b i q H; destruct i; discriminate H|]. split.
      + intros u l x b i Hl Hpc. destruct (init_local_facts _ _ _ _ Hl) as (p & _ & E1 & _). congruence.
      + intros b i x E. rewrite slot_out in E by (cbn; lia). discriminate.
  Qed.

  (* a slice that is a block prefix has increasing claim positions in the checker's table *)
  Lemma ordered_of_prefix c tr sl :
    RC c tr -> prefix_of (heap (fst c)) sl -> slice_ordered (pinfos tr 0 ps) sl = true.
  Proof.
    intros ((_ & (_ & R2 & _) & _) & _ & (C & _ & K2 & _ & _ & K5)) [b Hb]. unfold slice_ordered.
    set (f := fun x => match find_info (pinfos tr 0 ps) x with Some i => pclaim i | None => None end).
    assert (Hcl : forall j, j < length sl -> exists q, f (nth j sl garbage) = Some q /\ nth_error (C b) j = Some q).
    { intros j Hj. specialize (Hb j Hj). set (x := nth j sl garbage) in *.
      destruct (K5 b j x Hb) as (w & q & Hw & Hlb & Hq). destruct (R2 b j x Hb) as (p & Hp & Hk).
      exists q. split; [|exact Hq]. unfold f.
      destruct x as [[xt xk] xv] eqn:Ex. cbn [fst snd] in *.
      destruct (pinfos_find tr ps 0%N (N.to_nat xt) p (N.to_nat xk) xv Hp Hk) as (pi & Hf & Hpw).
      rewrite N.add_0_l in Hf, Hpw. repeat rewrite N2Nat.id in Hf. repeat rewrite N2Nat.id in Hpw. rewrite Hf.
      destruct (find_info_px _ _ _ Hf) as [Hin Hpx]. rewrite (pinfos_pclaim tr ps 0%N pi Hin), Hpw, Hpx. cbn [fst].
      unfold ordv in Hw. cbn [fst snd] in Hw. rewrite (nth_error_nth _ _ _ Hp) in Hw. rewrite Hw. exact Hlb. }
    apply increasing_somes.
    - intros j Hj. rewrite map_length in Hj. destruct (Hcl j Hj) as (q & Hq & _). exists q.
      rewrite nth_error_map, (nth_error_nth' sl garbage Hj). cbn. rewrite Hq. reflexivity.
    - intros j q q' H1 H2.
      assert (Hj2 : S j < length sl).
      { rewrite <- (map_length f). apply nth_error_Some. congruence. }
      assert (Hj1 : j < length sl) by lia.
      destruct (Hcl j Hj1) as (a & Ha & Ca). destruct (Hcl (S j) Hj2) as (a' & Ha' & Ca').
      rewrite nth_error_map, (nth_error_nth' sl garbage Hj1) in H1. cbn in H1. rewrite Ha in H1. inversion H1; subst a.
      rewrite nth_error_map, (nth_error_nth' sl garbage Hj2) in H2. cbn in H2. rewrite Ha' in H2. inversion H2; subst a'.
      apply (K2 b j (S j) q q' ltac:(lia) Ca Ca').
  Qed.
End Claims.

(* ---- clause S4 on the model: thread slices and the final read *)
Theorem spec_claim_order_on_model (c : case) :
  let '(tr, rss, _, final, _) := run_case c in
  forallb (fun rc => forallb (fun qs => slice_ordered (pinfos tr 0 (progs_of c)) (snd qs)) (rsl rc)) (rcalls tr 0 rss) = true /\
  forallb (slice_ordered (pinfos tr 0 (progs_of c))) final = true.
Proof.
  unfold run_case, out_gen. assert (HB : 1 <= BS) by (unfold BS; lia).
  pose proof (exec_full_trace (step BS true true) site (RC BS (progs_of c)) (RC_step BS HB true (progs_of c))
                (RC_noop BS HB (progs_of c)) rr_fuel (map N.to_nat (snd c)) (init_config (progs_of c))
                (RC_init BS HB true (progs_of c))) as H.
  fold (run_gen BS true true c) in H. destruct (run_gen BS true true c) as [[s ls] tr]. cbn [fst snd] in *.
  pose proof H as ((HA & _) & HSh & _). split.
  - apply forallb_forall. intros rc Hrc. apply forallb_forall. intros [q sl] Hq. cbn [fst snd].
    destruct (rcalls_in tr _ _ _ Hrc) as (u & rs & Hu & Hc). rewrite N.add_0_l in Hc.
    rewrite nth_error_map in Hu. destruct (nth_error ls u) as [l|] eqn:El; [|discriminate]. cbn in Hu. inversion Hu; subst rs.
    destruct (rcalls_thread_rsl tr _ _ _ _ _ _ _ _ _ _ Hc Hq) as (m & Hm & _).
    apply (ordered_of_prefix BS HB (progs_of c) (s, ls) tr sl H). apply (HSh u l sl El).
    unfold all_slices. apply in_or_app. left. eapply nth_error_In; eauto.
  - destruct (final_read_props BS HB true s ls HA) as (_ & _ & Hbp). cbv zeta in Hbp. rewrite Forall_forall in Hbp.
    apply forallb_forall. intros sl Hin. apply (ordered_of_prefix BS HB (progs_of c) (s, ls) tr sl H).
    destruct (Hbp sl Hin) as (b & Hb & ->). destruct (slice_in_slot_order BS HB s ls b (proj1 HA) Hb) as [Hlen Hnth]. cbv zeta in Hlen, Hnth.
    exists b. intros j Hj. cbn [fst]. rewrite Hlen in Hj. destruct (Hnth j Hj) as (x & Hs & En). rewrite En. exact Hs.
Qed.
