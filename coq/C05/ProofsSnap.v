(* C05 — what a snapshot (data_with) must show, for EVERY schedule (clears, hand-overs and late
   claims included): fix any reachable configuration in which thread t has just executed its 530
   step (pc W1 false b0 [], i.e. it holds the tail pointer b0 and has read nothing yet) and let
   Ob be ANY set of published slots of blocks reachable from b0 at that moment (= identities
   whose push completed before the 530 step and that were resident in the live chain).  Then in
   every configuration reached later by any schedule, thread t is still inside that call with
   every member of Ob either already handed to its callback or still ahead of it in the chain,
   or the call has returned and every member of Ob is in the slices it was handed.
   A clear that detaches the chain in between changes nothing: the blocks keep their links, and
   the quiescence wait (504/505) makes the read at 506 cover every slot published before.       *)
From Coq Require Import List NArith Bool Arith Lia.
Import ListNotations.
Require Import MV.Common.Interleave MV.C05.Model MV.C05.ProofsSeq MV.C05.ProofsInv MV.C05.ProofsCor MV.C05.ProofsUniq MV.C05.ProofsCons.
Local Open Scope nat_scope.

Section Mono.
  Variable B : nat.
  Hypothesis HB : 1 <= B.
  Variable fxc : bool.
  Notation step := (step B true fxc).

  (* links never change, so reachability inside the existing heap is stable *)
  Lemma bnxt_step s ls t l s' l' b :
    Inv B (s, ls) -> nth_error ls t = Some l -> step s l = Some (s', l') -> b < length (heap s) ->
    bnxt (getb (heap s') b) = bnxt (getb (heap s) b).
  Proof.
    intros HI Hl Hst Hb. pose proof HI as (HO & HC & HP). cbn [fst snd] in *.
    pose proof (HP t l Hl) as Hpl. unfold pc_ok in Hpl.
    step_inv Hst Epc; cbn [heap with_heap]; auto; try contradiction;
      first [rewrite getb_app_old by exact Hb; reflexivity | apply bnxt_setb; [tauto|reflexivity]].
  Qed.

  Lemma Reach_step s ls t l s' l' o d :
    Inv B (s, ls) -> nth_error ls t = Some l -> step s l = Some (s', l') ->
    (forall r, o = Some r -> r < length (heap s)) -> Reach (heap s) o d -> Reach (heap s') o d.
  Proof.
    intros HI Hl Hst Hr R. pose proof (links_of_heap_ok B s (proj1 HI)) as HL.
    induction R as [b|b c R IH]; [constructor|].
    assert (Hb : b < length (heap s)) by (apply Hr; reflexivity).
    apply r_next. rewrite (bnxt_step s ls t l s' l' b HI Hl Hst Hb). apply IH.
    intros r E. specialize (HL b r E). lia.
  Qed.

  Lemma tones_step s ls t l s' l' b :
    Inv B (s, ls) -> nth_error ls t = Some l -> step s l = Some (s', l') -> b < length (heap s) ->
    tones (bdone (getb (heap s) b)) <= tones (bdone (getb (heap s') b)).
  Proof.
    intros HI Hl Hst Hb.
    pose proof (inv_step B HB fxc s ls t l s' l' HI Hl Hst) as ((H1' & _) & _). cbn [fst] in H1'.
    assert (Hb' : b < length (heap s')) by (destruct (step_length B HB fxc s l s' l' Hst) as [E|[E _]]; lia).
    destruct (H1' b Hb') as [Ld' _]. destruct (proj1 (proj1 HI) b Hb) as [Ld _]. cbn [fst] in Ld.
    apply (tones_ge B HB).
    - rewrite Ld', <- Ld. clear. induction (bdone (getb (heap s) b)) as [|[] r IH]; cbn; lia.
    - intros j Hj. apply (proj1 (step_block B HB fxc s ls t l s' l' b HI Hl Hst Hb)). apply (tones_nth B HB). exact Hj.
  Qed.

  Lemma step_results s l s' l' : step s l = Some (s', l') ->
    results l' = results l \/ exists r, results l' = r :: results l.
  Proof.
    intros Hst. assert (E : forall m k td rs, results (enter m k td rs) = rs) by (intros m k [|[]] rs; reflexivity).
    step_inv Hst Epc; unfold finish; rewrite ?E; cbn [goto mk results]; eauto.
  Qed.
End Mono.

Section Snap.
  Variable B : nat.
  Hypothesis HB : 1 <= B.
  Variable fxc : bool.
  Notation step := (step B true fxc).
  Variable t : nat.                          (* the snapshotting thread *)
  Variable Ob : nat -> nat -> val -> Prop.   (* the obligation: (block, index, value) *)
  Variable r0 : list res.                    (* t's results when it did 530 *)

  Definition covered (h : list block) (acc : list (list val)) (o : option nat) : Prop :=
    forall d i x, Ob d i x -> In x (concat acc) \/ Reach h o d.

  Definition snap_pc (h : list block) (l : local) : Prop :=
    match pcl l with
    | W1 false b acc | WS false b acc => covered h acc (Some b)
    | W2 false b len acc => covered h acc (Some b) /\ forall i, i < len -> pub h b i
    | WD false b acc => covered h acc (Some b) /\ forall i x, Ob b i x -> i < tones (bdone (getb h b))
    | WN false b acc => covered h acc (bnxt (getb h b))
    | _ => False
    end.

  Definition snap_done (l : local) : Prop :=
    exists rs1 sl, results l = rs1 ++ RData sl :: r0 /\ forall d i x, Ob d i x -> In x (concat sl).

  Definition SnapInv (c : @config shared local) : Prop :=
    (forall d i x, Ob d i x -> slot (heap (fst c)) d i = Some x /\ pub (heap (fst c)) d i) /\
    (forall l, nth_error (snd c) t = Some l ->
               (results l = r0 /\ snap_pc (heap (fst c)) l) \/ snap_done l).

  Lemma covered_step s ls u l s' l' acc o :
    Inv B (s, ls) -> nth_error ls u = Some l -> step s l = Some (s', l') ->
    (forall r, o = Some r -> r < length (heap s)) -> covered (heap s) acc o -> covered (heap s') acc o.
  Proof.
    intros HI Hl Hst Hr Hc d i x Hx. destruct (Hc d i x Hx) as [H|H]; [left; exact H|right].
    eapply (Reach_step B HB fxc); eauto.
  Qed.

  (* somebody (anybody) steps; the snapshotting thread's view stays valid *)
  Lemma snap_pc_mono s ls u lu s' lu' l :
    Inv B (s, ls) -> nth_error ls u = Some lu -> step s lu = Some (s', lu') ->
    pc_ok B (heap s) l -> snap_pc (heap s) l -> snap_pc (heap s') l.
  Proof.
    intros HI Hl Hst Hp Hs. pose proof (links_of_heap_ok B s (proj1 HI)) as HL.
    unfold snap_pc, pc_ok in *. destruct (pcl l); auto; destruct clr; auto.
    - eapply covered_step; eauto. intros r E; inversion E; subst; exact Hp.
    - destruct Hs as [Hc Hpf]. split; [eapply covered_step; eauto; intros r E; inversion E; subst; exact Hp|].
      intros i Hi. apply (proj1 (step_block B HB fxc s ls u lu s' lu' b HI Hl Hst Hp)). auto.
    - eapply covered_step; eauto. intros r E; inversion E; subst; exact Hp.
    - destruct Hs as [Hc Ht]. split; [eapply covered_step; eauto; intros r E; inversion E; subst; exact Hp|].
      intros i x Hx. pose proof (Ht i x Hx). pose proof (tones_step B HB fxc s ls u lu s' lu' b HI Hl Hst Hp). lia.
    - rewrite (bnxt_step B fxc s ls u lu s' lu' b HI Hl Hst Hp). eapply covered_step; eauto.
      intros r E. specialize (HL b r E). lia.
  Qed.

  Lemma In_data s ls b i x :
    Inv B (s, ls) -> b < length (heap s) -> slot (heap s) b i = Some x -> i < tones (bdone (getb (heap s) b)) ->
    In x (data_of (getb (heap s) b) (tones (bdone (getb (heap s) b)))).
  Proof.
    intros HI Hb Hs Ht. destruct (proj1 (proj1 HI) b Hb) as [Ld Ls]. cbn [fst] in Ld, Ls.
    assert (Hn : tones (bdone (getb (heap s) b)) <= length (bslot (getb (heap s) b))).
    { rewrite Ls, <- Ld. clear. induction (bdone (getb (heap s) b)) as [|[] r IH]; cbn; lia. }
    pose proof (data_nth B HB (bslot (getb (heap s) b)) _ i Ht Hn) as En. unfold slot in Hs. rewrite Hs in En. cbn in En.
    rewrite <- En. apply nth_In. unfold data_of. rewrite map_length, firstn_length. lia.
  Qed.

  Theorem Snap_step : step_preserves step (fun c => All B c /\ SnapInv c).
  Proof.
    intros s ls u lu s' lu' [HA [HOb HT]] Hl Hst. split; [eapply (All_step B HB fxc); eauto|].
    pose proof HA as (HI & _). pose proof HI as (HO & HC & HP). cbn [fst snd] in *.
    split; cbn [fst snd].
    - intros d i x Hx. destruct (HOb d i x Hx) as [Hs Hp]. split; [eapply (slot_mono B HB fxc); eauto|].
      apply (proj1 (step_block B HB fxc s ls u lu s' lu' d HI Hl Hst (slot_lt _ _ _ _ Hs))). exact Hp.
    - intros l Hlt. destruct (Nat.eq_dec u t) as [->|Hne].
      + (* the snapshotting thread itself steps *)
        rewrite (nth_error_upd_same _ _ _ _ Hl) in Hlt. inversion Hlt; subst l. clear Hlt.
        destruct (HT lu Hl) as [[Hn Hs]|(rs1 & sl & Er & Hin)].
        * pose proof (HP t lu Hl) as Hpl. unfold pc_ok in Hpl. unfold snap_pc in Hs.
          assert (Eres : forall m k td rs, results (enter m k td rs) = rs) by (intros m k [|[]] rs; reflexivity).
          assert (Es : s' = s).
          { clear - Hst Hs. unfold Model.step in Hst. destruct (pcl lu); try contradiction; destruct clr; try contradiction;
              repeat match type of Hst with
                     | context [match bnxt ?k with _ => _ end] => destruct (bnxt k)
                     | context [if ?c then _ else _] => destruct c
                     end; inversion Hst; reflexivity. }
          subst s'.
          step_inv Hst Epc; try contradiction; try (destruct clr; try contradiction);
            unfold snap_pc; cbn [goto mk pcl results heap].
          -- (* 504, block fully published *)
             left. split; [exact Hn|]. split; [exact Hs|]. intros i x Hx.
             match goal with E : Nat.eqb _ _ = true |- _ => apply Nat.eqb_eq in E; rewrite E end.
             destruct (HOb _ _ _ Hx) as [_ Hp]. destruct (Nat.lt_ge_cases i B); auto.
             unfold pub in Hp. rewrite nth_overflow in Hp by (destruct (proj1 HO b Hpl); lia). discriminate.
          -- (* 504, not full: remember the published prefix *)
             left. split; [exact Hn|]. split; [exact Hs|]. intros i Hi. unfold pub. apply (tones_nth B HB). exact Hi.
          -- (* 505, quiescent *)
             left. split; [exact Hn|]. destruct Hs as [Hc Hpf]. split; [exact Hc|]. intros i x Hx.
             match goal with E : Nat.eqb _ _ = true |- _ => apply Nat.eqb_eq in E end.
             destruct (HOb _ _ _ Hx) as [_ Hp].
             assert (Hi : i < B).
             { destruct (Nat.lt_ge_cases i B); auto. unfold pub in Hp. rewrite nth_overflow in Hp by (destruct (proj1 HO b Hpl); lia). discriminate. }
             assert (Hw : i < bw (getb (heap s) b)).
             { pose proof (HC b i Hpl Hi) as Hcl. unfold claim_ok in Hcl.
               destruct (Nat.ltb i (bw (getb (heap s) b))) eqn:E'; [apply Nat.ltb_lt in E'; exact E'|].
               destruct Hcl as (Hf & _). unfold pub in Hp. congruence. }
             apply Nat.lt_le_trans with (m := len); [lia|]. apply (tones_ge B HB); [|exact Hpf].
             destruct (proj1 HO b Hpl) as [Ld _]. lia.
          -- (* 505, not quiescent: spin *) left. split; [exact Hn|]. exact (proj1 Hs).
          -- (* spin *) left. split; [exact Hn|]. exact Hs.
          -- (* 506: the read *)
             left. split; [exact Hn|]. destruct Hs as [Hc Ht]. intros d i x Hx.
             destruct (Hc d i x Hx) as [Hin|R]; [left; cbn [concat]; apply in_or_app; right; exact Hin|].
             inversion R; subst; [|right; assumption].
             left. cbn [concat]. apply in_or_app. left. destruct (HOb _ _ _ Hx) as [Hsl _].
             eapply In_data; eauto.
          -- (* 532, more blocks *) left. split; [exact Hn|].
             exact Hs.
          -- (* 532, end of the chain: the call returns *)
             right. exists [], (rev acc). unfold finish. rewrite Eres, Hn. cbn [walk_res app]. split; auto.
             intros d i x Hx.
             destruct (Hs d i x Hx) as [Hin|R]; [|destruct (Reach_None _ _ R)].
             rewrite in_concat in *. destruct Hin as (y & Hy & Hxy). exists y. split; auto. apply in_rev in Hy. exact Hy.
        * right. unfold snap_done. destruct (step_results B fxc s lu s' lu' Hst) as [E|[r E]]; rewrite E, Er.
          -- exists rs1, sl. auto.
          -- exists (r :: rs1), sl. auto.
      + rewrite nth_error_upd_other in Hlt by auto.
        destruct (HT l Hlt) as [[Hn Hs]|Hd]; [left|right; exact Hd].
        split; [exact Hn|]. exact (snap_pc_mono s ls u lu s' lu' l HI Hl Hst (HP t l Hlt) Hs).
  Qed.

  Lemma SnapInv_exec c sched : All B c -> SnapInv c -> SnapInv (fst (exec step site c sched)).
  Proof.
    intros HA HS.
    exact (proj2 (invariant_all_schedules step site (fun c => All B c /\ SnapInv c) Snap_step sched c (conj HA HS))).
  Qed.
End Snap.

Section SnapThm.
  Variable B : nat.
  Hypothesis HB : 1 <= B.
  Variable fxc : bool.
  Notation step := (step B true fxc).

  (* the 530 step: the thread picks up the tail pointer and changes nothing *)
  Lemma snapshot_first_step s l b0 :
    pcl l = W0 false -> tail s = Some b0 -> step s l = Some (s, goto l (W1 false b0 [])).
  Proof. intros E Et. unfold Model.step. rewrite E, Et. reflexivity. Qed.

  (* where a walking thread stands: the slices it was handed so far and the block it reads next *)
  Definition walk_pos (h : list block) (l : local) : option (list (list val) * option nat) :=
    match pcl l with
    | W1 _ b acc | W2 _ b _ acc | WS _ b acc | WD _ b acc => Some (acc, Some b)
    | WN _ b acc => Some (acc, bnxt (getb h b))
    | _ => None
    end.

  Theorem snapshot_sees_completed c t l b0 sched :
    All B c -> nth_error (snd c) t = Some l -> pcl l = W1 false b0 [] ->
    let c' := fst (exec step site c sched) in
    forall l', nth_error (snd c') t = Some l' ->
    (* still inside the call: every obligation is already handed out or still ahead *)
    (results l' = results l /\
     exists acc o, walk_pos (heap (fst c')) l' = Some (acc, o) /\
       forall d i x, Reach (heap (fst c)) (Some b0) d -> slot (heap (fst c)) d i = Some x -> pub (heap (fst c)) d i ->
                     In x (concat acc) \/ Reach (heap (fst c')) o d) \/
    (* the call has returned: every obligation is in the slices handed to the callback *)
    (exists rs1 sl, results l' = rs1 ++ RData sl :: results l /\
       forall d i x, Reach (heap (fst c)) (Some b0) d -> slot (heap (fst c)) d i = Some x -> pub (heap (fst c)) d i ->
                     In x (concat sl)).
  Proof.
    intros HA Hl Hpc c' l' Hl'.
    set (Ob := fun d i x => Reach (heap (fst c)) (Some b0) d /\ slot (heap (fst c)) d i = Some x /\ pub (heap (fst c)) d i).
    assert (H0 : SnapInv t Ob (results l) c).
    { split; [intros d i x (_ & Hs & Hp); auto|].
      intros y Hy. rewrite Hl in Hy. inversion Hy; subst y. left. split; [reflexivity|].
      unfold snap_pc. rewrite Hpc. intros d i x (R & _). right. exact R. }
    destruct (SnapInv_exec B HB fxc t Ob (results l) c sched HA H0) as [_ HT]. fold c' in HT.
    destruct (HT l' Hl') as [[Er Hs]|(rs1 & sl & Er & Hin)].
    - left. split; [exact Er|]. unfold snap_pc in Hs. unfold walk_pos.
      destruct (pcl l') eqn:E; try contradiction; destruct clr; try contradiction;
        eexists; eexists; (split; [reflexivity|]); intros d i x R Hsl Hp;
        first [apply (Hs d i x) | apply (proj1 Hs d i x)]; unfold Ob; auto.
    - right. exists rs1, sl. split; [exact Er|]. intros d i x R Hsl Hp. apply (Hin d i x). unfold Ob. auto.
  Qed.
End SnapThm.
