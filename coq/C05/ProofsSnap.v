(* C05 — what a snapshot (data_with) must show, for EVERY schedule (clears, hand-overs and late
   claims included): fix any reachable configuration in which thread t has just executed its 530
   step (pc W1 false b0 [], i.e. it holds the tail pointer b0 and has read nothing yet) and let
   Ob be ANY set of published slots of blocks reachable from b0 at that moment (= identities
   whose push completed before the 530 step and that were resident in the live chain).  Then in
   every configuration reached later by any schedule, thread t is still inside that call with
   every member of Ob either already handed to its callback or still ahead of it in the chain,
   or the call has returned and every member of Ob is in the slices it was handed.
   A clear that detaches the chain in between changes nothing: the blocks keep their links, and
   the quiescence wait (504/505) makes the read at 506 cover every slot published before.       *)
From Coq Require Import List NArith Bool Arith Lia.
Import ListNotations.
Require Import MV.Common.Interleave MV.C05.Model MV.C05.ProofsSeq MV.C05.ProofsInv MV.C05.ProofsCor MV.C05.ProofsUniq MV.C05.ProofsCons.
Local Open Scope nat_scope.

Section Mono.
  Variable B : nat.
  Hypothesis HB : 1 <= B.
  Variable fxc : bool.
  Notation step := (step B true fxc).

  (* links never change, so reachability inside the existing heap is stable *)
  Lemma bnxt_step s ls t l s' l' b :
    Inv B (s, ls) -> nth_error ls t = Some l -> step s l = Some (s', l') -> b < length (heap s) ->
    bnxt (getb (heap s') b) = bnxt (getb (heap s) b).
  Proof.
    intros HI Hl Hst Hb. pose proof HI as (HO & HC & HP). cbn [fst snd] in *.
    pose proof (HP t l Hl) as Hpl. unfold pc_ok in Hpl.
    step_inv Hst Epc; cbn [heap with_heap]; auto; try contradiction;
      first [rewrite getb_app_old by exact Hb; reflexivity | apply bnxt_setb; [tauto|reflexivity]].
  Qed.

  Lemma Reach_step s ls t l s' l' o d :
    Inv B (s, ls) -> nth_error ls t = Some l -> step s l = Some (s', l') ->
    (forall r, o = Some r -> r < length (heap s)) -> Reach (heap s) o d -> Reach (heap s') o d.
  Proof.
    intros HI Hl Hst Hr R. pose proof (links_of_heap_ok B s (proj1 HI)) as HL.
    induction R as [b|b c R IH]; [constructor|].
    assert (Hb : b < length (heap s)) by (apply Hr; reflexivity).
    apply r_next. rewrite (bnxt_step s ls t l s' l' b HI Hl Hst Hb). apply IH.
    intros r E. specialize (HL b r E). lia.
  Qed.

  Lemma tones_step s ls t l s' l' b :
    Inv B (s, ls) -> nth_error ls t = Some l -> step s l = Some (s', l') -> b < length (heap s) ->
    tones (bdone (getb (heap s) b)) <= tones (bdone (getb (heap s') b)).
  Proof.
    intros HI Hl Hst Hb.
    pose proof (inv_step B HB fxc s ls t l s' l' HI Hl Hst) as ((H1' & _) & _). cbn [fst] in H1'.
    assert (Hb' : b < length (heap s')) by (destruct (step_length B HB fxc s l s' l' Hst) as [E|[E _]]; lia).
    destruct (H1' b Hb') as [Ld' _]. destruct (proj1 (proj1 HI) b Hb) as [Ld _]. cbn [fst] in Ld.
    apply (tones_ge B HB).
    - rewrite Ld', <- Ld. clear. induction (bdone (getb (heap s) b)) as [|[] r IH]; cbn; lia.
    - intros j Hj. apply (proj1 (step_block B HB fxc s ls t l s' l' b HI Hl Hst Hb)). apply (tones_nth B HB). exact Hj.
  Qed.

  Lemma step_results s l s' l' : step s l = Some (s', l') ->
    results l' = results l \/ exists r, results l' = r :: results l.
  Proof.
    intros Hst. assert (E : forall m k td rs, results (enter m k td rs) = rs) by (intros m k [|[]] rs; reflexivity).
    step_inv Hst Epc; unfold finish; rewrite ?E; cbn [goto mk results]; eauto.
  Qed.
End Mono.
