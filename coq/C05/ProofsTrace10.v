(* C05 — the checker on the model, stage 10: clause S3 for is_empty calls that return TRUE, on the model's
   run of every case whose programs contain NO clear_with: no push-table entry has a 503 position
   below the call's 520 position (Spec.accounts with nothing handed out and no clear to excuse it).
   The thread-bound-free is_empty invariant of ProofsEmpty is run along the trace with the
   obligation set "genuine push, 503 position below the call's start".                           *)
From Coq Require Import List NArith Bool Arith Lia.
Import ListNotations.
Require Import MV.Common.Interleave MV.Common.InterleaveTrace MV.C05.Model MV.C05.Spec MV.C05.Exec.
Require Import MV.C05.ProofsSeq MV.C05.ProofsInv MV.C05.ProofsCor MV.C05.ProofsUniq MV.C05.ProofsCons MV.C05.ProofsProg
               MV.C05.ProofsSnap MV.C05.ProofsEmpty MV.C05.ProofsOrder MV.C05.ProofsSpec MV.C05.ProofsTrace1 MV.C05.ProofsTrace2
               MV.C05.ProofsTrace3 MV.C05.ProofsTrace4 MV.C05.ProofsTrace6 MV.C05.ProofsTrace7 MV.C05.ProofsTrace8 MV.C05.ProofsTrace9.
Local Open Scope nat_scope.

Lemma EmpInv_ext t b0 (Ob Ob' : nat -> nat -> val -> Prop) r0 c :
  (forall d i x, Ob' d i x -> Ob d i x) -> EmpInv t b0 Ob r0 c -> EmpInv t b0 Ob' r0 c.
Proof.
  intros H [[Hb H1] H2]. split; [split; [exact Hb|intros d i x Hx; exact (H1 d i x (H d i x Hx))]|]. intros l Hl.
  destruct (H2 l Hl) as [[Hr Hs]|(rs1 & r & Er & Ht & Hf)].
  - left. split; [exact Hr|]. unfold emp_pc in *. destruct (pcl l); auto; destruct Hs as [Rb Hlow]; (split; [exact Rb|]);
      intros d i x Hx; exact (Hlow d i x (H d i x Hx)).
  - right. exists rs1, r. split; [exact Er|split; [|exact Hf]]. intros E d i x Hx. exact (Ht E d i x (H d i x Hx)).
Qed.

Definition in_emp (l : local) : Prop := match pcl l with E1 _ | E2 _ | E3 _ => True | _ => False end.
Definition empties (rs : list res) : list bool := flat_map (fun r => match r with REmpty b => [b] | _ => [] end) rs.
Lemma empties_app a b : empties (a ++ b) = empties a ++ empties b.
Proof. unfold empties. apply flat_map_app. Qed.

Lemma step_emp_cases B s l s' l' : step B true true s l = Some (s', l') ->
  (pcl l = E0 /\ s' = s /\
     ((exists b0, tail s = Some b0 /\ l' = goto l (E1 b0)) \/ (tail s = None /\ l' = finish l (REmpty true)))) \/
  (in_emp l /\ site l <> 520%N /\
     ((in_emp l' /\ results l' = results l) \/ (~ in_emp l' /\ exists r, results l' = REmpty r :: results l))) \/
  (~ in_emp l /\ site l <> 520%N /\ ~ in_emp l' /\ empties (rev (results l')) = empties (rev (results l))).
Proof.
  intros Hst.
  assert (Eres : forall m k td rs, results (enter m k td rs) = rs) by (intros m k [|[]] rs; reflexivity).
  assert (Ewk : forall m k td rs, ~ in_emp (enter m k td rs)) by (intros m k [|[]] rs H; exact H).
  unfold in_emp, site.
  step_inv Hst Epc; unfold finish; rewrite ?Eres; cbn [goto mk pcl results rev];
    try (destruct clr); cbn [goto mk pcl results walk_res];
    first
      [ left; split; [reflexivity|split; [reflexivity|first [left; eexists; split; reflexivity | right; split; reflexivity]]]
      | right; left; split; [exact I|split; [discriminate|first [left; split; [exact I|reflexivity] | right; split; [apply Ewk|eexists; reflexivity]]]]
      | right; right; split; [intros H; exact H|split; [discriminate|split; [first [apply Ewk | intros H; exact H]|
          first [reflexivity | rewrite empties_app; cbn [empties flat_map app]; rewrite app_nil_r; reflexivity]]]] ].
Qed.

Section EmptyLedger.
  Variable B : nat.
  Hypothesis HB : 1 <= B.
  Variable ps : list (list call).
  Hypothesis Hnc : forall p, In p ps -> ~ In CClear p.
  Notation step := (step B true true).

  Definition EmpL (c : @config shared local) (tr : list (N * N)) : Prop :=
    forall u l, nth_error (snd c) u = Some l ->
      let P := positions tr 0 (N.of_nat u) 520 in
      let ES := empties (rev (results l)) in
      (in_emp l -> exists P' p b0, P = P' ++ [p] /\ length P' = length ES /\ EmpInv u b0 (Obp ps tr p (heap (fst c))) (results l) c) /\
      (~ in_emp l -> length P = length ES) /\
      (forall m p, nth_error ES m = Some true -> nth_error P m = Some p ->
                   forall x, genuine ps x -> pub_lt ps tr x p -> False).

  Definition RE (c : @config shared local) (tr : list (N * N)) : Prop := RP B ps c tr /\ NCI c /\ EmpL c tr.

  Lemma P520_other tr t u s0 : t <> u ->
    positions (tr ++ [(N.of_nat t, s0)]) 0 (N.of_nat u) 520 = positions tr 0 (N.of_nat u) 520.
  Proof.
    intros Hne. rewrite positions_snoc. cbn [fst snd].
    replace (N.eqb (N.of_nat t) (N.of_nat u)) with false by (symmetry; apply N.eqb_neq; lia). cbn [andb]. apply app_nil_r.
  Qed.
  Lemma P520_self tr t s0 :
    positions (tr ++ [(N.of_nat t, s0)]) 0 (N.of_nat t) 520 = positions tr 0 (N.of_nat t) 520 ++ (if N.eqb s0 520 then [length tr] else []).
  Proof. rewrite positions_snoc. cbn [fst snd]. rewrite N.eqb_refl. reflexivity. Qed.
  Lemma in_P520_lt tr u p : In p (positions tr 0 u 520) -> p < length tr.
  Proof. intros H. apply positions_lt in H. lia. Qed.

  Theorem RE_step : trace_step_preserves step site RE.
  Proof.
    intros s ls t l s' l' tr (HRP & HN & HD) Hl Hst.
    pose proof (RP_step B HB true ps s ls t l s' l' tr HRP Hl Hst) as HRP'.
    pose proof HRP as (HA & HR & _). pose proof HRP' as (HA' & HR' & _).
    pose proof (NCI_step B HB true ps Hnc s ls t l s' l' HA HR HN Hl Hst) as HN'.
    split; [exact HRP'|split; [exact HN'|]].
    set (e := (N.of_nat t, site l)) in *. set (n := length tr).
    assert (Back : forall p d i x, p <= n -> Obp ps (tr ++ [e]) p (heap s') d i x -> Obp ps tr p (heap s) d i x).
    { intros p d i x Hp H. exact (Obp_back B HB true ps s ls t l s' l' tr e p d i x HRP HRP' Hl Hst Hp H). }
    assert (Keep : forall u0 b0 p r0, p <= n -> EmpInv u0 b0 (Obp ps tr p (heap s)) r0 (s, ls) ->
                                      EmpInv u0 b0 (Obp ps (tr ++ [e]) p (heap s')) r0 (s', upd ls t l')).
    { intros u0 b0 p r0 Hp HSn.
      destruct (Emp_step B HB u0 b0 (Obp ps tr p (heap s)) r0 s ls t l s' l' (conj HA HSn) Hl Hst) as [_ HSn'].
      eapply EmpInv_ext; [|exact HSn']. intros d i x H. apply Back; auto. }
    intros u y Hy. cbn [fst snd] in *. cbv zeta.
    destruct (nth_error_upd_cases _ _ _ _ _ Hy) as [[-> ->]|[Hne E]].
    - destruct (HD t l Hl) as (D1 & D2 & D3). cbv zeta in D1, D2, D3. cbn [fst snd] in *.
      unfold e. rewrite P520_self. fold e.
      assert (D3' : forall m p, nth_error (empties (rev (results l))) m = Some true -> nth_error (positions tr 0 (N.of_nat t) 520) m = Some p ->
                                forall x, genuine ps x -> pub_lt ps (tr ++ [e]) x p -> False).
      { intros m p Hm Hp x Hg Hpl. apply (D3 m p Hm Hp x Hg). apply (pub_lt_back B HB ps tr e x p); [|exact Hpl].
        apply nth_error_In in Hp. apply in_P520_lt in Hp. lia. }
      destruct (step_emp_cases B s l s' l' Hst) as [(Epc & Es & Hcase)|[(Hw & Hsite & Hcase)|(Hnw & Hsite & Hnw' & Hds)]].
      + (* 520 *)
        subst s'. assert (Hnw : ~ in_emp l) by (unfold in_emp; rewrite Epc; auto). specialize (D2 Hnw).
        replace (N.eqb (site l) 520) with true by (symmetry; apply N.eqb_eq; unfold site; rewrite Epc; reflexivity). fold n.
        destruct Hcase as [(b0 & Et & ->)|(Et & ->)].
        * cbn [goto mk results]. split; [|split].
          -- intros _. exists (positions tr 0 (N.of_nat t) 520), n, b0. split; [reflexivity|split; [exact D2|]].
             pose proof HA as ((HO & _) & _).
             split; [split; [apply (proj1 (proj2 (proj2 HO)) b0 Et)|]|].
             ++ intros d i x (Hpl & Hg & Hs). cbn [fst] in *.
                destruct (completed_slot B HB ps (s, upd ls t (goto l (E1 b0))) (tr ++ [e]) x n HRP' Hg Hpl) as (d0 & i0 & Hs0 & Hp0). cbn [fst] in *.
                destruct HA' as (_ & _ & _ & H3' & _). destruct (H3' d i d0 i0 x x Hs Hs0 eq_refl) as [-> ->]. split; [|exact Hp0].
                destruct HN' as [_ N1]. cbn [fst] in N1. rewrite <- Et. apply N1. eapply slot_lt; eauto.
             ++ intros l0 Hl0. cbn [snd] in Hl0. rewrite (nth_error_upd_same _ _ _ _ Hl) in Hl0. inversion Hl0; subst l0. left. split; [reflexivity|].
                unfold emp_pc. cbn [goto mk pcl]. reflexivity.
          -- intros Hw. exfalso. unfold in_emp in Hw. cbn [goto mk pcl] in Hw. tauto.
          -- intros m p Hm Hp x Hg Hpl. apply (D3' m p Hm) with (x := x); auto.
             rewrite nth_error_app1 in Hp; auto. rewrite D2. apply nth_error_Some. congruence.
        * assert (Eres : forall m k td rs, results (enter m k td rs) = rs) by (intros m k [|[]] rs; reflexivity).
          assert (Ewk : forall m k td rs, ~ in_emp (enter m k td rs)) by (intros m k [|[]] rs H; exact H).
          unfold finish. rewrite Eres. cbn [rev]. rewrite empties_app. cbn [empties flat_map app].
          split; [intros Hw; destruct (Ewk _ _ _ _ Hw)|split].
          -- intros _. rewrite !app_length. cbn [length]. lia.
          -- intros m p Hm Hp x Hg Hpl.
             destruct (Nat.lt_ge_cases m (length (empties (rev (results l))))) as [Hlt|Hge].
             ++ rewrite nth_error_app1 in Hm by exact Hlt. rewrite nth_error_app1 in Hp by lia. apply (D3' m p Hm Hp x Hg Hpl).
             ++ destruct (completed_slot B HB ps _ _ x p HRP' Hg Hpl) as (d0 & i0 & Hs0 & _). cbn [fst] in Hs0.
                destruct HN as [N0 _]. cbn [fst] in N0. rewrite (N0 Et) in Hs0. rewrite slot_out in Hs0 by (cbn; lia). discriminate.
      + (* inside an is_empty call *)
        replace (N.eqb (site l) 520) with false by (symmetry; apply N.eqb_neq; exact Hsite). rewrite app_nil_r.
        destruct (D1 Hw) as (P' & p & b0 & EP & ELen & HSn).
        assert (Hpn : p <= n).
        { assert (In p (positions tr 0 (N.of_nat t) 520)) by (rewrite EP; apply in_or_app; right; left; reflexivity).
          apply in_P520_lt in H. unfold n. lia. }
        pose proof (Keep t b0 p (results l) Hpn HSn) as HSn'.
        destruct Hcase as [[Hw' Er]|[Hnw' (r & Er)]].
        * rewrite Er. split; [|split].
          -- intros _. exists P', p, b0. split; [exact EP|split; [exact ELen|exact HSn']].
          -- intros H. contradiction.
          -- exact D3'.
        * rewrite Er. cbn [rev]. rewrite empties_app. cbn [empties flat_map app].
          destruct HSn' as [_ HT']. cbn [snd] in HT'.
          destruct (HT' l' (nth_error_upd_same _ _ _ _ Hl)) as [[Er' _]|(rs1 & r' & Er' & Htrue & _)].
          { exfalso. rewrite Er in Er'. apply (f_equal (@length res)) in Er'. cbn in Er'. lia. }
          assert (Eq : r' = r).
          { rewrite Er in Er'. change (REmpty r :: results l) with ([REmpty r] ++ results l) in Er'.
            change (REmpty r' :: results l) with ([REmpty r'] ++ results l) in Er'. rewrite app_assoc in Er'.
            apply app_inv_tail in Er'. destruct rs1 as [|r1 rs1]; [cbn in Er'; inversion Er'; reflexivity|].
            apply (f_equal (@length res)) in Er'. rewrite app_length in Er'. cbn in Er'. lia. }
          subst r'. split; [intros H; contradiction|split].
          -- intros _. rewrite EP, !app_length. cbn [length]. lia.
          -- intros m p0 Hm Hp x Hg Hpl.
             destruct (Nat.lt_ge_cases m (length (empties (rev (results l))))) as [Hlt|Hge].
             ++ rewrite nth_error_app1 in Hm by exact Hlt. apply (D3' m p0 Hm Hp x Hg Hpl).
             ++ rewrite nth_error_app2 in Hm by exact Hge. destruct (m - length (empties (rev (results l)))) as [|k] eqn:Ek; [|destruct k; discriminate Hm].
                cbn in Hm. inversion Hm; subst r.
                assert (Em : m = length P') by lia. rewrite EP, Em, nth_error_app2, Nat.sub_diag in Hp by lia. cbn in Hp. inversion Hp; subst p0.
                destruct (completed_slot B HB ps _ _ x p HRP' Hg Hpl) as (d0 & i0 & Hs0 & _). cbn [fst] in Hs0.
                apply (Htrue eq_refl d0 i0 x). split; [exact Hpl|split; [exact Hg|exact Hs0]].
      + replace (N.eqb (site l) 520) with false by (symmetry; apply N.eqb_neq; exact Hsite). rewrite app_nil_r, Hds.
        split; [intros H; contradiction|split; [intros _; exact (D2 Hnw)|exact D3']].
    - unfold e. rewrite (P520_other tr t u) by auto.
      destruct (HD u y E) as (D1 & D2 & D3). cbv zeta in D1, D2, D3. cbn [fst snd] in *.
      split; [|split; [exact D2|]].
      + intros Hw. destruct (D1 Hw) as (P' & p & b0 & EP & ELen & HSn). exists P', p, b0. split; [exact EP|split; [exact ELen|]].
        apply Keep; [|exact HSn].
        assert (In p (positions tr 0 (N.of_nat u) 520)) by (rewrite EP; apply in_or_app; right; left; reflexivity).
        apply in_P520_lt in H. unfold n. lia.
      + intros m p Hm Hp x Hg Hpl. apply (D3 m p Hm Hp x Hg). apply (pub_lt_back B HB ps tr (N.of_nat t, site l) x p); [|exact Hpl].
        apply nth_error_In in Hp. apply in_P520_lt in Hp. lia.
  Qed.

  Theorem RE_noop : trace_noop_preserves RE.
  Proof.
    intros c tr t (HRP & HN & HD). split; [exact (RP_noop B ps c tr t HRP)|split; [exact HN|]].
    assert (P : forall u, positions (tr ++ [(N.of_nat t, noop_site)]) 0 u 520 = positions tr 0 u 520).
    { intros u. rewrite positions_snoc. cbn [fst snd]. replace (N.eqb noop_site 520) with false by reflexivity. rewrite andb_false_r. apply app_nil_r. }
    intros u l Hl. rewrite P. destruct (HD u l Hl) as (D1 & D2 & D3). cbv zeta in *. split; [|split; [exact D2|]].
    - intros Hw. destruct (D1 Hw) as (P' & p & b0 & EP & ELen & HSn). exists P', p, b0. split; [exact EP|split; [exact ELen|]].
      eapply EmpInv_ext; [|exact HSn]. intros d i x (Hpl & Hg & Hs). split; [|split; [exact Hg|exact Hs]].
      apply (pub_lt_back B HB ps tr (N.of_nat t, noop_site) x p); [|exact Hpl].
      assert (In p (positions tr 0 (N.of_nat u) 520)) by (rewrite EP; apply in_or_app; right; left; reflexivity).
      apply in_P520_lt in H. lia.
    - intros m p Hm Hp x Hg Hpl. apply (D3 m p Hm Hp x Hg). apply (pub_lt_back B HB ps tr (N.of_nat t, noop_site) x p); [|exact Hpl].
      apply nth_error_In in Hp. apply in_P520_lt in Hp. lia.
  Qed.

  Lemma RE_init : RE (init_config ps) [].
  Proof.
    split; [exact (RP_init B HB true ps)|split].
    - split; [reflexivity|]. intros d Hd. cbn in Hd. lia.
    - intros u l Hl. cbn [snd init_config] in Hl. destruct (init_local_facts _ _ _ _ Hl) as (p & _ & E1 & _).
      assert (Er : results l = []).
      { revert Hl. generalize 0%N. clear. revert u. induction ps as [|q r IH]; intros u n H; destruct u; cbn in H; try discriminate.
        - inversion H. reflexivity. - eapply IH; eauto. }
      cbv zeta. rewrite Er. cbn. unfold in_emp. rewrite E1. split; [intros []|split; [reflexivity|]]. intros m q Hm. destruct m; discriminate.
  Qed.
End EmptyLedger.

Lemma rcalls_thread_empty tr t : forall rs P506 p530 p540 p541 p520 c,
  In c (rcalls_thread tr t rs P506 p530 p540 p541 p520) -> rkind c = 2%N ->
  exists m, nth_error (empties rs) m = Some true /\ rstart c = nth_error p520 m /\ handed c = [].
Proof.
  induction rs as [|r rs IH]; intros P506 p530 p540 p541 p520 c Hc Hk; cbn [rcalls_thread] in Hc; [destruct Hc|].
  destruct r as [|sl|sl|b].
  - eapply IH; eauto.
  - destruct Hc as [<-|Hc]; [cbn in Hk; discriminate|]. eapply IH; eauto.
  - destruct Hc as [<-|Hc]; [cbn in Hk; discriminate|]. eapply IH; eauto.
  - destruct Hc as [<-|Hc].
    + destruct b; [|cbn in Hk; discriminate]. exists 0. cbn [empties flat_map app nth_error rstart]. split; [reflexivity|split; [destruct p520; reflexivity|reflexivity]].
    + destruct (IH _ _ _ _ _ _ Hc Hk) as (m & Hm & Hs & Hh). exists (S m). cbn [empties flat_map app nth_error].
      split; [exact Hm|split; [rewrite Hs; destruct p520; [destruct m; reflexivity|reflexivity]|exact Hh]].
Qed.

(* ---- S3 for is_empty = true on the model, programs without clear_with *)
Theorem spec_is_empty_true_completeness_no_clear (c : case) :
  (forall p, In p (progs_of c) -> ~ In CClear p) ->
  let '(tr, rss, _, _, _) := run_case c in
  let tbl := pinfos tr 0 (progs_of c) in
  let rc := rcalls tr 0 rss in
  forallb (fun r => if (rkind r =? 2)%N then accounts tbl (filter is_clear rc) (rstart r) (handed r) else true) rc = true.
Proof.
  intros Hnc. unfold run_case, out_gen. assert (HB : 1 <= BS) by (unfold BS; lia).
  pose proof (exec_full_trace (step BS true true) site (RE BS (progs_of c)) (RE_step BS HB (progs_of c) Hnc)
                (RE_noop BS HB (progs_of c)) rr_fuel (map N.to_nat (snd c)) (init_config (progs_of c))
                (RE_init BS HB (progs_of c))) as H.
  fold (run_gen BS true true c) in H. destruct (run_gen BS true true c) as [[s ls] tr]. cbn [fst snd] in *.
  destruct H as (_ & _ & HD). cbv zeta.
  apply forallb_forall. intros r Hr. destruct (N.eqb_spec (rkind r) 2) as [Hk|]; [|reflexivity].
  destruct (rcalls_in tr _ _ _ Hr) as (u & rs & Hu & Hc). rewrite N.add_0_l in Hc.
  rewrite nth_error_map in Hu. destruct (nth_error ls u) as [l|] eqn:El; [|discriminate]. cbn in Hu. inversion Hu; subst rs.
  destruct (rcalls_thread_empty tr _ _ _ _ _ _ _ _ Hc Hk) as (m & Hm & Hs & Hh).
  destruct (HD u l El) as (_ & _ & D3). cbv zeta in D3. cbn [fst snd] in D3.
  unfold accounts. apply forallb_forall. intros i Hi.
  destruct (olt (ppub i) (rstart r)) eqn:Eo; [|reflexivity]. exfalso.
  destruct (ppub i) as [w|] eqn:Ew; [|discriminate]. destruct (rstart r) as [p|] eqn:Ep; [|discriminate]. cbn in Eo. apply Nat.ltb_lt in Eo.
  destruct (pinfos_ppub tr _ _ _ Hi) as (u' & q & k & v & Hu' & Hkq & Hpx & Hpp). rewrite N.add_0_l in *.
  apply (D3 m p Hm (eq_sym Hs) (px i)).
  - rewrite Hpx. exists q. cbn [fst snd]. rewrite !Nat2N.id. auto.
  - exists w. split; [|exact Eo]. rewrite Hpx. cbn [fst]. unfold ordv. cbn [fst snd]. rewrite !Nat2N.id, (nth_error_nth _ _ _ Hu'). rewrite <- Hpp. exact Ew.
Qed.
