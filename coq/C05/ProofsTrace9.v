(* C05 — the checker on the model, stage 9: clause S3 for data_with calls (snapshot completeness on
   trace positions: every push whose 503 position is below the call's 530 position is in the slices
   the call was handed) on the model's run of every case whose programs contain NO clear_with.
   Without clears nothing is ever detached, so every block is reachable from tail and the `clears`
   disjunct of Spec.accounts is not needed.  The snapshot invariant of ProofsSnap is run along the
   trace with the obligation set "genuine push, 503 position below the call's start".            *)
From Coq Require Import List NArith Bool Arith Lia.
Import ListNotations.
Require Import MV.Common.Interleave MV.Common.InterleaveTrace MV.C05.Model MV.C05.Spec MV.C05.Exec.
Require Import MV.C05.ProofsSeq MV.C05.ProofsInv MV.C05.ProofsCor MV.C05.ProofsUniq MV.C05.ProofsCons MV.C05.ProofsProg
               MV.C05.ProofsSnap MV.C05.ProofsEmpty MV.C05.ProofsOrder MV.C05.ProofsSpec MV.C05.ProofsTrace1 MV.C05.ProofsTrace2
               MV.C05.ProofsTrace3 MV.C05.ProofsTrace4 MV.C05.ProofsTrace6 MV.C05.ProofsTrace7 MV.C05.ProofsTrace8.
Local Open Scope nat_scope.

Lemma SnapInv_ext t (Ob Ob' : nat -> nat -> val -> Prop) r0 c :
  (forall d i x, Ob' d i x -> Ob d i x) -> SnapInv t Ob r0 c -> SnapInv t Ob' r0 c.
Proof.
  intros H [H1 H2]. split; [intros d i x Hx; exact (H1 d i x (H d i x Hx))|]. intros l Hl.
  destruct (H2 l Hl) as [[Hr Hs]|(rs1 & sl & Er & Hin)]; [left; split; [exact Hr|]|right; exists rs1, sl; split; [exact Er|intros d i x Hx; exact (Hin d i x (H d i x Hx))]].
  unfold snap_pc, covered in *. destruct (pcl l); auto; destruct clr; auto.
  - intros d i x Hx. exact (Hs d i x (H d i x Hx)).
  - destruct Hs as [Hc Hp]. split; [intros d i x Hx; exact (Hc d i x (H d i x Hx))|exact Hp].
  - intros d i x Hx. exact (Hs d i x (H d i x Hx)).
  - destruct Hs as [Hc Ht]. split; [intros d i x Hx; exact (Hc d i x (H d i x Hx))|intros i x Hx; exact (Ht i x (H _ i x Hx))].
  - intros d i x Hx. exact (Hs d i x (H d i x Hx)).
Qed.

Definition in_walk (l : local) : Prop :=
  match pcl l with
  | W1 false _ _ | W2 false _ _ _ | WS false _ _ | WD false _ _ | WN false _ _ => True
  | _ => False
  end.

Definition datas (rs : list res) : list (list (list val)) :=
  flat_map (fun r => match r with RData sl => [sl] | _ => [] end) rs.

Lemma datas_app a b : datas (a ++ b) = datas a ++ datas b.
Proof. unfold datas. apply flat_map_app. Qed.

(* what one step does to a thread with respect to data_with calls *)
Lemma step_walk_cases B fxc s l s' l' : step B true fxc s l = Some (s', l') ->
  (pcl l = W0 false /\ s' = s /\
     ((exists b0, tail s = Some b0 /\ l' = goto l (W1 false b0 [])) \/ (tail s = None /\ l' = finish l (RData [])))) \/
  (in_walk l /\ site l <> 530%N /\
     ((in_walk l' /\ results l' = results l) \/ (~ in_walk l' /\ exists sl, results l' = RData sl :: results l))) \/
  (~ in_walk l /\ site l <> 530%N /\ ~ in_walk l' /\ datas (rev (results l')) = datas (rev (results l))).
Proof.
  intros Hst.
  assert (Eres : forall m k td rs, results (enter m k td rs) = rs) by (intros m k [|[]] rs; reflexivity).
  assert (Ewk : forall m k td rs, ~ in_walk (enter m k td rs)) by (intros m k [|[]] rs H; exact H).
  unfold in_walk, site.
  step_inv Hst Epc; unfold finish; rewrite ?Eres; cbn [goto mk pcl results rev];
    try (destruct clr); cbn [goto mk pcl results walk_res];
    first
      [ left; split; [reflexivity|split; [reflexivity|first [left; eexists; split; reflexivity | right; split; reflexivity]]]
      | right; left; split; [exact I|split; [discriminate|first [left; split; [exact I|reflexivity] | right; split; [apply Ewk|eexists; reflexivity]]]]
      | right; right; split; [intros H; exact H|split; [discriminate|split; [first [apply Ewk | intros H; exact H]|
          first [reflexivity | rewrite datas_app; cbn [datas flat_map app]; rewrite app_nil_r; reflexivity]]]] ].
Qed.

Lemma In_skipn {A} (l : list A) n x : In x (skipn n l) -> In x l.
Proof. revert l. induction n; intros [|a l] H; cbn in *; auto. Qed.

Lemma step_tail B fxc s l s' l' : step B true fxc s l = Some (s', l') ->
  (tail s' = tail s /\ length (heap s') = length (heap s)) \/
  (length (heap s') = S (length (heap s)) /\ tail s' = Some (length (heap s)) /\ bnxt (getb (heap s') (length (heap s))) = tail s) \/
  (exists b, pcl l = C1 b).
Proof.
  intros Hst. step_inv Hst Epc; cbn [heap tail with_heap]; rewrite ?setb_length; auto;
    try (right; right; eauto; fail);
    right; left; rewrite app_length, getb_app_new; cbn [length newb bnxt]; (split; [lia|split; [reflexivity|]]); auto.
  match goal with E : Nat.eqb _ _ = true |- _ => apply Nat.eqb_eq in E; subst; reflexivity end.
Qed.

Section NoClear.
  Variable B : nat.
  Hypothesis HB : 1 <= B.
  Variable fxc : bool.
  Variable ps : list (list call).
  Hypothesis Hnc : forall p, In p ps -> ~ In CClear p.
  Notation step := (step B true fxc).

  Lemma no_C1 c u l b : R ps c -> nth_error (snd c) u = Some l -> pcl l <> C1 b.
  Proof.
    intros (R1 & _) Hl E. destruct (R1 u l Hl) as (p & Hp & Hsk). rewrite E in Hsk. cbn [cur app] in Hsk.
    apply (Hnc p); [eapply nth_error_In; eauto|]. apply (In_skipn p (N.to_nat (cidx l))). rewrite Hsk. left. reflexivity.
  Qed.

  (* nothing is ever detached: every block is reachable from tail *)
  Definition NCI (c : @config shared local) : Prop :=
    (tail (fst c) = None -> heap (fst c) = []) /\
    forall d, d < length (heap (fst c)) -> Reach (heap (fst c)) (tail (fst c)) d.

  Lemma NCI_step s ls t l s' l' :
    All B (s, ls) -> R ps (s, ls) -> NCI (s, ls) -> nth_error ls t = Some l -> step s l = Some (s', l') -> NCI (s', upd ls t l').
  Proof.
    intros HA HR [N0 N1] Hl Hst. pose proof HA as (HI & _). pose proof HI as (HO & _). cbn [fst snd] in *.
    destruct (step_tail B fxc s l s' l' Hst) as [[Et EL]|[(EL & Et & En)|[b Epc]]].
    - split; cbn [fst].
      + intros E. rewrite Et in E. specialize (N0 E). destruct (heap s') eqn:Eh; auto. rewrite N0 in EL. cbn in EL. discriminate.
      + intros d Hd. rewrite Et. rewrite EL in Hd. eapply (Reach_step B HB fxc); eauto.
        intros r E. apply (proj1 (proj2 (proj2 HO)) r E).
    - split; cbn [fst]; [rewrite Et; discriminate|]. intros d Hd. rewrite Et.
      destruct (Nat.eq_dec d (length (heap s))) as [->|Hne]; [constructor|]. apply r_next. rewrite En.
      eapply (Reach_step B HB fxc); eauto; [intros r E; apply (proj1 (proj2 (proj2 HO)) r E)|apply N1; lia].
    - exfalso. eapply (no_C1 (s, ls) t l b); eauto.
  Qed.
End NoClear.

Section DataLedger.
  Variable B : nat.
  Hypothesis HB : 1 <= B.
  Variable fxc : bool.
  Variable ps : list (list call).
  Hypothesis Hnc : forall p, In p ps -> ~ In CClear p.
  Notation step := (step B true fxc).

  Definition pub_lt (tr : list (N * N)) (x : val) (p : nat) : Prop :=
    exists w, nth_error (positions tr 0 (fst (fst x)) 503) (ordv ps x) = Some w /\ w < p.
  Definition Obp (tr : list (N * N)) (p : nat) (h : list block) (d i : nat) (x : val) : Prop :=
    pub_lt tr x p /\ genuine ps x /\ slot h d i = Some x.

  Lemma pub_lt_back tr e x p : p <= length tr -> pub_lt (tr ++ [e]) x p -> pub_lt tr x p.
  Proof.
    intros Hp (w & Hw & Hlt). exists w. split; [|exact Hlt]. rewrite positions_snoc in Hw.
    destruct (Nat.lt_ge_cases (ordv ps x) (length (positions tr 0 (fst (fst x)) 503))) as [H|H].
    - rewrite nth_error_app1 in Hw by exact H. exact Hw.
    - rewrite nth_error_app2 in Hw by exact H. destruct (N.eqb (fst e) (fst (fst x)) && N.eqb (snd e) 503)%bool.
      + destruct (ordv ps x - _) as [|k]; [cbn in Hw; inversion Hw; lia|destruct k; discriminate Hw].
      + destruct (ordv ps x - _); discriminate Hw.
  Qed.

  (* a genuine push with a 503 position is completed: its value sits in a published slot *)
  Lemma completed_slot c tr x p : RP B ps c tr -> genuine ps x -> pub_lt tr x p ->
    exists d i, slot (heap (fst c)) d i = Some x /\ pub (heap (fst c)) d i.
  Proof.
    intros (HA & (R1 & R2 & R3) & [HLen _] & HS) (q & Hq & Hk) (w & Hw & _). destruct x as [[xt xk] xv]. cbn [fst snd] in *.
    assert (Hl : exists l, nth_error (snd c) (N.to_nat xt) = Some l).
    { destruct (nth_error (snd c) (N.to_nat xt)) as [l|] eqn:El; [eauto|]. apply nth_error_None in El.
      assert (N.to_nat xt < length ps) by (apply nth_error_Some; congruence). lia. }
    destruct Hl as [l Hl]. pose proof (HS _ l Hl) as Hc. rewrite N2Nat.id in Hc. rewrite (nth_error_nth _ _ _ Hq) in Hc.
    unfold ordv in Hw. cbn [fst snd] in Hw. rewrite (nth_error_nth _ _ _ Hq) in Hw.
    assert (Hkc : N.to_nat xk < N.to_nat (cidx l)).
    { apply (npush_firstn_lt q). rewrite <- Hc. apply nth_error_Some. congruence. }
    destruct (R3 _ l q _ xv Hl Hq Hkc Hk) as (b & j & Hs & Hp). rewrite !N2Nat.id in Hs. eauto.
  Qed.

  Definition DataL (c : @config shared local) (tr : list (N * N)) : Prop :=
    forall u l, nth_error (snd c) u = Some l ->
      let P := positions tr 0 (N.of_nat u) 530 in
      let DS := datas (rev (results l)) in
      (in_walk l -> exists P' p, P = P' ++ [p] /\ length P' = length DS /\ SnapInv u (Obp tr p (heap (fst c))) (results l) c) /\
      (~ in_walk l -> length P = length DS) /\
      (forall m sl p, nth_error DS m = Some sl -> nth_error P m = Some p ->
                      forall x, genuine ps x -> pub_lt tr x p -> In x (concat sl)).

  Definition RS (c : @config shared local) (tr : list (N * N)) : Prop := RP B ps c tr /\ NCI c /\ DataL c tr.

  Lemma Obp_back s ls t l s' l' tr e p d i x :
    RP B ps (s, ls) tr -> RP B ps (s', upd ls t l') (tr ++ [e]) -> nth_error ls t = Some l -> step s l = Some (s', l') ->
    p <= length tr -> Obp (tr ++ [e]) p (heap s') d i x -> Obp tr p (heap s) d i x.
  Proof.
    intros HRP HRP' Hl Hst Hp (Hpl & Hg & Hs). pose proof (pub_lt_back tr e x p Hp Hpl) as Hpl0.
    split; [exact Hpl0|split; [exact Hg|]].
    destruct (completed_slot (s, ls) tr x p HRP Hg Hpl0) as (d0 & i0 & Hs0 & _). cbn [fst] in Hs0.
    pose proof HRP as (HA & _). pose proof HRP' as ((_ & _ & _ & H3' & _) & _).
    pose proof (slot_mono B HB fxc s ls t l s' l' d0 i0 x (proj1 HA) Hl Hst Hs0) as Hs0'.
    destruct (H3' d i d0 i0 x x Hs Hs0' eq_refl) as [-> ->]. exact Hs0.
  Qed.

  Lemma P530_other tr t u s0 : t <> u ->
    positions (tr ++ [(N.of_nat t, s0)]) 0 (N.of_nat u) 530 = positions tr 0 (N.of_nat u) 530.
  Proof.
    intros Hne. rewrite positions_snoc. cbn [fst snd].
    replace (N.eqb (N.of_nat t) (N.of_nat u)) with false by (symmetry; apply N.eqb_neq; lia). cbn [andb]. apply app_nil_r.
  Qed.

  Lemma P530_self tr t s0 :
    positions (tr ++ [(N.of_nat t, s0)]) 0 (N.of_nat t) 530 = positions tr 0 (N.of_nat t) 530 ++ (if N.eqb s0 530 then [length tr] else []).
  Proof. rewrite positions_snoc. cbn [fst snd]. rewrite N.eqb_refl. reflexivity. Qed.

  Lemma in_P530_lt tr u p : In p (positions tr 0 u 530) -> p < length tr.
  Proof. intros H. apply positions_lt in H. lia. Qed.

  Theorem RS_step : trace_step_preserves step site RS.
  Proof.
    intros s ls t l s' l' tr (HRP & HN & HD) Hl Hst.
    pose proof (RP_step B HB fxc ps s ls t l s' l' tr HRP Hl Hst) as HRP'.
    pose proof HRP as (HA & HR & _). pose proof HRP' as (HA' & HR' & _).
    split; [exact HRP'|split; [exact (NCI_step B HB fxc ps Hnc s ls t l s' l' HA HR HN Hl Hst)|]].
    pose proof (NCI_step B HB fxc ps Hnc s ls t l s' l' HA HR HN Hl Hst) as HN'.
    set (e := (N.of_nat t, site l)) in *. set (n := length tr).
    assert (Back : forall p d i x, p <= n -> Obp (tr ++ [e]) p (heap s') d i x -> Obp tr p (heap s) d i x).
    { intros p d i x Hp H. exact (Obp_back s ls t l s' l' tr e p d i x HRP HRP' Hl Hst Hp H). }
    assert (Keep : forall u0 p r0, p <= n -> SnapInv u0 (Obp tr p (heap s)) r0 (s, ls) -> SnapInv u0 (Obp (tr ++ [e]) p (heap s')) r0 (s', upd ls t l')).
    { intros u0 p r0 Hp HSn.
      destruct (Snap_step B HB fxc u0 (Obp tr p (heap s)) r0 s ls t l s' l' (conj HA HSn) Hl Hst) as [_ HSn'].
      eapply SnapInv_ext; [|exact HSn']. intros d i x H. apply Back; auto. }
    intros u y Hy. cbn [fst snd] in *. cbv zeta.
    destruct (nth_error_upd_cases _ _ _ _ _ Hy) as [[-> ->]|[Hne E]].
    - (* the stepping thread *)
      destruct (HD t l Hl) as (D1 & D2 & D3). cbv zeta in D1, D2, D3. cbn [fst snd] in *.
      unfold e. rewrite P530_self. fold e.
      assert (D3' : forall m sl p, nth_error (datas (rev (results l))) m = Some sl -> nth_error (positions tr 0 (N.of_nat t) 530) m = Some p ->
                                   forall x, genuine ps x -> pub_lt (tr ++ [e]) x p -> In x (concat sl)).
      { intros m sl p Hm Hp x Hg Hpl. apply (D3 m sl p Hm Hp x Hg). apply (pub_lt_back tr e x p); [|exact Hpl].
        apply nth_error_In in Hp. apply in_P530_lt in Hp. lia. }
      destruct (step_walk_cases B fxc s l s' l' Hst) as [(Epc & Es & Hcase)|[(Hw & Hsite & Hcase)|(Hnw & Hsite & Hnw' & Hds)]].
      + (* 530 *)
        subst s'. assert (Hnw : ~ in_walk l) by (unfold in_walk; rewrite Epc; auto). specialize (D2 Hnw).
        replace (N.eqb (site l) 530) with true by (symmetry; apply N.eqb_eq; unfold site; rewrite Epc; reflexivity). fold n.
        destruct Hcase as [(b0 & Et & ->)|(Et & ->)].
        * (* a non-empty bucket: the walk begins *)
          cbn [goto mk results]. split; [|split].
          -- intros _. exists (positions tr 0 (N.of_nat t) 530), n. split; [reflexivity|split; [exact D2|]].
             split.
             ++ intros d i x (Hpl & Hg & Hs). split; [exact Hs|].
                destruct (completed_slot (s, upd ls t (goto l (W1 false b0 []))) (tr ++ [e]) x n HRP' Hg Hpl) as (d0 & i0 & Hs0 & Hp0). cbn [fst] in *.
                destruct HA' as (_ & _ & _ & H3' & _). destruct (H3' d i d0 i0 x x Hs Hs0 eq_refl) as [-> ->]. exact Hp0.
             ++ intros l0 Hl0. cbn [snd] in Hl0. rewrite (nth_error_upd_same _ _ _ _ Hl) in Hl0. inversion Hl0; subst l0. left. split; [reflexivity|].
                unfold snap_pc. cbn [goto mk pcl]. intros d i x (_ & _ & Hs). right. cbn [fst].
                destruct HN' as [_ N1]. cbn [fst] in N1. rewrite <- Et. apply N1. eapply slot_lt; eauto.
          -- intros Hw. exfalso. unfold in_walk in Hw. cbn [goto mk pcl] in Hw. tauto.
          -- intros m sl p Hm Hp x Hg Hpl. apply (D3' m sl p Hm); auto.
             rewrite nth_error_app1 in Hp; auto. rewrite D2. apply nth_error_Some. congruence.
        * (* an empty bucket: the call returns at once with nothing *)
          assert (Eres : forall m k td rs, results (enter m k td rs) = rs) by (intros m k [|[]] rs; reflexivity).
          assert (Ewk : forall m k td rs, ~ in_walk (enter m k td rs)) by (intros m k [|[]] rs H; exact H).
          unfold finish. rewrite Eres. cbn [rev]. rewrite datas_app. cbn [datas flat_map app].
          split; [intros Hw; destruct (Ewk _ _ _ _ Hw)|split].
          -- intros _. rewrite !app_length. cbn [length]. lia.
          -- intros m sl p Hm Hp x Hg Hpl.
             destruct (Nat.lt_ge_cases m (length (datas (rev (results l))))) as [Hlt|Hge].
             ++ rewrite nth_error_app1 in Hm by exact Hlt. rewrite nth_error_app1 in Hp by lia. apply (D3' m sl p Hm Hp x Hg Hpl).
             ++ exfalso. destruct (completed_slot _ _ x p HRP' Hg Hpl) as (d0 & i0 & Hs0 & _). cbn [fst] in Hs0.
                destruct HN as [N0 _]. cbn [fst] in N0. rewrite (N0 Et) in Hs0. rewrite slot_out in Hs0 by (cbn; lia). discriminate.
      + (* inside a walk *)
        replace (N.eqb (site l) 530) with false by (symmetry; apply N.eqb_neq; exact Hsite). rewrite app_nil_r.
        destruct (D1 Hw) as (P' & p & EP & ELen & HSn).
        assert (Hpn : p <= n).
        { assert (In p (positions tr 0 (N.of_nat t) 530)) by (rewrite EP; apply in_or_app; right; left; reflexivity).
          apply in_P530_lt in H. unfold n. lia. }
        pose proof (Keep t p (results l) Hpn HSn) as HSn'.
        destruct Hcase as [[Hw' Er]|[Hnw' (sl & Er)]].
        * rewrite Er. split; [|split].
          -- intros _. exists P', p. split; [exact EP|split; [exact ELen|exact HSn']].
          -- intros H. contradiction.
          -- exact D3'.
        * rewrite Er. cbn [rev]. rewrite datas_app. cbn [datas flat_map app].
          destruct HSn' as [_ HT']. cbn [snd] in HT'.
          destruct (HT' l' (nth_error_upd_same _ _ _ _ Hl)) as [[Er' _]|(rs1 & sl' & Er' & Hin)].
          { exfalso. rewrite Er in Er'. apply (f_equal (@length res)) in Er'. cbn in Er'. lia. }
          assert (Eq : sl' = sl).
          { rewrite Er in Er'. change (RData sl :: results l) with ([RData sl] ++ results l) in Er'.
            change (RData sl' :: results l) with ([RData sl'] ++ results l) in Er'. rewrite app_assoc in Er'.
            apply app_inv_tail in Er'. destruct rs1 as [|r1 rs1]; [cbn in Er'; inversion Er'; reflexivity|].
            apply (f_equal (@length res)) in Er'. rewrite app_length in Er'. cbn in Er'. lia. }
          subst sl'. split; [intros H; contradiction|split].
          -- intros _. rewrite EP, !app_length. cbn [length]. lia.
          -- intros m sl0 p0 Hm Hp x Hg Hpl.
             destruct (Nat.lt_ge_cases m (length (datas (rev (results l))))) as [Hlt|Hge].
             ++ rewrite nth_error_app1 in Hm by exact Hlt. apply (D3' m sl0 p0 Hm Hp x Hg Hpl).
             ++ rewrite nth_error_app2 in Hm by exact Hge. destruct (m - length (datas (rev (results l)))) as [|k] eqn:Ek; [|destruct k; discriminate Hm].
                cbn in Hm. inversion Hm; subst sl0.
                assert (Em : m = length P') by lia. rewrite EP, Em, nth_error_app2, Nat.sub_diag in Hp by lia. cbn in Hp. inversion Hp; subst p0.
                destruct (completed_slot _ _ x p HRP' Hg Hpl) as (d0 & i0 & Hs0 & _). cbn [fst] in Hs0.
                apply (Hin d0 i0 x). split; [exact Hpl|split; [exact Hg|exact Hs0]].
      + (* outside any data_with call *)
        replace (N.eqb (site l) 530) with false by (symmetry; apply N.eqb_neq; exact Hsite). rewrite app_nil_r, Hds.
        split; [intros H; contradiction|split; [intros _; exact (D2 Hnw)|exact D3']].
    - (* another thread *)
      unfold e. rewrite (P530_other tr t u) by auto.
      destruct (HD u y E) as (D1 & D2 & D3). cbv zeta in D1, D2, D3. cbn [fst snd] in *.
      split; [|split; [exact D2|]].
      + intros Hw. destruct (D1 Hw) as (P' & p & EP & ELen & HSn). exists P', p. split; [exact EP|split; [exact ELen|]].
        apply Keep; [|exact HSn].
        assert (In p (positions tr 0 (N.of_nat u) 530)) by (rewrite EP; apply in_or_app; right; left; reflexivity).
        apply in_P530_lt in H. unfold n. lia.
      + intros m sl p Hm Hp x Hg Hpl. apply (D3 m sl p Hm Hp x Hg). apply (pub_lt_back tr (N.of_nat t, site l) x p); [|exact Hpl].
        apply nth_error_In in Hp. apply in_P530_lt in Hp. lia.
  Qed.

  Theorem RS_noop : trace_noop_preserves RS.
  Proof.
    intros c tr t (HRP & HN & HD). split; [exact (RP_noop B ps c tr t HRP)|split; [exact HN|]].
    assert (P : forall u, positions (tr ++ [(N.of_nat t, noop_site)]) 0 u 530 = positions tr 0 u 530).
    { intros u. rewrite positions_snoc. cbn [fst snd]. replace (N.eqb noop_site 530) with false by reflexivity. rewrite andb_false_r. apply app_nil_r. }
    intros u l Hl. rewrite P. destruct (HD u l Hl) as (D1 & D2 & D3). cbv zeta in *. split; [|split; [exact D2|]].
    - intros Hw. destruct (D1 Hw) as (P' & p & EP & ELen & HSn). exists P', p. split; [exact EP|split; [exact ELen|]].
      eapply SnapInv_ext; [|exact HSn]. intros d i x (Hpl & Hg & Hs). split; [|split; [exact Hg|exact Hs]].
      apply (pub_lt_back tr (N.of_nat t, noop_site) x p); [|exact Hpl].
      assert (In p (positions tr 0 (N.of_nat u) 530)) by (rewrite EP; apply in_or_app; right; left; reflexivity).
      apply in_P530_lt in H. lia.
    - intros m sl p Hm Hp x Hg Hpl. apply (D3 m sl p Hm Hp x Hg). apply (pub_lt_back tr (N.of_nat t, noop_site) x p); [|exact Hpl].
      apply nth_error_In in Hp. apply in_P530_lt in Hp. lia.
  Qed.

  Lemma RS_init : RS (init_config ps) [].
  Proof.
    split; [exact (RP_init B HB fxc ps)|split].
    - split; [reflexivity|]. intros d Hd. cbn in Hd. lia.
    - intros u l Hl. cbn [snd init_config] in Hl. destruct (init_local_facts _ _ _ _ Hl) as (p & _ & E1 & _).
      assert (Er : results l = []).
      { revert Hl. generalize 0%N. clear. revert u. induction ps as [|q r IH]; intros u n H; destruct u; cbn in H; try discriminate.
        - inversion H. reflexivity. - eapply IH; eauto. }
      cbv zeta. rewrite Er. cbn. unfold in_walk. rewrite E1. split; [intros []|split; [reflexivity|]]. intros m sl q Hm. destruct m; discriminate.
  Qed.
End DataLedger.

Lemma rcalls_thread_data tr t : forall rs P506 p530 p540 p541 p520 c,
  In c (rcalls_thread tr t rs P506 p530 p540 p541 p520) -> rkind c = 0%N ->
  exists m sl, nth_error (datas rs) m = Some sl /\ rstart c = nth_error p530 m /\ handed c = concat sl.
Proof.
  induction rs as [|r rs IH]; intros P506 p530 p540 p541 p520 c Hc Hk; cbn [rcalls_thread] in Hc; [destruct Hc|].
  destruct r as [|sl|sl|b].
  - eapply IH; eauto.
  - destruct Hc as [<-|Hc].
    + exists 0, sl. cbn [datas flat_map app nth_error rstart]. split; [reflexivity|split; [destruct p530; reflexivity|]].
      unfold handed. cbn [rsl]. apply handed_zip.
    + destruct (IH _ _ _ _ _ _ Hc Hk) as (m & sl' & Hm & Hs & Hh). exists (S m), sl'. cbn [datas flat_map app nth_error].
      split; [exact Hm|split; [rewrite Hs; destruct p530; [destruct m; reflexivity|reflexivity]|exact Hh]].
  - destruct Hc as [<-|Hc]; [cbn in Hk; discriminate|]. eapply IH; eauto.
  - destruct Hc as [<-|Hc]; [destruct b; cbn in Hk; discriminate|]. eapply IH; eauto.
Qed.

(* ---- S3 for data_with calls on the model, programs without clear_with *)
Theorem spec_snapshot_completeness_no_clear (c : case) :
  (forall p, In p (progs_of c) -> ~ In CClear p) ->
  let '(tr, rss, _, _, _) := run_case c in
  let tbl := pinfos tr 0 (progs_of c) in
  let rc := rcalls tr 0 rss in
  forallb (fun r => if (rkind r =? 0)%N then accounts tbl (filter is_clear rc) (rstart r) (handed r) else true) rc = true.
Proof.
  intros Hnc. unfold run_case, out_gen. assert (HB : 1 <= BS) by (unfold BS; lia).
  pose proof (exec_full_trace (step BS true true) site (RS BS (progs_of c)) (RS_step BS HB true (progs_of c) Hnc)
                (RS_noop BS HB (progs_of c)) rr_fuel (map N.to_nat (snd c)) (init_config (progs_of c))
                (RS_init BS HB true (progs_of c))) as H.
  fold (run_gen BS true true c) in H. destruct (run_gen BS true true c) as [[s ls] tr]. cbn [fst snd] in *.
  destruct H as (_ & _ & HD). cbv zeta.
  apply forallb_forall. intros r Hr. destruct (N.eqb_spec (rkind r) 0) as [Hk|]; [|reflexivity].
  destruct (rcalls_in tr _ _ _ Hr) as (u & rs & Hu & Hc). rewrite N.add_0_l in Hc.
  rewrite nth_error_map in Hu. destruct (nth_error ls u) as [l|] eqn:El; [|discriminate]. cbn in Hu. inversion Hu; subst rs.
  destruct (rcalls_thread_data tr _ _ _ _ _ _ _ _ Hc Hk) as (m & sl & Hm & Hs & Hh).
  destruct (HD u l El) as (_ & _ & D3). cbv zeta in D3. cbn [fst snd] in D3.
  unfold accounts. apply forallb_forall. intros i Hi.
  destruct (olt (ppub i) (rstart r)) eqn:Eo; [|reflexivity].
  destruct (ppub i) as [w|] eqn:Ew; [|discriminate]. destruct (rstart r) as [p|] eqn:Ep; [|discriminate]. cbn in Eo. apply Nat.ltb_lt in Eo.
  destruct (pinfos_ppub tr _ _ _ Hi) as (u' & q & k & v & Hu' & Hkq & Hpx & Hpp). rewrite N.add_0_l in *.
  apply orb_true_iff. left. apply memb_iff. apply in_map. rewrite Hh. apply (D3 m sl p Hm (eq_sym Hs)).
  - rewrite Hpx. exists q. cbn [fst snd]. rewrite !Nat2N.id. auto.
  - exists w. split; [|exact Eo]. rewrite Hpx. cbn [fst]. unfold ordv. cbn [fst snd]. rewrite !Nat2N.id, (nth_error_nth _ _ _ Hu'). rewrite <- Hpp. exact Ew.
Qed.
