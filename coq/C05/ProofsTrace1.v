(* C05 — the checker on the model, stage 1: clause S0 of Spec.spec_run (the per-thread results have
   the shape of the programs) holds on the model's run of EVERY case.
   Step invariant F: a thread's results so far, oldest first, match call by call the first [cidx]
   calls of its program (and there are exactly [cidx] of them).                                 *)
From Coq Require Import List NArith Bool Arith Lia.
Import ListNotations.
Require Import MV.Common.Interleave MV.C05.Model MV.C05.Spec MV.C05.Exec.
Require Import MV.C05.ProofsSeq MV.C05.ProofsInv MV.C05.ProofsCor MV.C05.ProofsUniq MV.C05.ProofsCons MV.C05.ProofsProg.
Local Open Scope nat_scope.

Definition kind_ok (c : call) (r : res) : bool :=
  match c, r with
  | CPush _, RPush | CData, RData _ | CClear, RClear _ | CEmpty, REmpty _ => true
  | _, _ => false
  end.

Lemma follows_snoc : forall p rs c r,
  follows p rs = true -> nth_error p (length rs) = Some c -> kind_ok c r = true -> follows p (rs ++ [r]) = true.
Proof.
  intros p rs. revert p. induction rs as [|x rs IH]; intros p c r Hf Hn Hk; cbn [app length] in *.
  - destruct p as [|c0 p]; [discriminate|]. cbn in Hn. inversion Hn; subst c0. destruct c, r; try discriminate; cbn; destruct p; reflexivity.
  - destruct p as [|c0 p]; [destruct x; discriminate|].
    destruct x, c0; try discriminate; cbn [follows] in *; cbn [nth_error] in Hn; eapply IH; eauto.
Qed.

Section Shape.
  Variable B : nat.
  Hypothesis HB : 1 <= B.
  Variable fxc : bool.
  Variable ps : list (list call).
  Notation step := (step B true fxc).

  Definition F (c : @config shared local) : Prop :=
    length (snd c) = length ps /\
    forall u l, nth_error (snd c) u = Some l ->
      exists p, nth_error ps u = Some p /\ follows p (rev (results l)) = true /\ length (results l) = N.to_nat (cidx l).

  (* a step leaves the results alone, or appends the result of the call the thread was in *)
  Lemma step_result_kind s l s' l' : step s l = Some (s', l') ->
    (results l' = results l /\ cidx l' = cidx l) \/
    (exists r c, results l' = r :: results l /\ cidx l' = (cidx l + 1)%N /\ cur (pcl l) = [c] /\ kind_ok c r = true).
  Proof.
    intros Hst. assert (E : forall m k td rs, results (enter m k td rs) = rs) by (intros m k [|[]] rs; reflexivity).
    step_inv Hst Epc; unfold finish; rewrite ?E, ?cidx_enter; cbn [goto mk results cidx]; auto;
      right; eexists; eexists; (split; [reflexivity|split; [reflexivity|split; [reflexivity|]]]);
      try reflexivity; destruct clr; reflexivity.
  Qed.

  Theorem F_step : step_preserves step (fun c => All B c /\ R ps c /\ F c).
  Proof.
    intros s ls t l s' l' (HA & HR & [HL HF]) Hl Hst.
    destruct (R_step B HB fxc ps s ls t l s' l' (conj HA HR) Hl Hst) as [HA' HR'].
    split; [exact HA'|split; [exact HR'|]]. unfold F. cbn [fst snd] in *.
    split; [rewrite upd_length; exact HL|].
    intros u y Hy. destruct (nth_error_upd_cases _ _ _ _ _ Hy) as [[-> ->]|[Hne E]]; [|eauto].
    destruct (HF t l Hl) as (p & Hp & Hfo & Hlen). exists p. split; [exact Hp|].
    destruct (step_result_kind s l s' l' Hst) as [[Er Ec]|(r & c & Er & Ec & Hcur & Hk)].
    - rewrite Er, Ec. auto.
    - rewrite Er, Ec. cbn [rev length]. split.
      + apply follows_snoc with (c := c); auto. rewrite rev_length, Hlen.
        destruct HR as (R1 & _). destruct (R1 t l Hl) as (p' & Hp' & Hsk). cbn [snd] in Hp'. rewrite Hp in Hp'. inversion Hp'; subst p'.
        rewrite Hcur in Hsk. cbn [app] in Hsk. apply (skipn_S _ _ _ _ Hsk).
      + rewrite Hlen, N2Nat.inj_add. cbn. lia.
  Qed.

  Lemma init_locals_length n qs : length (init_locals n qs) = length qs.
  Proof. revert n. induction qs; intros n; cbn; auto. Qed.

  Lemma F_init : F (init_config ps).
  Proof.
    split; [apply init_locals_length|]. cbn [snd init_config]. intros u l Hl.
    destruct (init_local_facts _ _ _ _ Hl) as (p & Hp & _ & E2 & _). exists p. split; [exact Hp|].
    assert (Er : results l = []).
    { revert Hl. generalize 0%N. clear. revert u. induction ps as [|q r IH]; intros u n H; destruct u; cbn in H; try discriminate.
      - inversion H. reflexivity. - eapply IH; eauto. }
    rewrite Er, E2. cbn. destruct p; auto.
  Qed.

  Lemma all2_follows : forall (qs : list (list call)) (ls : list local),
    length ls = length qs ->
    (forall u l, nth_error ls u = Some l -> exists p, nth_error qs u = Some p /\ follows p (rev (results l)) = true) ->
    all2 follows qs (map (fun l => rev (results l)) ls) = true.
  Proof.
    induction qs as [|q r IH]; intros [|l ls] HL H; cbn in *; try discriminate; auto.
    destruct (H 0 l eq_refl) as (p & Hp & Hf). cbn in Hp. inversion Hp; subst p. rewrite Hf. cbn.
    apply IH; [lia|]. intros u y Hy. apply (H (S u) y Hy).
  Qed.
End Shape.

Theorem spec_shape_on_model (c : case) :
  let '(_, rss, _, _, _) := run_case c in all2 follows (progs_of c) rss = true.
Proof.
  unfold run_case, out_gen. destruct (run_gen BS true true c) as [cf tr] eqn:E.
  assert (HB : 1 <= BS) by (unfold BS; lia).
  assert (H : All BS cf /\ R (progs_of c) cf /\ F (progs_of c) cf).
  { replace cf with (fst (run_gen BS true true c)) by (rewrite E; reflexivity). unfold run_gen.
    apply (invariant_exec_full (step BS true true) site (fun c0 => All BS c0 /\ R (progs_of c) c0 /\ F (progs_of c) c0)
             (F_step BS HB true (progs_of c))).
    split; [exact (All_init BS HB true (progs_of c))|split; [exact (R_init BS HB (progs_of c))|first [exact (F_init BS HB (progs_of c)) | exact (F_init BS (progs_of c)) | exact (F_init (progs_of c))]]]. }
  destruct H as (_ & _ & [HL HF]). apply (all2_follows BS HB (progs_of c) (snd cf) HL).
  intros u l Hl. destruct (HF u l Hl) as (p & Hp & Hf & _). eauto.
Qed.
