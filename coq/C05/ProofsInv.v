(* C05 — protocol and chain invariants of the interleaving machine, preserved by EVERY step, hence
   holding for every schedule, any number of threads, any programs, every block size B >= 1.
   Code after the hand-over fix (fxa = true); either is_empty variant (fxc arbitrary).          *)
From Coq Require Import List NArith Bool Arith Lia.
Import ListNotations.
Require Import MV.Common.Interleave MV.C05.Model MV.C05.ProofsSeq.

Section Inv.
  Variable B : nat.
  Hypothesis HB : 1 <= B.
  Variable fxc : bool.
  Notation step := (step B true fxc).

  (* thread l has claimed slot i of block b and not yet published it *)
  Definition inflight (b i : nat) (l : local) : nat :=
    match pcl l with
    | P3 _ b' i' | P4 _ b' i' => if Nat.eqb b' b && Nat.eqb i' i then 1 else 0
    | _ => 0
    end.

  (* what a program counter may refer to *)
  Definition pc_ok (h : list block) (l : local) : Prop :=
    match pcl l with
    | P2 _ b _ | C1 b | W1 _ b _ | W2 _ b _ _ | WS _ b _ | WD _ b _ | WN _ b _ | E1 b | E2 b | E3 b => b < length h
    | P5 _ b => b < length h /\ B <= bw (getb h b)
    | P3 _ b i => b < length h /\ i < B /\ nth i (bslot (getb h b)) None = None
    | P4 x b i => b < length h /\ i < B /\ nth i (bslot (getb h b)) None = Some x
    | P6 _ _ _ => False
    | _ => True
    end.

  Definition heap_ok (s : shared) : Prop :=
    (forall b, b < length (heap s) -> length (bdone (getb (heap s) b)) = B /\ length (bslot (getb (heap s) b)) = B) /\
    (forall b c, b < length (heap s) -> bnxt (getb (heap s) b) = Some c -> c < b /\ B <= bw (getb (heap s) c)) /\
    (forall b, tail s = Some b -> b < length (heap s)) /\
    (forall b i, b < length (heap s) -> nth i (bdone (getb (heap s) b)) false = true ->
                 nth i (bslot (getb (heap s) b)) None <> None).

  (* slot (b, i): below the write index it is either published or claimed by exactly one thread
     in flight; at or above the write index it is untouched *)
  Definition claim_ok (h : list block) (ls : list local) (b i : nat) : Prop :=
    let k := getb h b in
    if Nat.ltb i (bw k)
    then (if nth i (bdone k) false then sumf (inflight b i) ls = 0 else sumf (inflight b i) ls = 1)
    else nth i (bdone k) false = false /\ sumf (inflight b i) ls = 0 /\ nth i (bslot k) None = None.

  Definition Inv (c : @config shared local) : Prop :=
    heap_ok (fst c) /\
    (forall b i, b < length (heap (fst c)) -> i < B -> claim_ok (heap (fst c)) (snd c) b i) /\
    (forall u x, nth_error (snd c) u = Some x -> pc_ok (heap (fst c)) x).

  (* ---- small facts *)
  Lemma inflight_enter b i m k td rs : inflight b i (enter m k td rs) = 0.
  Proof. destruct td as [|[]]; reflexivity. Qed.

  Lemma pc_ok_enter h m k td rs : pc_ok h (enter m k td rs).
  Proof. destruct td as [|[]]; exact I. Qed.

  Lemma sumf_same {A} (f : A -> nat) ls t l l' : nth_error ls t = Some l -> f l' = f l -> sumf f (upd ls t l') = sumf f ls.
  Proof. intros H E. pose proof (sumf_upd f ls t l l' H). lia. Qed.

  Lemma sumf_all_zero {A} (f : A -> nat) ls : (forall u x, nth_error ls u = Some x -> f x = 0) -> sumf f ls = 0.
  Proof.
    induction ls as [|y r IH]; intros H; cbn; auto.
    rewrite (H 0 y eq_refl), IH; auto. intros u x Hx. apply (H (S u) x Hx).
  Qed.

  Lemma nth_repeat_false i n : nth i (repeat false n) false = false.
  Proof. revert i. induction n; intros [|i]; cbn; auto. Qed.
  Lemma nth_repeat_None {A} i n : nth i (repeat (@None A) n) None = None.
  Proof. revert i. induction n; intros [|i]; cbn; auto. Qed.

  (* ---- frame: a step that leaves the heap alone and moves between pcs that are not in flight *)
  Lemma inv_frame s ls t l s' l' :
    Inv (s, ls) -> nth_error ls t = Some l ->
    heap s' = heap s -> (forall b, tail s' = Some b -> b < length (heap s)) ->
    (forall b i, inflight b i l' = inflight b i l) -> pc_ok (heap s) l' ->
    Inv (s', upd ls t l').
  Proof.
    intros (HO & HC & HP) Hl Hh Ht Hi Hp. unfold Inv. cbn [fst snd] in *. rewrite Hh.
    split; [|split].
    - destruct HO as (H1 & H2 & H3 & H4). unfold heap_ok. rewrite Hh.
      split; [exact H1|split; [exact H2|split; [exact Ht|exact H4]]].
    - intros b i Hb Hib. specialize (HC b i Hb Hib). unfold claim_ok in *.
      rewrite (sumf_same (inflight b i) ls t l l' Hl (Hi b i)). exact HC.
    - intros u x Hx. destruct (nth_error_upd_cases _ _ _ _ _ Hx) as [[-> ->]|[Hne E]]; eauto.
  Qed.

  Lemma getb_setb h b c k : b < length h -> getb (setb h b k) c = if Nat.eqb c b then k else getb h c.
  Proof.
    intros H. destruct (Nat.eqb c b) eqn:E.
    - apply Nat.eqb_eq in E. subst. apply getb_setb_same. exact H.
    - apply Nat.eqb_neq in E. apply getb_setb_other. auto.
  Qed.

  (* pc_ok survives a heap change that keeps the size, never lowers a write index and keeps the
     slots the thread itself is in flight on *)
  Lemma pc_ok_stable h h' x :
    length h <= length h' ->
    (forall b, b < length h -> bw (getb h b) <= bw (getb h' b)) ->
    (forall b i, b < length h -> inflight b i x = 1 -> nth i (bslot (getb h' b)) None = nth i (bslot (getb h b)) None) ->
    pc_ok h x -> pc_ok h' x.
  Proof.
    intros HL Hw Hs. unfold pc_ok, inflight in *. destruct (pcl x); auto; try lia.
    - intros (H1 & H2 & H3). repeat split; try lia. rewrite Hs; auto. rewrite !Nat.eqb_refl. reflexivity.
    - intros (H1 & H2 & H3). repeat split; try lia. rewrite Hs; auto. rewrite !Nat.eqb_refl. reflexivity.
    - intros (H1 & H2). split; [lia|]. specialize (Hw b H1). lia.
  Qed.

  Lemma inflight_le1 b i x : inflight b i x <= 1.
  Proof. unfold inflight. destruct (pcl x); try lia; destruct (_ && _); lia. Qed.

  (* who is in flight on (b, i) is below the write index and unpublished, and alone *)
  Lemma inflight_facts s ls t l b i :
    Inv (s, ls) -> nth_error ls t = Some l -> inflight b i l = 1 -> b < length (heap s) -> i < B ->
    Nat.ltb i (bw (getb (heap s) b)) = true /\ nth i (bdone (getb (heap s) b)) false = false /\
    sumf (inflight b i) ls = 1 /\
    (forall u x, u <> t -> nth_error ls u = Some x -> inflight b i x = 0).
  Proof.
    intros (HO & HC & HP) Hl Hi Hb Hib. cbn [fst snd] in *.
    specialize (HC b i Hb Hib). unfold claim_ok in HC.
    pose proof (sumf_ge (inflight b i) ls t l Hl) as Hge.
    destruct (Nat.ltb i (bw (getb (heap s) b))); [|lia].
    destruct (nth i (bdone (getb (heap s) b)) false); [lia|].
    repeat split; auto. intros u x Hne Hx.
    apply (sumf_unique (inflight b i) ls t l Hl ltac:(lia) u x Hne Hx).
  Qed.

  (* ---- allocation of a fresh block (511 / 512 success) *)
  Lemma inv_alloc s ls t l nx p :
    Inv (s, ls) -> nth_error ls t = Some l ->
    (forall b i, inflight b i l = 0) ->
    (forall c, nx = Some c -> c < length (heap s) /\ B <= bw (getb (heap s) c)) ->
    pcl (goto l p) = p -> (exists x sec, p = P2 x (length (heap s)) sec) ->
    Inv ({| heap := heap s ++ [newb B nx]; tail := Some (length (heap s)); late := late s |}, upd ls t (goto l p)).
  Proof.
    intros (HO & HC & HP) Hl Hi Hnx _ (x & sec & ->). destruct HO as (H1 & H2 & H3 & H4).
    unfold Inv. cbn [fst snd heap tail] in *.
    assert (HL : length (heap s ++ [newb B nx]) = S (length (heap s))) by (rewrite app_length; cbn; lia).
    split; [|split].
    - unfold heap_ok. cbn [heap tail]. rewrite HL. split; [|split; [|split]].
      + intros b Hb. destruct (Nat.eq_dec b (length (heap s))) as [->|Hne].
        * rewrite getb_app_new. cbn. rewrite !repeat_length. auto.
        * rewrite getb_app_old by lia. apply H1. lia.
      + intros b c Hb. destruct (Nat.eq_dec b (length (heap s))) as [->|Hne].
        * rewrite getb_app_new. cbn [newb bnxt]. intros E. destruct (Hnx c E) as [Hc Hw].
          rewrite getb_app_old by lia. split; auto.
        * rewrite getb_app_old by lia. intros E. destruct (H2 b c ltac:(lia) E) as [Hc Hw].
          rewrite getb_app_old by lia. split; auto.
      + intros b E. inversion E. lia.
      + intros b i Hb. destruct (Nat.eq_dec b (length (heap s))) as [->|Hne].
        * rewrite getb_app_new. cbn [newb bdone]. rewrite nth_repeat_false. discriminate.
        * rewrite getb_app_old by lia. apply H4. lia.
    - intros b i Hb Hib. rewrite HL in Hb. unfold claim_ok.
      destruct (Nat.eq_dec b (length (heap s))) as [->|Hne].
      + rewrite getb_app_new. cbn [newb bw bdone bslot Nat.ltb Nat.leb].
        rewrite nth_repeat_false, nth_repeat_None. repeat split; auto.
        apply sumf_all_zero. intros u y Hy.
        destruct (nth_error_upd_cases _ _ _ _ _ Hy) as [[-> ->]|[Hne E]]; [reflexivity|].
        specialize (HP u y E). unfold pc_ok in HP. unfold inflight.
        destruct (pcl y); auto; destruct HP as (Hlt & _);
          replace (Nat.eqb b (length (heap s))) with false by (symmetry; apply Nat.eqb_neq; lia); reflexivity.
      + rewrite getb_app_old by lia. specialize (HC b i ltac:(lia) Hib). unfold claim_ok in HC.
        rewrite (sumf_same (inflight b i) ls t l _ Hl); [exact HC|]. rewrite Hi. reflexivity.
    - intros u y Hy. destruct (nth_error_upd_cases _ _ _ _ _ Hy) as [[-> ->]|[Hne E]].
      + unfold pc_ok. cbn [goto mk pcl]. lia.
      + apply pc_ok_stable with (h := heap s); auto; try lia.
        * intros b Hb. rewrite getb_app_old by lia. lia.
        * intros b i Hb _. rewrite getb_app_old by lia. reflexivity.
        * eauto.
  Qed.

  (* ---- in-place update of one block *)
  Lemma heap_ok_setb s b k' lt :
    heap_ok s -> b < length (heap s) ->
    bnxt k' = bnxt (getb (heap s) b) -> bw (getb (heap s) b) <= bw k' ->
    length (bdone k') = B -> length (bslot k') = B ->
    (forall i, nth i (bdone k') false = true -> nth i (bslot k') None <> None) ->
    heap_ok {| heap := setb (heap s) b k'; tail := tail s; late := lt |}.
  Proof.
    intros (H1 & H2 & H3 & H4) Hb En Hw Hd Hs Hp. unfold heap_ok. cbn [heap tail]. rewrite setb_length.
    split; [|split; [|split]].
    - intros c Hc. rewrite getb_setb by exact Hb. destruct (Nat.eqb c b); auto.
    - intros c d Hc. rewrite !getb_setb by exact Hb. destruct (Nat.eqb c b) eqn:E.
      + apply Nat.eqb_eq in E. subst c. rewrite En. intros E'. destruct (H2 b d Hb E') as [Hd1 Hd2].
        split; auto. destruct (Nat.eqb d b) eqn:E2; [apply Nat.eqb_eq in E2; lia|auto].
      + intros E'. destruct (H2 c d Hc E') as [Hd1 Hd2]. split; auto.
        destruct (Nat.eqb d b) eqn:E2; [apply Nat.eqb_eq in E2; subst; lia|auto].
    - exact H3.
    - intros c i Hc. rewrite getb_setb by exact Hb. destruct (Nat.eqb c b); auto.
  Qed.

  (* 501: the fetch_add *)
  Lemma inv_claim s ls t l x b sec lt :
    Inv (s, ls) -> nth_error ls t = Some l -> pcl l = P2 x b sec ->
    let k := getb (heap s) b in
    let k' := {| bw := S (bw k); bdone := bdone k; bslot := bslot k; bnxt := bnxt k |} in
    let l' := goto l (if Nat.ltb (bw k) B then P3 x b (bw k) else if sec then P0 x else P5 x b) in
    Inv ({| heap := setb (heap s) b k'; tail := tail s; late := lt |}, upd ls t l').
  Proof.
    intros HI Hl Hpc k k' l'. pose proof HI as (HO & HC & HP). cbn [fst snd] in *.
    assert (Hb : b < length (heap s)). { specialize (HP t l Hl). unfold pc_ok in HP. rewrite Hpc in HP. exact HP. }
    assert (Hil : forall b0 i0, inflight b0 i0 l = 0) by (intros; unfold inflight; rewrite Hpc; reflexivity).
    unfold Inv. cbn [fst snd heap]. rewrite setb_length. split; [|split].
    - apply heap_ok_setb;
        [exact HO|exact Hb|reflexivity|cbn; unfold k; lia|exact (proj1 (proj1 HO b Hb))|exact (proj2 (proj1 HO b Hb))
        |intros i; exact (proj2 (proj2 (proj2 HO)) b i Hb)].
    - intros c i Hc Hic. specialize (HC c i Hc Hic). unfold claim_ok in *. rewrite getb_setb by exact Hb.
      pose proof (sumf_upd (inflight c i) ls t l l' Hl) as Hsum. rewrite Hil in Hsum.
      destruct (Nat.eqb c b) eqn:Ecb.
      + apply Nat.eqb_eq in Ecb. subst c. cbn [k' bw bdone bslot]. fold k in HC.
        assert (Hl' : inflight b i l' = if Nat.ltb (bw k) B && Nat.eqb (bw k) i then 1 else 0).
        { unfold l', inflight. destruct (Nat.ltb (bw k) B); cbn [goto mk pcl]; [rewrite Nat.eqb_refl; reflexivity|].
          destruct sec; reflexivity. }
        destruct (Nat.eq_dec i (bw k)) as [->|Hne].
        * (* the slot being claimed *)
          replace (Nat.ltb (bw k) (S (bw k))) with true by (symmetry; apply Nat.ltb_lt; lia).
          rewrite Nat.ltb_irrefl in HC. destruct HC as (Hd & Hs & Hsl). rewrite Hd.
          rewrite Hl', Nat.eqb_refl in Hsum.
          replace (Nat.ltb (bw k) B) with true in Hsum by (symmetry; apply Nat.ltb_lt; lia). cbn in Hsum. lia.
        * replace (Nat.eqb (bw k) i) with false in Hl' by (symmetry; apply Nat.eqb_neq; lia).
          rewrite andb_false_r in Hl'. rewrite Hl' in Hsum.
          replace (sumf (inflight b i) (upd ls t l')) with (sumf (inflight b i) ls) by lia.
          destruct (Nat.ltb i (bw k)) eqn:E1.
          -- apply Nat.ltb_lt in E1. replace (Nat.ltb i (S (bw k))) with true by (symmetry; apply Nat.ltb_lt; lia). exact HC.
          -- apply Nat.ltb_ge in E1. replace (Nat.ltb i (S (bw k))) with false by (symmetry; apply Nat.ltb_ge; lia). exact HC.
      + assert (Hl' : inflight c i l' = 0).
        { unfold l', inflight. destruct (Nat.ltb (bw k) B); cbn [goto mk pcl].
          - rewrite Nat.eqb_sym, Ecb. reflexivity. - destruct sec; reflexivity. }
        rewrite Hl' in Hsum. replace (sumf (inflight c i) (upd ls t l')) with (sumf (inflight c i) ls) by lia. exact HC.
    - intros u y Hy. destruct (nth_error_upd_cases _ _ _ _ _ Hy) as [[-> ->]|[Hne E]].
      + unfold pc_ok, l'. destruct (Nat.ltb (bw k) B) eqn:E1; cbn [goto mk pcl]; rewrite ?setb_length.
        * apply Nat.ltb_lt in E1. repeat split; auto. rewrite getb_setb_same by exact Hb. cbn [k' bslot].
          specialize (HC b (bw k) Hb E1). unfold claim_ok in HC. fold k in HC. rewrite Nat.ltb_irrefl in HC. apply HC.
        * apply Nat.ltb_ge in E1. destruct sec; [exact I|]. split; auto. rewrite getb_setb_same by exact Hb. cbn [k' bw]. lia.
      + apply pc_ok_stable with (h := heap s); [rewrite setb_length; lia| | |eauto].
        * intros c Hc. rewrite getb_setb by exact Hb. destruct (Nat.eqb c b) eqn:Ecb; [|lia].
          apply Nat.eqb_eq in Ecb. subst c. cbn [k' bw]. fold k. lia.
        * intros c i Hc _. rewrite getb_setb by exact Hb. destruct (Nat.eqb c b) eqn:Ecb; [|reflexivity].
          apply Nat.eqb_eq in Ecb. subst c. reflexivity.
  Qed.

  (* 502: the slot write *)
  Lemma inv_write s ls t l x b i :
    Inv (s, ls) -> nth_error ls t = Some l -> pcl l = P3 x b i ->
    let k := getb (heap s) b in
    let k' := {| bw := bw k; bdone := bdone k; bslot := set_nth (bslot k) i (Some x); bnxt := bnxt k |} in
    Inv (with_heap s (setb (heap s) b k'), upd ls t (goto l (P4 x b i))).
  Proof.
    intros HI Hl Hpc k k'. pose proof HI as (HO & HC & HP). cbn [fst snd] in *.
    pose proof (HP t l Hl) as Hpl. unfold pc_ok in Hpl. rewrite Hpc in Hpl. destruct Hpl as (Hb & Hi & Hnone).
    assert (Hfl : inflight b i l = 1) by (unfold inflight; rewrite Hpc, !Nat.eqb_refl; reflexivity).
    destruct (inflight_facts s ls t l b i HI Hl Hfl Hb Hi) as (Hlt & Hnd & Hsum & Hothers).
    assert (Hsame : forall c j, inflight c j (goto l (P4 x b i)) = inflight c j l).
    { intros. unfold inflight. rewrite Hpc. reflexivity. }
    destruct (proj1 HO b Hb) as [Ld Ls].
    unfold Inv, with_heap. cbn [fst snd heap]. rewrite setb_length. split; [|split].
    - apply heap_ok_setb; [exact HO|exact Hb|reflexivity|cbn; unfold k; lia|exact Ld|cbn; rewrite set_nth_length; exact Ls|].
      cbn [k' bdone bslot]. intros j Hj. destruct (Nat.eq_dec j i) as [->|Hne].
      + rewrite nth_set_nth_same by (fold k in Ls; lia). discriminate.
      + rewrite nth_set_nth_other by auto. apply (proj2 (proj2 (proj2 HO)) b j Hb Hj).
    - intros c j Hc Hj. specialize (HC c j Hc Hj). unfold claim_ok in *. rewrite getb_setb by exact Hb.
      rewrite (sumf_same (inflight c j) ls t l _ Hl (Hsame c j)).
      destruct (Nat.eqb c b) eqn:Ecb; [|exact HC]. apply Nat.eqb_eq in Ecb. subst c. cbn [k' bw bdone bslot]. fold k in HC.
      destruct (Nat.ltb j (bw k)) eqn:E1; [exact HC|].
      destruct (Nat.eq_dec j i) as [->|Hne]; [fold k in Hlt; congruence|].
      rewrite nth_set_nth_other by auto. exact HC.
    - intros u y Hy. destruct (nth_error_upd_cases _ _ _ _ _ Hy) as [[-> ->]|[Hne E]].
      + unfold pc_ok. cbn [goto mk pcl]. rewrite setb_length. repeat split; auto.
        rewrite getb_setb_same by exact Hb. cbn [k' bslot]. apply nth_set_nth_same. fold k in Ls. lia.
      + apply pc_ok_stable with (h := heap s); [rewrite setb_length; lia| | |eauto].
        * intros c Hc. rewrite getb_setb by exact Hb. destruct (Nat.eqb c b) eqn:Ecb; [|lia].
          apply Nat.eqb_eq in Ecb. subst c. cbn [k' bw]. fold k. lia.
        * intros c j Hc Hfy. rewrite getb_setb by exact Hb. destruct (Nat.eqb c b) eqn:Ecb; [|reflexivity].
          apply Nat.eqb_eq in Ecb. subst c. cbn [k' bslot].
          destruct (Nat.eq_dec j i) as [->|Hne2]; [rewrite (Hothers u y Hne E) in Hfy; discriminate|].
          apply nth_set_nth_other. auto.
  Qed.

  (* 503: the publication *)
  Lemma inv_pub s ls t l x b i r :
    Inv (s, ls) -> nth_error ls t = Some l -> pcl l = P4 x b i ->
    let k := getb (heap s) b in
    let k' := {| bw := bw k; bdone := set_nth (bdone k) i true; bslot := bslot k; bnxt := bnxt k |} in
    Inv (with_heap s (setb (heap s) b k'), upd ls t (finish l r)).
  Proof.
    intros HI Hl Hpc k k'. pose proof HI as (HO & HC & HP). cbn [fst snd] in *.
    pose proof (HP t l Hl) as Hpl. unfold pc_ok in Hpl. rewrite Hpc in Hpl. destruct Hpl as (Hb & Hi & Hsome).
    assert (Hfl : inflight b i l = 1) by (unfold inflight; rewrite Hpc, !Nat.eqb_refl; reflexivity).
    destruct (inflight_facts s ls t l b i HI Hl Hfl Hb Hi) as (Hlt & Hnd & Hsum & Hothers).
    destruct (proj1 HO b Hb) as [Ld Ls].
    unfold Inv, with_heap. cbn [fst snd heap]. rewrite setb_length. split; [|split].
    - apply heap_ok_setb; [exact HO|exact Hb|reflexivity|cbn; unfold k; lia|cbn; rewrite set_nth_length; exact Ld|exact Ls|].
      cbn [k' bdone bslot]. intros j Hj. destruct (Nat.eq_dec j i) as [->|Hne].
      + fold k in Hsome. rewrite Hsome. discriminate.
      + rewrite nth_set_nth_other in Hj by auto. apply (proj2 (proj2 (proj2 HO)) b j Hb Hj).
    - intros c j Hc Hj. specialize (HC c j Hc Hj). unfold claim_ok in *. rewrite getb_setb by exact Hb.
      pose proof (sumf_upd (inflight c j) ls t l (finish l r) Hl) as Hs2.
      unfold finish in Hs2 at 2. rewrite inflight_enter in Hs2.
      destruct (Nat.eqb c b) eqn:Ecb.
      + apply Nat.eqb_eq in Ecb. subst c. cbn [k' bw bdone bslot]. fold k in HC.
        destruct (Nat.eq_dec j i) as [->|Hne].
        * fold k in Hlt. rewrite Hlt. rewrite nth_set_nth_same by (fold k in Ld; lia). lia.
        * assert (inflight b j l = 0).
          { unfold inflight. rewrite Hpc, Nat.eqb_refl. cbn. replace (Nat.eqb i j) with false by (symmetry; apply Nat.eqb_neq; lia). reflexivity. }
          replace (sumf (inflight b j) (upd ls t (finish l r))) with (sumf (inflight b j) ls) by lia.
          rewrite nth_set_nth_other by auto. exact HC.
      + assert (inflight c j l = 0).
        { unfold inflight. rewrite Hpc. rewrite Nat.eqb_sym, Ecb. reflexivity. }
        replace (sumf (inflight c j) (upd ls t (finish l r))) with (sumf (inflight c j) ls) by lia. exact HC.
    - intros u y Hy. destruct (nth_error_upd_cases _ _ _ _ _ Hy) as [[-> ->]|[Hne E]].
      + apply pc_ok_enter.
      + apply pc_ok_stable with (h := heap s); [rewrite setb_length; lia| | |eauto].
        * intros c Hc. rewrite getb_setb by exact Hb. destruct (Nat.eqb c b) eqn:Ecb; [|lia].
          apply Nat.eqb_eq in Ecb. subst c. cbn [k' bw]. fold k. lia.
        * intros c j Hc _. rewrite getb_setb by exact Hb. destruct (Nat.eqb c b) eqn:Ecb; [|reflexivity].
          apply Nat.eqb_eq in Ecb. subst c. reflexivity.
  Qed.

  (* ---- every step preserves the invariant *)
  Theorem inv_step : step_preserves step Inv.
  Proof.
    intros s ls t l s' l' HI Hl Hst. pose proof HI as (HO & HC & HP). cbn [fst snd] in *.
    pose proof (HP t l Hl) as Hpl. unfold pc_ok in Hpl.
    assert (Ht0 : forall b, tail s = Some b -> b < length (heap s)) by apply HO.
    assert (Hnx : forall b c, b < length (heap s) -> bnxt (getb (heap s) b) = Some c -> c < length (heap s)).
    { intros b c Hb E. destruct (proj1 (proj2 HO) b c Hb E). lia. }
    unfold Model.step in Hst.
    destruct (pcl l) eqn:Epc.
    4: { (* 501 *)
      pose proof (inv_claim s ls t l x b second (late s || (Nat.ltb (bw (getb (heap s) b)) B && negb (reachable s b))) HI Hl Epc) as H.
      cbn zeta in H, Hst.
      destruct (Nat.ltb (bw (getb (heap s) b)) B); [|destruct second]; inversion Hst; subst s' l'; exact H. }
    4: { (* 502 *) inversion Hst; subst s' l'. apply inv_write; auto. }
    4: { (* 503 *) inversion Hst; subst s' l'. eapply inv_pub; eauto. }
    all: try (match type of Hst with context [tail ?ss] => destruct (tail ss) as [tb|] eqn:Et end);
      try (match type of Hst with context [bnxt ?k] => destruct (bnxt k) as [nb|] eqn:En end);
      try (match type of Hst with context [if ?c then _ else _] => destruct c eqn:Ec end);
      try (match type of Hst with context [if ?c then _ else _] => destruct c eqn:Ec2 end);
      try discriminate Hst; try contradiction;
      try (inversion Hst; subst s' l'; clear Hst;
           eapply inv_frame;
           [exact HI|exact Hl|reflexivity
           |first [exact Ht0 | intros bb Hbb; cbn [tail] in Hbb;
                               first [discriminate Hbb | rewrite Et in Hbb; apply Ht0; exact Hbb]]
           |intros; unfold finish; rewrite ?inflight_enter; unfold inflight; rewrite ?Epc; cbn [goto mk pcl];
            try reflexivity; repeat match goal with |- context [if ?c then _ else _] => destruct c end; reflexivity
           |unfold finish; try apply pc_ok_enter; unfold pc_ok; cbn [goto mk pcl];
            repeat match goal with |- context [if ?c then _ else _] => destruct c end; cbn [goto mk pcl];
            eauto; try tauto]; fail).
    - (* 511 on an empty bucket *)
      inversion Hst; subst s' l'. apply inv_alloc; auto.
      + intros; unfold inflight; rewrite Epc; reflexivity.
      + discriminate.
      + eauto.
    - (* 512 success *)
      inversion Hst; subst s' l'. apply Nat.eqb_eq in Ec. subst tb. apply inv_alloc; auto.
      + intros; unfold inflight; rewrite Epc; reflexivity.
      + intros c E. inversion E; subst. exact Hpl.
      + eauto.
    - (* 508: on to the next link, or the answer *)
      inversion Hst; subst s' l'. clear Hst.
      destruct (e3_next_cases fxc l nb (looks_empty fxc (getb (heap s) nb))) as [Ee|[r Ee]]; rewrite Ee;
        (eapply inv_frame; [exact HI|exact Hl|reflexivity|exact Ht0
          |intros; unfold finish; rewrite ?inflight_enter; unfold inflight; rewrite ?Epc; cbn [goto mk pcl]; reflexivity
          |unfold finish; try apply pc_ok_enter; unfold pc_ok; cbn [goto mk pcl]; exact Hpl]).
  Qed.

  Theorem reachable_Inv ps sched : Inv (fst (exec step site (init_config ps) sched)).
  Proof.
    apply invariant_all_schedules; [exact inv_step|].
    unfold Inv, init_config. cbn [fst snd init_shared heap tail]. split; [|split].
    - unfold heap_ok. cbn. repeat split; intros; try lia; discriminate.
    - intros b i Hb. cbn in Hb. lia.
    - intros u x Hx. assert (pcl x = Start).
      { generalize dependent u. generalize 0%N. induction ps as [|p r IH]; intros n u Hx; destruct u; cbn in Hx; try discriminate.
        - inversion Hx. reflexivity. - eapply IH; eauto. }
      unfold pc_ok. rewrite H. exact I.
  Qed.
End Inv.
