(* C05 — order inside one block, every schedule.
   (a) the slice handed to a callback at 506 is exactly slot 0, slot 1, ... slot (len-1);
   (b) slot order is claim order: a fetch_add returns the current write index and bumps it, the
       write index never decreases, and every index claimed so far (in flight or published) is
       below it - so a claim executed later on the same block returns a larger index.          *)
From Coq Require Import List NArith Bool Arith Lia.
Import ListNotations.
Require Import MV.Common.Interleave MV.C05.Model MV.C05.ProofsSeq MV.C05.ProofsInv MV.C05.ProofsCor MV.C05.ProofsUniq MV.C05.ProofsCons MV.C05.ProofsSnap.
Local Open Scope nat_scope.

Section Order.
  Variable B : nat.
  Hypothesis HB : 1 <= B.
  Variable fxc : bool.
  Notation step := (step B true fxc).

  Lemma slice_in_slot_order s ls b :
    Inv B (s, ls) -> b < length (heap s) ->
    let k := getb (heap s) b in
    let data := data_of k (tones (bdone k)) in
    length data = tones (bdone k) /\
    forall j, j < tones (bdone k) -> exists x, slot (heap s) b j = Some x /\ nth j data garbage = x.
  Proof.
    intros HI Hb k data. destruct (proj1 (proj1 HI) b Hb) as [Ld Ls]. cbn [fst] in Ld, Ls. fold k in Ld, Ls.
    assert (Hn : tones (bdone k) <= length (bslot k)).
    { rewrite Ls, <- Ld. clear. induction (bdone k) as [|[] r IH]; cbn; lia. }
    split; [unfold data, data_of; rewrite map_length, firstn_length; lia|].
    intros j Hj. destruct (published_written B (s, ls) b j HI Hb (tones_nth B HB _ _ Hj)) as [x Hx]. cbn [fst] in Hx. fold k in Hx.
    exists x. split; [exact Hx|]. unfold data, data_of. rewrite (data_nth B HB) by auto. rewrite Hx. reflexivity.
  Qed.

  (* 501 returns the write index and increments it *)
  Lemma claim_returns_write_index s l x b sec :
    pcl l = P2 x b sec -> bw (getb (heap s) b) < B -> b < length (heap s) ->
    exists s', step s l = Some (s', goto l (P3 x b (bw (getb (heap s) b)))) /\
               bw (getb (heap s') b) = S (bw (getb (heap s) b)).
  Proof.
    intros E Hlt Hb. unfold Model.step. rewrite E. cbn zeta.
    replace (Nat.ltb (bw (getb (heap s) b)) B) with true by (symmetry; apply Nat.ltb_lt; exact Hlt).
    eexists. split; [reflexivity|]. cbn [heap]. rewrite getb_setb_same by exact Hb. reflexivity.
  Qed.

  (* every index claimed so far is below the write index *)
  Lemma claimed_below_write_index s ls b i :
    Inv B (s, ls) -> b < length (heap s) -> i < B ->
    (pub (heap s) b i \/ exists t l, nth_error ls t = Some l /\ inflight b i l = 1) -> i < bw (getb (heap s) b).
  Proof.
    intros HI Hb Hi [Hp|(t & l & Hl & Hf)].
    - pose proof (proj1 (proj2 HI) b i Hb Hi) as Hc. cbn [fst snd] in Hc. unfold claim_ok in Hc.
      destruct (Nat.ltb i (bw (getb (heap s) b))) eqn:E; [apply Nat.ltb_lt in E; exact E|].
      destruct Hc as (Hf & _). unfold pub in Hp. congruence.
    - destruct (inflight_facts B HB s ls t l b i HI Hl Hf Hb Hi) as (Hlt & _). apply Nat.ltb_lt in Hlt. exact Hlt.
  Qed.

  (* the write index never decreases, over any schedule *)
  Lemma write_index_monotone c b sched :
    Inv B c -> b < length (heap (fst c)) ->
    let c' := fst (exec step site c sched) in
    b < length (heap (fst c')) /\ bw (getb (heap (fst c)) b) <= bw (getb (heap (fst c')) b).
  Proof.
    intros HI Hb c'.
    set (P := fun c1 : @config shared local => Inv B c1 /\ b < length (heap (fst c1)) /\ bw (getb (heap (fst c)) b) <= bw (getb (heap (fst c1)) b)).
    assert (HP : step_preserves step P).
    { intros s ls t l s' l' HPc Hl Hst. unfold P in *. cbn [fst snd] in *. destruct HPc as (H1 & H2 & H3). split; [eapply (inv_step B HB fxc); eauto|].
      split; [destruct (step_length B HB fxc s l s' l' Hst) as [E|[E _]]; lia|].
      pose proof (proj1 (proj2 (step_block B HB fxc s ls t l s' l' b H1 Hl Hst H2))). lia. }
    destruct (invariant_all_schedules step site P HP sched c (conj HI (conj Hb (le_n _)))) as (_ & H2 & H3). auto.
  Qed.
End Order.
