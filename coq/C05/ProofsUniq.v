(* C05 — uniqueness of delivery, for EVERY schedule (with or without late claims):
   no identity is handed to clearing reads twice.  Built on the protocol invariant [Inv]:
     (Q1) a thread's push identity is (its index, the index of the call);
     (Q2) an identity found in a slot belongs to an earlier call of its thread, or to the current
          call of a thread that is between its slot write and its publication, at that slot;
     (Q3) an identity occurs in at most one slot of the whole heap;
     (Q4) ownership (J4): the chains hanging off `tail` and off every clearer (the block it is
          about to read and everything behind it) are pairwise disjoint;
     (Q5) every identity handed to a clear so far sits in a slot of a RETIRED block (reachable
          neither from tail nor from any clearer), and is counted once over all clears.        *)
From Coq Require Import List NArith Bool Arith Lia.
Import ListNotations.
Require Import MV.Common.Interleave MV.C05.Model MV.C05.ProofsSeq MV.C05.ProofsInv.
Local Open Scope nat_scope.

Definition vid (x : val) : N * N := fst x.

Definition pc_val (p : pc) : option val :=
  match p with
  | P0 x | P1 x | P2 x _ _ | P3 x _ _ | P4 x _ _ | P5 x _ | P6 x _ _ => Some x
  | _ => None
  end.

(* the case analysis of one step, used by every preservation proof below *)
Ltac step_inv Hst Epc :=
  unfold Model.step in Hst;
  match type of Hst with context [pcl ?l] => destruct (pcl l) eqn:Epc end;
  cbn zeta in Hst;
  repeat match type of Hst with
         | context [match tail ?ss with _ => _ end] => let Et := fresh "Et" in destruct (tail ss) eqn:Et
         | context [match bnxt ?k with _ => _ end] => let En := fresh "En" in destruct (bnxt k) eqn:En
         | context [if ?c then _ else _] => let Ec := fresh "Ec" in destruct c eqn:Ec
         end;
  try discriminate Hst; inversion Hst; subst; clear Hst.

Section Uniq.
  Variable B : nat.
  Hypothesis HB : 1 <= B.
  Variable fxc : bool.
  Notation step := (step B true fxc).

  (* ---- Q1 *)
  Definition ids_of (l : local) : Prop :=
    forall x, pc_val (pcl l) = Some x -> fst (fst x) = me l /\ snd (fst x) = cidx l.
  Definition Q1 (c : @config shared local) : Prop :=
    forall u l, nth_error (snd c) u = Some l -> me l = N.of_nat u /\ ids_of l.

  Lemma ids_enter m k td rs : ids_of (enter m k td rs).
  Proof. destruct td as [|[]]; intros x E; cbn in E; inversion E; subst; auto. Qed.
  Lemma me_enter m k td rs : me (enter m k td rs) = m.
  Proof. destruct td as [|[]]; reflexivity. Qed.
  Lemma cidx_enter m k td rs : cidx (enter m k td rs) = k.
  Proof. destruct td as [|[]]; reflexivity. Qed.

  Lemma step_ids s l s' l' : ids_of l -> step s l = Some (s', l') -> me l' = me l /\ ids_of l'.
  Proof.
    intros Hi Hst. step_inv Hst Epc;
      try (split; [unfold finish; rewrite ?me_enter; reflexivity|];
           first [ unfold finish; apply ids_enter
                 | intros x0 E; cbn in E; first [discriminate E | inversion E; subst x0; apply Hi; rewrite Epc; reflexivity]
                 | intros x0 E; destruct clr; cbn in E; discriminate E ]).
  Qed.

  Lemma Q1_step : step_preserves step Q1.
  Proof.
    intros s ls t l s' l' H Hl Hst u y Hy. cbn [snd] in *.
    destruct (nth_error_upd_cases _ _ _ _ _ Hy) as [[-> ->]|[Hne E]]; [|eauto].
    destruct (H t l Hl) as [Hm Hi]. destruct (step_ids s l s' l' Hi Hst) as [Hm' Hi']. split; [congruence|exact Hi'].
  Qed.

  Lemma Q1_init ps : Q1 (init_config ps).
  Proof.
    unfold Q1, init_config. cbn [snd]. intros u l Hl.
    assert (G : forall n ps u l, nth_error (init_locals n ps) u = Some l -> me l = (n + N.of_nat u)%N /\ pcl l = Start).
    { clear. intros n ps. revert n. induction ps as [|p r IH]; intros n u l H; destruct u; cbn in H; try discriminate.
      - inversion H; subst. cbn. split; [lia|reflexivity].
      - destruct (IH _ _ _ H) as [E1 E2]. split; [lia|exact E2]. }
    destruct (G _ _ _ _ Hl) as [E1 E2]. split; [lia|]. intros x E. rewrite E2 in E. discriminate.
  Qed.

  (* ---- Q2, Q3: identities in slots *)
  Definition slot (h : list block) (b i : nat) : option val := nth i (bslot (getb h b)) None.

  Definition Q2 (c : @config shared local) : Prop :=
    forall b i x, slot (heap (fst c)) b i = Some x ->
      exists l, nth_error (snd c) (N.to_nat (fst (fst x))) = Some l /\
                ((snd (fst x) < cidx l)%N \/ (snd (fst x) = cidx l /\ pcl l = P4 x b i)).
  Definition Q3 (c : @config shared local) : Prop :=
    forall b i b' i' x x', slot (heap (fst c)) b i = Some x -> slot (heap (fst c)) b' i' = Some x' ->
                           fst x = fst x' -> b = b' /\ i = i'.

  Lemma slot_out h b i : length h <= b -> slot h b i = None.
  Proof.
    intros H. unfold slot, getb. replace (nth b h empty_block) with empty_block by (symmetry; apply nth_overflow; exact H).
    cbn. destruct i; reflexivity.
  Qed.

  Lemma slot_setb_same h b0 k' b i :
    b0 < length h -> bslot k' = bslot (getb h b0) -> slot (setb h b0 k') b i = slot h b i.
  Proof.
    intros Hb E. unfold slot. rewrite getb_setb by exact Hb. destruct (Nat.eqb b b0) eqn:E1; [|reflexivity].
    apply Nat.eqb_eq in E1. subst. rewrite E. reflexivity.
  Qed.

  Lemma slot_app h nx b i : slot (h ++ [newb B nx]) b i = slot h b i.
  Proof.
    destruct (Nat.lt_ge_cases b (length h)) as [H|H].
    - unfold slot. rewrite getb_app_old by exact H. reflexivity.
    - rewrite (slot_out h b i H). destruct (Nat.eq_dec b (length h)) as [->|Hne].
      + unfold slot. rewrite getb_app_new. cbn [newb bslot]. apply nth_repeat_None.
      + apply slot_out. rewrite app_length. cbn. lia.
  Qed.

  Lemma step_cidx s l s' l' : step s l = Some (s', l') ->
    (cidx l <= cidx l')%N /\ (forall x b i, pcl l = P4 x b i -> (cidx l < cidx l')%N).
  Proof.
    intros Hst. step_inv Hst Epc; unfold finish; rewrite ?cidx_enter; cbn [goto mk cidx];
      (split; [lia|intros x0 b0 i0 E; first [discriminate E|lia]]).
  Qed.

  Lemma Q23_slots_same s ls t l s' l' :
    Q2 (s, ls) -> Q3 (s, ls) -> nth_error ls t = Some l -> step s l = Some (s', l') ->
    (forall b i, slot (heap s') b i = slot (heap s) b i) ->
    Q2 (s', upd ls t l') /\ Q3 (s', upd ls t l').
  Proof.
    intros H2 H3 Hl Hst Hs. destruct (step_cidx s l s' l' Hst) as [Hle Hp4]. split.
    - intros b i x Hx. cbn [fst snd] in *. rewrite Hs in Hx. destruct (H2 b i x Hx) as (lw & Hw & Hd). cbn [fst snd] in *.
      destruct (Nat.eq_dec (N.to_nat (fst (fst x))) t) as [Et|Hne].
      + rewrite Et in *. rewrite Hl in Hw. inversion Hw; subst lw.
        exists l'. split; [eapply nth_error_upd_same; eauto|]. left.
        destruct Hd as [Hd|[Hd Hpc]]; [lia|]. specialize (Hp4 _ _ _ Hpc). lia.
      + exists lw. split; [rewrite nth_error_upd_other by auto; exact Hw|exact Hd].
    - intros b i b' i' x x' Hx Hx'. cbn [fst snd] in *. rewrite Hs in Hx, Hx'. eapply H3; eauto.
  Qed.

  Lemma Q23_step : step_preserves step (fun c => Inv B c /\ Q1 c /\ Q2 c /\ Q3 c).
  Proof.
    intros s ls t l s' l' (HI & H1 & H2 & H3) Hl Hst.
    split; [eapply (inv_step B HB fxc); eauto|]. split; [eapply Q1_step; eauto|].
    pose proof HI as (HO & HC & HP). cbn [fst snd] in *.
    pose proof (HP t l Hl) as Hpl. unfold pc_ok in Hpl.
    destruct (pcl l) eqn:Epc;
      try (apply (Q23_slots_same s ls t l s' l' H2 H3 Hl Hst); intros b0 i0;
           unfold Model.step in Hst; rewrite Epc in Hst; cbn zeta in Hst;
           repeat match type of Hst with
                  | context [match tail ?ss with _ => _ end] => destruct (tail ss)
                  | context [match bnxt ?k with _ => _ end] => destruct (bnxt k)
                  | context [if ?c then _ else _] => destruct c
                  end;
           inversion Hst; subst; cbn [heap with_heap]; try reflexivity;
           first [apply slot_app | apply slot_setb_same; [tauto|reflexivity]]; fail).
    (* 502: the slot write *)
    destruct Hpl as (Hb & Hi & Hnone).
    unfold Model.step in Hst. rewrite Epc in Hst. inversion Hst; subst s' l'. clear Hst.
    destruct (H1 t l Hl) as [Hme Hids]. destruct (Hids x ltac:(rewrite Epc; reflexivity)) as [Hx1 Hx2].
    assert (Hxt : N.to_nat (fst (fst x)) = t) by (rewrite Hx1, Hme; apply Nat2N.id).
    destruct (proj1 HO b Hb) as [_ Ls].
    assert (Hslot : forall b0 i0, slot (heap (with_heap s (setb (heap s) b
                {| bw := bw (getb (heap s) b); bdone := bdone (getb (heap s) b);
                   bslot := set_nth (bslot (getb (heap s) b)) i (Some x); bnxt := bnxt (getb (heap s) b) |}))) b0 i0
              = if Nat.eqb b0 b && Nat.eqb i0 i then Some x else slot (heap s) b0 i0).
    { intros b0 i0. unfold slot. cbn [heap with_heap]. rewrite getb_setb by exact Hb.
      destruct (Nat.eqb b0 b) eqn:E1; [|reflexivity]. apply Nat.eqb_eq in E1. subst b0. cbn [bslot andb].
      destruct (Nat.eqb i0 i) eqn:E2.
      - apply Nat.eqb_eq in E2. subst i0. apply nth_set_nth_same. lia.
      - apply Nat.eqb_neq in E2. apply nth_set_nth_other. auto. }
    assert (Hfresh : forall b' i' x', slot (heap s) b' i' = Some x' -> fst x = fst x' -> False).
    { intros b' i' x' Hx' Ef. destruct (H2 b' i' x' Hx') as (lw & Hw & Hd). cbn [fst snd] in *.
      rewrite <- Ef, Hxt, Hl in Hw. inversion Hw; subst lw. rewrite <- Ef in Hd.
      destruct Hd as [Hd|[_ Hd]]; [lia|congruence]. }
    split.
    - intros b0 i0 x0 Hx0. cbn [fst snd] in *. rewrite Hslot in Hx0.
      destruct (Nat.eqb b0 b && Nat.eqb i0 i) eqn:E.
      + inversion Hx0; subst x0. apply andb_true_iff in E. destruct E as [E1 E2].
        apply Nat.eqb_eq in E1. apply Nat.eqb_eq in E2. subst b0 i0.
        exists (goto l (P4 x b i)). split; [rewrite Hxt; eapply nth_error_upd_same; eauto|].
        right. split; [exact Hx2|reflexivity].
      + destruct (H2 b0 i0 x0 Hx0) as (lw & Hw & Hd). cbn [fst snd] in *.
        destruct (Nat.eq_dec (N.to_nat (fst (fst x0))) t) as [Et|Hne].
        * rewrite Et in *. rewrite Hl in Hw. inversion Hw; subst lw.
          exists (goto l (P4 x b i)). split; [eapply nth_error_upd_same; eauto|].
          destruct Hd as [Hd|[_ Hd]]; [left; exact Hd|congruence].
        * exists lw. split; [rewrite nth_error_upd_other by auto; exact Hw|exact Hd].
    - intros b1 i1 b2 i2 x1 x2 Hx1' Hx2' Ef. cbn [fst snd] in *. rewrite Hslot in Hx1', Hx2'.
      destruct (Nat.eqb b1 b && Nat.eqb i1 i) eqn:E1; destruct (Nat.eqb b2 b && Nat.eqb i2 i) eqn:E2.
      + apply andb_true_iff in E1. apply andb_true_iff in E2. destruct E1 as [A1 A2]. destruct E2 as [A3 A4].
        apply Nat.eqb_eq in A1, A2, A3, A4. subst. auto.
      + inversion Hx1'; subst x1. exfalso. eapply Hfresh; eauto.
      + inversion Hx2'; subst x2. exfalso. eapply Hfresh; eauto.
      + eapply H3; eauto.
  Qed.

  (* ---- Q4: ownership of chains (J4) *)
  Inductive Reach (h : list block) : option nat -> nat -> Prop :=
  | r_here b : Reach h (Some b) b
  | r_next b c : Reach h (bnxt (getb h b)) c -> Reach h (Some b) c.

  (* the block a clearing thread is about to read / the rest of its detached chain *)
  Definition root (h : list block) (l : local) : option nat :=
    match pcl l with
    | W1 true b _ | W2 true b _ _ | WS true b _ | WD true b _ => Some b
    | WN true b _ => bnxt (getb h b)
    | _ => None
    end.

  Definition links_dec (h : list block) : Prop := forall b c, bnxt (getb h b) = Some c -> c < b.

  Lemma links_of_heap_ok s : heap_ok B s -> links_dec (heap s).
  Proof.
    intros (_ & H2 & _) b c E. destruct (Nat.lt_ge_cases b (length (heap s))) as [Hb|Hb].
    - apply (H2 b c Hb E).
    - unfold getb in E. rewrite nth_overflow in E by exact Hb. discriminate.
  Qed.

  Lemma Reach_None h d : Reach h None d -> False.
  Proof. inversion 1. Qed.

  Lemma Reach_le h : links_dec h -> forall o d, Reach h o d -> forall r, o = Some r -> d <= r.
  Proof.
    intros HL o d R. induction R as [b|b c R IH]; intros r E; inversion E; subst; [lia|].
    destruct (bnxt (getb h r)) as [r'|] eqn:En; [|inversion R].
    specialize (IH r' eq_refl). specialize (HL r r' En). lia.
  Qed.

  Lemma Reach_frame h h' : (forall c, bnxt (getb h' c) = bnxt (getb h c)) -> forall o d, Reach h o d -> Reach h' o d.
  Proof. intros H o d R. induction R; [constructor|]. apply r_next. rewrite H. exact IHR. Qed.

  Lemma Reach_app_1 h k : links_dec h -> forall o d, Reach h o d -> (forall r, o = Some r -> r < length h) -> Reach (h ++ [k]) o d.
  Proof.
    intros HL o d R. induction R as [b|b c R IH]; intros Hr; [constructor|].
    apply r_next. rewrite getb_app_old by (apply Hr; reflexivity). apply IH.
    intros r E. specialize (HL b r E). specialize (Hr b eq_refl). lia.
  Qed.

  Lemma Reach_app_2 h k : links_dec h -> forall o d, Reach (h ++ [k]) o d -> (forall r, o = Some r -> r < length h) -> Reach h o d.
  Proof.
    intros HL o d R. induction R as [b|b c R IH]; intros Hr; [constructor|].
    apply r_next. rewrite getb_app_old in R, IH by (apply Hr; reflexivity). apply IH.
    intros r E. specialize (HL b r E). specialize (Hr b eq_refl). lia.
  Qed.

  Definition Q4 (c : @config shared local) : Prop :=
    (forall u l d, nth_error (snd c) u = Some l -> Reach (heap (fst c)) (root (heap (fst c)) l) d ->
                   ~ Reach (heap (fst c)) (tail (fst c)) d) /\
    (forall u v l l' d, u <> v -> nth_error (snd c) u = Some l -> nth_error (snd c) v = Some l' ->
                        Reach (heap (fst c)) (root (heap (fst c)) l) d -> Reach (heap (fst c)) (root (heap (fst c)) l') d -> False).

  Lemma root_frame h h' l : (forall c, bnxt (getb h' c) = bnxt (getb h c)) -> root h' l = root h l.
  Proof. intros H. unfold root. destruct (pcl l); auto. destruct clr; auto. Qed.

  Lemma root_enter h m k td rs : root h (enter m k td rs) = None.
  Proof. destruct td as [|[]]; reflexivity. Qed.

  (* roots are in range *)
  Lemma root_lt s l r : heap_ok B s -> pc_ok B (heap s) l -> root (heap s) l = Some r -> r < length (heap s).
  Proof.
    intros HO Hp E. unfold root, pc_ok in *. destruct (pcl l); try discriminate; destruct clr; try discriminate;
      try (inversion E; subst; exact Hp).
    destruct HO as (_ & H2 & _). destruct (H2 b r Hp E). lia.
  Qed.

  (* steps that keep every link and the tail: the stepping thread's reach may only shrink *)
  Lemma Q4_local s ls t l s' l' :
    Q4 (s, ls) -> nth_error ls t = Some l ->
    (forall c, bnxt (getb (heap s') c) = bnxt (getb (heap s) c)) -> tail s' = tail s ->
    (forall d, Reach (heap s) (root (heap s) l') d -> Reach (heap s) (root (heap s) l) d) ->
    Q4 (s', upd ls t l').
  Proof.
    intros [Ha Hb] Hl Hn Ht Hr. cbn [fst snd] in *.
    assert (Hn' : forall c, bnxt (getb (heap s) c) = bnxt (getb (heap s') c)) by (intros; symmetry; apply Hn).
    assert (Back : forall x d, Reach (heap s') (root (heap s') x) d -> Reach (heap s) (root (heap s) x) d).
    { intros x d R. rewrite (root_frame _ _ x Hn) in R. eapply Reach_frame; eauto. }
    split; cbn [fst snd].
    - intros u x d Hx R Rt. rewrite Ht in Rt. apply (Reach_frame _ _ Hn') in Rt. apply Back in R.
      destruct (nth_error_upd_cases _ _ _ _ _ Hx) as [[-> ->]|[Hne E]].
      + eapply Ha; [exact Hl|apply Hr; exact R|exact Rt].
      + eapply Ha; eauto.
    - intros u v x y d Hne Hx Hy Rx Ry. apply Back in Rx. apply Back in Ry.
      destruct (nth_error_upd_cases _ _ _ _ _ Hx) as [[-> ->]|[Hne1 E1]];
        destruct (nth_error_upd_cases _ _ _ _ _ Hy) as [[-> ->]|[Hne2 E2]]; try congruence.
      + eapply (Hb t v l y d); eauto.
      + eapply (Hb u t x l d); eauto.
      + eapply (Hb u v x y d); eauto.
  Qed.

  Lemma root_app h k l : pc_ok B h l -> root (h ++ [k]) l = root h l.
  Proof.
    intros Hp. unfold root, pc_ok in *. destruct (pcl l); auto. destruct clr; auto. rewrite getb_app_old by exact Hp. reflexivity.
  Qed.

  (* 511 / 512 success: a fresh block becomes the tail, linked to the old tail *)
  Lemma Q4_alloc s ls t l p :
    Inv B (s, ls) -> Q4 (s, ls) -> nth_error ls t = Some l ->
    root (heap s) l = None -> (forall h, root h (goto l p) = None) ->
    Q4 ({| heap := heap s ++ [newb B (tail s)]; tail := Some (length (heap s)); late := late s |}, upd ls t (goto l p)).
  Proof.
    intros (HO & _ & HP) [Ha Hb] Hl Hr Hr'. cbn [fst snd] in *.
    pose proof (links_of_heap_ok s HO) as HL.
    set (h' := heap s ++ [newb B (tail s)]).
    assert (Back : forall x d, (x = goto l p \/ exists u, nth_error ls u = Some x) -> Reach h' (root h' x) d ->
                               Reach (heap s) (root (heap s) x) d /\ d < length (heap s)).
    { intros x d [->|[u Hx]] R; [rewrite Hr' in R; destruct (Reach_None _ _ R)|].
      unfold h' in R. rewrite (root_app _ _ x (HP u x Hx)) in R.
      assert (Hrt : forall r, root (heap s) x = Some r -> r < length (heap s)) by (intros r E; eapply root_lt; eauto).
      apply Reach_app_2 in R; auto. split; [exact R|].
      destruct (root (heap s) x) as [r|] eqn:Er; [|destruct (Reach_None _ _ R)].
      pose proof (Reach_le _ HL _ _ R r eq_refl). specialize (Hrt r eq_refl). lia. }
    assert (Tail : forall d, Reach h' (Some (length (heap s))) d -> d = length (heap s) \/ Reach (heap s) (tail s) d).
    { intros d R. inversion R; subst; [left; reflexivity|right].
      unfold h' in H0. rewrite getb_app_new in H0. cbn [newb bnxt] in H0. apply Reach_app_2 in H0; auto.
      intros r E. apply (proj1 (proj2 (proj2 HO)) r E). }
    split; cbn [fst snd heap tail]; fold h'.
    - intros u x d Hx R Rt.
      assert (Hor : x = goto l p \/ exists u, nth_error ls u = Some x).
      { destruct (nth_error_upd_cases _ _ _ _ _ Hx) as [[-> ->]|[Hne E]]; eauto. }
      destruct (Back x d Hor R) as [R0 Hd]. destruct (Tail d Rt) as [->|Rt0]; [lia|].
      destruct Hor as [->|[u' Hx']]; [rewrite Hr' in R; destruct (Reach_None _ _ R)|]. eapply Ha; eauto.
    - intros u v x y d Hne Hx Hy Rx Ry.
      destruct (nth_error_upd_cases _ _ _ _ _ Hx) as [[-> ->]|[Hne1 E1]]; [rewrite Hr' in Rx; destruct (Reach_None _ _ Rx)|].
      destruct (nth_error_upd_cases _ _ _ _ _ Hy) as [[-> ->]|[Hne2 E2]]; [rewrite Hr' in Ry; destruct (Reach_None _ _ Ry)|].
      destruct (Back x d (or_intror (ex_intro _ u E1)) Rx) as [Rx0 _].
      destruct (Back y d (or_intror (ex_intro _ v E2)) Ry) as [Ry0 _].
      eapply (Hb u v x y d); eauto.
  Qed.

  (* 541 success: the whole live chain changes owner *)
  Lemma Q4_detach s ls t l b :
    Q4 (s, ls) -> nth_error ls t = Some l -> root (heap s) l = None -> tail s = Some b ->
    Q4 ({| heap := heap s; tail := None; late := late s |}, upd ls t (goto l (W1 true b []))).
  Proof.
    intros [Ha Hb] Hl Hr Ht. cbn [fst snd] in *. split; cbn [fst snd heap tail].
    - intros u x d _ _ R. destruct (Reach_None _ _ R).
    - intros u v x y d Hne Hx Hy Rx Ry.
      destruct (nth_error_upd_cases _ _ _ _ _ Hx) as [[-> ->]|[Hne1 E1]];
        destruct (nth_error_upd_cases _ _ _ _ _ Hy) as [[-> ->]|[Hne2 E2]]; try congruence.
      + cbn in Rx. eapply Ha; [exact E2|exact Ry|]. rewrite Ht. exact Rx.
      + cbn in Ry. eapply Ha; [exact E1|exact Rx|]. rewrite Ht. exact Ry.
      + eapply (Hb u v x y d); eauto.
  Qed.
End Uniq.
