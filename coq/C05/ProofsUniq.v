(* C05 — uniqueness of delivery, for EVERY schedule (with or without late claims):
   no identity is handed to clearing reads twice.  Built on the protocol invariant [Inv]:
     (Q1) a thread's push identity is (its index, the index of the call);
     (Q2) an identity found in a slot belongs to an earlier call of its thread, or to the current
          call of a thread that is between its slot write and its publication, at that slot;
     (Q3) an identity occurs in at most one slot of the whole heap;
     (Q4) ownership (J4): the chains hanging off `tail` and off every clearer (the block it is
          about to read and everything behind it) are pairwise disjoint;
     (Q5) every identity handed to a clear so far sits in a slot of a RETIRED block (reachable
          neither from tail nor from any clearer), and is counted once over all clears.        *)
From Coq Require Import List NArith Bool Arith Lia.
Import ListNotations.
Require Import MV.Common.Interleave MV.C05.Model MV.C05.ProofsSeq MV.C05.ProofsInv MV.C05.ProofsCor.
Local Open Scope nat_scope.

Definition vid (x : val) : N * N := fst x.

Definition pc_val (p : pc) : option val :=
  match p with
  | P0 x | P1 x | P2 x _ _ | P3 x _ _ | P4 x _ _ | P5 x _ | P6 x _ _ => Some x
  | _ => None
  end.

(* the case analysis of one step, used by every preservation proof below *)
Ltac step_inv Hst Epc :=
  unfold Model.step in Hst;
  match type of Hst with context [pcl ?l] => destruct (pcl l) eqn:Epc end;
  cbn zeta in Hst;
  repeat match type of Hst with
         | context [match tail ?ss with _ => _ end] => let Et := fresh "Et" in destruct (tail ss) eqn:Et
         | context [match bnxt ?k with _ => _ end] => let En := fresh "En" in destruct (bnxt k) eqn:En
         | context [if ?c then _ else _] => let Ec := fresh "Ec" in destruct c eqn:Ec
         end;
  try (match type of Hst with
       | context [e3_next ?f ?l0 ?nb0 ?e0] =>
           let Ee := fresh "Ee" in let r := fresh "r" in
           destruct (e3_next_cases f l0 nb0 e0) as [Ee|[r Ee]]; rewrite Ee in Hst
       end);
  try discriminate Hst; inversion Hst; subst; clear Hst.

Section Uniq.
  Variable B : nat.
  Hypothesis HB : 1 <= B.
  Variable fxc : bool.
  Notation step := (step B true fxc).

  (* ---- Q1 *)
  Definition ids_of (l : local) : Prop :=
    forall x, pc_val (pcl l) = Some x -> fst (fst x) = me l /\ snd (fst x) = cidx l.
  Definition Q1 (c : @config shared local) : Prop :=
    forall u l, nth_error (snd c) u = Some l -> me l = N.of_nat u /\ ids_of l.

  Lemma ids_enter m k td rs : ids_of (enter m k td rs).
  Proof. destruct td as [|[]]; intros x E; cbn in E; inversion E; subst; auto. Qed.
  Lemma me_enter m k td rs : me (enter m k td rs) = m.
  Proof. destruct td as [|[]]; reflexivity. Qed.
  Lemma cidx_enter m k td rs : cidx (enter m k td rs) = k.
  Proof. destruct td as [|[]]; reflexivity. Qed.

  Lemma step_ids s l s' l' : ids_of l -> step s l = Some (s', l') -> me l' = me l /\ ids_of l'.
  Proof.
    intros Hi Hst. step_inv Hst Epc;
      try (split; [unfold finish; rewrite ?me_enter; reflexivity|];
           first [ unfold finish; apply ids_enter
                 | intros x0 E; cbn in E; first [discriminate E | inversion E; subst x0; apply Hi; rewrite Epc; reflexivity]
                 | intros x0 E; destruct clr; cbn in E; discriminate E ]).
  Qed.

  Lemma Q1_step : step_preserves step Q1.
  Proof.
    intros s ls t l s' l' H Hl Hst u y Hy. cbn [snd] in *.
    destruct (nth_error_upd_cases _ _ _ _ _ Hy) as [[-> ->]|[Hne E]]; [|eauto].
    destruct (H t l Hl) as [Hm Hi]. destruct (step_ids s l s' l' Hi Hst) as [Hm' Hi']. split; [congruence|exact Hi'].
  Qed.

  Lemma Q1_init ps : Q1 (init_config ps).
  Proof.
    unfold Q1, init_config. cbn [snd]. intros u l Hl.
    assert (G : forall n ps u l, nth_error (init_locals n ps) u = Some l -> me l = (n + N.of_nat u)%N /\ pcl l = Start).
    { clear. intros n ps. revert n. induction ps as [|p r IH]; intros n u l H; destruct u; cbn in H; try discriminate.
      - inversion H; subst. cbn. split; [lia|reflexivity].
      - destruct (IH _ _ _ H) as [E1 E2]. split; [lia|exact E2]. }
    destruct (G _ _ _ _ Hl) as [E1 E2]. split; [lia|]. intros x E. rewrite E2 in E. discriminate.
  Qed.

  (* ---- Q2, Q3: identities in slots *)
  Definition slot (h : list block) (b i : nat) : option val := nth i (bslot (getb h b)) None.

  Definition Q2 (c : @config shared local) : Prop :=
    forall b i x, slot (heap (fst c)) b i = Some x ->
      exists l, nth_error (snd c) (N.to_nat (fst (fst x))) = Some l /\
                ((snd (fst x) < cidx l)%N \/ (snd (fst x) = cidx l /\ pcl l = P4 x b i)).
  Definition Q3 (c : @config shared local) : Prop :=
    forall b i b' i' x x', slot (heap (fst c)) b i = Some x -> slot (heap (fst c)) b' i' = Some x' ->
                           fst x = fst x' -> b = b' /\ i = i'.

  Lemma slot_out h b i : length h <= b -> slot h b i = None.
  Proof.
    intros H. unfold slot, getb. replace (nth b h empty_block) with empty_block by (symmetry; apply nth_overflow; exact H).
    cbn. destruct i; reflexivity.
  Qed.

  Lemma slot_setb_same h b0 k' b i :
    b0 < length h -> bslot k' = bslot (getb h b0) -> slot (setb h b0 k') b i = slot h b i.
  Proof.
    intros Hb E. unfold slot. rewrite getb_setb by exact Hb. destruct (Nat.eqb b b0) eqn:E1; [|reflexivity].
    apply Nat.eqb_eq in E1. subst. rewrite E. reflexivity.
  Qed.

  Lemma slot_app h nx b i : slot (h ++ [newb B nx]) b i = slot h b i.
  Proof.
    destruct (Nat.lt_ge_cases b (length h)) as [H|H].
    - unfold slot. rewrite getb_app_old by exact H. reflexivity.
    - rewrite (slot_out h b i H). destruct (Nat.eq_dec b (length h)) as [->|Hne].
      + unfold slot. rewrite getb_app_new. cbn [newb bslot]. apply nth_repeat_None.
      + apply slot_out. rewrite app_length. cbn. lia.
  Qed.

  Lemma step_cidx s l s' l' : step s l = Some (s', l') ->
    (cidx l <= cidx l')%N /\ (forall x b i, pcl l = P4 x b i -> (cidx l < cidx l')%N).
  Proof.
    intros Hst. step_inv Hst Epc; unfold finish; rewrite ?cidx_enter; cbn [goto mk cidx];
      (split; [lia|intros x0 b0 i0 E; first [discriminate E|lia]]).
  Qed.

  Lemma Q23_slots_same s ls t l s' l' :
    Q2 (s, ls) -> Q3 (s, ls) -> nth_error ls t = Some l -> step s l = Some (s', l') ->
    (forall b i, slot (heap s') b i = slot (heap s) b i) ->
    Q2 (s', upd ls t l') /\ Q3 (s', upd ls t l').
  Proof.
    intros H2 H3 Hl Hst Hs. destruct (step_cidx s l s' l' Hst) as [Hle Hp4]. split.
    - intros b i x Hx. cbn [fst snd] in *. rewrite Hs in Hx. destruct (H2 b i x Hx) as (lw & Hw & Hd). cbn [fst snd] in *.
      destruct (Nat.eq_dec (N.to_nat (fst (fst x))) t) as [Et|Hne].
      + rewrite Et in *. rewrite Hl in Hw. inversion Hw; subst lw.
        exists l'. split; [eapply nth_error_upd_same; eauto|]. left.
        destruct Hd as [Hd|[Hd Hpc]]; [lia|]. specialize (Hp4 _ _ _ Hpc). lia.
      + exists lw. split; [rewrite nth_error_upd_other by auto; exact Hw|exact Hd].
    - intros b i b' i' x x' Hx Hx'. cbn [fst snd] in *. rewrite Hs in Hx, Hx'. eapply H3; eauto.
  Qed.

  Lemma Q23_step : step_preserves step (fun c => Inv B c /\ Q1 c /\ Q2 c /\ Q3 c).
  Proof.
    intros s ls t l s' l' (HI & H1 & H2 & H3) Hl Hst.
    split; [eapply (inv_step B HB fxc); eauto|]. split; [eapply Q1_step; eauto|].
    pose proof HI as (HO & HC & HP). cbn [fst snd] in *.
    pose proof (HP t l Hl) as Hpl. unfold pc_ok in Hpl.
    destruct (pcl l) eqn:Epc;
      try (apply (Q23_slots_same s ls t l s' l' H2 H3 Hl Hst); intros b0 i0;
           unfold Model.step in Hst; rewrite Epc in Hst; cbn zeta in Hst;
           repeat match type of Hst with
                  | context [match tail ?ss with _ => _ end] => destruct (tail ss)
                  | context [match bnxt ?k with _ => _ end] => destruct (bnxt k)
                  | context [if ?c then _ else _] => destruct c
                  end;
           inversion Hst; subst; cbn [heap with_heap]; try reflexivity;
           first [apply slot_app | apply slot_setb_same; [tauto|reflexivity]]; fail).
    (* 502: the slot write *)
    destruct Hpl as (Hb & Hi & Hnone).
    unfold Model.step in Hst. rewrite Epc in Hst. inversion Hst; subst s' l'. clear Hst.
    destruct (H1 t l Hl) as [Hme Hids]. destruct (Hids x ltac:(rewrite Epc; reflexivity)) as [Hx1 Hx2].
    assert (Hxt : N.to_nat (fst (fst x)) = t) by (rewrite Hx1, Hme; apply Nat2N.id).
    destruct (proj1 HO b Hb) as [_ Ls].
    assert (Hslot : forall b0 i0, slot (heap (with_heap s (setb (heap s) b
                {| bw := bw (getb (heap s) b); bdone := bdone (getb (heap s) b);
                   bslot := set_nth (bslot (getb (heap s) b)) i (Some x); bnxt := bnxt (getb (heap s) b) |}))) b0 i0
              = if Nat.eqb b0 b && Nat.eqb i0 i then Some x else slot (heap s) b0 i0).
    { intros b0 i0. unfold slot. cbn [heap with_heap]. rewrite getb_setb by exact Hb.
      destruct (Nat.eqb b0 b) eqn:E1; [|reflexivity]. apply Nat.eqb_eq in E1. subst b0. cbn [bslot andb].
      destruct (Nat.eqb i0 i) eqn:E2.
      - apply Nat.eqb_eq in E2. subst i0. apply nth_set_nth_same. lia.
      - apply Nat.eqb_neq in E2. apply nth_set_nth_other. auto. }
    assert (Hfresh : forall b' i' x', slot (heap s) b' i' = Some x' -> fst x = fst x' -> False).
    { intros b' i' x' Hx' Ef. destruct (H2 b' i' x' Hx') as (lw & Hw & Hd). cbn [fst snd] in *.
      rewrite <- Ef, Hxt, Hl in Hw. inversion Hw; subst lw. rewrite <- Ef in Hd.
      destruct Hd as [Hd|[_ Hd]]; [lia|congruence]. }
    split.
    - intros b0 i0 x0 Hx0. cbn [fst snd] in *. rewrite Hslot in Hx0.
      destruct (Nat.eqb b0 b && Nat.eqb i0 i) eqn:E.
      + inversion Hx0; subst x0. apply andb_true_iff in E. destruct E as [E1 E2].
        apply Nat.eqb_eq in E1. apply Nat.eqb_eq in E2. subst b0 i0.
        exists (goto l (P4 x b i)). split; [rewrite Hxt; eapply nth_error_upd_same; eauto|].
        right. split; [exact Hx2|reflexivity].
      + destruct (H2 b0 i0 x0 Hx0) as (lw & Hw & Hd). cbn [fst snd] in *.
        destruct (Nat.eq_dec (N.to_nat (fst (fst x0))) t) as [Et|Hne].
        * rewrite Et in *. rewrite Hl in Hw. inversion Hw; subst lw.
          exists (goto l (P4 x b i)). split; [eapply nth_error_upd_same; eauto|].
          destruct Hd as [Hd|[_ Hd]]; [left; exact Hd|congruence].
        * exists lw. split; [rewrite nth_error_upd_other by auto; exact Hw|exact Hd].
    - intros b1 i1 b2 i2 x1 x2 Hx1' Hx2' Ef. cbn [fst snd] in *. rewrite Hslot in Hx1', Hx2'.
      destruct (Nat.eqb b1 b && Nat.eqb i1 i) eqn:E1; destruct (Nat.eqb b2 b && Nat.eqb i2 i) eqn:E2.
      + apply andb_true_iff in E1. apply andb_true_iff in E2. destruct E1 as [A1 A2]. destruct E2 as [A3 A4].
        apply Nat.eqb_eq in A1, A2, A3, A4. subst. auto.
      + inversion Hx1'; subst x1. exfalso. eapply Hfresh; eauto.
      + inversion Hx2'; subst x2. exfalso. eapply Hfresh; eauto.
      + eapply H3; eauto.
  Qed.

  (* ---- Q4: ownership of chains (J4) *)
  Inductive Reach (h : list block) : option nat -> nat -> Prop :=
  | r_here b : Reach h (Some b) b
  | r_next b c : Reach h (bnxt (getb h b)) c -> Reach h (Some b) c.

  (* the block a clearing thread is about to read / the rest of its detached chain *)
  Definition root (h : list block) (l : local) : option nat :=
    match pcl l with
    | W1 true b _ | W2 true b _ _ | WS true b _ | WD true b _ => Some b
    | WN true b _ => bnxt (getb h b)
    | _ => None
    end.

  Definition links_dec (h : list block) : Prop := forall b c, bnxt (getb h b) = Some c -> c < b.

  Lemma links_of_heap_ok s : heap_ok B s -> links_dec (heap s).
  Proof.
    intros (_ & H2 & _) b c E. destruct (Nat.lt_ge_cases b (length (heap s))) as [Hb|Hb].
    - apply (H2 b c Hb E).
    - unfold getb in E. rewrite nth_overflow in E by exact Hb. discriminate.
  Qed.

  Lemma Reach_None h d : Reach h None d -> False.
  Proof. inversion 1. Qed.

  Lemma Reach_le h : links_dec h -> forall o d, Reach h o d -> forall r, o = Some r -> d <= r.
  Proof.
    intros HL o d R. induction R as [b|b c R IH]; intros r E; inversion E; subst; [lia|].
    destruct (bnxt (getb h r)) as [r'|] eqn:En; [|inversion R].
    specialize (IH r' eq_refl). specialize (HL r r' En). lia.
  Qed.

  Lemma Reach_frame h h' : (forall c, bnxt (getb h' c) = bnxt (getb h c)) -> forall o d, Reach h o d -> Reach h' o d.
  Proof. intros H o d R. induction R; [constructor|]. apply r_next. rewrite H. exact IHR. Qed.

  Lemma Reach_app_1 h k : links_dec h -> forall o d, Reach h o d -> (forall r, o = Some r -> r < length h) -> Reach (h ++ [k]) o d.
  Proof.
    intros HL o d R. induction R as [b|b c R IH]; intros Hr; [constructor|].
    apply r_next. rewrite getb_app_old by (apply Hr; reflexivity). apply IH.
    intros r E. specialize (HL b r E). specialize (Hr b eq_refl). lia.
  Qed.

  Lemma Reach_app_2 h k : links_dec h -> forall o d, Reach (h ++ [k]) o d -> (forall r, o = Some r -> r < length h) -> Reach h o d.
  Proof.
    intros HL o d R. induction R as [b|b c R IH]; intros Hr; [constructor|].
    apply r_next. rewrite getb_app_old in R, IH by (apply Hr; reflexivity). apply IH.
    intros r E. specialize (HL b r E). specialize (Hr b eq_refl). lia.
  Qed.

  Definition Q4 (c : @config shared local) : Prop :=
    (forall u l d, nth_error (snd c) u = Some l -> Reach (heap (fst c)) (root (heap (fst c)) l) d ->
                   ~ Reach (heap (fst c)) (tail (fst c)) d) /\
    (forall u v l l' d, u <> v -> nth_error (snd c) u = Some l -> nth_error (snd c) v = Some l' ->
                        Reach (heap (fst c)) (root (heap (fst c)) l) d -> Reach (heap (fst c)) (root (heap (fst c)) l') d -> False).

  Lemma root_frame h h' l : (forall c, bnxt (getb h' c) = bnxt (getb h c)) -> root h' l = root h l.
  Proof. intros H. unfold root. destruct (pcl l); auto. destruct clr; auto. Qed.

  Lemma root_enter h m k td rs : root h (enter m k td rs) = None.
  Proof. destruct td as [|[]]; reflexivity. Qed.

  (* roots are in range *)
  Lemma root_lt s l r : heap_ok B s -> pc_ok B (heap s) l -> root (heap s) l = Some r -> r < length (heap s).
  Proof.
    intros HO Hp E. unfold root, pc_ok in *. destruct (pcl l); try discriminate; destruct clr; try discriminate;
      try (inversion E; subst; exact Hp).
    destruct HO as (_ & H2 & _). destruct (H2 b r Hp E). lia.
  Qed.

  (* steps that keep every link and the tail: the stepping thread's reach may only shrink *)
  Lemma Q4_local s ls t l s' l' :
    Q4 (s, ls) -> nth_error ls t = Some l ->
    (forall c, bnxt (getb (heap s') c) = bnxt (getb (heap s) c)) -> tail s' = tail s ->
    (forall d, Reach (heap s) (root (heap s) l') d -> Reach (heap s) (root (heap s) l) d) ->
    Q4 (s', upd ls t l').
  Proof.
    intros [Ha Hb] Hl Hn Ht Hr. cbn [fst snd] in *.
    assert (Hn' : forall c, bnxt (getb (heap s) c) = bnxt (getb (heap s') c)) by (intros; symmetry; apply Hn).
    assert (Back : forall x d, Reach (heap s') (root (heap s') x) d -> Reach (heap s) (root (heap s) x) d).
    { intros x d R. rewrite (root_frame _ _ x Hn) in R. eapply Reach_frame; eauto. }
    split; cbn [fst snd].
    - intros u x d Hx R Rt. rewrite Ht in Rt. apply (Reach_frame _ _ Hn') in Rt. apply Back in R.
      destruct (nth_error_upd_cases _ _ _ _ _ Hx) as [[-> ->]|[Hne E]].
      + eapply Ha; [exact Hl|apply Hr; exact R|exact Rt].
      + eapply Ha; eauto.
    - intros u v x y d Hne Hx Hy Rx Ry. apply Back in Rx. apply Back in Ry.
      destruct (nth_error_upd_cases _ _ _ _ _ Hx) as [[-> ->]|[Hne1 E1]];
        destruct (nth_error_upd_cases _ _ _ _ _ Hy) as [[-> ->]|[Hne2 E2]]; try congruence.
      + eapply (Hb t v l y d); eauto.
      + eapply (Hb u t x l d); eauto.
      + eapply (Hb u v x y d); eauto.
  Qed.

  Lemma root_app h k l : pc_ok B h l -> root (h ++ [k]) l = root h l.
  Proof.
    intros Hp. unfold root, pc_ok in *. destruct (pcl l); auto. destruct clr; auto. rewrite getb_app_old by exact Hp. reflexivity.
  Qed.

  (* 511 / 512 success: a fresh block becomes the tail, linked to the old tail *)
  Lemma Q4_alloc s ls t l p :
    Inv B (s, ls) -> Q4 (s, ls) -> nth_error ls t = Some l ->
    root (heap s) l = None -> (forall h, root h (goto l p) = None) ->
    Q4 ({| heap := heap s ++ [newb B (tail s)]; tail := Some (length (heap s)); late := late s |}, upd ls t (goto l p)).
  Proof.
    intros (HO & _ & HP) [Ha Hb] Hl Hr Hr'. cbn [fst snd] in *.
    pose proof (links_of_heap_ok s HO) as HL.
    set (h' := heap s ++ [newb B (tail s)]).
    assert (Back : forall x d, (x = goto l p \/ exists u, nth_error ls u = Some x) -> Reach h' (root h' x) d ->
                               Reach (heap s) (root (heap s) x) d /\ d < length (heap s)).
    { intros x d [->|[u Hx]] R; [rewrite Hr' in R; destruct (Reach_None _ _ R)|].
      unfold h' in R. rewrite (root_app _ _ x (HP u x Hx)) in R.
      assert (Hrt : forall r, root (heap s) x = Some r -> r < length (heap s)) by (intros r E; eapply root_lt; eauto).
      apply Reach_app_2 in R; auto. split; [exact R|].
      destruct (root (heap s) x) as [r|] eqn:Er; [|destruct (Reach_None _ _ R)].
      pose proof (Reach_le _ HL _ _ R r eq_refl). specialize (Hrt r eq_refl). lia. }
    assert (Tail : forall d, Reach h' (Some (length (heap s))) d -> d = length (heap s) \/ Reach (heap s) (tail s) d).
    { intros d R. inversion R; subst; [left; reflexivity|right].
      unfold h' in H0. rewrite getb_app_new in H0. cbn [newb bnxt] in H0. apply Reach_app_2 in H0; auto.
      intros r E. apply (proj1 (proj2 (proj2 HO)) r E). }
    split; cbn [fst snd heap tail]; fold h'.
    - intros u x d Hx R Rt.
      assert (Hor : x = goto l p \/ exists u, nth_error ls u = Some x).
      { destruct (nth_error_upd_cases _ _ _ _ _ Hx) as [[-> ->]|[Hne E]]; eauto. }
      destruct (Back x d Hor R) as [R0 Hd]. destruct (Tail d Rt) as [->|Rt0]; [lia|].
      destruct Hor as [->|[u' Hx']]; [rewrite Hr' in R; destruct (Reach_None _ _ R)|]. eapply Ha; eauto.
    - intros u v x y d Hne Hx Hy Rx Ry.
      destruct (nth_error_upd_cases _ _ _ _ _ Hx) as [[-> ->]|[Hne1 E1]]; [rewrite Hr' in Rx; destruct (Reach_None _ _ Rx)|].
      destruct (nth_error_upd_cases _ _ _ _ _ Hy) as [[-> ->]|[Hne2 E2]]; [rewrite Hr' in Ry; destruct (Reach_None _ _ Ry)|].
      destruct (Back x d (or_intror (ex_intro _ u E1)) Rx) as [Rx0 _].
      destruct (Back y d (or_intror (ex_intro _ v E2)) Ry) as [Ry0 _].
      eapply (Hb u v x y d); eauto.
  Qed.

  (* 541 success: the whole live chain changes owner *)
  Lemma Q4_detach s ls t l b :
    Q4 (s, ls) -> nth_error ls t = Some l -> root (heap s) l = None -> tail s = Some b ->
    Q4 ({| heap := heap s; tail := None; late := late s |}, upd ls t (goto l (W1 true b []))).
  Proof.
    intros [Ha Hb] Hl Hr Ht. cbn [fst snd] in *. split; cbn [fst snd heap tail].
    - intros u x d _ _ R. destruct (Reach_None _ _ R).
    - intros u v x y d Hne Hx Hy Rx Ry.
      destruct (nth_error_upd_cases _ _ _ _ _ Hx) as [[-> ->]|[Hne1 E1]];
        destruct (nth_error_upd_cases _ _ _ _ _ Hy) as [[-> ->]|[Hne2 E2]]; try congruence.
      + cbn in Rx. eapply Ha; [exact E2|exact Ry|]. rewrite Ht. exact Rx.
      + cbn in Ry. eapply Ha; [exact E1|exact Rx|]. rewrite Ht. exact Ry.
      + eapply (Hb u v x y d); eauto.
  Qed.

  Lemma bnxt_setb h b k' : b < length h -> bnxt k' = bnxt (getb h b) -> forall c, bnxt (getb (setb h b k') c) = bnxt (getb h c).
  Proof.
    intros Hb E c. rewrite getb_setb by exact Hb. destruct (Nat.eqb c b) eqn:E1; [|reflexivity].
    apply Nat.eqb_eq in E1. subst. exact E.
  Qed.

  Lemma Q4_step : step_preserves step (fun c => Inv B c /\ Q4 c).
  Proof.
    intros s ls t l s' l' (HI & H4) Hl Hst.
    split; [eapply (inv_step B HB fxc); eauto|].
    pose proof HI as (HO & HC & HP). cbn [fst snd] in *.
    pose proof (HP t l Hl) as Hpl. unfold pc_ok in Hpl.
    step_inv Hst Epc;
      try (eapply Q4_local; [exact H4|exact Hl
             |first [reflexivity | cbn [heap with_heap]; apply bnxt_setb; [tauto|reflexivity]]
             |reflexivity
             |intros d R; unfold finish in R;
              first [ rewrite root_enter in R; destruct (Reach_None _ _ R)
                    | unfold root in *; rewrite Epc; cbn [goto mk pcl] in *;
                      try destruct clr; cbn [goto mk pcl] in *;
                      first [destruct (Reach_None _ _ R) | exact R | apply r_next; exact R
                            | match goal with E : bnxt _ = Some _ |- _ => rewrite E; exact R end] ]]; fail).
    - (* 511 *)
      rewrite <- Et. apply Q4_alloc; auto. unfold root. rewrite Epc. reflexivity.
    - (* 512 success *)
      match goal with E : Nat.eqb _ _ = true |- _ => apply Nat.eqb_eq in E; subst end.
      rewrite <- Et. apply Q4_alloc; auto. unfold root. rewrite Epc. reflexivity.
    - contradiction.
    - (* 541 success *)
      match goal with E : Nat.eqb _ _ = true |- _ => apply Nat.eqb_eq in E; subst end.
      apply Q4_detach; auto. unfold root. rewrite Epc. reflexivity.
  Qed.

  (* ---- Q5: what has been handed to clears *)
  Definition Owned (c : @config shared local) (d : nat) : Prop :=
    Reach (heap (fst c)) (tail (fst c)) d \/
    exists u l, nth_error (snd c) u = Some l /\ Reach (heap (fst c)) (root (heap (fst c)) l) d.

  (* the owned region never grows, except by the freshly allocated block *)
  Lemma Owned_local s ls t l s' l' d :
    nth_error ls t = Some l ->
    (forall c, bnxt (getb (heap s') c) = bnxt (getb (heap s) c)) -> tail s' = tail s ->
    (forall d, Reach (heap s) (root (heap s) l') d -> Reach (heap s) (root (heap s) l) d) ->
    Owned (s', upd ls t l') d -> Owned (s, ls) d.
  Proof.
    intros Hl Hn Ht Hr [R|(u & x & Hx & R)]; cbn [fst snd] in *.
    - left. cbn [fst]. rewrite Ht in R. eapply Reach_frame; [|exact R]. intros; symmetry; apply Hn.
    - right. rewrite (root_frame _ _ x Hn) in R. apply (Reach_frame _ (heap s)) in R; [|intros; symmetry; apply Hn].
      destruct (nth_error_upd_cases _ _ _ _ _ Hx) as [[-> ->]|[Hne E]]; cbn [fst snd].
      + exists t, l. split; auto.
      + exists u, x. split; auto.
  Qed.

  Lemma Owned_alloc s ls t l p d :
    Inv B (s, ls) -> nth_error ls t = Some l -> (forall h, root h (goto l p) = None) ->
    Owned ({| heap := heap s ++ [newb B (tail s)]; tail := Some (length (heap s)); late := late s |}, upd ls t (goto l p)) d ->
    Owned (s, ls) d \/ d = length (heap s).
  Proof.
    intros (HO & _ & HP) Hl Hr' [R|(u & x & Hx & R)]; cbn [fst snd heap tail] in *.
    - pose proof (links_of_heap_ok s HO) as HL.
      inversion R; subst; [right; reflexivity|left; left]. cbn [fst].
      rewrite getb_app_new in H0. cbn [newb bnxt] in H0. apply Reach_app_2 in H0; auto.
      intros r E. apply (proj1 (proj2 (proj2 HO)) r E).
    - left. right. pose proof (links_of_heap_ok s HO) as HL.
      destruct (nth_error_upd_cases _ _ _ _ _ Hx) as [[-> ->]|[Hne E]]; [rewrite Hr' in R; destruct (Reach_None _ _ R)|].
      rewrite (root_app _ _ x (HP u x E)) in R. apply Reach_app_2 in R; auto.
      + exists u, x. cbn [fst snd]. auto.
      + intros r Er. eapply root_lt; eauto.
  Qed.

  Lemma Owned_detach s ls t l b d :
    nth_error ls t = Some l -> tail s = Some b ->
    Owned ({| heap := heap s; tail := None; late := late s |}, upd ls t (goto l (W1 true b []))) d -> Owned (s, ls) d.
  Proof.
    intros Hl Ht [R|(u & x & Hx & R)]; cbn [fst snd heap tail] in *; [destruct (Reach_None _ _ R)|].
    destruct (nth_error_upd_cases _ _ _ _ _ Hx) as [[-> ->]|[Hne E]].
    - left. cbn [fst]. rewrite Ht. exact R.
    - right. exists u, x. cbn [fst snd]. auto.
  Qed.

  Lemma Owned_step s ls t l s' l' d :
    Inv B (s, ls) -> nth_error ls t = Some l -> step s l = Some (s', l') ->
    Owned (s', upd ls t l') d -> Owned (s, ls) d \/ d = length (heap s).
  Proof.
    intros HI Hl Hst HOw. pose proof HI as (HO & HC & HP). cbn [fst snd] in *.
    pose proof (HP t l Hl) as Hpl. unfold pc_ok in Hpl.
    step_inv Hst Epc;
      try (left; refine (Owned_local _ _ _ _ _ _ _ Hl _ _ _ HOw);
             [first [reflexivity | cbn [heap with_heap]; apply bnxt_setb; [tauto|reflexivity]]
             |reflexivity
             |intros d0 R; unfold finish in R;
              first [ rewrite root_enter in R; destruct (Reach_None _ _ R)
                    | unfold root in *; rewrite Epc; cbn [goto mk pcl] in *;
                      try destruct clr; cbn [goto mk pcl] in *;
                      first [destruct (Reach_None _ _ R) | exact R | apply r_next; exact R
                            | match goal with E : bnxt _ = Some _ |- _ => rewrite E; exact R end] ]]; fail).
    - rewrite <- Et in HOw. eapply Owned_alloc; eauto. reflexivity.
    - match goal with E : Nat.eqb _ _ = true |- _ => apply Nat.eqb_eq in E; subst end.
      rewrite <- Et in HOw. eapply Owned_alloc; eauto. reflexivity.
    - contradiction.
    - match goal with E : Nat.eqb _ _ = true |- _ => apply Nat.eqb_eq in E; subst end.
      left. eapply Owned_detach; eauto.
  Qed.

  (* slots only ever gain values *)
  Lemma slot_mono s ls t l s' l' b i x :
    Inv B (s, ls) -> nth_error ls t = Some l -> step s l = Some (s', l') ->
    slot (heap s) b i = Some x -> slot (heap s') b i = Some x.
  Proof.
    intros HI Hl Hst Hx. pose proof HI as (HO & HC & HP). cbn [fst snd] in *.
    pose proof (HP t l Hl) as Hpl. unfold pc_ok in Hpl.
    step_inv Hst Epc; cbn [heap with_heap]; try exact Hx;
      try (first [rewrite slot_app | rewrite slot_setb_same by (try tauto; reflexivity)]; exact Hx).
    (* 502 *)
    destruct Hpl as (Hb & Hi & Hnone). unfold slot in *. rewrite getb_setb by exact Hb.
    destruct (Nat.eqb b b0) eqn:E1; [|exact Hx]. apply Nat.eqb_eq in E1. subst b0. cbn [bslot].
    destruct (Nat.eq_dec i i0) as [->|Hne]; [congruence|]. rewrite nth_set_nth_other by auto. exact Hx.
  Qed.

  Definition NN_dec : forall a b : N * N, {a = b} + {a <> b}.
  Proof. decide equality; apply N.eq_dec. Defined.

  Definition res_cleared (r : res) : list val := match r with RClear sl => concat sl | _ => [] end.
  Definition acc_cleared (p : pc) : list val :=
    match p with
    | W1 true _ a | W2 true _ _ a | WS true _ a | WD true _ a | WN true _ a => concat a
    | _ => []
    end.
  (* everything handed to this thread's clear_with callbacks so far (call in progress first) *)
  Definition cleared_local (l : local) : list val := acc_cleared (pcl l) ++ flat_map res_cleared (results l).
  Definition cntl (id : N * N) (xs : list val) : nat := count_occ NN_dec (map vid xs) id.
  Definition cnt (id : N * N) (l : local) : nat := cntl id (cleared_local l).

  Lemma cntl_app id xs ys : cntl id (xs ++ ys) = cntl id xs + cntl id ys.
  Proof. unfold cntl. rewrite map_app. apply count_occ_app. Qed.

  Lemma cntl_concat_rev id acc : cntl id (concat (rev acc)) = cntl id (concat acc).
  Proof.
    induction acc as [|a r IH]; cbn [rev concat]; auto.
    rewrite concat_app, !cntl_app, IH. cbn [concat]. rewrite app_nil_r. lia.
  Qed.

  Lemma in_concat_rev (x : val) acc : In x (concat (rev acc)) -> In x (concat acc).
  Proof. rewrite !in_concat. intros (y & Hy & Hx). exists y. split; auto. apply in_rev. exact Hy. Qed.

  Lemma cleared_enter m k td rs : cleared_local (enter m k td rs) = flat_map res_cleared rs.
  Proof. destruct td as [|[]]; reflexivity. Qed.

  Definition cl_same (l l' : local) : Prop :=
    (forall id, cnt id l' = cnt id l) /\ (forall x, In x (cleared_local l') -> In x (cleared_local l)).

  Lemma step_cleared s l s' l' :
    step s l = Some (s', l') -> (forall b acc, pcl l <> WD true b acc) -> cl_same l l'.
  Proof.
    intros Hst Hnot. unfold cl_same, cnt.
    step_inv Hst Epc; unfold finish; rewrite ?cleared_enter; unfold cleared_local; rewrite ?Epc;
      cbn [goto mk pcl results acc_cleared flat_map res_cleared walk_res app];
      try (split; intros; auto; fail);
      try (destruct clr; cbn [acc_cleared flat_map res_cleared walk_res app concat]; try (split; intros; auto; fail)).
    - (* WD true is excluded *) exfalso. eapply Hnot; eauto.
    - (* 543, end of the chain: the slices move into the results *)
      split.
      + intros id. rewrite !cntl_app, cntl_concat_rev. reflexivity.
      + intros x Hx. apply in_app_or in Hx. apply in_or_app. destruct Hx as [Hx|Hx]; [left; apply in_concat_rev; exact Hx|right; exact Hx].
  Qed.

  Definition Q5 (c : @config shared local) : Prop :=
    (forall id, sumf (cnt id) (snd c) <= 1) /\
    (forall u l x, nth_error (snd c) u = Some l -> In x (cleared_local l) ->
                   exists b i, slot (heap (fst c)) b i = Some x /\ ~ Owned c b).

  Definition All (c : @config shared local) : Prop := Inv B c /\ Q1 c /\ Q2 c /\ Q3 c /\ Q4 c /\ Q5 c.

  Lemma slot_lt h b i x : slot h b i = Some x -> b < length h.
  Proof. intros E. destruct (Nat.lt_ge_cases b (length h)); auto. rewrite slot_out in E by auto. discriminate. Qed.

  (* any step that is not the delivering read of a clear *)
  Lemma Q5_frame s ls t l s' l' :
    Inv B (s, ls) -> Q5 (s, ls) -> nth_error ls t = Some l -> step s l = Some (s', l') ->
    (forall b acc, pcl l <> WD true b acc) -> Q5 (s', upd ls t l').
  Proof.
    intros HI [Ha Hb] Hl Hst Hnot. destruct (step_cleared s l s' l' Hst Hnot) as [Hc Hin]. cbn [fst snd] in *.
    split; cbn [fst snd].
    - intros id. pose proof (sumf_upd (cnt id) ls t l l' Hl) as Hs. rewrite (Hc id) in Hs. specialize (Ha id). lia.
    - intros u y x Hy Hx.
      assert (Hold : exists u0 y0, nth_error ls u0 = Some y0 /\ In x (cleared_local y0)).
      { destruct (nth_error_upd_cases _ _ _ _ _ Hy) as [[-> ->]|[Hne E]]; [exists t, l|exists u, y]; auto. }
      destruct Hold as (u0 & y0 & Hy0 & Hx0). destruct (Hb u0 y0 x Hy0 Hx0) as (b & i & Hs & Hno).
      exists b, i. split; [exact (slot_mono s ls t l s' l' b i x HI Hl Hst Hs)|].
      intros HOw. destruct (Owned_step s ls t l s' l' b HI Hl Hst HOw) as [H|H]; [auto|].
      apply slot_lt in Hs. lia.
  Qed.

  Lemma data_nth (sl : list (option val)) n j :
    j < n -> n <= length sl -> nth j (map slot_val (firstn n sl)) garbage = slot_val (nth j sl None).
  Proof.
    revert n j. induction sl as [|o r IH]; intros n j Hj Hn; [cbn in Hn; lia|].
    destruct n; [lia|]. destruct j; cbn; auto. apply IH; cbn in Hn; lia.
  Qed.

  Lemma sumf_pos {A} (f : A -> nat) ls : 0 < sumf f ls -> exists u x, nth_error ls u = Some x /\ 0 < f x.
  Proof.
    induction ls as [|y r IH]; cbn; [lia|]. intros H. destruct (f y) eqn:E.
    - destruct (IH H) as (u & x & Hx & Hp). exists (S u), x. auto.
    - exists 0, y. split; [reflexivity|lia].
  Qed.

  (* 506 of a clear: the block's published prefix is handed out *)
  Lemma Q5_deliver s ls t l b acc :
    All (s, ls) -> nth_error ls t = Some l -> pcl l = WD true b acc ->
    Q5 (s, upd ls t (goto l (WN true b (data_of (getb (heap s) b) (tones (bdone (getb (heap s) b))) :: acc)))).
  Proof.
    intros (HI & H1 & H2 & H3 & [H4a H4b] & [H5a H5b]) Hl Hpc. cbn [fst snd] in *.
    pose proof HI as (HO & HC & HP). cbn [fst snd] in *.
    pose proof (HP t l Hl) as Hb. unfold pc_ok in Hb. rewrite Hpc in Hb.
    pose proof (links_of_heap_ok s HO) as HL.
    set (k := getb (heap s) b) in *. set (n := tones (bdone k)). set (data := data_of k n).
    set (l' := goto l (WN true b (data :: acc))).
    assert (Hroot : root (heap s) l = Some b) by (unfold root; rewrite Hpc; reflexivity).
    assert (Hroot' : root (heap s) l' = bnxt k) by reflexivity.
    assert (Hcl : cleared_local l' = data ++ cleared_local l).
    { unfold cleared_local, l'. rewrite Hpc. cbn [goto mk pcl results acc_cleared concat]. rewrite app_assoc. reflexivity. }
    destruct (proj1 HO b Hb) as [Ld Ls]. fold k in Ld, Ls.
    assert (Hn : n <= length (bslot k)).
    { rewrite Ls, <- Ld. unfold n. clear. induction (bdone k) as [|[] r IH]; cbn; lia. }
    assert (Hslots : forall j, j < n -> exists x, slot (heap s) b j = Some x /\ nth j data garbage = x).
    { intros j Hj. destruct (published_written B (s, ls) b j HI Hb (tones_nth B HB _ _ Hj)) as [x Hx]. cbn [fst] in Hx. fold k in Hx.
      exists x. split; [exact Hx|]. unfold data, data_of. rewrite data_nth by auto. rewrite Hx. reflexivity. }
    assert (Hlen : length data = n).
    { unfold data, data_of. rewrite map_length, firstn_length. lia. }
    assert (Hin : forall x, In x data -> exists j, slot (heap s) b j = Some x).
    { intros x Hx. destruct (In_nth _ _ garbage Hx) as (j & Hj & Ej). rewrite Hlen in Hj.
      destruct (Hslots j Hj) as (x' & Hs & En). exists j. congruence. }
    assert (Hnd : forall id, cntl id data <= 1).
    { apply NoDup_count_occ. apply (NoDup_nth _ (vid garbage)). rewrite map_length, Hlen. intros j1 j2 Hj1 Hj2 E.
      rewrite !(map_nth vid) in E.
      destruct (Hslots j1 Hj1) as (x1 & Hs1 & E1). destruct (Hslots j2 Hj2) as (x2 & Hs2 & E2). rewrite E1, E2 in E.
      destruct (H3 b j1 b j2 x1 x2 Hs1 Hs2 E). auto. }
    assert (HownB : Owned (s, ls) b).
    { right. exists t, l. cbn [fst snd]. split; auto. rewrite Hroot. constructor. }
    assert (Hfresh : forall id, 0 < cntl id data -> sumf (cnt id) ls = 0).
    { intros id Hpos. destruct (Nat.eq_dec (sumf (cnt id) ls) 0) as [|Hne]; auto. exfalso.
      apply count_occ_In in Hpos. apply in_map_iff in Hpos. destruct Hpos as (x & Ex & Hx).
      destruct (Hin x Hx) as (j & Hs).
      destruct (sumf_pos (cnt id) ls ltac:(lia)) as (u & y & Hy & Hp).
      unfold cnt, cntl in Hp. apply count_occ_In in Hp. apply in_map_iff in Hp. destruct Hp as (x' & Ex' & Hx').
      destruct (H5b u y x' Hy Hx') as (b' & i' & Hs' & Hno). cbn [fst] in Hs'.
      destruct (H3 b j b' i' x x' Hs Hs' ltac:(unfold vid in *; congruence)) as [<- _]. auto. }
    split; cbn [fst snd].
    - intros id. pose proof (sumf_upd (cnt id) ls t l l' Hl) as Hs.
      assert (E : cnt id l' = cntl id data + cnt id l) by (unfold cnt; rewrite Hcl, cntl_app; reflexivity).
      specialize (Hnd id). specialize (H5a id). destruct (cntl id data) eqn:Ec; [lia|].
      rewrite (Hfresh id) in Hs by lia. pose proof (sumf_ge (cnt id) ls t l Hl). lia.
    - intros u y x Hy Hx.
      assert (Hstep : step s l = Some (s, l')).
      { unfold Model.step. rewrite Hpc. reflexivity. }
      assert (Hcase : In x data \/ exists u0 y0, nth_error ls u0 = Some y0 /\ In x (cleared_local y0)).
      { destruct (nth_error_upd_cases _ _ _ _ _ Hy) as [[-> ->]|[Hne E]].
        - rewrite Hcl in Hx. apply in_app_or in Hx. destruct Hx; [left; auto|right; exists t, l; auto].
        - right. exists u, y. auto. }
      destruct Hcase as [Hd|(u0 & y0 & Hy0 & Hx0)].
      + destruct (Hin x Hd) as (j & Hs). exists b, j. split; [exact Hs|].
        intros [R|(v & z & Hz & R)]; cbn [fst snd] in *.
        * eapply (H4a t l b); eauto. rewrite Hroot. constructor.
        * destruct (nth_error_upd_cases _ _ _ _ _ Hz) as [[-> ->]|[Hne E]].
          -- rewrite Hroot' in R. destruct (bnxt k) as [r|] eqn:En; [|destruct (Reach_None _ _ R)].
             pose proof (Reach_le _ HL _ _ R r eq_refl). specialize (HL b r En). lia.
          -- eapply (H4b t v l z b); eauto. rewrite Hroot. constructor.
      + destruct (H5b u0 y0 x Hy0 Hx0) as (b' & i' & Hs' & Hno). exists b', i'. split; [exact Hs'|].
        intros HOw. destruct (Owned_step s ls t l s l' b' HI Hl Hstep HOw) as [H|H]; [auto|].
        apply slot_lt in Hs'. cbn [fst] in Hs'. lia.
  Qed.

  Theorem All_step : step_preserves step All.
  Proof.
    intros s ls t l s' l' HA Hl Hst. pose proof HA as (HI & H1 & H2 & H3 & H4 & H5).
    destruct (Q23_step s ls t l s' l' (conj HI (conj H1 (conj H2 H3))) Hl Hst) as (HI' & H1' & H2' & H3').
    destruct (Q4_step s ls t l s' l' (conj HI H4) Hl Hst) as (_ & H4').
    unfold All. repeat (split; [assumption|]).
    destruct (pcl l) eqn:Epc;
      try (eapply Q5_frame; eauto; intros b0 acc0 E; rewrite Epc in E; discriminate E).
    destruct clr.
    - unfold Model.step in Hst. rewrite Epc in Hst. inversion Hst; subst s' l'. apply Q5_deliver; auto.
    - eapply Q5_frame; eauto. intros b0 acc0 E. rewrite Epc in E. discriminate E.
  Qed.

  Lemma init_pcl n ps u l : nth_error (init_locals n ps) u = Some l -> pcl l = Start /\ results l = [].
  Proof.
    revert n u. induction ps as [|p r IH]; intros n u H; destruct u; cbn in H; try discriminate.
    - inversion H; subst. auto.
    - eapply IH; eauto.
  Qed.

  Lemma All_init ps : All (init_config ps).
  Proof.
    unfold All. split; [exact (reachable_Inv B HB fxc ps [])|]. split; [apply Q1_init|].
    unfold init_config, init_shared.
    split; [intros b i x E; cbn in E; rewrite slot_out in E by (cbn; lia); discriminate|].
    split; [intros b i b' i' x x' E; cbn in E; rewrite slot_out in E by (cbn; lia); discriminate|].
    assert (R0 : forall u l, nth_error (init_locals 0 ps) u = Some l -> root [] l = None).
    { intros u l Hl. destruct (init_pcl _ _ _ _ Hl) as [E _]. unfold root. rewrite E. reflexivity. }
    assert (C0 : forall u l, nth_error (init_locals 0 ps) u = Some l -> cleared_local l = []).
    { intros u l Hl. destruct (init_pcl _ _ _ _ Hl) as [E1 E2]. unfold cleared_local. rewrite E1, E2. reflexivity. }
    split; [split; cbn [fst snd heap tail]|split; cbn [fst snd heap tail]].
    - intros u l d Hl R. rewrite (R0 u l Hl) in R. destruct (Reach_None _ _ R).
    - intros u v l l' d _ Hl _ R. rewrite (R0 u l Hl) in R. destruct (Reach_None _ _ R).
    - intros id. assert (E : sumf (cnt id) (init_locals 0 ps) = 0); [|lia].
      generalize (C0). generalize (init_locals 0 ps). intros ls H. induction ls as [|y r IH]; cbn; auto.
      rewrite IH by (intros u l Hl; apply (H (S u) l Hl)). unfold cnt. rewrite (H 0 y eq_refl). reflexivity.
    - intros u l x Hl Hx. rewrite (C0 u l Hl) in Hx. destruct Hx.
  Qed.

  Theorem reachable_All ps sched : All (fst (exec step site (init_config ps) sched)).
  Proof. apply invariant_all_schedules; [exact All_step|apply All_init]. Qed.

  (* ---- uniqueness of delivery *)
  Lemma sumf_two {A} (f : A -> nat) ls : forall u v a b, u <> v -> nth_error ls u = Some a -> nth_error ls v = Some b ->
    f a + f b <= sumf f ls.
  Proof.
    induction ls as [|y r IH]; intros [|u] [|v] a b Hne Ha Hb; cbn in *; try discriminate; try congruence.
    - inversion Ha; subst. pose proof (sumf_ge f r v b Hb). lia.
    - inversion Hb; subst. pose proof (sumf_ge f r u a Ha). lia.
    - specialize (IH u v a b ltac:(lia) Ha Hb). lia.
  Qed.

  Lemma cnt_pos id l x : In x (cleared_local l) -> vid x = id -> 0 < cnt id l.
  Proof. intros Hx E. unfold cnt, cntl. apply count_occ_In. apply in_map_iff. exists x. auto. Qed.

  (* one clearing thread never receives the same identity twice (over all its clear_with calls,
     including the one in progress) *)
  Lemma cleared_nodup_thread c u l : All c -> nth_error (snd c) u = Some l -> NoDup (map vid (cleared_local l)).
  Proof.
    intros (_ & _ & _ & _ & _ & [H5 _]) Hl. apply (NoDup_count_occ NN_dec). intros id.
    pose proof (sumf_ge (cnt id) (snd c) u l Hl). specialize (H5 id). unfold cnt, cntl in *. lia.
  Qed.

  (* two different threads never receive the same identity *)
  Lemma cleared_disjoint_threads c u v l l' x x' :
    All c -> u <> v -> nth_error (snd c) u = Some l -> nth_error (snd c) v = Some l' ->
    In x (cleared_local l) -> In x' (cleared_local l') -> vid x = vid x' -> False.
  Proof.
    intros (_ & _ & _ & _ & _ & [H5 _]) Hne Hl Hl' Hx Hx' E.
    pose proof (sumf_two (cnt (vid x)) (snd c) u v l l' Hne Hl Hl').
    pose proof (cnt_pos (vid x) l x Hx eq_refl). pose proof (cnt_pos (vid x) l' x' Hx' (eq_sym E)).
    specialize (H5 (vid x)). lia.
  Qed.
End Uniq.
