From Coq Require Import List NArith Bool Arith Permutation Lia.
Import ListNotations.
Require Import MV.Common.Interleave MV.C05.Model MV.C05.Spec MV.C05.Exec.
Require Import MV.C05.ProofsSeq MV.C05.ProofsInv MV.C05.ProofsCor MV.C05.ProofsUniq MV.C05.ProofsCons MV.C05.ProofsProg MV.C05.ProofsSnap MV.C05.ProofsEmpty MV.C05.ProofsOrder MV.C05.ProofsSpec MV.C05.ProofsTrace1 MV.C05.ProofsTrace2 MV.C05.ProofsTrace3 MV.C05.ProofsTrace4 MV.C05.ProofsTrace5 MV.C05.ProofsTrace6 MV.C05.ProofsTrace7 MV.C05.ProofsTrace8 MV.C05.ProofsTrace9 MV.C05.ProofsTrace10 MV.C05.ProofsTrace11 MV.C05.ProofsTrace12 MV.C05.ProofsTrace13 MV.C05.ProofsTrace14 MV.C05.ProofsTrace15.
Local Open Scope nat_scope.
Require Import MV.C05.Properties.

Check (C05_sequential_bag : forall B calls, 1 <= B ->
  exists s', seq_exec B init_shared calls s' (fst (bag_run B [] calls)) /\
             SeqState B s' (snd (bag_run B [] calls))).
Print Assumptions C05_sequential_bag.
Check (C05_sequential_call : forall B s cs m k c td rs, 1 <= B -> SeqState B s cs ->
  exists s', steps B s (enter m k (c :: td) rs) s' (enter m (k + 1)%N td (bag_res c cs :: rs)) /\
             SeqState B s' (bag_next B (m, k) c cs)).
Print Assumptions C05_sequential_call.
Check (C05_sequential_record_many : forall B s cs m k v n, 1 <= B -> SeqState B s cs ->
  exists s' cs', seq_exec B s (many_calls m k v n) s' (repeat RPush n) /\ SeqState B s' cs' /\
                 Permutation (concat cs') (many_vals m k v n ++ concat cs) /\
                 (n = 0 -> s' = s /\ cs' = cs)).
Print Assumptions C05_sequential_record_many.
Check (C05_record_many_expansion : forall v n k (m : N),
  expand_prog [XMany v n] = map (fun x => snd x) (many_calls m k v (N.to_nat n))).
Print Assumptions C05_record_many_expansion.
Check (C05_record_many_example_run_ok : known_class record_many_case = None /\ spec_ok record_many_case (run_case record_many_case) = true).
Print Assumptions C05_record_many_example_run_ok.
Check (C05_bag_push_adds : forall B x cs, Permutation (concat (push_contents B x cs)) (x :: concat cs)).
Print Assumptions C05_bag_push_adds.
Check (C05_sequential_run_unique : forall B s l s1 l1 s2 l2,
  steps B s l s1 l1 -> steps B s l s2 l2 -> step B true true s1 l1 = None -> step B true true s2 l2 = None ->
  s1 = s2 /\ l1 = l2).
Print Assumptions C05_sequential_run_unique.
Check (C05_protocol_invariant_every_schedule : forall B fxc ps sched, 1 <= B ->
  Inv B (fst (exec (step B true fxc) site (init_config ps) sched))).
Print Assumptions C05_protocol_invariant_every_schedule.
Check (C05_invariant_every_step : forall B fxc, 1 <= B -> step_preserves (step B true fxc) (Inv B)).
Print Assumptions C05_invariant_every_step.
Check (C05_published_slot_is_written : forall B fxc ps c b i, 1 <= B -> reach B fxc ps c ->
  b < length (heap (fst c)) -> nth i (bdone (getb (heap (fst c)) b)) false = true ->
  exists x, nth i (bslot (getb (heap (fst c)) b)) None = Some x).
Print Assumptions C05_published_slot_is_written.
Check (C05_claims_unique : forall B fxc ps c t u l l' b i, 1 <= B -> reach B fxc ps c ->
  nth_error (snd c) t = Some l -> nth_error (snd c) u = Some l' -> t <> u ->
  inflight b i l = 1 -> inflight b i l' = 1 -> False).
Print Assumptions C05_claims_unique.
Check (C05_write_index_counts_claims : forall B fxc ps c b i, 1 <= B -> reach B fxc ps c ->
  b < length (heap (fst c)) -> i < B -> claim_ok (heap (fst c)) (snd c) b i).
Print Assumptions C05_write_index_counts_claims.
Check (C05_writer_publishes_own_value : forall B fxc ps c t l x b i, 1 <= B -> reach B fxc ps c ->
  nth_error (snd c) t = Some l -> pcl l = P4 x b i ->
  nth i (bslot (getb (heap (fst c)) b)) None = Some x /\ nth i (bdone (getb (heap (fst c)) b)) false = false /\
  i < bw (getb (heap (fst c)) b) /\ i < B).
Print Assumptions C05_writer_publishes_own_value.
Check (C05_delivery_reads_written_slots : forall B fxc ps c b v, 1 <= B -> reach B fxc ps c ->
  b < length (heap (fst c)) ->
  In v (data_of (getb (heap (fst c)) b) (tones (bdone (getb (heap (fst c)) b)))) ->
  exists j, j < tones (bdone (getb (heap (fst c)) b)) /\ nth j (bslot (getb (heap (fst c)) b)) None = Some v).
Print Assumptions C05_delivery_reads_written_slots.
Check (C05_chain_acyclic_nonhead_full : forall B fxc ps c, 1 <= B -> reach B fxc ps c ->
  exists ids, Chain (heap (fst c)) (tail (fst c)) ids /\
              (forall b d, In b ids -> bnxt (getb (heap (fst c)) b) = Some d -> B <= bw (getb (heap (fst c)) d))).
Print Assumptions C05_chain_acyclic_nonhead_full.
Check (C05_uniqueness_invariant_every_schedule : forall B fxc ps sched, 1 <= B ->
  All B (fst (exec (step B true fxc) site (init_config ps) sched))).
Print Assumptions C05_uniqueness_invariant_every_schedule.
Check (C05_no_identity_cleared_twice : forall B fxc ps c id, 1 <= B -> reach B fxc ps c ->
  sumf (cnt id) (snd c) <= 1).
Print Assumptions C05_no_identity_cleared_twice.
Check (C05_clears_of_one_thread_have_no_duplicates : forall B fxc ps c u l, 1 <= B -> reach B fxc ps c ->
  nth_error (snd c) u = Some l -> NoDup (map vid (cleared_local l))).
Print Assumptions C05_clears_of_one_thread_have_no_duplicates.
Check (C05_clears_of_two_threads_are_disjoint : forall B fxc ps c u v l l' x x', 1 <= B -> reach B fxc ps c ->
  u <> v -> nth_error (snd c) u = Some l -> nth_error (snd c) v = Some l' ->
  In x (cleared_local l) -> In x' (cleared_local l') -> vid x = vid x' -> False).
Print Assumptions C05_clears_of_two_threads_are_disjoint.
Check (C05_detached_chains_have_one_owner : forall B fxc ps c, 1 <= B -> reach B fxc ps c -> Q4 c).
Print Assumptions C05_detached_chains_have_one_owner.
Check (C05_identity_in_one_slot : forall B fxc ps c, 1 <= B -> reach B fxc ps c -> Q3 c).
Print Assumptions C05_identity_in_one_slot.
Check (C05_no_fabrication : forall B fxc ps sched, 1 <= B ->
  let c := fst (exec (step B true fxc) site (init_config ps) sched) in
  (forall b i x, slot (heap (fst c)) b i = Some x -> genuine ps x) /\
  (forall x, cleared_in (snd c) x -> genuine ps x)).
Print Assumptions C05_no_fabrication.
Check (C05_conservation_except_late_claim : forall B fxc ps sched u l p k v, 1 <= B ->
  let c := fst (exec (step B true fxc) site (init_config ps) sched) in
  late (fst c) = false ->
  nth_error (snd c) u = Some l -> nth_error ps u = Some p ->
  k < N.to_nat (cidx l) -> nth_error p k = Some (CPush v) ->
  exists b i, slot (heap (fst c)) b i = Some (N.of_nat u, N.of_nat k, v) /\ pub (heap (fst c)) b i /\
              (forall b' i' x', slot (heap (fst c)) b' i' = Some x' -> vid x' = (N.of_nat u, N.of_nat k) -> b' = b /\ i' = i) /\
              (~ Owned c b -> cleared_in (snd c) (N.of_nat u, N.of_nat k, v)) /\
              (cleared_in (snd c) (N.of_nat u, N.of_nat k, v) -> ~ Owned c b) /\
              sumf (cnt (N.of_nat u, N.of_nat k)) (snd c) <= 1).
Print Assumptions C05_conservation_except_late_claim.
Check (C05_published_partition : forall B fxc ps sched, 1 <= B ->
  let c := fst (exec (step B true fxc) site (init_config ps) sched) in
  late (fst c) = false ->
  (forall b i x, slot (heap (fst c)) b i = Some x -> pub (heap (fst c)) b i -> ~ Owned c b -> cleared_in (snd c) x) /\
  (forall x, cleared_in (snd c) x ->
             exists b i, slot (heap (fst c)) b i = Some x /\ ~ Owned c b /\
                         forall b' i' x', slot (heap (fst c)) b' i' = Some x' -> vid x' = vid x -> b' = b /\ i' = i) /\
  (forall id, sumf (cnt id) (snd c) <= 1) /\
  (forall d, d < length (heap (fst c)) -> ~ Owned c d -> complete B (heap (fst c)) d)).
Print Assumptions C05_published_partition.
Check (C05_conservation_on_model_runs : forall c, known_class c = None ->
  let cf := fst (run_gen BS true true c) in
  late (fst cf) = false /\ AllK BS cf /\ R (progs_of c) cf).
Print Assumptions C05_conservation_on_model_runs.
Check (C05_snapshot_sees_completed : forall B fxc ps sched0 sched t l b0, 1 <= B ->
  let c := fst (exec (step B true fxc) site (init_config ps) sched0) in
  nth_error (snd c) t = Some l -> pcl l = W1 false b0 [] ->
  let c' := fst (exec (step B true fxc) site c sched) in
  forall l', nth_error (snd c') t = Some l' ->
  (results l' = results l /\
   exists acc o, walk_pos (heap (fst c')) l' = Some (acc, o) /\
     forall d i x, Reach (heap (fst c)) (Some b0) d -> slot (heap (fst c)) d i = Some x -> pub (heap (fst c)) d i ->
                   In x (concat acc) \/ Reach (heap (fst c')) o d) \/
  (exists rs1 sl, results l' = rs1 ++ RData sl :: results l /\
     forall d i x, Reach (heap (fst c)) (Some b0) d -> slot (heap (fst c)) d i = Some x -> pub (heap (fst c)) d i ->
                   In x (concat sl))).
Print Assumptions C05_snapshot_sees_completed.
Check (C05_snapshot_first_step : forall B fxc s l b0,
  pcl l = W0 false -> tail s = Some b0 -> step B true fxc s l = Some (s, goto l (W1 false b0 []))).
Print Assumptions C05_snapshot_first_step.
Check (C05_is_empty_sound : forall B ps sched0 sched t l b0, 1 <= B ->
  let c := fst (exec (step B true true) site (init_config ps) sched0) in
  nth_error (snd c) t = Some l -> pcl l = E1 b0 ->
  let h := heap (fst c) in
  let c' := fst (exec (step B true true) site c sched) in
  forall l' rs1 r, nth_error (snd c') t = Some l' -> results l' = rs1 ++ REmpty r :: results l ->
  (r = true -> forall d i, Reach h (Some b0) d -> ~ pub h d i) /\
  (r = false -> exists d i, pub (heap (fst c')) d i)).
Print Assumptions C05_is_empty_sound.
Check (C05_block_order : forall B fxc ps sched0, 1 <= B ->
  let c := fst (exec (step B true fxc) site (init_config ps) sched0) in
  forall b, b < length (heap (fst c)) ->
  (let k := getb (heap (fst c)) b in
   let data := data_of k (tones (bdone k)) in
   length data = tones (bdone k) /\
   forall j, j < tones (bdone k) -> exists x, slot (heap (fst c)) b j = Some x /\ nth j data garbage = x) /\
  (forall i, i < B ->
     (pub (heap (fst c)) b i \/ exists t l, nth_error (snd c) t = Some l /\ inflight b i l = 1) ->
     i < bw (getb (heap (fst c)) b)) /\
  (forall sched, let c' := fst (exec (step B true fxc) site c sched) in
     b < length (heap (fst c')) /\ bw (getb (heap (fst c)) b) <= bw (getb (heap (fst c')) b)) /\
  (forall l x sec, pcl l = P2 x b sec -> bw (getb (heap (fst c)) b) < B ->
     exists s', step B true fxc (fst c) l = Some (s', goto l (P3 x b (bw (getb (heap (fst c)) b)))) /\
                bw (getb (heap s') b) = S (bw (getb (heap (fst c)) b)))).
Print Assumptions C05_block_order.
Check (C05_spec_ok_sound : forall (c : case) tr rss done final anom,
  spec_ok c (tr, rss, done, final, anom) = true ->
  anom = 0%N /\ all2 follows (progs_of c) rss = true /\
  NoDup (map vid (cleared_out rss)) /\ NoDup (map vid (concat final)) /\
  (done = true ->
     NoDup (map vid (cleared_out rss ++ concat final)) /\
     (forall x, In x (all_pushes (progs_of c) 0) -> In (vid x) (map vid (cleared_out rss ++ concat final))) /\
     length (cleared_out rss ++ concat final) = length (all_pushes (progs_of c) 0))).
Print Assumptions C05_spec_ok_sound.
Check (C05_spec_no_double_clear_on_model : forall c : case,
  let '(tr, rss, _, _, _) := run_case c in
  nodupb (flat_map handed (filter is_clear (rcalls tr 0 rss))) = true).
Print Assumptions C05_spec_no_double_clear_on_model.
Check (C05_spec_shape_on_model : forall c : case,
  let '(_, rss, _, _, _) := run_case c in all2 follows (progs_of c) rss = true).
Print Assumptions C05_spec_shape_on_model.
Check (C05_spec_written_before_read_on_model : forall c : case,
  let '(tr, rss, _, _, _) := run_case c in
  forallb (fun rc => forallb (fun qs => slice_genuine (pinfos tr 0 (progs_of c)) (fst qs) (snd qs) &&
                                         match fst qs with Some _ => true | None => false end) (rsl rc))
          (rcalls tr 0 rss) = true).
Print Assumptions C05_spec_written_before_read_on_model.
Check (C05_spec_reads_no_dup_on_model : forall c : case,
  let '(tr, rss, _, _, _) := run_case c in
  forallb (fun rc => nodupb (handed rc)) (rcalls tr 0 rss) = true).
Print Assumptions C05_spec_reads_no_dup_on_model.
Check (C05_oversized_final_read_regression : known_class oversized_case = None /\
  (let '(_, rss, done, final, _) := run_case oversized_case in
   done = true /\ length final = N.to_nat 136 /\
   length (cleared_out rss ++ concat final) = N.to_nat 8700 /\ length (all_pushes (progs_of oversized_case) 0) = N.to_nat 8700)).
Print Assumptions C05_oversized_final_read_regression.
Check (C05_spec_final_read_on_model : forall c : case,
  let '(tr, _, _, final, _) := run_case c in
  nodupb (concat final) = true /\ forallb (slice_genuine (pinfos tr 0 (progs_of c)) None) final = true).
Print Assumptions C05_spec_final_read_on_model.
Check (C05_spec_claim_order_on_model : forall c : case,
  let '(tr, rss, _, final, _) := run_case c in
  forallb (fun rc => forallb (fun qs => slice_ordered (pinfos tr 0 (progs_of c)) (snd qs)) (rsl rc)) (rcalls tr 0 rss) = true /\
  forallb (slice_ordered (pinfos tr 0 (progs_of c))) final = true).
Print Assumptions C05_spec_claim_order_on_model.
Check (C05_spec_clauses_on_model_every_case : forall c : case,
  let '(tr, rss, done, final, anom) := run_case c in
  let tbl := pinfos tr 0 (progs_of c) in
  let rc := rcalls tr 0 rss in
  (anom =? 0)%N && all2 follows (progs_of c) rss
  && nodupb (flat_map handed (filter is_clear rc)) && forallb (fun c0 => nodupb (handed c0)) rc && nodupb (concat final)
  && forallb (fun c0 => forallb (fun qs => slice_genuine tbl (fst qs) (snd qs) &&
                                          match fst qs with Some _ => true | None => false end) (rsl c0)) rc
  && forallb (slice_genuine tbl None) final
  && forallb (fun c0 => forallb (fun qs => slice_ordered tbl (snd qs)) (rsl c0)) rc
  && forallb (slice_ordered tbl) final = true).
Print Assumptions C05_spec_clauses_on_model_every_case.
Check (C05_final_read_finishes : forall B fxc s ls, 1 <= B -> All B (s, ls) ->
  (forall u l, nth_error ls u = Some l -> pcl l = Done) ->
  let f := final_data B true fxc s in
  (forall d i x, Reach (heap s) (tail s) d -> slot (heap s) d i = Some x -> pub (heap s) d i -> In x (concat f)) /\
  (forall x, In x (concat f) -> exists d i, slot (heap s) d i = Some x /\ Reach (heap s) (tail s) d)).
Print Assumptions C05_final_read_finishes.
Check (C05_spec_conservation_on_model : forall c : case, known_class c = None ->
  let '(tr, rss, done, final, _) := run_case c in
  done = true ->
  let rhs := flat_map handed (filter is_clear (rcalls tr 0 rss)) ++ concat final in
  nodupb rhs && forallb (fun i => memb (px i) rhs) (pinfos tr 0 (progs_of c))
  && Nat.eqb (length rhs) (length (pinfos tr 0 (progs_of c))) = true).
Print Assumptions C05_spec_conservation_on_model.
Check (C05_is_empty_beyond_B_threads_refuted_before_fix : length (fst many_case) = 67 /\ known_class many_case = None /\
  (let cf := fst (exec_full (step_lookback1 BS) site rr_fuel (init_config (progs_of many_case)) (map N.to_nat (snd many_case))) in
   option_map results (nth_error (snd cf) 66) = Some [REmpty true] /\
   length (concat (final_data BS true true (fst cf))) = 129) /\
  (let '(_, rss, done, final, _) := run_case many_case in
   nth 66 rss [] = [REmpty false] /\ done = true /\ length (concat final) = 129) /\
  spec_ok many_case (run_case many_case) = true).
Print Assumptions C05_is_empty_beyond_B_threads_refuted_before_fix.
Check (C05_race_example_run_ok : length (fst race_case) <= 64 /\ known_class race_case = None /\ spec_ok race_case (run_case race_case) = true).
Print Assumptions C05_race_example_run_ok.
Check (C05_spec_pub_positions_on_model : forall c : case,
  let '(tr, _, _, _, _) := run_case c in
  let cf := fst (run_gen BS true true c) in
  forall i w, In i (pinfos tr 0 (progs_of c)) -> ppub i = Some w ->
    w < length tr /\ genuine (progs_of c) (px i) /\
    exists b j, slot (heap (fst cf)) b j = Some (px i) /\ pub (heap (fst cf)) b j).
Print Assumptions C05_spec_pub_positions_on_model.
Check (C05_spec_snapshot_completeness_on_model_no_clear : forall c : case,
  (forall p, In p (progs_of c) -> ~ In CClear p) ->
  let '(tr, rss, _, _, _) := run_case c in
  let tbl := pinfos tr 0 (progs_of c) in
  let rc := rcalls tr 0 rss in
  forallb (fun r => if (rkind r =? 0)%N then accounts tbl (filter is_clear rc) (rstart r) (handed r) else true) rc = true).
Print Assumptions C05_spec_snapshot_completeness_on_model_no_clear.
Check (C05_spec_is_empty_true_completeness_on_model_no_clear : forall c : case,
  (forall p, In p (progs_of c) -> ~ In CClear p) ->
  let '(tr, rss, _, _, _) := run_case c in
  let tbl := pinfos tr 0 (progs_of c) in
  let rc := rcalls tr 0 rss in
  forallb (fun r => if (rkind r =? 2)%N then accounts tbl (filter is_clear rc) (rstart r) (handed r) else true) rc = true).
Print Assumptions C05_spec_is_empty_true_completeness_on_model_no_clear.
Check (C05_spec_is_empty_false_needs_publication_on_model : forall c : case,
  let '(tr, rss, _, _, _) := run_case c in
  let tbl := pinfos tr 0 (progs_of c) in
  let rc := rcalls tr 0 rss in
  forallb (fun r => if (rkind r =? 3)%N then existsb (fun i => olt (ppub i) (rend r)) tbl else true) rc = true).
Print Assumptions C05_spec_is_empty_false_needs_publication_on_model.
Check (C05_spec_is_empty_completeness_on_model_no_clear : forall c : case,
  (forall p, In p (progs_of c) -> ~ In CClear p) ->
  let '(tr, rss, _, _, _) := run_case c in
  let tbl := pinfos tr 0 (progs_of c) in
  let rc := rcalls tr 0 rss in
  forallb (fun r => if (rkind r =? 2)%N then accounts tbl (filter is_clear rc) (rstart r) (handed r)
                    else if (rkind r =? 3)%N then existsb (fun i => olt (ppub i) (rend r)) tbl else true) rc = true).
Print Assumptions C05_spec_is_empty_completeness_on_model_no_clear.
Check (C05_no_clear_not_late_claim : forall c : case,
  (forall p, In p (progs_of c) -> ~ In CClear p) -> known_class c = None).
Print Assumptions C05_no_clear_not_late_claim.
Check (C05_spec_ok_on_model_no_clear : forall c : case,
  (forall p, In p (progs_of c) -> ~ In CClear p) ->
  spec_ok c (run_case c) = true).
Print Assumptions C05_spec_ok_on_model_no_clear.
Check (C05_spec_completeness_on_model : forall c : case, known_class c = None ->
  let '(tr, rss, done, _, _) := run_case c in
  done = true ->
  let tbl := pinfos tr 0 (progs_of c) in
  let rc := rcalls tr 0 rss in
  forallb (fun r => if ((rkind r =? 0) || (rkind r =? 2))%N then accounts tbl (filter is_clear rc) (rstart r) (handed r)
                    else if (rkind r =? 3)%N then existsb (fun i => olt (ppub i) (rend r)) tbl else true) rc = true).
Print Assumptions C05_spec_completeness_on_model.
Check (C05_spec_ok_on_model : forall c : case, known_class c = None -> spec_ok c (run_case c) = true).
Print Assumptions C05_spec_ok_on_model.
Check (C05_popcount_len_refuted : let cf := fst (exec (step BS true true) site (init_config [[CPush 1%N]; [CPush 2%N]; [CData]]) popcount_sched) in
  let k := getb (heap (fst cf)) 0 in
  option_map pcl (nth_error (snd cf) 2) = Some (WD false 0 []) /\
  count_true (bdone k) = 1 /\ tones (bdone k) = 0 /\
  data_of k (count_true (bdone k)) = [garbage] /\ data_of k (tones (bdone k)) = []).
Print Assumptions C05_popcount_len_refuted.
Check (C05_late_claim_refutes : exists c, known_class c = Some 1%N /\ spec_ok c (run_case c) = false).
Print Assumptions C05_late_claim_refutes.
Check (C05_handover_refuted_before_fix : late_claim_gen 2 false true handover_case = false /\ spec_gen 2 false true handover_case = false /\
  spec_gen 2 true true handover_case = true).
Print Assumptions C05_handover_refuted_before_fix.
Check (C05_is_empty_refuted_before_fix : late_claim_gen BS true false hidden_case = false /\ spec_gen BS true false hidden_case = false /\
  spec_gen BS true true hidden_case = true).
Print Assumptions C05_is_empty_refuted_before_fix.
Check (C05_example_run_ok : known_class example_case = None /\ spec_ok example_case (run_case example_case) = true).
Print Assumptions C05_example_run_ok.
