From Coq Require Import List NArith Bool Arith.
Import ListNotations.
Require Import MV.Common.Interleave MV.C05.Model MV.C05.Spec MV.C05.Exec.
Require Import MV.C05.Properties.

Check (C05_placeholder : forall n : nat, n = n).
Print Assumptions C05_placeholder.
