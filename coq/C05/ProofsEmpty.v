(* C05 — is_empty (code after fix 1a8142c: the whole bitmap is inspected), every schedule.
   Fix a reachable configuration in which thread t has just executed its 520 step on a non-empty
   tail (pc E1 b0), let nx0 be the link of b0 and Ob any set of slots published at that moment
   (= pushes completed before the call's first step).  If the call later returns TRUE then
     - no member of Ob is in the head block b0, nor in its successor (what the code inspects);
     - if b0 has a successor at all, then all B slots of that (full) successor were claimed and
       unpublished when it was inspected, so MORE THAN B threads exist;
   hence with at most B threads, is_empty = true implies that no push that completed before the
   call began was resident in the chain from the tail it loaded.  If the call returns FALSE some
   slot is published (the answer is not invented).                                             *)
From Coq Require Import List NArith Bool Arith Lia.
Import ListNotations.
Require Import MV.Common.Interleave MV.C05.Model MV.C05.ProofsSeq MV.C05.ProofsInv MV.C05.ProofsCor MV.C05.ProofsUniq MV.C05.ProofsCons MV.C05.ProofsSnap.
Local Open Scope nat_scope.

(* ---- counting threads in flight on one block *)
Fixpoint sumi (f : nat -> nat) (n : nat) : nat := match n with O => O | S m => sumi f m + f m end.

Lemma sumi_ext f g n : (forall i, i < n -> f i = g i) -> sumi f n = sumi g n.
Proof. induction n; intros H; cbn; auto. rewrite IHn, (H n) by auto with arith. reflexivity. Qed.

Lemma sumi_const1 f n : (forall i, i < n -> f i = 1) -> sumi f n = n.
Proof. induction n; intros H; cbn; auto. rewrite IHn, (H n) by auto with arith. lia. Qed.

Lemma sumi_zero n : sumi (fun _ => 0) n = 0.
Proof. induction n; cbn; lia. Qed.

Lemma sumi_point j n : sumi (fun i => if Nat.eqb j i then 1 else 0) n = if Nat.ltb j n then 1 else 0.
Proof.
  induction n; cbn [sumi]; auto. rewrite IHn.
  destruct (Nat.ltb_spec j n), (Nat.eqb_spec j n), (Nat.ltb_spec j (S n)); lia.
Qed.

Lemma sumf_add {A} (f g : A -> nat) ls : sumf (fun l => f l + g l) ls = sumf f ls + sumf g ls.
Proof. induction ls; cbn; lia. Qed.

Lemma sumi_sumf {A} (F : nat -> A -> nat) ls n :
  sumi (fun i => sumf (F i) ls) n = sumf (fun l => sumi (fun i => F i l) n) ls.
Proof.
  induction n; cbn [sumi].
  - induction ls; cbn; auto.
  - rewrite IHn, <- sumf_add. reflexivity.
Qed.

Lemma sumf_bound {A} (f : A -> nat) ls t l :
  (forall x, f x <= 1) -> nth_error ls t = Some l -> f l = 0 -> sumf f ls + 1 <= length ls.
Proof.
  intros Hle. revert t. induction ls as [|y r IH]; intros [|t] H H0; cbn in *; try discriminate.
  - inversion H; subst. rewrite H0. clear IH. induction r; cbn; auto. specialize (Hle a). lia.
  - specialize (IH t H H0). specialize (Hle y). lia.
Qed.

Lemma existsb_false_nth (l : list bool) : existsb (fun x => x) l = false -> forall i, nth i l false = false.
Proof. induction l as [|a r IH]; intros H [|i]; cbn in *; auto; apply orb_false_iff in H; destruct H; auto. Qed.

Lemma existsb_true_nth (l : list bool) : existsb (fun x => x) l = true -> exists i, nth i l false = true.
Proof.
  induction l as [|a r IH]; cbn; [discriminate|]. intros H. apply orb_true_iff in H. destruct H as [H|H].
  - exists 0. exact H. - destruct (IH H) as [i Hi]. exists (S i). exact Hi.
Qed.

Section Empty.
  Variable B : nat.
  Hypothesis HB : 1 <= B.
  Notation step := (step B true true).
  Variable t : nat.
  Variable b0 : nat.                         (* the tail pointer is_empty loaded at 520 *)
  Variable nx0 : option nat.                 (* its link *)
  Variable nthreads : nat.
  Variable Ob : nat -> nat -> val -> Prop.
  Variable r0 : list res.

  Definition noOb (b : nat) : Prop := forall i x, ~ Ob b i x.

  Definition emp_pc (l : local) : Prop :=
    match pcl l with
    | E1 b => b = b0
    | E2 b => b = b0 /\ noOb b0
    | E3 nb => nx0 = Some nb /\ noOb b0
    | _ => False
    end.

  Definition emp_done (h : list block) (l : local) : Prop :=
    exists rs1 r, results l = rs1 ++ REmpty r :: r0 /\
      (r = true -> noOb b0 /\ forall nb, nx0 = Some nb -> noOb nb /\ B < nthreads) /\
      (r = false -> exists d i, pub h d i).

  Definition EmpInv (c : @config shared local) : Prop :=
    (b0 < length (heap (fst c)) /\ bnxt (getb (heap (fst c)) b0) = nx0 /\ length (snd c) = nthreads /\
     forall d i x, Ob d i x -> pub (heap (fst c)) d i) /\
    (forall l, nth_error (snd c) t = Some l -> (results l = r0 /\ emp_pc l) \/ emp_done (heap (fst c)) l).

  Lemma inflight_total b l : sumi (fun i => inflight b i l) B <= 1.
  Proof.
    unfold inflight. destruct (pcl l); try (rewrite sumi_zero; lia);
      match goal with
      | |- context [Nat.eqb ?bb b && Nat.eqb ?ii _] =>
          destruct (Nat.eqb bb b); cbn [andb];
          [rewrite (sumi_point ii B); destruct (Nat.ltb ii B); lia | rewrite sumi_zero; lia]
      end.
  Qed.

  (* a block whose B slots are all claimed and none published keeps B distinct threads busy *)
  Lemma all_in_flight s ls l nb :
    Inv B (s, ls) -> nth_error ls t = Some l -> (forall i, inflight nb i l = 0) ->
    nb < length (heap s) -> B <= bw (getb (heap s) nb) -> (forall i, nth i (bdone (getb (heap s) nb)) false = false) ->
    B < length ls.
  Proof.
    intros (HO & HC & HP) Hl Hz Hnb Hw Hnp. cbn [fst snd] in *.
    assert (E : sumi (fun i => sumf (inflight nb i) ls) B = B).
    { apply sumi_const1. intros i Hi. pose proof (HC nb i Hnb Hi) as Hc. unfold claim_ok in Hc.
      replace (Nat.ltb i (bw (getb (heap s) nb))) with true in Hc by (symmetry; apply Nat.ltb_lt; lia).
      rewrite Hnp in Hc. exact Hc. }
    rewrite sumi_sumf in E.
    pose proof (sumf_bound (fun x => sumi (fun i => inflight nb i x) B) ls t l (inflight_total nb) Hl) as Hb.
    assert (Hz' : sumi (fun i => inflight nb i l) B = 0) by (rewrite (sumi_ext _ (fun _ => 0)) by (intros; apply Hz); apply sumi_zero).
    specialize (Hb Hz'). cbv beta in Hb. lia.
  Qed.

  Lemma pub_lt h d i : pub h d i -> d < length h.
  Proof. intros H. destruct (Nat.lt_ge_cases d (length h)); auto. destruct (pub_out h d i H0 H). Qed.

  Lemma pub_step s ls u lu s' lu' d i :
    Inv B (s, ls) -> nth_error ls u = Some lu -> step s lu = Some (s', lu') -> pub (heap s) d i -> pub (heap s') d i.
  Proof. intros HI Hl Hst Hp. apply (proj1 (step_block B HB true s ls u lu s' lu' d HI Hl Hst (pub_lt _ _ _ Hp))). exact Hp. Qed.

  Theorem Emp_step : step_preserves step (fun c => All B c /\ EmpInv c).
  Proof.
    intros s ls u lu s' lu' [HA [(Hb0 & Hnx & Hlen & HOb) HT]] Hl Hst. split; [eapply (All_step B HB true); eauto|].
    pose proof HA as (HI & _). pose proof HI as (HO & HC & HP). cbn [fst snd] in *.
    split; cbn [fst snd].
    - split; [destruct (step_length B HB true s lu s' lu' Hst) as [E|[E _]]; lia|].
      split; [rewrite (bnxt_step B true s ls u lu s' lu' b0 HI Hl Hst Hb0); exact Hnx|].
      split; [rewrite upd_length; exact Hlen|].
      intros d i x Hx. eapply pub_step; eauto.
    - intros l Hlt. destruct (Nat.eq_dec u t) as [->|Hne].
      + rewrite (nth_error_upd_same _ _ _ _ Hl) in Hlt. inversion Hlt; subst l. clear Hlt.
        assert (Eres : forall m k td rs, results (enter m k td rs) = rs) by (intros m k [|[]] rs; reflexivity).
        destruct (HT lu Hl) as [[Hn Hs]|(rs1 & r & Er & Htrue & Hfalse)].
        * unfold emp_pc in Hs.
          assert (Es : s' = s).
          { clear - Hst Hs. unfold Model.step in Hst. destruct (pcl lu); try contradiction;
              repeat match type of Hst with
                     | context [match bnxt ?k with _ => _ end] => destruct (bnxt k)
                     | context [if ?c then _ else _] => destruct c
                     end; inversion Hst; reflexivity. }
          subst s'. pose proof (HP t lu Hl) as Hpl. unfold pc_ok in Hpl.
          step_inv Hst Epc; try contradiction; unfold emp_pc, emp_done, finish; rewrite ?Eres; cbn [goto mk pcl results].
          -- (* 521, head shows nothing *)
             try subst b. left. split; [exact Hn|]. split; [reflexivity|]. intros i x Hx.
             unfold looks_empty in *. apply negb_true_iff in Ec. pose proof (existsb_false_nth _ Ec i) as Hf.
             pose proof (HOb b0 i x Hx) as Hp. unfold pub in Hp. congruence.
          -- (* 521, head shows a completed write *)
             try subst b. right. exists [], false. rewrite Hn. split; [reflexivity|]. split; [discriminate|]. intros _.
             unfold looks_empty in *. apply negb_false_iff in Ec. destruct (existsb_true_nth _ Ec) as [i Hi]. exists b0, i. exact Hi.
          -- (* 507, there is a successor *)
             destruct Hs as [-> Hno]. left. split; [exact Hn|]. split; [congruence|exact Hno].
          -- (* 507, no successor *)
             destruct Hs as [-> Hno]. right. exists [], true. rewrite Hn. split; [reflexivity|]. split; [|discriminate].
             intros _. split; [exact Hno|]. intros nb E. congruence.
          -- (* 508 *)
             destruct Hs as [Enx Hno]. right. exists [], (looks_empty true (getb (heap s) nb)). rewrite Hn. split; [reflexivity|].
             assert (Hlink : nb < b0 /\ B <= bw (getb (heap s) nb)) by (apply (proj1 (proj2 HO) b0 nb Hb0); congruence).
             unfold looks_empty. split.
             ++ intros Ht. apply negb_true_iff in Ht. split; [exact Hno|]. intros nb' E. rewrite Enx in E. inversion E; subst nb'.
                split.
                ** intros i x Hx. pose proof (HOb nb i x Hx) as Hp. unfold pub in Hp. rewrite (existsb_false_nth _ Ht i) in Hp. discriminate.
                ** rewrite <- Hlen. eapply (all_in_flight s ls lu nb HI Hl); try lia.
                   --- intros i. unfold inflight. rewrite Epc. reflexivity.
                   --- apply existsb_false_nth. exact Ht.
             ++ intros Hf. apply negb_false_iff in Hf. destruct (existsb_true_nth _ Hf) as [i Hi]. exists nb, i. exact Hi.
        * right. unfold emp_done. destruct (step_results B true s lu s' lu' Hst) as [E|[r' E]]; rewrite E, Er.
          -- exists rs1, r. split; [reflexivity|split; [exact Htrue|]]. intros Hf. destruct (Hfalse Hf) as (d & i & Hp). exists d, i. exact (pub_step s ls t lu s' lu' d i HI Hl Hst Hp).
          -- exists (r' :: rs1), r. split; [reflexivity|split; [exact Htrue|]]. intros Hf. destruct (Hfalse Hf) as (d & i & Hp). exists d, i. exact (pub_step s ls t lu s' lu' d i HI Hl Hst Hp).
      + rewrite nth_error_upd_other in Hlt by auto.
        destruct (HT l Hlt) as [Hleft|(rs1 & r & Er & Htrue & Hfalse)]; [left; exact Hleft|right].
        exists rs1, r. split; [exact Er|split; [exact Htrue|]]. intros Hf. destruct (Hfalse Hf) as (d & i & Hp). exists d, i. exact (pub_step s ls u lu s' lu' d i HI Hl Hst Hp).
  Qed.

  Lemma EmpInv_exec c sched : All B c -> EmpInv c -> EmpInv (fst (exec step site c sched)).
  Proof.
    intros HA HS.
    exact (proj2 (invariant_all_schedules step site (fun c => All B c /\ EmpInv c) Emp_step sched c (conj HA HS))).
  Qed.
End Empty.

Section EmptyThm.
  Variable B : nat.
  Hypothesis HB : 1 <= B.
  Notation step := (step B true true).

  (* the 520 step on a non-empty bucket *)
  Lemma is_empty_first_step s l b0 : pcl l = E0 -> tail s = Some b0 -> step s l = Some (s, goto l (E1 b0)).
  Proof. intros E Et. unfold Model.step. rewrite E, Et. reflexivity. Qed.

  Theorem is_empty_sound c t l b0 sched :
    All B c -> nth_error (snd c) t = Some l -> pcl l = E1 b0 ->
    let h := heap (fst c) in
    let c' := fst (exec step site c sched) in
    forall l' rs1 r, nth_error (snd c') t = Some l' -> results l' = rs1 ++ REmpty r :: results l ->
    (r = true ->
       (forall i, ~ pub h b0 i) /\
       (forall nb, bnxt (getb h b0) = Some nb -> (forall i, ~ pub h nb i) /\ B < length (snd c)) /\
       (length (snd c) <= B -> forall d i, Reach h (Some b0) d -> ~ pub h d i)) /\
    (r = false -> exists d i, pub (heap (fst c')) d i).
  Proof.
    intros HA Hl Hpc h c' l' rs1 r Hl' Er.
    set (Ob := fun (d i : nat) (_ : val) => pub h d i).
    pose proof HA as (HI & _). pose proof (proj2 (proj2 HI) t l Hl) as Hp. unfold pc_ok in Hp. rewrite Hpc in Hp.
    assert (H0 : EmpInv B t b0 (bnxt (getb h b0)) (length (snd c)) Ob (results l) c).
    { split; [repeat split; auto|]. intros y Hy. rewrite Hl in Hy. inversion Hy; subst y. left. split; [reflexivity|].
      unfold emp_pc. rewrite Hpc. reflexivity. }
    destruct (EmpInv_exec B HB t b0 _ _ Ob (results l) c sched HA H0) as [_ HT]. fold c' in HT.
    destruct (HT l' Hl') as [[E _]|(rs1' & r' & Er' & Htrue & Hfalse)].
    - exfalso. rewrite E in Er. apply (f_equal (@length res)) in Er. rewrite app_length in Er. cbn in Er. lia.
    - assert (Eq : rs1 = rs1' /\ r = r').
      { rewrite Er in Er'. change (REmpty r :: results l) with ([REmpty r] ++ results l) in Er'.
        change (REmpty r' :: results l) with ([REmpty r'] ++ results l) in Er'. rewrite !app_assoc in Er'.
        apply app_inv_tail in Er'. apply app_inj_tail in Er'. destruct Er' as [E1 E2]. inversion E2. auto. }
      destruct Eq as [<- <-]. split; [|exact Hfalse].
      intros Ht. destruct (Htrue Ht) as [Hno Hnb].
      assert (N0 : forall b, noOb Ob b -> forall i, ~ pub h b i) by (intros b Hb i Hpb; apply (Hb i garbage); exact Hpb).
      split; [apply N0; exact Hno|]. split.
      + intros nb E. destruct (Hnb nb E) as [Hn1 Hn2]. split; [apply N0; exact Hn1|exact Hn2].
      + intros Hle d i R. inversion R as [|? ? Rn]; subst; [apply N0; exact Hno|].
        destruct (bnxt (getb h b0)) as [nb|] eqn:E; [|destruct (Reach_None _ _ Rn)].
        destruct (Hnb nb eq_refl) as [_ Hn2]. lia.
  Qed.
End EmptyThm.
