(* C05 — is_empty (code after fixes 1a8142c and 0248974: the whole bitmap of every block of the chain is
   inspected), every schedule, any number of threads.
   Fix a reachable configuration in which thread t has just executed its 520 step on a non-empty
   tail (pc E1 b0) and let Ob be any set of slots that are published at that moment in blocks
   reachable from b0 (= pushes completed before the call's first step and resident in the live
   chain).  If the call later returns TRUE then Ob is empty; if it returns FALSE some slot is
   published (the answer is not invented).
   [step_lookback1] is the code between the two fixes (whole bitmap, but only the head block and its
   successor are inspected): kept for the regression witness with 67 threads.                    *)
From Coq Require Import List NArith Bool Arith Lia.
Import ListNotations.
Require Import MV.Common.Interleave MV.C05.Model MV.C05.ProofsSeq MV.C05.ProofsInv MV.C05.ProofsCor MV.C05.ProofsUniq MV.C05.ProofsCons MV.C05.ProofsSnap.
Local Open Scope nat_scope.

Lemma existsb_false_nth (l : list bool) : existsb (fun x => x) l = false -> forall i, nth i l false = false.
Proof. induction l as [|a r IH]; intros H [|i]; cbn in *; auto; apply orb_false_iff in H; destruct H; auto. Qed.

Lemma existsb_true_nth (l : list bool) : existsb (fun x => x) l = true -> exists i, nth i l false = true.
Proof.
  induction l as [|a r IH]; cbn; [discriminate|]. intros H. apply orb_true_iff in H. destruct H as [H|H].
  - exists 0. exact H. - destruct (IH H) as [i Hi]. exists (S i). exact Hi.
Qed.

(* the code between fix 1a8142c and fix 0248974: one look-back only *)
Definition step_lookback1 (B : nat) (s : shared) (l : local) : option (shared * local) :=
  match pcl l with
  | E3 nb => Some (s, finish l (REmpty (looks_empty true (getb (heap s) nb))))
  | _ => step B true true s l
  end.

(* a chain is linear: of two blocks on it, one is at or before the other, or behind it *)
Lemma chain_linear h : forall o b, Reach h o b -> forall d, Reach h o d -> links_dec h ->
  b <= d \/ Reach h (bnxt (getb h b)) d.
Proof.
  intros o b R. induction R as [b|a b R IH]; intros d Rd HL.
  - inversion Rd; subst; [left; lia|right; assumption].
  - inversion Rd; subst.
    + left. destruct (bnxt (getb h d)) as [a'|] eqn:En; [|destruct (Reach_None _ _ R)].
      pose proof (Reach_le 1 (le_n 1) h HL _ _ R a' eq_refl). specialize (HL d a' En). lia.
    + apply IH; assumption.
Qed.

Lemma Reach_next' h o b nb : Reach h o b -> bnxt (getb h b) = Some nb -> Reach h o nb.
Proof.
  intros R E. induction R as [b|c b R IH].
  - apply r_next. rewrite E. constructor.
  - apply r_next. apply IH. exact E.
Qed.

Section Empty.
  Variable B : nat.
  Hypothesis HB : 1 <= B.
  Notation step := (step B true true).
  Variable t : nat.
  Variable b0 : nat.                         (* the tail pointer is_empty loaded at 520 *)
  Variable Ob : nat -> nat -> val -> Prop.
  Variable r0 : list res.

  Definition emp_pc (h : list block) (l : local) : Prop :=
    match pcl l with
    | E1 b => b = b0
    | E2 b => Reach h (Some b0) b /\ forall d i x, Ob d i x -> d < b
    | E3 nb => Reach h (Some b0) nb /\ forall d i x, Ob d i x -> d <= nb
    | _ => False
    end.

  Definition emp_done (h : list block) (l : local) : Prop :=
    exists rs1 r, results l = rs1 ++ REmpty r :: r0 /\
      (r = true -> forall d i x, ~ Ob d i x) /\
      (r = false -> exists d i, pub h d i).

  Definition EmpInv (c : @config shared local) : Prop :=
    (b0 < length (heap (fst c)) /\
     forall d i x, Ob d i x -> Reach (heap (fst c)) (Some b0) d /\ pub (heap (fst c)) d i) /\
    (forall l, nth_error (snd c) t = Some l -> (results l = r0 /\ emp_pc (heap (fst c)) l) \/ emp_done (heap (fst c)) l).

  Lemma pub_lt h d i : pub h d i -> d < length h.
  Proof. intros H. destruct (Nat.lt_ge_cases d (length h)); auto. destruct (pub_out h d i H0 H). Qed.

  Lemma pub_step s ls u lu s' lu' d i :
    Inv B (s, ls) -> nth_error ls u = Some lu -> step s lu = Some (s', lu') -> pub (heap s) d i -> pub (heap s') d i.
  Proof. intros HI Hl Hst Hp. apply (proj1 (step_block B HB true s ls u lu s' lu' d HI Hl Hst (pub_lt _ _ _ Hp))). exact Hp. Qed.

  Theorem Emp_step : step_preserves step (fun c => All B c /\ EmpInv c).
  Proof.
    intros s ls u lu s' lu' [HA [(Hb0 & HOb) HT]] Hl Hst. split; [eapply (All_step B HB true); eauto|].
    pose proof HA as (HI & _). pose proof HI as (HO & HC & HP). cbn [fst snd] in *.
    pose proof (links_of_heap_ok B s HO) as HL.
    assert (Rmono : forall d, Reach (heap s) (Some b0) d -> Reach (heap s') (Some b0) d).
    { intros d R. eapply (Reach_step B HB true); eauto. intros r E. inversion E; subst. exact Hb0. }
    split; cbn [fst snd].
    - split; [destruct (step_length B HB true s lu s' lu' Hst) as [E|[E _]]; lia|].
      intros d i x Hx. destruct (HOb d i x Hx) as [R Hp]. split; [apply Rmono; exact R|exact (pub_step s ls u lu s' lu' d i HI Hl Hst Hp)].
    - intros l Hlt. destruct (Nat.eq_dec u t) as [->|Hne].
      + rewrite (nth_error_upd_same _ _ _ _ Hl) in Hlt. inversion Hlt; subst l. clear Hlt.
        assert (Eres : forall m k td rs, results (enter m k td rs) = rs) by (intros m k [|[]] rs; reflexivity).
        destruct (HT lu Hl) as [[Hn Hs]|(rs1 & r & Er & Htrue & Hfalse)].
        * unfold emp_pc in Hs. pose proof (HP t lu Hl) as Hpl. unfold pc_ok in Hpl.
          unfold Model.step in Hst. destruct (pcl lu) eqn:Epc; try contradiction.
          -- (* 521 *) subst b. destruct (looks_empty true (getb (heap s) b0)) eqn:Ec; inversion Hst; subst s' lu'.
             ++ left. split; [exact Hn|]. unfold emp_pc. cbn [goto mk pcl]. split; [constructor|].
                intros d i x Hx. destruct (HOb d i x Hx) as [R Hp]. pose proof (Reach_le B HB _ HL _ _ R b0 eq_refl) as Hle.
                destruct (Nat.eq_dec d b0) as [->|]; [|lia]. exfalso.
                unfold looks_empty in Ec. apply negb_true_iff in Ec. unfold pub in Hp. rewrite (existsb_false_nth _ Ec i) in Hp. discriminate.
             ++ right. unfold emp_done, finish. rewrite Eres, Hn. exists [], false. split; [reflexivity|]. split; [discriminate|]. intros _.
                unfold looks_empty in Ec. apply negb_false_iff in Ec. destruct (existsb_true_nth _ Ec) as [i Hi]. exists b0, i. exact Hi.
          -- (* 507 *) destruct Hs as [Rb Hlow]. destruct (bnxt (getb (heap s) b)) as [nb|] eqn:En; inversion Hst; subst s' lu'.
             ++ left. split; [exact Hn|]. unfold emp_pc. cbn [goto mk pcl]. split; [eapply Reach_next'; eauto|].
                intros d i x Hx. destruct (HOb d i x Hx) as [R _]. specialize (Hlow d i x Hx).
                destruct (chain_linear _ _ _ Rb d R HL) as [Hle|Rn]; [lia|]. rewrite En in Rn. apply (Reach_le B HB _ HL _ _ Rn nb eq_refl).
             ++ right. unfold emp_done, finish. rewrite Eres, Hn. exists [], true. split; [reflexivity|]. split; [|discriminate]. intros _ d i x Hx.
                destruct (HOb d i x Hx) as [R _]. specialize (Hlow d i x Hx).
                destruct (chain_linear _ _ _ Rb d R HL) as [Hle|Rn]; [lia|]. rewrite En in Rn. destruct (Reach_None _ _ Rn).
          -- (* 508 *) destruct Hs as [Rb Hlow]. inversion Hst; subst s' lu'. unfold e3_next, looks_empty.
             destruct (existsb (fun x : bool => x) (bdone (getb (heap s) nb))) eqn:Ec; cbn [negb].
             ++ right. unfold emp_done, finish. rewrite Eres, Hn. exists [], false. split; [reflexivity|]. split; [discriminate|]. intros _.
                destruct (existsb_true_nth _ Ec) as [i Hi]. exists nb, i. exact Hi.
             ++ left. split; [exact Hn|]. unfold emp_pc. cbn [goto mk pcl]. split; [exact Rb|].
                intros d i x Hx. destruct (HOb d i x Hx) as [_ Hp]. specialize (Hlow d i x Hx).
                destruct (Nat.eq_dec d nb) as [->|]; [|lia]. exfalso.
                unfold pub in Hp. rewrite (existsb_false_nth _ Ec i) in Hp. discriminate.
        * right. unfold emp_done. destruct (step_results B true s lu s' lu' Hst) as [E|[r' E]]; rewrite E, Er.
          -- exists rs1, r. split; [reflexivity|split; [exact Htrue|]]. intros Hf. destruct (Hfalse Hf) as (d & i & Hp). exists d, i. exact (pub_step s ls t lu s' lu' d i HI Hl Hst Hp).
          -- exists (r' :: rs1), r. split; [reflexivity|split; [exact Htrue|]]. intros Hf. destruct (Hfalse Hf) as (d & i & Hp). exists d, i. exact (pub_step s ls t lu s' lu' d i HI Hl Hst Hp).
      + rewrite nth_error_upd_other in Hlt by auto.
        destruct (HT l Hlt) as [[Hn Hs]|(rs1 & r & Er & Htrue & Hfalse)].
        * left. split; [exact Hn|]. unfold emp_pc in *. destruct (pcl l); auto; destruct Hs as [Rb Hlow]; (split; [apply Rmono; exact Rb|exact Hlow]).
        * right. exists rs1, r. split; [exact Er|split; [exact Htrue|]]. intros Hf. destruct (Hfalse Hf) as (d & i & Hp). exists d, i. exact (pub_step s ls u lu s' lu' d i HI Hl Hst Hp).
  Qed.

  Lemma EmpInv_exec c sched : All B c -> EmpInv c -> EmpInv (fst (exec step site c sched)).
  Proof.
    intros HA HS.
    exact (proj2 (invariant_all_schedules step site (fun c => All B c /\ EmpInv c) Emp_step sched c (conj HA HS))).
  Qed.
End Empty.

Section EmptyThm.
  Variable B : nat.
  Hypothesis HB : 1 <= B.
  Notation step := (step B true true).

  (* the 520 step on a non-empty bucket *)
  Lemma is_empty_first_step s l b0 : pcl l = E0 -> tail s = Some b0 -> step s l = Some (s, goto l (E1 b0)).
  Proof. intros E Et. unfold Model.step. rewrite E, Et. reflexivity. Qed.

  Theorem is_empty_sound c t l b0 sched :
    All B c -> nth_error (snd c) t = Some l -> pcl l = E1 b0 ->
    let h := heap (fst c) in
    let c' := fst (exec step site c sched) in
    forall l' rs1 r, nth_error (snd c') t = Some l' -> results l' = rs1 ++ REmpty r :: results l ->
    (r = true -> forall d i, Reach h (Some b0) d -> ~ pub h d i) /\
    (r = false -> exists d i, pub (heap (fst c')) d i).
  Proof.
    intros HA Hl Hpc h c' l' rs1 r Hl' Er.
    set (Ob := fun (d i : nat) (_ : val) => Reach h (Some b0) d /\ pub h d i).
    pose proof HA as (HI & _). pose proof (proj2 (proj2 HI) t l Hl) as Hp. unfold pc_ok in Hp. rewrite Hpc in Hp.
    assert (H0 : EmpInv t b0 Ob (results l) c).
    { split; [split; [exact Hp|intros d i x Hx; exact Hx]|]. intros y Hy. rewrite Hl in Hy. inversion Hy; subst y. left. split; [reflexivity|].
      unfold emp_pc. rewrite Hpc. reflexivity. }
    destruct (EmpInv_exec B HB t b0 Ob (results l) c sched HA H0) as [_ HT]. fold c' in HT.
    destruct (HT l' Hl') as [[E _]|(rs1' & r' & Er' & Htrue & Hfalse)].
    - exfalso. rewrite E in Er. apply (f_equal (@length res)) in Er. rewrite app_length in Er. cbn in Er. lia.
    - assert (Eq : rs1 = rs1' /\ r = r').
      { rewrite Er in Er'. change (REmpty r :: results l) with ([REmpty r] ++ results l) in Er'.
        change (REmpty r' :: results l) with ([REmpty r'] ++ results l) in Er'. rewrite !app_assoc in Er'.
        apply app_inv_tail in Er'. apply app_inj_tail in Er'. destruct Er' as [E1 E2]. inversion E2. auto. }
      destruct Eq as [<- <-]. split; [|exact Hfalse].
      intros Ht d i R Hpb. apply (Htrue Ht d i garbage). unfold Ob. auto.
  Qed.
End EmptyThm.
