(* C05 — the property in executable form, evaluated on an OBSERVED run: the thread programs, the
   step trace (thread, site) and what every call returned / was handed.  Nothing here looks at the
   model's heap, program counters or invariants; only the types [call], [res], [val] are shared.

   Reading the trace.  Sites: 501 slot claim (fetch_add), 502 slot write, 503 publication, 506 the
   read that is followed by the callback, 530/540/520 first step of data_with/clear_with/is_empty,
   541 the detaching CAS.  The j-th push call of thread t owns t's j-th 502 and j-th 503 step; its
   claim is t's last 501 step before that 502.  The slices handed to thread t's callbacks, in
   order, are produced by t's 506 steps, in order.

   Clauses (all must hold):
   (S0) results have the shape of the program; no anomaly flag from the driver (torn value, value
        seen after its destructor ran, double drop, disagreeing sequential epilogue);
   (S1) no identity is handed to clearing reads twice (over all clears of the run), and no read
        hands out the same identity twice;
   (S2) every value handed out (snapshot, clear, final read) is a value some push call of the
        program was given, with that push's identity, and that push executed its slot write
        before the read that handed it out (no fabrication, no read-before-written);
   (S3) a completed snapshot hands out at least every identity whose push completed (503) before
        the snapshot's first step, unless a clear whose detaching CAS precedes that first step
        took it;  is_empty = true is a snapshot that handed out nothing;  is_empty = false needs
        some push to have published before is_empty's last step;
   (S4) within one slice (= one block) values appear in claim order;
   (S5) when every thread has finished: pushes = handed-to-clears (+) final sequential read.    *)
From Coq Require Import List NArith Bool Arith.
Import ListNotations.
Require Import MV.C05.Model.
Open Scope N_scope.

Definition trace := list (N * N).

Definition id_eqb (a b : val) : bool :=
  let '(a1, a2, _) := a in let '(b1, b2, _) := b in (a1 =? b1) && (a2 =? b2).
Definition val_eqb (a b : val) : bool :=
  let '(a1, a2, a3) := a in let '(b1, b2, b3) := b in (a1 =? b1) && (a2 =? b2) && (a3 =? b3).
Definition memb (x : val) (l : list val) : bool := existsb (id_eqb x) l.
Fixpoint nodupb (l : list val) : bool :=
  match l with [] => true | x :: r => negb (memb x r) && nodupb r end.

(* positions (trace indices) of thread t's steps at site s *)
Fixpoint positions (tr : trace) (i : nat) (t s : N) : list nat :=
  match tr with
  | [] => []
  | (t', s') :: r => if (t' =? t) && (s' =? s) then i :: positions r (S i) t s else positions r (S i) t s
  end.

Fixpoint last_below (l : list nat) (p : nat) (acc : option nat) : option nat :=
  match l with
  | [] => acc
  | q :: r => if Nat.ltb q p then last_below r p (Some q) else acc
  end.

(* ---- pushes: identity, claim / write / publish positions *)
Record pinfo := { px : val; pclaim : option nat; pwrite : option nat; ppub : option nat }.

Fixpoint push_calls (t : N) (p : list call) (k : N) : list val :=
  match p with
  | [] => []
  | CPush v :: r => (t, k, v) :: push_calls t r (k + 1)
  | _ :: r => push_calls t r (k + 1)
  end.

Fixpoint zip_pinfo (xs : list val) (claims ws ds : list nat) : list pinfo :=
  match xs with
  | [] => []
  | x :: r =>
      let w := hd_error ws in
      {| px := x; pclaim := match w with Some q => last_below claims q None | None => None end;
         pwrite := w; ppub := hd_error ds |} :: zip_pinfo r claims (tl ws) (tl ds)
  end.

Fixpoint pinfos (tr : trace) (t : N) (ps : list (list call)) : list pinfo :=
  match ps with
  | [] => []
  | p :: r => zip_pinfo (push_calls t p 0) (positions tr O t 501) (positions tr O t 502) (positions tr O t 503)
              ++ pinfos tr (t + 1) r
  end.

Definition find_info (tbl : list pinfo) (x : val) : option pinfo := find (fun i => val_eqb (px i) x) tbl.

(* ---- reads: what each data_with / clear_with / is_empty call started at, detached at, handed out *)
Record rcall := {
  rkind : N;                               (* 0 data_with, 1 clear_with, 2 is_empty=true, 3 is_empty=false *)
  rstart : option nat;
  rcas : option nat;                       (* clear_with: the detaching CAS (only when something was handed out) *)
  rend : option nat;                       (* is_empty: its last step *)
  rsl : list (option nat * list val) }.    (* (position of the 506 step, slice) *)

Fixpoint zip_slices (sl : list (list val)) (ps : list nat) : list (option nat * list val) :=
  match sl with [] => [] | x :: r => (hd_error ps, x) :: zip_slices r (tl ps) end.

(* last step of the is_empty call that starts at trace index p: the following steps of thread t
   at sites 521 / 507 / 508 *)
Fixpoint empty_end (tr : trace) (i : nat) (t : N) (p : nat) (cur : nat) : nat :=
  match tr with
  | [] => cur
  | (t', s) :: r =>
      if (t' =? t) && Nat.ltb p i
      then (if (s =? 521) || (s =? 507) || (s =? 508) then empty_end r (S i) t p i else cur)
      else empty_end r (S i) t p cur
  end.

Fixpoint rcalls_thread (tr : trace) (t : N) (rs : list res) (p506 p530 p540 p541 p520 : list nat) : list rcall :=
  match rs with
  | [] => []
  | RPush :: r => rcalls_thread tr t r p506 p530 p540 p541 p520
  | RData sl :: r =>
      {| rkind := 0; rstart := hd_error p530; rcas := None; rend := None; rsl := zip_slices sl p506 |}
      :: rcalls_thread tr t r (skipn (length sl) p506) (tl p530) p540 p541 p520
  | RClear sl :: r =>
      {| rkind := 1; rstart := hd_error p540;
         rcas := match hd_error p506, sl with Some q, _ :: _ => last_below p541 q None | _, _ => None end;
         rend := None; rsl := zip_slices sl p506 |}
      :: rcalls_thread tr t r (skipn (length sl) p506) p530 (tl p540) p541 p520
  | REmpty b :: r =>
      {| rkind := if b then 2 else 3; rstart := hd_error p520; rcas := None;
         rend := match hd_error p520 with Some p => Some (empty_end tr O t p p) | None => None end; rsl := [] |}
      :: rcalls_thread tr t r p506 p530 p540 p541 (tl p520)
  end.

Fixpoint rcalls (tr : trace) (t : N) (rss : list (list res)) : list rcall :=
  match rss with
  | [] => []
  | rs :: r => rcalls_thread tr t rs (positions tr O t 506) (positions tr O t 530) (positions tr O t 540)
                             (positions tr O t 541) (positions tr O t 520) ++ rcalls tr (t + 1) r
  end.

Definition handed (c : rcall) : list val := flat_map snd (rsl c).
Definition is_clear (c : rcall) : bool := rkind c =? 1.
Definition olt (a b : option nat) : bool :=
  match a, b with Some x, Some y => Nat.ltb x y | _, _ => false end.

(* (S0) *)
Fixpoint follows (p : list call) (rs : list res) : bool :=
  match rs, p with
  | [], _ => true
  | RPush :: rs', CPush _ :: p' => follows p' rs'
  | RData _ :: rs', CData :: p' => follows p' rs'
  | RClear _ :: rs', CClear :: p' => follows p' rs'
  | REmpty _ :: rs', CEmpty :: p' => follows p' rs'
  | _, _ => false
  end.
Fixpoint all2 {A B} (f : A -> B -> bool) (a : list A) (b : list B) : bool :=
  match a, b with
  | [], [] => true
  | x :: r, y :: r' => f x y && all2 f r r'
  | _, _ => false
  end.

(* (S2) for one slice read at trace index q (None = the final read, after everything) *)
Definition slice_genuine (tbl : list pinfo) (q : option nat) (sl : list val) : bool :=
  forallb (fun x => match find_info tbl x with
                    | Some i => match pwrite i, q with
                                | Some w, Some q' => Nat.ltb w q'
                                | Some _, None => true
                                | None, _ => false
                                end
                    | None => false
                    end) sl.

(* (S4) claim positions strictly increase along a slice *)
Fixpoint increasing (l : list (option nat)) : bool :=
  match l with
  | a :: ((b :: _) as r) => olt a b && increasing r
  | [Some _] => true
  | [None] => false
  | [] => true
  end.
Definition slice_ordered (tbl : list pinfo) (sl : list val) : bool :=
  increasing (map (fun x => match find_info tbl x with Some i => pclaim i | None => None end) sl).

(* (S3) the read that starts at p and hands out [got] accounts for every push published before p *)
Definition accounts (tbl : list pinfo) (clears : list rcall) (p : option nat) (got : list val) : bool :=
  forallb (fun i => if olt (ppub i) p
                    then memb (px i) got || existsb (fun c => olt (rcas c) p && memb (px i) (handed c)) clears
                    else true) tbl.

Definition spec_run (ps : list (list call)) (tr : trace) (rss : list (list res)) (done : bool)
           (final : list (list val)) (anom : N) : bool :=
  let tbl := pinfos tr 0 ps in
  let rc := rcalls tr 0 rss in
  let clears := filter is_clear rc in
  let cleared := flat_map handed clears in
  (* S0 *)
  (anom =? 0) && all2 follows ps rss
  (* S1 *)
  && nodupb cleared && forallb (fun c => nodupb (handed c)) rc && nodupb (concat final)
  (* S2 *)
  && forallb (fun c => forallb (fun qs => slice_genuine tbl (fst qs) (snd qs) &&
                                          match fst qs with Some _ => true | None => false end) (rsl c)) rc
  && forallb (slice_genuine tbl None) final
  (* S4 *)
  && forallb (fun c => forallb (fun qs => slice_ordered tbl (snd qs)) (rsl c)) rc
  && forallb (slice_ordered tbl) final
  (* S3 *)
  && (if done
      then forallb (fun c => if (rkind c =? 0) || (rkind c =? 2) then accounts tbl clears (rstart c) (handed c)
                             else if rkind c =? 3 then existsb (fun i => olt (ppub i) (rend c)) tbl
                             else true) rc
      else true)
  (* S5 *)
  && (if done
      then let rhs := cleared ++ concat final in
           nodupb rhs && forallb (fun i => memb (px i) rhs) tbl && Nat.eqb (length rhs) (length tbl)
      else true).
