(* C05 — stage 12: a case whose programs contain no clear_with is never in the late-claim class (every
   block stays reachable from tail, so no fetch_add lands on a detached block).                   *)
From Coq Require Import List NArith Arith Lia Bool.
Import ListNotations.
Require Import MV.Common.Interleave MV.Common.InterleaveTrace MV.C05.Model MV.C05.Spec MV.C05.Exec.
Require Import MV.C05.ProofsSeq MV.C05.ProofsInv MV.C05.ProofsCor MV.C05.ProofsUniq MV.C05.ProofsCons MV.C05.ProofsProg
               MV.C05.ProofsSnap MV.C05.ProofsEmpty MV.C05.ProofsOrder MV.C05.ProofsSpec MV.C05.ProofsTrace1 MV.C05.ProofsTrace2
               MV.C05.ProofsTrace3 MV.C05.ProofsTrace4 MV.C05.ProofsTrace6 MV.C05.ProofsTrace7 MV.C05.ProofsTrace8 MV.C05.ProofsTrace9.
Local Open Scope nat_scope.

Section NoLate.
  Variable B : nat.
  Hypothesis HB : 1 <= B.
  Variable ps : list (list call).
  Hypothesis Hnc : forall p, In p ps -> ~ In CClear p.
  Notation step := (step B true true).

  Lemma Reach_reach_from h : (forall b c, b < length h -> bnxt (getb h b) = Some c -> c < b) ->
    forall fuel c b, c < fuel -> c < length h -> Reach h (Some c) b -> reach_from h fuel (Some c) b = true.
  Proof.
    intros Hdec. induction fuel as [|f IH]; intros c b Hc Hl HR; [lia|]. cbn [reach_from].
    destruct (Nat.eqb c b) eqn:E; [reflexivity|]. inversion HR; subst; [rewrite Nat.eqb_refl in E; discriminate|].
    destruct (bnxt (getb h c)) as [c'|] eqn:En; [|inversion H0]. pose proof (Hdec c c' Hl En). apply IH; [lia|lia|exact H0].
  Qed.

  Lemma late_step s ls t l s' l' :
    All B (s, ls) -> NCI (s, ls) -> nth_error ls t = Some l -> step s l = Some (s', l') -> late s = false -> late s' = false.
  Proof.
    intros HA [N0 N1] Hl Hst HL. pose proof HA as ((HO & _ & HP) & _). cbn [fst snd] in *. destruct HO as (_ & O2 & O3 & _).
    assert (HR : forall b, b < length (heap s) -> reachable s b = true).
    { intros b Hb. specialize (N1 b Hb). unfold reachable. destruct (tail s) as [c|] eqn:Et; [|inversion N1].
      pose proof (O3 c eq_refl) as Hc. apply Reach_reach_from; auto. intros b0 c0 H0 H1. apply (O2 b0 c0 H0 H1). }
    specialize (HP t l Hl). unfold pc_ok in HP. revert HR HP. 
    step_inv Hst Epc; intros HR HP; cbn [late with_heap]; auto.
    all: try (rewrite HL; reflexivity).
    all: try rewrite Epc in HP.
    rewrite HL, (HR b HP). reflexivity.
  Qed.

  Definition RL (c : @config shared local) (tr : list (N * N)) : Prop := RP B ps c tr /\ NCI c /\ late (fst c) = false.

  Theorem RL_step : trace_step_preserves step site RL.
  Proof.
    intros s ls t l s' l' tr (HRP & HN & HL) Hl Hst.
    pose proof (RP_step B HB true ps s ls t l s' l' tr HRP Hl Hst) as HRP'. pose proof HRP as (HA & HR & _).
    split; [exact HRP'|split; [exact (NCI_step B HB true ps Hnc s ls t l s' l' HA HR HN Hl Hst)|]].
    cbn [fst] in *. exact (late_step s ls t l s' l' HA HN Hl Hst HL).
  Qed.

  Theorem RL_noop : trace_noop_preserves RL.
  Proof. intros c tr t (HRP & HN & HL). split; [exact (RP_noop B ps c tr t HRP)|split; assumption]. Qed.

  Lemma RL_init : RL (init_config ps) [].
  Proof.
    split; [exact (RP_init B HB true ps)|split; [|reflexivity]].
    split; [reflexivity|]. intros d Hd. cbn in Hd. lia.
  Qed.
End NoLate.

Theorem no_clear_not_late (c : case) : (forall p, In p (progs_of c) -> ~ In CClear p) -> known_class c = None.
Proof.
  intros Hnc. unfold known_class, late_claim_gen. assert (HB : 1 <= BS) by (unfold BS; lia).
  pose proof (exec_full_trace (step BS true true) site (RL BS (progs_of c)) (RL_step BS HB (progs_of c) Hnc)
                (RL_noop BS (progs_of c)) rr_fuel (map N.to_nat (snd c)) (init_config (progs_of c))
                (RL_init BS HB (progs_of c))) as H.
  fold (run_gen BS true true c) in H. destruct (run_gen BS true true c) as [[s ls] tr]. cbn [fst snd] in *.
  destruct H as (_ & _ & HL). cbn [fst] in HL. rewrite HL. reflexivity.
Qed.
