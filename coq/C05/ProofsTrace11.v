(* C05 — the checker on the model, stage 11: clause S3 for is_empty calls that return FALSE (rkind 3), on the
   model's run of EVERY case: some push-table entry has its 503 position below the call's last read
   (Spec.empty_end).  Pieces: progress at E1/E2/E3, empty_end with explicit state (monotone under trace
   extension; on an unstopped scan the index of the thread's last step), "a set bitmap bit implies some
   thread has a 503 position", and the converse of pinfos_ppub for a thread's first push.        *)
From Coq Require Import List NArith Arith Lia Bool.
Import ListNotations.
Require Import MV.Common.Interleave MV.Common.InterleaveTrace MV.Common.InterleaveTraceCond MV.C05.Model MV.C05.Spec MV.C05.Exec.
Require Import MV.C05.ProofsSeq MV.C05.ProofsInv MV.C05.ProofsCor MV.C05.ProofsUniq MV.C05.ProofsCons MV.C05.ProofsProg
               MV.C05.ProofsSnap MV.C05.ProofsEmpty MV.C05.ProofsOrder MV.C05.ProofsSpec MV.C05.ProofsTrace1 MV.C05.ProofsTrace2
               MV.C05.ProofsTrace3 MV.C05.ProofsTrace4 MV.C05.ProofsTrace6 MV.C05.ProofsTrace7 MV.C05.ProofsTrace8 MV.C05.ProofsTrace9
               MV.C05.ProofsTrace10.
Local Open Scope nat_scope.

(* ---- empty_end with explicit state *)
Definition esite (s : N) : bool := ((s =? 521) || (s =? 507) || (s =? 508))%N.

Lemma empty_end_ge : forall tr i t p cur, cur <= i \/ cur <= p -> cur <= empty_end tr i t p cur.
Proof.
  induction tr as [|[t' s] r IH]; intros i t p cur H; cbn [empty_end]; [lia|].
  destruct ((t' =? t)%N && Nat.ltb p i) eqn:Ec.
  - apply andb_true_iff in Ec. destruct Ec as [_ Ei]. apply Nat.ltb_lt in Ei.
    destruct ((s =? 521) || (s =? 507) || (s =? 508))%N; [|lia]. specialize (IH (S i) t p i ltac:(lia)). lia.
  - apply IH. lia.
Qed.

Lemma empty_end_mono ys : forall tr i t p cur, cur <= i \/ cur <= p -> empty_end tr i t p cur <= empty_end (tr ++ ys) i t p cur.
Proof.
  induction tr as [|[t' s] r IH]; intros i t p cur H.
  - cbn [app empty_end]. apply empty_end_ge. exact H.
  - cbn [app empty_end]. destruct ((t' =? t)%N && Nat.ltb p i).
    + destruct ((s =? 521) || (s =? 507) || (s =? 508))%N; [|lia]. apply IH. lia.
    + apply IH. lia.
Qed.

(* thread t has been inside one is_empty call since its 520 step at index p *)
Definition Run (tr : list (N * N)) (t : N) (p : nat) : Prop :=
  p < length tr /\ forall j s, p < j -> nth_error tr j = Some (t, s) -> esite s = true.

Lemma empty_end_run t p s : esite s = true -> forall tr i cur,
  (forall j s', p < i + j -> nth_error tr j = Some (t, s') -> esite s' = true) -> p < i + length tr ->
  empty_end (tr ++ [(t, s)]) i t p cur = i + length tr.
Proof.
  intros Hs. induction tr as [|[t' s'] r IH]; intros i cur H Hp.
  - cbn [app empty_end length] in *. rewrite N.eqb_refl. replace (Nat.ltb p i) with true by (symmetry; apply Nat.ltb_lt; lia).
    cbn [andb]. unfold esite in Hs. rewrite Hs. lia.
  - cbn [app empty_end length] in *.
    assert (H' : forall j s0, p < S i + j -> nth_error r j = Some (t, s0) -> esite s0 = true).
    { intros j s0 Hj Hn. apply (H (S j)); [lia|exact Hn]. }
    destruct ((t' =? t)%N && Nat.ltb p i) eqn:Ec.
    + apply andb_true_iff in Ec. destruct Ec as [Et Ei]. apply N.eqb_eq in Et. apply Nat.ltb_lt in Ei. subst t'.
      pose proof (H 0 s' ltac:(lia) eq_refl) as Hs'. unfold esite in Hs'. rewrite Hs'. rewrite IH; [lia|exact H'|lia].
    + rewrite IH; [lia|exact H'|lia].
Qed.

Lemma Run_end tr t p s : Run tr t p -> esite s = true -> empty_end (tr ++ [(t, s)]) 0 t p p = length tr.
Proof.
  intros [Hp H] Hs. rewrite (empty_end_run t p s Hs tr 0 p); [lia| |lia]. intros j s' Hj Hn. apply (H j s'); [lia|exact Hn].
Qed.

Lemma Run_snoc_other tr t p e : fst e <> t -> Run tr t p -> Run (tr ++ [e]) t p.
Proof.
  intros Hne [Hp H]. split; [rewrite app_length; lia|]. intros j s Hj Hn.
  destruct (Nat.lt_ge_cases j (length tr)) as [Hlt|Hge].
  - rewrite nth_error_app1 in Hn by exact Hlt. apply (H j s Hj Hn).
  - rewrite nth_error_app2 in Hn by exact Hge. destruct (j - length tr) as [|k]; [|destruct k; discriminate Hn].
    cbn in Hn. inversion Hn. subst e. cbn in Hne. congruence.
Qed.

Lemma Run_snoc_self tr t p s : esite s = true -> Run tr t p -> Run (tr ++ [(t, s)]) t p.
Proof.
  intros Hs [Hp H]. split; [rewrite app_length; lia|]. intros j s0 Hj Hn.
  destruct (Nat.lt_ge_cases j (length tr)) as [Hlt|Hge].
  - rewrite nth_error_app1 in Hn by exact Hlt. apply (H j s0 Hj Hn).
  - rewrite nth_error_app2 in Hn by exact Hge. destruct (j - length tr) as [|k]; [|destruct k; discriminate Hn].
    cbn in Hn. inversion Hn. subst s0. exact Hs.
Qed.

Lemma Run_start tr t s : Run (tr ++ [(t, s)]) t (length tr).
Proof.
  split; [rewrite app_length; cbn; lia|]. intros j s0 Hj Hn. exfalso.
  assert (j < length (tr ++ [(t, s)])) by (apply nth_error_Some; congruence). rewrite app_length in H. cbn in H. lia.
Qed.

(* ---- progress and what a `false` answer has seen *)
Lemma results_finish l r : results (finish l r) = r :: results l.
Proof. unfold finish. destruct (todo l) as [|[]]; reflexivity. Qed.

Lemma emp_progress B s l : in_emp l -> step B true true s l <> None.
Proof.
  unfold in_emp, step. destruct (pcl l); try tauto; intros _.
  - destruct (looks_empty true _); discriminate.
  - destruct (bnxt _); discriminate.
  - discriminate.
Qed.

Lemma in_emp_site l : in_emp l -> esite (site l) = true.
Proof. unfold in_emp, site. destruct (pcl l); try tauto; intros _; reflexivity. Qed.

Lemma emp_false B s l s' l' : in_emp l -> step B true true s l = Some (s', l') -> results l' = REmpty false :: results l ->
  exists b, existsb (fun x => x) (bdone (getb (heap s) b)) = true.
Proof.
  assert (Loop : forall pc, results (goto l pc) = REmpty false :: results l -> False).
  { intros pc H. cbn in H. apply (f_equal (@length res)) in H. cbn in H. lia. }
  unfold in_emp, step. destruct (pcl l) eqn:Epc; try tauto; intros _ H Hr.
  - match type of H with context [looks_empty true (getb (heap s) ?b)] => rename b into b0 end.
    destruct (looks_empty true (getb (heap s) b0)) eqn:EL; inversion H; subst.
    + destruct (Loop _ Hr).
    + exists b0. unfold looks_empty in EL. apply negb_false_iff in EL. exact EL.
  - destruct (bnxt _); inversion H; subst.
    + destruct (Loop _ Hr).
    + rewrite results_finish in Hr. inversion Hr.
  - inversion H; subst. unfold e3_next, looks_empty in Hr. clear H. exists nb.
    destruct (existsb (fun x : bool => x) (bdone (getb (heap s') nb))); [reflexivity|]. cbn [negb] in Hr. destruct (Loop _ Hr).
Qed.

(* ---- a set bitmap bit implies some thread has a 503 position *)
Lemma npush_pos : forall p k c v, nth_error p k = Some (CPush v) -> k < c -> 1 <= npush (firstn c p).
Proof.
  induction p as [|a r IH]; intros k c v Hk Hc; [destruct k; discriminate|]. destruct c as [|c]; [lia|].
  unfold npush in *. cbn [firstn filter]. destruct k as [|k].
  - cbn in Hk. inversion Hk. cbn. lia.
  - cbn in Hk. specialize (IH k c v Hk ltac:(lia)). destruct (is_push a); cbn [length]; lia.
Qed.

Definition Pub1 (ps : list (list call)) (tr : list (N * N)) (x : val) (w : nat) : Prop :=
  genuine ps x /\ hd_error (positions tr 0 (fst (fst x)) 503) = Some w.

Lemma Pub1_snoc ps tr e x w : Pub1 ps tr x w -> Pub1 ps (tr ++ [e]) x w.
Proof.
  intros [Hg Hh]. split; [exact Hg|]. rewrite positions_snoc. destruct (positions tr 0 (fst (fst x)) 503); [discriminate|exact Hh].
Qed.

Lemma Pub1_lt ps tr x w : Pub1 ps tr x w -> w < length tr.
Proof.
  intros [_ Hh]. destruct (positions tr 0 (fst (fst x)) 503) as [|w0 r] eqn:E; [discriminate|]. cbn in Hh. inversion Hh; subst w0.
  assert (In w (positions tr 0 (fst (fst x)) 503)) by (rewrite E; left; reflexivity). apply positions_lt in H. lia.
Qed.

Lemma set_bit_pub B ps c tr b : RP B ps c tr -> existsb (fun x => x) (bdone (getb (heap (fst c)) b)) = true ->
  exists x w, Pub1 ps tr x w.
Proof.
  intros (HA & HR & HF & HS) He. apply existsb_exists in He. destruct He as (y & Hy & ->).
  apply In_nth with (d := false) in Hy. destruct Hy as (i & Hi & Hn).
  assert (Hb : b < length (heap (fst c))).
  { destruct (Nat.lt_ge_cases b (length (heap (fst c)))) as [|Hge]; auto. exfalso. unfold getb in Hi. rewrite nth_overflow in Hi by exact Hge. cbn in Hi. lia. }
  destruct HA as (HI & _ & Q2 & _). destruct HI as (HO & HC & _). destruct HO as (O1 & _ & _ & O4).
  pose proof (O4 b i Hb Hn) as Hsl. destruct (nth i (bslot (getb (heap (fst c)) b)) None) as [x|] eqn:Es; [|congruence].
  change (slot (heap (fst c)) b i = Some x) in Es.
  destruct HR as (_ & R2 & _). pose proof (R2 b i x Es) as Hg.
  destruct (Q2 b i x Es) as (l & Hl & [Hlt|[Hk Hpc]]).
  - exists x. pose proof (HS _ l Hl) as Hc. rewrite N2Nat.id in Hc. destruct Hg as (p & Hp & Hpk).
    rewrite (nth_error_nth _ _ _ Hp) in Hc. pose proof (npush_pos p _ (N.to_nat (cidx l)) _ Hpk ltac:(lia)) as H1.
    destruct (positions tr 0 (fst (fst x)) 503) as [|w r] eqn:E; [cbn in Hc; lia|]. exists w. split; [exists p; auto|rewrite E; reflexivity].
  - exfalso. destruct (O1 b Hb) as [Ld _]. specialize (HC b i Hb ltac:(lia)). unfold claim_ok in HC. cbv zeta in HC.
    destruct (Nat.ltb i (bw (getb (heap (fst c)) b))).
    + rewrite Hn in HC. pose proof (sumf_ge (inflight b i) _ _ _ Hl) as Hge. unfold inflight in Hge at 1. rewrite Hpc, !Nat.eqb_refl in Hge. cbn in Hge. lia.
    + destruct HC as [HC _]. congruence.
Qed.

(* ---- converse of pinfos_ppub for a thread's first push *)
Lemma zip_first t cl : forall p k0 ws ds, (exists k v, nth_error p k = Some (CPush v)) ->
  exists i, In i (zip_pinfo (push_calls t p k0) cl ws ds) /\ ppub i = hd_error ds.
Proof.
  induction p as [|c r IH]; intros k0 ws ds (k & v & Hk); [destruct k; discriminate|].
  assert (Skip : is_push c = false -> exists i, In i (zip_pinfo (push_calls t r (k0 + 1)%N) cl ws ds) /\ ppub i = hd_error ds).
  { intros Hc. destruct k as [|k]; [cbn in Hk; inversion Hk; subst c; discriminate|]. apply IH. exists k, v. exact Hk. }
  destruct c as [v0| | |]; try (cbn [push_calls]; apply Skip; reflexivity).
  cbn [push_calls zip_pinfo]. eexists. split; [left; reflexivity|reflexivity].
Qed.

Lemma pinfos_first tr : forall ps t0 u p, nth_error ps u = Some p -> (exists k v, nth_error p k = Some (CPush v)) ->
  exists i, In i (pinfos tr t0 ps) /\ ppub i = hd_error (positions tr 0 (t0 + N.of_nat u)%N 503).
Proof.
  induction ps as [|q r IH]; intros t0 u p Hu Hp; [destruct u; discriminate|]. cbn [pinfos]. destruct u as [|u].
  - cbn in Hu. inversion Hu; subst q. destruct (zip_first t0 (positions tr 0 t0 501) p 0%N (positions tr 0 t0 502) (positions tr 0 t0 503) Hp) as (i & Hi & Hd).
    exists i. split; [apply in_or_app; left; exact Hi|]. rewrite N.add_0_r. exact Hd.
  - cbn in Hu. destruct (IH (t0 + 1)%N u p Hu Hp) as (i & Hi & Hd). exists i. split; [apply in_or_app; right; exact Hi|].
    rewrite Hd. f_equal. f_equal. lia.
Qed.

Lemma rcalls_thread_empty_false tr t : forall rs P506 p530 p540 p541 p520 c,
  In c (rcalls_thread tr t rs P506 p530 p540 p541 p520) -> rkind c = 3%N ->
  exists m, nth_error (empties rs) m = Some false /\
            rend c = match nth_error p520 m with Some p => Some (empty_end tr 0 t p p) | None => None end.
Proof.
  induction rs as [|r rs IH]; intros P506 p530 p540 p541 p520 c Hc Hk; cbn [rcalls_thread] in Hc; [destruct Hc|].
  destruct r as [|sl|sl|b].
  - eapply IH; eauto.
  - destruct Hc as [<-|Hc]; [cbn in Hk; discriminate|]. eapply IH; eauto.
  - destruct Hc as [<-|Hc]; [cbn in Hk; discriminate|]. eapply IH; eauto.
  - destruct Hc as [<-|Hc].
    + destruct b; [cbn in Hk; discriminate|]. exists 0. cbn [empties flat_map app nth_error rend]. split; [reflexivity|destruct p520; reflexivity].
    + destruct (IH _ _ _ _ _ _ Hc Hk) as (m & Hm & He). exists (S m). cbn [empties flat_map app nth_error].
      split; [exact Hm|]. rewrite He. destruct p520; [destruct m; reflexivity|reflexivity].
Qed.

(* ---- the ledger for is_empty = false *)
Section FalseLedger.
  Variable B : nat.
  Hypothesis HB : 1 <= B.
  Variable ps : list (list call).
  Notation step := (step B true true).

  Definition Wit (tr : list (N * N)) (t : N) (p : nat) : Prop := exists x w, Pub1 ps tr x w /\ w < empty_end tr 0 t p p.

  Lemma Wit_snoc tr e t p : Wit tr t p -> Wit (tr ++ [e]) t p.
  Proof.
    intros (x & w & Hp & Hw). exists x, w. split; [apply Pub1_snoc; exact Hp|].
    pose proof (empty_end_mono [e] tr 0 t p p ltac:(lia)). lia.
  Qed.

  Definition EfL (c : @config shared local) (tr : list (N * N)) : Prop :=
    forall u l, nth_error (snd c) u = Some l ->
      let P := positions tr 0 (N.of_nat u) 520 in
      let ES := empties (rev (results l)) in
      (in_emp l -> exists P' p, P = P' ++ [p] /\ length P' = length ES /\ Run tr (N.of_nat u) p) /\
      (~ in_emp l -> length P = length ES) /\
      (forall m p, nth_error ES m = Some false -> nth_error P m = Some p -> Wit tr (N.of_nat u) p).

  Definition RF (c : @config shared local) (tr : list (N * N)) : Prop := RP B ps c tr /\ EfL c tr.

  Theorem RF_step : trace_step_preserves_c step site RF.
  Proof.
    intros s ls t l s' l' tr (HRP & HD) Hl Hst.
    pose proof (RP_step B HB true ps s ls t l s' l' tr HRP Hl Hst) as HRP'.
    split; [exact HRP'|].
    set (e := (N.of_nat t, site l)) in *. set (n := length tr).
    intros u y Hy. cbn [fst snd] in *. cbv zeta.
    destruct (nth_error_upd_cases _ _ _ _ _ Hy) as [[-> ->]|[Hne E]].
    - destruct (HD t l Hl) as (D1 & D2 & D3). cbv zeta in D1, D2, D3. cbn [fst snd] in *.
      unfold e. rewrite P520_self. fold e.
      assert (D3' : forall m p, nth_error (empties (rev (results l))) m = Some false -> nth_error (positions tr 0 (N.of_nat t) 520) m = Some p ->
                                Wit (tr ++ [e]) (N.of_nat t) p).
      { intros m p Hm Hp. apply Wit_snoc. exact (D3 m p Hm Hp). }
      destruct (step_emp_cases B s l s' l' Hst) as [(Epc & Es & Hcase)|[(Hw & Hsite & Hcase)|(Hnw & Hsite & Hnw' & Hds)]].
      + (* 520 *)
        subst s'. assert (Hnw : ~ in_emp l) by (unfold in_emp; rewrite Epc; auto). specialize (D2 Hnw).
        replace (N.eqb (site l) 520) with true by (symmetry; apply N.eqb_eq; unfold site; rewrite Epc; reflexivity). fold n.
        destruct Hcase as [(b0 & Et & ->)|(Et & ->)].
        * cbn [goto mk results]. split; [|split].
          -- intros _. exists (positions tr 0 (N.of_nat t) 520), n. split; [reflexivity|split; [exact D2|]]. unfold e, n. apply Run_start.
          -- intros Hw. exfalso. unfold in_emp in Hw. cbn [goto mk pcl] in Hw. tauto.
          -- intros m p Hm Hp. apply (D3' m p Hm).
             rewrite nth_error_app1 in Hp; auto. rewrite D2. apply nth_error_Some. congruence.
        * assert (Ewk : forall m k td rs, ~ in_emp (enter m k td rs)) by (intros m k [|[]] rs H; exact H).
          rewrite results_finish. cbn [rev]. rewrite empties_app. cbn [empties flat_map app].
          split; [intros Hw; unfold finish in Hw; destruct (Ewk _ _ _ _ Hw)|split].
          -- intros _. rewrite !app_length. cbn [length]. lia.
          -- intros m p Hm Hp.
             destruct (Nat.lt_ge_cases m (length (empties (rev (results l))))) as [Hlt|Hge].
             ++ rewrite nth_error_app1 in Hm by exact Hlt. rewrite nth_error_app1 in Hp by lia. apply (D3' m p Hm Hp).
             ++ rewrite nth_error_app2 in Hm by exact Hge. destruct (m - length (empties (rev (results l)))) as [|k]; [|destruct k; discriminate Hm].
                cbn in Hm. discriminate Hm.
      + (* inside an is_empty call *)
        replace (N.eqb (site l) 520) with false by (symmetry; apply N.eqb_neq; exact Hsite). rewrite app_nil_r.
        destruct (D1 Hw) as (P' & p & EP & ELen & HRun).
        destruct Hcase as [[Hw' Er]|[Hnw' (r & Er)]].
        * rewrite Er. split; [|split].
          -- intros _. exists P', p. split; [exact EP|split; [exact ELen|]]. unfold e. apply Run_snoc_self; [apply in_emp_site; exact Hw|exact HRun].
          -- intros H. contradiction.
          -- exact D3'.
        * rewrite Er. cbn [rev]. rewrite empties_app. cbn [empties flat_map app].
          split; [intros H; contradiction|split].
          -- intros _. rewrite EP, !app_length. cbn [length]. lia.
          -- intros m p0 Hm Hp.
             destruct (Nat.lt_ge_cases m (length (empties (rev (results l))))) as [Hlt|Hge].
             ++ rewrite nth_error_app1 in Hm by exact Hlt. apply (D3' m p0 Hm Hp).
             ++ rewrite nth_error_app2 in Hm by exact Hge. destruct (m - length (empties (rev (results l)))) as [|k] eqn:Ek; [|destruct k; discriminate Hm].
                cbn in Hm. inversion Hm; subst r.
                assert (Em : m = length P') by lia. rewrite EP, Em, nth_error_app2, Nat.sub_diag in Hp by lia. cbn in Hp. inversion Hp; subst p0.
                destruct (emp_false B s l s' l' Hw Hst Er) as (b & Hb).
                destruct (set_bit_pub B ps (s, ls) tr b HRP Hb) as (x & w & Hpub).
                exists x, w. split; [apply Pub1_snoc; exact Hpub|].
                unfold e. rewrite (Run_end tr (N.of_nat t) p (site l) HRun (in_emp_site l Hw)). exact (Pub1_lt ps tr x w Hpub).
      + replace (N.eqb (site l) 520) with false by (symmetry; apply N.eqb_neq; exact Hsite). rewrite app_nil_r, Hds.
        split; [intros H; contradiction|split; [intros _; exact (D2 Hnw)|exact D3']].
    - unfold e. rewrite positions_snoc. cbn [fst snd].
      replace (N.eqb (N.of_nat t) (N.of_nat u)) with false by (symmetry; apply N.eqb_neq; lia). cbn [andb]. rewrite app_nil_r.
      destruct (HD u y E) as (D1 & D2 & D3). cbv zeta in D1, D2, D3. cbn [fst snd] in *.
      split; [|split; [exact D2|]].
      + intros Hw. destruct (D1 Hw) as (P' & p & EP & ELen & HRun). exists P', p. split; [exact EP|split; [exact ELen|]].
        apply Run_snoc_other; [cbn [fst]; lia|exact HRun].
      + intros m p Hm Hp. apply Wit_snoc. exact (D3 m p Hm Hp).
  Qed.

  Theorem RF_noop : trace_noop_preserves_cond step RF.
  Proof.
    intros s ls tr t (HRP & HD) Hcond. split; [exact (RP_noop B ps (s, ls) tr t HRP)|].
    assert (P : forall u, positions (tr ++ [(N.of_nat t, noop_site)]) 0 u 520 = positions tr 0 u 520).
    { intros u. rewrite positions_snoc. cbn [fst snd]. replace (N.eqb noop_site 520) with false by reflexivity. rewrite andb_false_r. apply app_nil_r. }
    intros u l Hl. rewrite P. destruct (HD u l Hl) as (D1 & D2 & D3). cbv zeta in *. cbn [fst snd] in *. split; [|split; [exact D2|]].
    - intros Hw. destruct (D1 Hw) as (P' & p & EP & ELen & HRun). exists P', p. split; [exact EP|split; [exact ELen|]].
      apply Run_snoc_other; [|exact HRun]. cbn [fst]. intros Et. apply Nat2N.inj in Et. subst u.
      destruct Hcond as [Hn|(l0 & Hl0 & Hnone)]; [congruence|]. rewrite Hl in Hl0. inversion Hl0; subst l0.
      exact (emp_progress B s l Hw Hnone).
    - intros m p Hm Hp. apply Wit_snoc. exact (D3 m p Hm Hp).
  Qed.

  Lemma RF_init : RF (init_config ps) [].
  Proof.
    split; [exact (RP_init B HB true ps)|].
    intros u l Hl. cbn [snd init_config] in Hl. destruct (init_local_facts _ _ _ _ Hl) as (p & _ & E1 & _).
    assert (Er : results l = []).
    { revert Hl. generalize 0%N. clear. revert u. induction ps as [|q r IH]; intros u n H; destruct u; cbn in H; try discriminate.
      - inversion H. reflexivity. - eapply IH; eauto. }
    cbv zeta. rewrite Er. cbn. unfold in_emp. rewrite E1. split; [intros []|split; [reflexivity|]]. intros m q Hm. destruct m; discriminate.
  Qed.
End FalseLedger.

(* ---- S3 for is_empty = false on the model, every case *)
Theorem spec_is_empty_false_needs_publication (c : case) :
  let '(tr, rss, _, _, _) := run_case c in
  let tbl := pinfos tr 0 (progs_of c) in
  let rc := rcalls tr 0 rss in
  forallb (fun r => if (rkind r =? 3)%N then existsb (fun i => olt (ppub i) (rend r)) tbl else true) rc = true.
Proof.
  unfold run_case, out_gen. assert (HB : 1 <= BS) by (unfold BS; lia).
  pose proof (exec_full_trace_cond (step BS true true) site (RF BS (progs_of c)) (RF_step BS HB (progs_of c))
                (RF_noop BS HB (progs_of c)) rr_fuel (map N.to_nat (snd c)) (init_config (progs_of c))
                (RF_init BS HB (progs_of c))) as H.
  fold (run_gen BS true true c) in H. destruct (run_gen BS true true c) as [[s ls] tr]. cbn [fst snd] in *.
  destruct H as (_ & HD). cbv zeta.
  apply forallb_forall. intros r Hr. destruct (N.eqb_spec (rkind r) 3) as [Hk|]; [|reflexivity].
  destruct (rcalls_in tr _ _ _ Hr) as (u & rs & Hu & Hc). rewrite N.add_0_l in Hc.
  rewrite nth_error_map in Hu. destruct (nth_error ls u) as [l|] eqn:El; [|discriminate]. cbn in Hu. inversion Hu; subst rs.
  destruct (rcalls_thread_empty_false tr _ _ _ _ _ _ _ _ Hc Hk) as (m & Hm & He).
  destruct (HD u l El) as (D1 & D2 & D3). cbv zeta in D1, D2, D3. cbn [fst snd] in *.
  assert (Hlen : length (empties (rev (results l))) <= length (positions tr 0 (N.of_nat u) 520)).
  { assert (Hdec : in_emp l \/ ~ in_emp l) by (unfold in_emp; destruct (pcl l); tauto). destruct Hdec as [Hw|Hnw].
    - destruct (D1 Hw) as (P' & p & EP & ELen & _). rewrite EP, app_length. lia.
    - rewrite (D2 Hnw). lia. }
  assert (Hml : m < length (empties (rev (results l)))) by (apply nth_error_Some; congruence).
  destruct (nth_error (positions tr 0 (N.of_nat u) 520) m) as [p|] eqn:Ep; [|apply nth_error_None in Ep; lia].
  destruct (D3 m p Hm Ep) as (x & w & (Hg & Hh) & Hw).
  destruct Hg as (p' & Hp' & Hpk).
  destruct (pinfos_first tr (progs_of c) 0%N _ p' Hp' (ex_intro _ _ (ex_intro _ _ Hpk))) as (i & Hi & Hd).
  rewrite N.add_0_l, N2Nat.id, Hh in Hd.
  apply existsb_exists. exists i. split; [exact Hi|]. rewrite Hd, He. cbn. apply Nat.ltb_lt. exact Hw.
Qed.

(* ---- both halves for is_empty, programs without clear_with *)
Theorem spec_is_empty_completeness_no_clear (c : case) :
  (forall p, In p (progs_of c) -> ~ In CClear p) ->
  let '(tr, rss, _, _, _) := run_case c in
  let tbl := pinfos tr 0 (progs_of c) in
  let rc := rcalls tr 0 rss in
  forallb (fun r => if (rkind r =? 2)%N then accounts tbl (filter is_clear rc) (rstart r) (handed r)
                    else if (rkind r =? 3)%N then existsb (fun i => olt (ppub i) (rend r)) tbl else true) rc = true.
Proof.
  intros Hnc. pose proof (spec_is_empty_true_completeness_no_clear c Hnc) as HT.
  pose proof (spec_is_empty_false_needs_publication c) as HF.
  destruct (run_case c) as [[[[tr rss] a] b] d]. cbv zeta in *.
  apply forallb_forall. intros r Hr.
  pose proof (proj1 (forallb_forall _ _) HT r Hr) as H2. pose proof (proj1 (forallb_forall _ _) HF r Hr) as H3. cbv beta in H2, H3.
  destruct (rkind r =? 2)%N; [exact H2|exact H3].
Qed.
