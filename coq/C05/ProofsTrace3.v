(* C05 — the checker on the model, stage 3: the second conjunct of clause S1 of Spec.spec_run - no
   single data_with / clear_with call is handed the same identity twice - on the model's run of
   every case.  Step invariant V: the slices a walking thread holds were read from blocks strictly
   above the block it reads next (links decrease), carry no duplicate identity, and every
   completed read in the results is duplicate-free.                                             *)
From Coq Require Import List NArith Bool Arith Lia.
Import ListNotations.
Require Import MV.Common.Interleave MV.C05.Model MV.C05.Spec MV.C05.Exec.
Require Import MV.C05.ProofsSeq MV.C05.ProofsInv MV.C05.ProofsCor MV.C05.ProofsUniq MV.C05.ProofsCons MV.C05.ProofsProg
               MV.C05.ProofsSnap MV.C05.ProofsOrder MV.C05.ProofsSpec MV.C05.ProofsTrace1 MV.C05.ProofsTrace2.
Local Open Scope nat_scope.

Definition res_nodup (r : res) : Prop :=
  match r with RData sl | RClear sl => NoDup (map vid (concat sl)) | _ => True end.

Lemma nodup_concat_rev (acc : list (list val)) : NoDup (map vid (concat acc)) -> NoDup (map vid (concat (rev acc))).
Proof.
  intros H. apply (NoDup_count_occ NN_dec). intros id. pose proof (proj1 (NoDup_count_occ NN_dec _) H id) as Hc.
  change (cntl id (concat (rev acc)) <= 1). first [rewrite (cntl_concat_rev 1 (le_n 1)) | rewrite (cntl_concat_rev 1)]. exact Hc.
Qed.

Section Walk.
  Variable B : nat.
  Hypothesis HB : 1 <= B.
  Variable fxc : bool.
  Notation step := (step B true fxc).

  Definition above (h : list block) (acc : list (list val)) (lim : nat) (strict : bool) : Prop :=
    NoDup (map vid (concat acc)) /\
    forall x, In x (concat acc) -> exists d i, slot h d i = Some x /\ (if strict then lim < d else lim <= d).

  Definition walk_ok (h : list block) (l : local) : Prop :=
    match pcl l with
    | W1 _ b acc | W2 _ b _ acc | WS _ b acc | WD _ b acc => above h acc b true
    | WN _ b acc => above h acc b false
    | _ => True
    end.

  Definition V (c : @config shared local) : Prop :=
    forall u l, nth_error (snd c) u = Some l -> walk_ok (heap (fst c)) l /\ Forall res_nodup (results l).

  Lemma above_mono s ls t l s' l' acc lim st :
    Inv B (s, ls) -> nth_error ls t = Some l -> step s l = Some (s', l') ->
    above (heap s) acc lim st -> above (heap s') acc lim st.
  Proof.
    intros HI Hl Hst [H1 H2]. split; [exact H1|]. intros x Hx. destruct (H2 x Hx) as (d & i & Hs & Hd).
    exists d, i. split; [exact (slot_mono B HB fxc s ls t l s' l' d i x HI Hl Hst Hs)|exact Hd].
  Qed.

  Lemma data_nodup s ls b :
    All B (s, ls) -> b < length (heap s) ->
    NoDup (map vid (data_of (getb (heap s) b) (tones (bdone (getb (heap s) b))))) /\
    forall x, In x (data_of (getb (heap s) b) (tones (bdone (getb (heap s) b)))) -> exists i, slot (heap s) b i = Some x.
  Proof.
    intros (HI & _ & _ & H3 & _) Hb.
    destruct (slice_in_slot_order B HB s ls b HI Hb) as [Hlen Hnth]. cbv zeta in Hlen, Hnth.
    split.
    - apply (NoDup_nth _ (vid garbage)). rewrite map_length, Hlen. intros j1 j2 Hj1 Hj2 E. rewrite !(map_nth vid) in E.
      destruct (Hnth j1 Hj1) as (x1 & Hs1 & E1). destruct (Hnth j2 Hj2) as (x2 & Hs2 & E2). rewrite E1, E2 in E.
      destruct (H3 b j1 b j2 x1 x2 Hs1 Hs2 E). auto.
    - intros x Hx. destruct (In_nth _ _ garbage Hx) as (j & Hj & Ej). rewrite Hlen in Hj.
      destruct (Hnth j Hj) as (x' & Hs & En). exists j. congruence.
  Qed.

  Lemma NoDup_app_intro {A} (a b : list A) : NoDup a -> NoDup b -> (forall x, In x a -> In x b -> False) -> NoDup (a ++ b).
  Proof.
    induction a as [|x r IH]; intros Ha Hb Hd; cbn; auto. inversion Ha; subst. constructor.
    - intros Hin. apply in_app_or in Hin. destruct Hin as [Hin|Hin]; [contradiction|]. apply (Hd x); [left; reflexivity|exact Hin].
    - apply IH; auto. intros y Hy1 Hy2. apply (Hd y); [right; exact Hy1|exact Hy2].
  Qed.

  (* reading block b after the blocks above it *)
  Lemma above_read s ls b acc :
    All B (s, ls) -> b < length (heap s) -> above (heap s) acc b true ->
    above (heap s) (data_of (getb (heap s) b) (tones (bdone (getb (heap s) b))) :: acc) b false.
  Proof.
    intros HA Hb [Hnd Hab]. pose proof HA as (_ & _ & _ & H3 & _). destruct (data_nodup s ls b HA Hb) as [Dnd Din].
    split.
    - cbn [concat]. rewrite map_app. apply NoDup_app_intro; auto.
      intros id H1 H2. apply in_map_iff in H1. destruct H1 as (x & Ex & Hx). apply in_map_iff in H2. destruct H2 as (y & Ey & Hy).
      destruct (Din x Hx) as (i & Hs). destruct (Hab y Hy) as (d & j & Hs' & Hd).
      destruct (H3 b i d j x y Hs Hs' ltac:(unfold vid in *; congruence)). lia.
    - intros x Hx. cbn [concat] in Hx. apply in_app_or in Hx. destruct Hx as [Hx|Hx].
      + destruct (Din x Hx) as (i & Hs). exists b, i. split; [exact Hs|lia].
      + destruct (Hab x Hx) as (d & i & Hs & Hd). exists d, i. split; [exact Hs|lia].
  Qed.

  Theorem V_step : step_preserves step (fun c => All B c /\ V c).
  Proof.
    intros s ls t l s' l' [HA HV] Hl Hst. split; [eapply (All_step B HB fxc); eauto|].
    pose proof HA as (HI & _ & _ & H3 & _). pose proof HI as (HO & HC & HP). cbn [fst snd] in *.
    intros u y Hy. destruct (nth_error_upd_cases _ _ _ _ _ Hy) as [[-> ->]|[Hne E]].
    - destruct (HV t l Hl) as [Hw Hr]. pose proof (HP t l Hl) as Hpl. unfold pc_ok in Hpl. unfold walk_ok in Hw. cbn [fst snd] in *.
      assert (Eres : forall m k td rs, results (enter m k td rs) = rs) by (intros m k [|[]] rs; reflexivity).
      assert (Ewk : forall h m k td rs, walk_ok h (enter m k td rs)) by (intros h m k [|[]] rs; exact I).
      assert (Hmono : forall acc lim st, above (heap s) acc lim st -> above (heap s') acc lim st)
        by (intros; eapply above_mono; eauto).
      assert (Hnil : forall h lim st, above h [] lim st) by (intros; split; [constructor|intros x []]).
      step_inv Hst Epc; unfold finish; rewrite ?Eres; cbn [heap with_heap fst snd];
        (split; [try apply Ewk; unfold walk_ok; cbn [goto mk pcl]; try exact I; try (destruct clr; try exact I); auto
                |cbn [goto mk results]; try exact Hr; try (constructor; [exact I|exact Hr])]).
      all: try (apply Hnil).
      all: try (constructor; [try destruct clr; cbn [walk_res res_nodup rev concat map]; constructor|exact Hr]; fail).
      all: try (match goal with |- above _ (data_of _ _ :: _) _ false => eapply above_read; eauto end; fail).
      all: try (match goal with E : bnxt _ = Some ?n |- above _ _ ?n true =>
                  destruct Hw as [Hnd Hab]; split; [exact Hnd|]; intros x Hx; destruct (Hab x Hx) as (d & i & Hs & Hd);
                  exists d, i; split; [exact Hs|]; destruct (proj1 (proj2 HO) _ _ Hpl E); lia end; fail).
      (* end of the chain: the call returns its slices *)
      constructor; [|exact Hr]. destruct clr; cbn [walk_res res_nodup]; apply nodup_concat_rev; exact (proj1 Hw).
    - destruct (HV u y E) as [Hw Hr]. cbn [fst snd] in *. split; [|exact Hr]. unfold walk_ok in *.
      destruct (pcl y); auto; exact (above_mono s ls t l s' l' _ _ _ HI Hl Hst Hw).
  Qed.
End Walk.

Lemma handed_cases tr t : forall rs P p530 p540 p541 p520 c,
  In c (rcalls_thread tr t rs P p530 p540 p541 p520) ->
  handed c = [] \/ exists sl, (In (RData sl) rs \/ In (RClear sl) rs) /\ handed c = concat sl.
Proof.
  induction rs as [|r rs IH]; intros P p530 p540 p541 p520 c Hc; cbn [rcalls_thread] in Hc; [destruct Hc|].
  assert (Lift : forall P p530 p540 p541 p520, In c (rcalls_thread tr t rs P p530 p540 p541 p520) ->
                 handed c = [] \/ exists sl, (In (RData sl) (r :: rs) \/ In (RClear sl) (r :: rs)) /\ handed c = concat sl).
  { intros. destruct (IH _ _ _ _ _ _ H) as [E|(sl & [Hi|Hi] & E)]; [left; exact E|right; exists sl; split; [left; right; exact Hi|exact E]
                                                                    |right; exists sl; split; [right; right; exact Hi|exact E]]. }
  destruct r as [|sl|sl|b].
  - eapply Lift; eauto.
  - destruct Hc as [<-|Hc]; [|eapply Lift; eauto]. right. exists sl. split; [left; left; reflexivity|].
    unfold handed. cbn [rsl]. apply handed_zip.
  - destruct Hc as [<-|Hc]; [|eapply Lift; eauto]. right. exists sl. split; [right; left; reflexivity|].
    unfold handed. cbn [rsl]. apply handed_zip.
  - destruct Hc as [<-|Hc]; [left; reflexivity|eapply Lift; eauto].
Qed.

Theorem spec_reads_no_dup_on_model (c : case) :
  let '(tr, rss, _, _, _) := run_case c in
  forallb (fun rc => nodupb (handed rc)) (rcalls tr 0 rss) = true.
Proof.
  unfold run_case, out_gen. destruct (run_gen BS true true c) as [cf tr] eqn:E.
  assert (HB : 1 <= BS) by (unfold BS; lia).
  assert (H : All BS cf /\ V cf).
  { replace cf with (fst (run_gen BS true true c)) by (rewrite E; reflexivity). unfold run_gen.
    apply (invariant_exec_full (step BS true true) site (fun c0 => All BS c0 /\ V c0) (V_step BS HB true)).
    split; [exact (All_init BS HB true (progs_of c))|]. intros u l Hl. cbn [snd init_config] in Hl.
    destruct (init_local_facts _ _ _ _ Hl) as (p & _ & E1 & _).
    assert (Er : results l = []).
    { revert Hl. generalize 0%N. generalize (progs_of c). clear. intros ps. revert u.
      induction ps as [|q r IH]; intros u n H; destruct u; cbn in H; try discriminate.
      - inversion H. reflexivity. - eapply IH; eauto. }
    unfold walk_ok. rewrite E1, Er. split; [exact I|constructor]. }
  destruct H as [_ HV]. apply forallb_forall. intros rc Hrc.
  destruct (rcalls_in tr _ _ _ Hrc) as (u & rs & Hu & Hc).
  rewrite nth_error_map in Hu. destruct (nth_error (snd cf) u) as [l|] eqn:El; [|discriminate]. cbn in Hu. inversion Hu; subst rs.
  destruct (HV u l El) as [_ Hr]. rewrite Forall_forall in Hr.
  destruct (handed_cases tr _ _ _ _ _ _ _ _ Hc) as [->|(sl & Hin & ->)]; [reflexivity|].
  apply nodupb_iff.
  destruct Hin as [Hin|Hin]; apply in_rev in Hin; apply (Hr _ Hin).
Qed.
