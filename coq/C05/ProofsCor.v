(* C05 — consequences of the invariant (readable statements), the chain derived from the link
   order, and the refutation witnesses (vm_compute) for the two fixed defects and the open one.  *)
From Coq Require Import List NArith Bool Arith Lia.
Import ListNotations.
Require Import MV.Common.Interleave MV.C05.Model MV.C05.Spec MV.C05.Exec MV.C05.ProofsSeq MV.C05.ProofsInv.
Local Open Scope nat_scope.

Section Cor.
  Variable B : nat.
  Hypothesis HB : 1 <= B.
  Variable fxc : bool.

  (* reachable by some schedule from the initial configuration of programs ps *)
  Definition reach (ps : list (list call)) (c : @config shared local) : Prop :=
    exists sched, c = fst (exec (step B true fxc) site (init_config ps) sched).

  Lemma reach_Inv ps c : reach ps c -> Inv B c.
  Proof. intros (sched & ->). apply reachable_Inv. exact HB. Qed.

  (* a published bit implies a written slot *)
  Lemma published_written c b i :
    Inv B c -> b < length (heap (fst c)) -> nth i (bdone (getb (heap (fst c)) b)) false = true ->
    exists x, nth i (bslot (getb (heap (fst c)) b)) None = Some x.
  Proof.
    intros (HO & _) Hb Hp. destruct HO as (_ & _ & _ & H4). specialize (H4 b i Hb Hp).
    destruct (nth i (bslot (getb (heap (fst c)) b)) None); [eauto|congruence].
  Qed.

  (* the thread between its slot write and its publication finds ITS value in the slot, and is
     the only thread in flight on that slot; the slot is below the write index and unpublished *)
  Lemma claims_unique c t u l l' b i :
    Inv B c -> nth_error (snd c) t = Some l -> nth_error (snd c) u = Some l' -> t <> u ->
    inflight b i l = 1 -> inflight b i l' = 1 -> False.
  Proof.
    intros HI Hl Hl' Hne H1 H2. destruct c as [s ls]. cbn [fst snd] in *.
    pose proof HI as (_ & _ & HP). pose proof (HP t l Hl) as Hp. unfold pc_ok in Hp. unfold inflight in H1.
    assert (Hb : b < length (heap s) /\ i < B).
    { destruct (pcl l); try discriminate; destruct (Nat.eqb b0 b) eqn:E1; destruct (Nat.eqb i0 i) eqn:E2; try discriminate;
        apply Nat.eqb_eq in E1; apply Nat.eqb_eq in E2; subst; tauto. }
    assert (H1' : inflight b i l = 1) by exact H1.
    destruct (inflight_facts B HB s ls t l b i HI Hl H1' (proj1 Hb) (proj2 Hb)) as (_ & _ & _ & Ho).
    rewrite (Ho u l' ltac:(auto) Hl') in H2. discriminate.
  Qed.

  Lemma writer_finds_own_value c t l x b i :
    Inv B c -> nth_error (snd c) t = Some l -> pcl l = P4 x b i ->
    nth i (bslot (getb (heap (fst c)) b)) None = Some x /\ nth i (bdone (getb (heap (fst c)) b)) false = false /\
    i < bw (getb (heap (fst c)) b) /\ i < B.
  Proof.
    intros HI Hl Hpc. destruct c as [s ls]. cbn [fst snd] in *.
    pose proof HI as (_ & _ & HP). pose proof (HP t l Hl) as Hp. unfold pc_ok in Hp. rewrite Hpc in Hp.
    destruct Hp as (Hb & Hi & Hs).
    assert (Hf : inflight b i l = 1) by (unfold inflight; rewrite Hpc, !Nat.eqb_refl; reflexivity).
    destruct (inflight_facts B HB s ls t l b i HI Hl Hf Hb Hi) as (Hlt & Hd & _).
    apply Nat.ltb_lt in Hlt. auto.
  Qed.

  (* what a read hands out (the step at site 506) are written slots only *)
  Lemma tones_nth l j : j < tones l -> nth j l false = true.
  Proof. revert j. induction l as [|[] r IH]; intros [|j] H; cbn in *; try lia; auto. apply IH. lia. Qed.

  Lemma delivery_reads_written_slots c b v :
    Inv B c -> b < length (heap (fst c)) ->
    In v (data_of (getb (heap (fst c)) b) (tones (bdone (getb (heap (fst c)) b)))) ->
    exists j, j < tones (bdone (getb (heap (fst c)) b)) /\ nth j (bslot (getb (heap (fst c)) b)) None = Some v.
  Proof.
    intros HI Hb Hin. set (k := getb (heap (fst c)) b) in *.
    assert (Hall : forall j, j < tones (bdone k) -> exists x, nth j (bslot k) None = Some x).
    { intros j Hj. apply (published_written c b j HI Hb). apply tones_nth. exact Hj. }
    assert (Hlen : tones (bdone k) <= length (bslot k)).
    { destruct HI as ((H1 & _) & _). destruct (H1 b Hb) as [Ld Ls]. fold k in Ld, Ls. rewrite Ls, <- Ld.
      clear. induction (bdone k) as [|[] r IH]; cbn; lia. }
    unfold data_of in Hin. revert Hall Hlen Hin. generalize (tones (bdone k)) as n. generalize (bslot k) as sl.
    induction sl as [|o r IH]; intros n Hall Hlen Hin.
    - destruct n; cbn in Hin; contradiction.
    - destruct n as [|n]; [cbn in Hin; contradiction|]. cbn in Hin. destruct Hin as [E|Hin].
      + exists 0. split; [lia|]. destruct (Hall 0 ltac:(lia)) as [x Hx]. cbn in Hx. subst o. cbn in E. cbn. congruence.
      + destruct (IH n) as (j & Hj & Ej); auto.
        * intros j Hj. apply (Hall (S j)). lia.
        * cbn in Hlen. lia.
        * exists (S j). split; [lia|exact Ej].
  Qed.

  (* ---- the chain from any block exists, strictly decreases, and all but its first block are full *)
  Lemma chain_from s : heap_ok B s -> forall n b, b < n -> b < length (heap s) ->
    exists ids, Chain (heap s) (Some b) ids /\ (forall c, In c ids -> c <= b).
  Proof.
    intros (H1 & H2 & H3 & H4). induction n as [|n IH]; intros b Hn Hb; [lia|].
    destruct (bnxt (getb (heap s) b)) as [c|] eqn:En.
    - destruct (H2 b c Hb En) as [Hc _]. destruct (IH c ltac:(lia) ltac:(lia)) as (ids & C & Hle).
      exists (b :: ids). split.
      + constructor; auto. * intros d Hd. specialize (Hle d Hd). lia. * rewrite En. exact C.
      + intros d [<-|Hd]; [lia|]. specialize (Hle d Hd). lia.
    - exists [b]. split.
      + constructor; auto. * intros d []. * rewrite En. constructor.
      + intros d [<-|[]]. lia.
  Qed.

  Lemma chain_exists c :
    Inv B c -> exists ids, Chain (heap (fst c)) (tail (fst c)) ids /\
                           (forall b d, In b ids -> bnxt (getb (heap (fst c)) b) = Some d -> B <= bw (getb (heap (fst c)) d)).
  Proof.
    intros (HO & _). pose proof HO as (H1 & H2 & H3 & H4).
    destruct (tail (fst c)) as [b|] eqn:Et.
    - destruct (chain_from (fst c) HO (S b) b ltac:(lia) (H3 b eq_refl)) as (ids & C & _).
      exists ids. split; [exact C|]. intros d e Hd E. apply (H2 d e); auto. eapply Chain_lt; eauto.
    - exists []. split; [constructor|]. intros b d [].
  Qed.
End Cor.

(* ---- witnesses *)
Definition pushes (n : nat) : list call := map (fun i => CPush (N.of_nat i)) (seq 0 n).

(* open finding C05-late-claim: thread 1 loads tail, thread 2 clears (detach, quiescence test,
   read), then thread 1 claims: its value is lost *)
Definition late_claim_case : case :=
  (plain [[CPush 1]; [CPush 2]; [CClear]],
   [0; 0; 0; 0; 0; 0; 1; 1; 2; 2; 2; 2; 2; 2; 2; 1; 1; 1]%N).

Lemma late_claim_refutes : exists c, known_class c = Some 1%N /\ spec_ok c (run_case c) = false.
Proof. exists late_claim_case. split; vm_compute; reflexivity. Qed.

(* defect (a), block size 2 for brevity: thread 0 fills a block and publishes a fresh one (512);
   before the fix the link was a later step (513) and a snapshot in between misses two
   completed pushes; the class of the open finding is not involved *)
Definition handover_case : case :=
  (plain [pushes 3; [CData]],
   [0; 0; 0; 0; 0; 0; 0; 0; 0; 0; 0; 0; 0; 1; 1; 1; 1; 1; 1]%N).

Definition spec_gen (B : nat) (fxa fxc : bool) (c : case) : bool := spec_ok c (out_gen B fxa fxc c).

Lemma handover_refuted_before_fix :
  late_claim_gen 2 false true handover_case = false /\ spec_gen 2 false true handover_case = false /\
  spec_gen 2 true true handover_case = true.
Proof. vm_compute. auto. Qed.

(* defect (c): thread 0 claimed slot 0, thread 1 completed a push into slot 1, then is_empty *)
Definition hidden_case : case :=
  (plain [[CPush 1]; [CPush 2]; [CEmpty]], [0; 0; 0; 0; 1; 1; 1; 1; 1; 2; 2; 2; 2]%N).

Lemma is_empty_refuted_before_fix :
  late_claim_gen BS true false hidden_case = false /\ spec_gen BS true false hidden_case = false /\
  spec_gen BS true true hidden_case = true.
Proof. vm_compute. auto. Qed.

(* the hypotheses are satisfiable on non-trivial runs: a hand-over raced by a snapshot and a
   clear, real block size *)
Definition example_case : case :=
  (plain [pushes 66; [CData; CClear]; [CPush 7; CEmpty]],
   (repeat 0 250 ++ [1; 2; 2; 1; 0; 0; 1; 2; 0; 1; 1; 2; 0; 0; 1; 2; 2; 0; 1; 1; 0; 2]
    ++ repeat 0 20 ++ repeat 2 8 ++ repeat 1 14)%N).

Lemma example_ok : known_class example_case = None /\ spec_ok example_case (run_case example_case) = true.
Proof. vm_compute. auto. Qed.

(* record_many through the expansion: a zero count adds nothing, 65 copies cross a hand-over *)
Definition record_many_case : case :=
  ([[XMany 1 0; XCall CEmpty; XMany 2 65; XCall CData; XMany 3 0; XCall CClear; XCall CEmpty]], []).

Lemma record_many_example : known_class record_many_case = None /\ spec_ok record_many_case (run_case record_many_case) = true.
Proof. vm_compute. auto. Qed.

(* why Block::len must be the contiguous completed prefix (trailing_ones) and not the number of
   completion bits (count_ones): the two agree on a quiescent block, but data() re-reads the bitmap
   after the quiescence test.  Witness: the snapshot (thread 2) has passed 504/505 on the empty block,
   pusher 0 claims slot 0, pusher 1 claims, writes and publishes slot 1; thread 2 now stands at 506.
   A popcount length would hand out the unwritten slot 0; the trailing-ones length hands out nothing
   (and by C05_delivery_reads_written_slots never an unwritten slot, in any reachable configuration). *)
Definition count_true (l : list bool) : nat := length (filter (fun x => x) l).

Definition popcount_sched : list nat := [0; 0; 0; 1; 1; 2; 2; 2; 2; 0; 1; 1; 1]%nat.

Lemma popcount_len_reads_unwritten :
  let cf := fst (exec (step BS true true) site (init_config [[CPush 1]; [CPush 2]; [CData]]) popcount_sched) in
  let k := getb (heap (fst cf)) 0 in
  option_map pcl (nth_error (snd cf) 2) = Some (WD false 0 []) /\
  count_true (bdone k) = 1%nat /\ tones (bdone k) = 0%nat /\
  data_of k (count_true (bdone k)) = [garbage] /\ data_of k (tones (bdone k)) = [].
Proof. vm_compute. repeat split; reflexivity. Qed.
