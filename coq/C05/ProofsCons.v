(* C05 — conservation, for every schedule WITHOUT a late claim (ghost flag [late] still false):
   every published value sits in a block that is still owned (reachable from tail, or from the
   clearing thread that detached it and has not read it yet), or it has been handed to a clear.
   Together with ProofsUniq (handed out at most once, and only from retired blocks) this is the
   partition J3 of the published identities.                                                    *)
From Coq Require Import List NArith Bool Arith Lia.
Import ListNotations.
Require Import MV.Common.Interleave MV.C05.Model MV.C05.ProofsSeq MV.C05.ProofsInv MV.C05.ProofsCor MV.C05.ProofsUniq.
Local Open Scope nat_scope.

Section Cons.
  Variable B : nat.
  Hypothesis HB : 1 <= B.
  Variable fxc : bool.
  Notation step := (step B true fxc).

  Definition pub (h : list block) (b i : nat) : Prop := nth i (bdone (getb h b)) false = true.
  (* every claimed slot of the block is published: nothing in flight, nothing more to come *)
  Definition complete (h : list block) (b : nat) : Prop := forall i, i < B -> i < bw (getb h b) -> pub h b i.

  Lemma late_mono s l s' l' : step s l = Some (s', l') -> late s = true -> late s' = true.
  Proof. intros Hst HL. step_inv Hst Epc; cbn [late with_heap]; auto; rewrite HL; reflexivity. Qed.

  Lemma reach_from_Reach h : forall fuel o b, reach_from h fuel o b = true -> Reach h o b.
  Proof.
    induction fuel as [|f IH]; intros [c|] b H; cbn in H; try discriminate.
    destruct (Nat.eqb c b) eqn:E; [apply Nat.eqb_eq in E; subst; constructor|].
    apply r_next. apply IH. exact H.
  Qed.

  Lemma pub_out h b i : length h <= b -> ~ pub h b i.
  Proof.
    intros H. unfold pub, getb. replace (nth b h empty_block) with empty_block by (symmetry; apply nth_overflow; exact H).
    cbn. destruct i; discriminate.
  Qed.

  (* what a step does to the bits and write index of a block d *)
  Lemma step_block s ls t l s' l' d :
    Inv B (s, ls) -> nth_error ls t = Some l -> step s l = Some (s', l') -> d < length (heap s) ->
    (forall i, pub (heap s) d i -> pub (heap s') d i) /\
    (bw (getb (heap s) d) <= bw (getb (heap s') d)) /\
    ((forall b i, inflight b i l = 1 -> b <> d) -> (forall x b sec, pcl l = P2 x b sec -> b <> d) ->
     getb (heap s') d = getb (heap s) d).
  Proof.
    intros HI Hl Hst Hd. pose proof HI as (HO & HC & HP). cbn [fst snd] in *.
    pose proof (HP t l Hl) as Hpl. unfold pc_ok in Hpl.
    step_inv Hst Epc; unfold pub; cbn [heap with_heap]; try (repeat split; auto; fail);
      try (rewrite !getb_app_old by exact Hd; repeat split; auto; fail);
      try contradiction;
      (rewrite !getb_setb by tauto; destruct (Nat.eqb d b) eqn:E; [apply Nat.eqb_eq in E; subst d|repeat split; auto]);
      cbn [bw bdone]; (split; [|split]); try lia; auto;
      try (intros Hf Hc; exfalso;
           first [ apply (Hc _ _ _ eq_refl eq_refl)
                 | apply (Hf b i); [unfold inflight; rewrite Epc, !Nat.eqb_refl; reflexivity|reflexivity] ]; fail).
    (* 503: the bit *)
    intros j Hj. destruct (Nat.eq_dec j i) as [->|Hne].
    - apply nth_set_nth_same. destruct Hpl as (Hb & Hi & _). destruct (proj1 HO b Hb) as [Ld _]. lia.
    - rewrite nth_set_nth_other by auto. exact Hj.
  Qed.

  Lemma step_bw s ls t l s' l' d :
    Inv B (s, ls) -> nth_error ls t = Some l -> step s l = Some (s', l') -> d < length (heap s) ->
    (forall x b sec, pcl l = P2 x b sec -> b <> d) -> bw (getb (heap s') d) = bw (getb (heap s) d).
  Proof.
    intros HI Hl Hst Hd. pose proof HI as (HO & HC & HP). cbn [fst snd] in *.
    pose proof (HP t l Hl) as Hpl. unfold pc_ok in Hpl.
    step_inv Hst Epc; cbn [heap with_heap]; auto;
      try (rewrite !getb_app_old by exact Hd; auto; fail); try contradiction;
      (rewrite !getb_setb by tauto; destruct (Nat.eqb d b) eqn:E; [apply Nat.eqb_eq in E; subst d|auto]);
      cbn [bw]; auto; intros Hc; exfalso; apply (Hc _ _ _ eq_refl eq_refl).
  Qed.

  (* a block that is not reachable from tail stays complete, as long as no late claim happens *)
  Lemma complete_step s ls t l s' l' d :
    Inv B (s, ls) -> nth_error ls t = Some l -> step s l = Some (s', l') -> late s' = false ->
    ~ Reach (heap s) (tail s) d -> d < length (heap s) -> complete (heap s) d -> complete (heap s') d.
  Proof.
    intros HI Hl Hst HL Hnr Hd Hc i Hi Hw.
    destruct (step_block s ls t l s' l' d HI Hl Hst Hd) as (Hpm & Hbw & _).
    assert (Hcase : (forall x b sec, pcl l = P2 x b sec -> b <> d) \/ exists x sec, pcl l = P2 x d sec).
    { destruct (pcl l) eqn:E; try (left; intros; discriminate).
      destruct (Nat.eq_dec b d) as [->|Hne]; [right; eauto|left; intros ? ? ? E'; inversion E'; subst; auto]. }
    destruct Hcase as [Hno|(x & sec & Epc)].
    - rewrite (step_bw s ls t l s' l' d HI Hl Hst Hd Hno) in Hw. apply Hpm. apply Hc; auto.
    - apply Hpm. apply Hc; auto.
      unfold Model.step in Hst. rewrite Epc in Hst. cbn zeta in Hst.
      destruct (Nat.ltb (bw (getb (heap s) d)) B) eqn:E1.
      + exfalso. inversion Hst; subst s' l'. cbn [late andb] in HL.
        apply orb_false_iff in HL. destruct HL as [_ HL]. apply negb_false_iff in HL.
        apply Hnr. unfold reachable in HL. eapply reach_from_Reach; eauto.
      + apply Nat.ltb_ge in E1. lia.
  Qed.

  (* ---- the owned region only loses a block at the delivering read of a clear *)
  Lemma Owned_local_rev s ls t l s' l' d :
    nth_error ls t = Some l ->
    (forall c, bnxt (getb (heap s') c) = bnxt (getb (heap s) c)) -> tail s' = tail s ->
    (forall d, Reach (heap s) (root (heap s) l) d -> Reach (heap s) (root (heap s) l') d) ->
    Owned (s, ls) d -> Owned (s', upd ls t l') d.
  Proof.
    intros Hl Hn Ht Hr [R|(u & x & Hx & R)]; cbn [fst snd] in *.
    - left. cbn [fst]. rewrite Ht. eapply Reach_frame; [|exact R]. exact Hn.
    - right. cbn [fst snd]. destruct (Nat.eq_dec u t) as [->|Hne].
      + rewrite Hl in Hx. inversion Hx; subst x. exists t, l'. split; [eapply nth_error_upd_same; eauto|].
        rewrite (root_frame _ _ l' Hn). eapply Reach_frame; [exact Hn|]. apply Hr. exact R.
      + exists u, x. split; [rewrite nth_error_upd_other by auto; exact Hx|].
        rewrite (root_frame _ _ x Hn). eapply Reach_frame; [exact Hn|exact R].
  Qed.

  Lemma Owned_alloc_rev s ls t l p d :
    Inv B (s, ls) -> nth_error ls t = Some l -> root (heap s) l = None ->
    Owned (s, ls) d ->
    Owned ({| heap := heap s ++ [newb B (tail s)]; tail := Some (length (heap s)); late := late s |}, upd ls t (goto l p)) d.
  Proof.
    intros (HO & _ & HP) Hl Hr [R|(u & x & Hx & R)]; cbn [fst snd] in *;
      pose proof (links_of_heap_ok B s HO) as HL.
    - left. cbn [fst heap tail]. apply r_next. rewrite getb_app_new. cbn [newb bnxt].
      apply (Reach_app_1 B HB); auto. intros r E. apply (proj1 (proj2 (proj2 HO)) r E).
    - right. cbn [fst snd heap]. destruct (Nat.eq_dec u t) as [->|Hne].
      + rewrite Hl in Hx. inversion Hx; subst x. rewrite Hr in R. destruct (Reach_None _ _ R).
      + exists u, x. split; [rewrite nth_error_upd_other by auto; exact Hx|].
        rewrite (root_app B _ _ x (HP u x Hx)). apply (Reach_app_1 B HB); auto. intros r E. eapply (root_lt B HB); eauto.
  Qed.

  Lemma Owned_detach_rev s ls t l b d :
    nth_error ls t = Some l -> root (heap s) l = None -> tail s = Some b ->
    Owned (s, ls) d ->
    Owned ({| heap := heap s; tail := None; late := late s |}, upd ls t (goto l (W1 true b []))) d.
  Proof.
    intros Hl Hr Ht [R|(u & x & Hx & R)]; cbn [fst snd] in *; right; cbn [fst snd heap].
    - exists t, (goto l (W1 true b [])). split; [eapply nth_error_upd_same; eauto|]. rewrite Ht in R. exact R.
    - destruct (Nat.eq_dec u t) as [->|Hne].
      + rewrite Hl in Hx. inversion Hx; subst x. rewrite Hr in R. destruct (Reach_None _ _ R).
      + exists u, x. split; [rewrite nth_error_upd_other by auto; exact Hx|exact R].
  Qed.

  Lemma Owned_keep s ls t l s' l' d :
    Inv B (s, ls) -> nth_error ls t = Some l -> step s l = Some (s', l') ->
    (forall b acc, pcl l <> WD true b acc) ->
    Owned (s, ls) d -> Owned (s', upd ls t l') d.
  Proof.
    intros HI Hl Hst Hnot HOw. pose proof HI as (HO & HC & HP). cbn [fst snd] in *.
    pose proof (HP t l Hl) as Hpl. unfold pc_ok in Hpl.
    step_inv Hst Epc;
      try (refine (Owned_local_rev _ _ _ _ _ _ _ Hl _ _ _ HOw);
             [first [reflexivity | cbn [heap with_heap]; apply bnxt_setb; [tauto|reflexivity]]
             |reflexivity
             |intros d0 R; unfold root in R; rewrite Epc in R;
              first [ destruct (Reach_None _ _ R)
                    | unfold finish, root in *; cbn [goto mk pcl] in *;
                      try destruct clr; cbn [goto mk pcl] in *;
                      first [destruct (Reach_None _ _ R) | exact R
                            | match goal with E : bnxt _ = Some _ |- _ => rewrite E in R; exact R end
                            | match goal with E : bnxt _ = None |- _ => rewrite E in R; destruct (Reach_None _ _ R) end] ]]; fail).
    - rewrite <- Et. apply Owned_alloc_rev; auto. unfold root. rewrite Epc. reflexivity.
    - match goal with E : Nat.eqb _ _ = true |- _ => apply Nat.eqb_eq in E; subst end.
      rewrite <- Et. apply Owned_alloc_rev; auto. unfold root. rewrite Epc. reflexivity.
    - contradiction.
    - match goal with E : Nat.eqb _ _ = true |- _ => apply Nat.eqb_eq in E; subst end.
      apply Owned_detach_rev; auto. unfold root. rewrite Epc. reflexivity.
    - destruct clr; [exfalso; eapply Hnot; reflexivity|].
      refine (Owned_local_rev _ _ _ _ _ _ _ Hl _ _ _ HOw); [reflexivity|reflexivity|].
      intros d0 R. unfold root in R. rewrite Epc in R. destruct (Reach_None _ _ R).
  Qed.

  Lemma cleared_mono s l s' l' x : step s l = Some (s', l') -> In x (cleared_local l) -> In x (cleared_local l').
  Proof.
    intros Hst. step_inv Hst Epc; unfold finish; rewrite ?cleared_enter; unfold cleared_local; rewrite ?Epc;
      cbn [goto mk pcl results acc_cleared flat_map res_cleared walk_res app]; auto;
      try (destruct clr; cbn [acc_cleared flat_map res_cleared walk_res app concat]; auto).
    - intros H. apply in_app_or in H. apply in_or_app. destruct H as [H|H]; [left; apply in_or_app; right; exact H|right; exact H].
    - intros H. apply in_app_or in H. apply in_or_app. destruct H as [H|H]; [left|right; exact H].
      rewrite in_concat in *. destruct H as (y & Hy & Hx). exists y. split; auto. apply in_rev in Hy. exact Hy.
  Qed.

  Lemma pcl_enter_W m k td rs :
    (forall clr b len acc, pcl (enter m k td rs) <> W2 clr b len acc) /\ (forall clr b acc, pcl (enter m k td rs) <> WD clr b acc).
  Proof. destruct td as [|[]]; split; intros; discriminate. Qed.

  Lemma step_to_W2 s l s' l' clr b len acc :
    step s l = Some (s', l') -> pcl l' = W2 clr b len acc ->
    s' = s /\ len = tones (bdone (getb (heap s) b)).
  Proof.
    intros Hst H. step_inv Hst Epc; unfold finish in H;
      try (exfalso; eapply (proj1 (pcl_enter_W _ _ _ _)); eauto; fail);
      cbn [goto mk pcl] in H; try discriminate H; try (destruct clr0; discriminate H).
    inversion H; subst. auto.
  Qed.

  Lemma step_to_WD s l s' l' clr b acc :
    step s l = Some (s', l') -> pcl l' = WD clr b acc ->
    s' = s /\ ((pcl l = W1 clr b acc /\ tones (bdone (getb (heap s) b)) = B) \/
               (exists len, pcl l = W2 clr b len acc /\ Nat.min (bw (getb (heap s) b)) B = len)).
  Proof.
    intros Hst H. step_inv Hst Epc; unfold finish in H;
      try (exfalso; eapply (proj2 (pcl_enter_W _ _ _ _)); eauto; fail);
      cbn [goto mk pcl] in H; try discriminate H; try (destruct clr0; discriminate H);
      inversion H; subst; split; auto.
    - left. split; auto. apply Nat.eqb_eq. assumption.
    - right. eexists. split; eauto. apply Nat.eqb_eq. assumption.
  Qed.

  (* bits and slots of a block nobody is in flight on do not change *)
  Lemma step_block_back s ls t l s' l' d :
    Inv B (s, ls) -> nth_error ls t = Some l -> step s l = Some (s', l') -> d < length (heap s) ->
    (forall b i, inflight b i l = 1 -> b <> d) ->
    bdone (getb (heap s') d) = bdone (getb (heap s) d) /\ bslot (getb (heap s') d) = bslot (getb (heap s) d).
  Proof.
    intros HI Hl Hst Hd Hf. pose proof HI as (HO & HC & HP). cbn [fst snd] in *.
    pose proof (HP t l Hl) as Hpl. unfold pc_ok in Hpl.
    step_inv Hst Epc; cbn [heap with_heap]; auto;
      try (rewrite !getb_app_old by exact Hd; auto; fail); try contradiction;
      (rewrite !getb_setb by tauto; destruct (Nat.eqb d b) eqn:E; [apply Nat.eqb_eq in E; subst d|auto]);
      cbn [bdone bslot]; auto;
      (exfalso; apply (Hf b i); [unfold inflight; rewrite Epc, !Nat.eqb_refl; reflexivity|reflexivity]).
  Qed.

  Lemma step_length s l s' l' : step s l = Some (s', l') ->
    length (heap s') = length (heap s) \/
    (length (heap s') = S (length (heap s)) /\ tail s' = Some (length (heap s))).
  Proof.
    intros Hst. step_inv Hst Epc; cbn [heap tail with_heap]; rewrite ?setb_length; auto;
      (right; rewrite app_length; cbn; split; [lia|reflexivity]).
  Qed.

  Lemma tones_ge (l : list bool) m : m <= length l -> (forall j, j < m -> nth j l false = true) -> m <= tones l.
  Proof.
    revert m. induction l as [|a r IH]; intros m Hm H; [cbn in Hm; lia|].
    destruct m; [lia|]. pose proof (H 0 ltac:(lia)) as H0. cbn in H0. subst a. cbn.
    apply le_n_S. apply IH; [cbn in Hm; lia|]. intros j Hj. apply (H (S j)). lia.
  Qed.

  Definition cleared_in (ls : list local) (x : val) : Prop :=
    exists u l, nth_error ls u = Some l /\ In x (cleared_local l).

  Definition K (c : @config shared local) : Prop :=
    (forall u l clr b len acc, nth_error (snd c) u = Some l -> pcl l = W2 clr b len acc ->
                               forall i, i < len -> pub (heap (fst c)) b i) /\
    (forall u l b acc, nth_error (snd c) u = Some l -> pcl l = WD true b acc -> complete (heap (fst c)) b) /\
    (forall d, d < length (heap (fst c)) -> ~ Owned c d ->
       complete (heap (fst c)) d /\
       forall i x, slot (heap (fst c)) d i = Some x -> pub (heap (fst c)) d i -> cleared_in (snd c) x).

  (* a complete block has nobody in flight on it *)
  Lemma complete_quiet s ls t l d :
    Inv B (s, ls) -> nth_error ls t = Some l -> d < length (heap s) -> complete (heap s) d ->
    forall b i, inflight b i l = 1 -> b <> d.
  Proof.
    intros HI Hl Hd Hc b i Hf ->. pose proof HI as (_ & _ & HP). cbn [fst snd] in *.
    assert (Hi : i < B).
    { pose proof (HP t l Hl) as Hp. unfold pc_ok in Hp. unfold inflight in Hf.
      destruct (pcl l); try discriminate; destruct (Nat.eqb b d) eqn:E1; destruct (Nat.eqb i0 i) eqn:E2; try discriminate;
        apply Nat.eqb_eq in E2; subst; tauto. }
    destruct (inflight_facts B HB s ls t l d i HI Hl Hf Hd Hi) as (Hlt & Hnp & _).
    apply Nat.ltb_lt in Hlt. specialize (Hc i Hi Hlt). unfold pub in Hc. congruence.
  Qed.

  Lemma cleared_in_step s ls t l s' l' x :
    nth_error ls t = Some l -> step s l = Some (s', l') -> cleared_in ls x -> cleared_in (upd ls t l') x.
  Proof.
    intros Hl Hst (u & y & Hy & Hx). destruct (Nat.eq_dec u t) as [->|Hne].
    - rewrite Hl in Hy. inversion Hy; subst y. exists t, l'. split; [eapply nth_error_upd_same; eauto|eapply cleared_mono; eauto].
    - exists u, y. split; [rewrite nth_error_upd_other by auto; exact Hy|exact Hx].
  Qed.

  Lemma K_step s ls t l s' l' :
    All B (s, ls) -> K (s, ls) -> nth_error ls t = Some l -> step s l = Some (s', l') -> late s' = false ->
    K (s', upd ls t l').
  Proof.
    intros (HI & H1 & H2 & H3 & [H4a H4b] & H5) (K0 & K2 & K3) Hl Hst HL. cbn [fst snd] in *.
    pose proof HI as (HO & HC & HP). cbn [fst snd] in *.
    split; [|split]; cbn [fst snd].
    - (* W2 carries a published prefix *)
      intros u y clr b len acc Hy Hpc i Hi.
      destruct (nth_error_upd_cases _ _ _ _ _ Hy) as [[-> ->]|[Hne E]].
      + destruct (step_to_W2 _ _ _ _ _ _ _ _ Hst Hpc) as [-> ->]. unfold pub. apply (tones_nth B HB). exact Hi.
      + assert (Hb : b < length (heap s)) by (pose proof (HP u y E) as Hp; unfold pc_ok in Hp; rewrite Hpc in Hp; exact Hp).
        apply (proj1 (step_block s ls t l s' l' b HI Hl Hst Hb)). eapply K0; eauto.
    - (* a clear about to read a block: the block is complete *)
      intros u y b acc Hy Hpc.
      destruct (nth_error_upd_cases _ _ _ _ _ Hy) as [[-> ->]|[Hne E]].
      + destruct (step_to_WD _ _ _ _ _ _ _ Hst Hpc) as [-> [[Hw1 Ht]|(len & Hw2 & Hm)]].
        * intros i Hi _. unfold pub. apply (tones_nth B HB). lia.
        * intros i Hi Hw. eapply (K0 t l true b len acc Hl Hw2). lia.
      + assert (Hb : b < length (heap s)) by (pose proof (HP u y E) as Hp; unfold pc_ok in Hp; rewrite Hpc in Hp; exact Hp).
        apply (complete_step s ls t l s' l' b HI Hl Hst HL); [|exact Hb|].
        * eapply (H4a u y b E). unfold root. rewrite Hpc. constructor.
        * eapply K2; eauto.
    - (* retired blocks *)
      intros d Hd Hno.
      assert (Hd0 : d < length (heap s)).
      { destruct (step_length _ _ _ _ Hst) as [E|[E Et]]; [lia|].
        destruct (Nat.eq_dec d (length (heap s))) as [->|]; [|lia]. exfalso. apply Hno. left. cbn [fst]. rewrite Et. constructor. }
      assert (Hdec : (forall b acc, pcl l <> WD true b acc) \/ exists b acc, pcl l = WD true b acc).
      { destruct (pcl l); try (left; intros; discriminate). destruct clr; [right; eauto|left; intros; discriminate]. }
      assert (Hold : (~ Owned (s, ls) d) \/ exists b acc, pcl l = WD true b acc /\ d = b).
      { destruct Hdec as [Hnot|(b & acc & Epc)].
        - left. intros H. apply Hno. eapply Owned_keep; eauto.
        - destruct (Nat.eq_dec d b) as [->|Hne]; [right; eauto|left].
          assert (Es : s' = s /\ l' = goto l (WN true b (data_of (getb (heap s) b) (tones (bdone (getb (heap s) b))) :: acc))).
          { unfold Model.step in Hst. rewrite Epc in Hst. inversion Hst; auto. }
          destruct Es as [-> ->].
          intros [R|(u & y & Hy & R)]; cbn [fst snd] in *; apply Hno; [left; exact R|right; cbn [fst snd]].
          destruct (Nat.eq_dec u t) as [->|Hne2].
          + rewrite Hl in Hy. inversion Hy; subst y. unfold root in R. rewrite Epc in R.
            inversion R; subst; [congruence|].
            exists t, (goto l (WN true b (data_of (getb (heap s) b) (tones (bdone (getb (heap s) b))) :: acc))).
            split; [eapply nth_error_upd_same; eauto|exact H0].
          + exists u, y. split; [rewrite nth_error_upd_other by auto; exact Hy|exact R]. }
      destruct Hold as [Hno0|(b & acc & Epc & ->)].
      + (* already retired before the step *)
        destruct (K3 d Hd0 Hno0) as [Hc Hcov].
        assert (Hnr : ~ Reach (heap s) (tail s) d) by (intros R; apply Hno0; left; exact R).
        split; [exact (complete_step s ls t l s' l' d HI Hl Hst HL Hnr Hd0 Hc)|].
        intros i x Hs Hp.
        destruct (step_block_back s ls t l s' l' d HI Hl Hst Hd0 (complete_quiet s ls t l d HI Hl Hd0 Hc)) as [Ed Es].
        unfold slot, pub in Hs, Hp. rewrite Es in Hs. rewrite Ed in Hp.
        eapply cleared_in_step; eauto.
      + (* the block the clear reads in this very step *)
        assert (Es : s' = s /\ l' = goto l (WN true b (data_of (getb (heap s) b) (tones (bdone (getb (heap s) b))) :: acc))).
        { unfold Model.step in Hst. rewrite Epc in Hst. inversion Hst; auto. }
        destruct Es as [-> ->].
        pose proof (K2 t l b acc Hl Epc) as Hc. split; [exact Hc|].
        intros i x Hs Hp.
        destruct (proj1 HO b Hd0) as [Ld Ls].
        assert (Hi : i < B).
        { destruct (Nat.lt_ge_cases i B); auto. unfold pub in Hp. rewrite nth_overflow in Hp by lia. discriminate. }
        assert (Hw : i < bw (getb (heap s) b)).
        { pose proof (HC b i Hd0 Hi) as Hcl. unfold claim_ok in Hcl.
          destruct (Nat.ltb i (bw (getb (heap s) b))) eqn:E; [apply Nat.ltb_lt in E; exact E|].
          destruct Hcl as (Hf & _). unfold pub in Hp. congruence. }
        assert (Ht : i < tones (bdone (getb (heap s) b))).
        { apply Nat.lt_le_trans with (m := Nat.min (bw (getb (heap s) b)) B); [apply Nat.min_glb_lt; auto|].
          apply tones_ge; [lia|]. intros j Hj. apply Hc; lia. }
        exists t, (goto l (WN true b (data_of (getb (heap s) b) (tones (bdone (getb (heap s) b))) :: acc))).
        split; [eapply nth_error_upd_same; eauto|].
        unfold cleared_local. cbn [goto mk pcl acc_cleared concat]. apply in_or_app. left. apply in_or_app. left.
        assert (Hn : tones (bdone (getb (heap s) b)) <= length (bslot (getb (heap s) b))).
        { rewrite Ls, <- Ld. clear. induction (bdone (getb (heap s) b)) as [|[] r IH]; cbn; lia. }
        pose proof (data_nth B HB (bslot (getb (heap s) b)) _ i Ht Hn) as En. unfold slot in Hs. rewrite Hs in En. cbn in En.
        rewrite <- En. apply nth_In. unfold data_of. rewrite map_length, firstn_length. lia.
  Qed.

  Definition AllK (c : @config shared local) : Prop := All B c /\ (late (fst c) = false -> K c).

  Theorem AllK_step : step_preserves step AllK.
  Proof.
    intros s ls t l s' l' [HA HK] Hl Hst. split; [eapply (All_step B HB fxc); eauto|].
    cbn [fst snd] in *. intros HL.
    assert (HL0 : late s = false).
    { destruct (late s) eqn:E; auto. rewrite (late_mono s l s' l' Hst E) in HL. discriminate. }
    eapply K_step; eauto.
  Qed.

  Lemma AllK_init ps : AllK (init_config ps).
  Proof.
    split; [apply (All_init B HB fxc)|]. intros _. unfold K, init_config, init_shared. cbn [fst snd heap].
    split; [|split].
    - intros u l clr b len acc Hl Hpc. destruct (init_pcl _ _ _ _ Hl) as [E _]. congruence.
    - intros u l b acc Hl Hpc. destruct (init_pcl _ _ _ _ Hl) as [E _]. congruence.
    - intros d Hd. cbn in Hd. lia.
  Qed.

  Theorem reachable_AllK ps sched : AllK (fst (exec step site (init_config ps) sched)).
  Proof. apply invariant_all_schedules; [exact AllK_step|apply AllK_init]. Qed.

  (* ---- the partition of the published identities, for executions without a late claim *)
  Theorem conservation c :
    AllK c -> late (fst c) = false ->
    (* every published value outside the owned region has been handed to a clear *)
    (forall b i x, slot (heap (fst c)) b i = Some x -> pub (heap (fst c)) b i -> ~ Owned c b -> cleared_in (snd c) x) /\
    (* what has been handed to a clear sits in a published slot of a block outside the owned region ... *)
    (forall x, cleared_in (snd c) x ->
               exists b i, slot (heap (fst c)) b i = Some x /\ ~ Owned c b /\
                           forall b' i' x', slot (heap (fst c)) b' i' = Some x' -> vid x' = vid x -> b' = b /\ i' = i) /\
    (* ... and was handed out exactly once over all clearing reads of all threads *)
    (forall id, sumf (cnt id) (snd c) <= 1) /\
    (* retired blocks are complete: nothing in flight on them, nothing more will be published there *)
    (forall d, d < length (heap (fst c)) -> ~ Owned c d -> complete (heap (fst c)) d).
  Proof.
    intros [(HI & H1 & H2 & H3 & H4 & [H5a H5b]) HK] HL. destruct (HK HL) as (K0 & K2 & K3).
    split; [|split; [|split]].
    - intros b i x Hs Hp Hno. destruct (K3 b (slot_lt _ _ _ _ Hs) Hno) as [_ Hcov]. eapply Hcov; eauto.
    - intros x (u & l & Hl & Hx). destruct (H5b u l x Hl Hx) as (b & i & Hs & Hno).
      exists b, i. split; [exact Hs|split; [exact Hno|]]. intros b' i' x' Hs' E.
      destruct (H3 b' i' b i x' x Hs' Hs E). auto.
    - exact H5a.
    - intros d Hd Hno. apply (K3 d Hd Hno).
  Qed.
End Cons.
