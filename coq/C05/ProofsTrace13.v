(* C05 — stage 13: the detach ledger on the trace.  Every thread inside a clearing walk has its detaching
   CAS as the last of its 541 positions, all 506 positions of the call lie above it; every completed
   clear call that handed out something has a first 506 position q1 and `last_below p541 q1` is its CAS
   position (= Spec's rcas).  `Att tr c x p`: identity x is attributed to a clear whose CAS position is
   below p (pending on the clearer's chain, in its accumulator, or in a completed call).  Att is stable
   under steps (outside the late-claim class) and covers every published slot of a block that is not
   reachable from tail.                                                                            *)
From Coq Require Import List NArith Arith Lia Bool.
Import ListNotations.
Require Import MV.Common.Interleave MV.Common.InterleaveTrace MV.C05.Model MV.C05.Spec MV.C05.Exec.
Require Import MV.C05.ProofsSeq MV.C05.ProofsInv MV.C05.ProofsCor MV.C05.ProofsUniq MV.C05.ProofsCons MV.C05.ProofsProg
               MV.C05.ProofsSnap MV.C05.ProofsEmpty MV.C05.ProofsOrder MV.C05.ProofsSpec MV.C05.ProofsTrace1 MV.C05.ProofsTrace2
               MV.C05.ProofsTrace3 MV.C05.ProofsTrace4 MV.C05.ProofsTrace5 MV.C05.ProofsTrace6 MV.C05.ProofsTrace7 MV.C05.ProofsTrace8 MV.C05.ProofsTrace9.
Local Open Scope nat_scope.

Definition in_cwalk (l : local) : Prop :=
  match pcl l with W1 true _ _ | W2 true _ _ _ | WS true _ _ | WD true _ _ | WN true _ _ => True | _ => False end.
Definition nsl (l : local) : nat := length (slices_of (rev (results l))).

Lemma cwalk_dec l : in_cwalk l \/ ~ in_cwalk l.
Proof. unfold in_cwalk. destruct (pcl l); try (right; tauto); destruct clr; tauto. Qed.

Lemma cwalk_enter m k td rs : ~ in_cwalk (enter m k td rs).
Proof. destruct td as [|[]]; intros H; exact H. Qed.

Lemma root_cwalk h l d : Reach h (root h l) d -> in_cwalk l.
Proof.
  unfold root, in_cwalk. destruct (pcl l); try (intros H; destruct (Reach_None _ _ H)); destruct clr; auto; intros H; destruct (Reach_None _ _ H).
Qed.

Lemma acc_cleared_cwalk l x : In x (acc_cleared (pcl l)) -> in_cwalk l /\ In x (concat (acc_of (pcl l))).
Proof. unfold in_cwalk. destruct (pcl l); cbn; try tauto; destruct clr; cbn; tauto. Qed.

Lemma pos_snoc_cases tr e v s :
  positions (tr ++ [e]) 0 v s = positions tr 0 v s \/ positions (tr ++ [e]) 0 v s = positions tr 0 v s ++ [length tr].
Proof. rewrite positions_snoc. destruct (N.eqb (fst e) v && N.eqb (snd e) s)%bool; [right; reflexivity|left; apply app_nil_r]. Qed.

Lemma pos_lt tr v s q : In q (positions tr 0 v s) -> q < length tr.
Proof. intros H. apply positions_lt in H. lia. Qed.

Lemma In_firstn_nth {A} : forall (l : list A) i len d, i < len -> i < length l -> In (nth i l d) (firstn len l).
Proof.
  induction l as [|a r IH]; intros i len d Hi Hl; [cbn in Hl; lia|]. destruct len; [lia|]. cbn [firstn].
  destruct i; [left; reflexivity|]. right. cbn [nth]. apply IH; [lia|cbn in Hl; lia].
Qed.

(* ---- the steps of a clearing walk *)
Lemma step_cwalk B s l s' l' : in_cwalk l -> step B true true s l = Some (s', l') -> s' = s /\
  ((in_cwalk l' /\ results l' = results l /\ acc_of (pcl l') = acc_of (pcl l) /\ root (heap s) l' = root (heap s) l /\
    site l <> 506%N /\ site l <> 541%N /\ (forall b acc, pcl l' <> WN true b acc)) \/
   (exists b acc, pcl l = WD true b acc /\ l' = goto l (WN true b (data_of (getb (heap s) b) (tones (bdone (getb (heap s) b))) :: acc))) \/
   (exists b acc, pcl l = WN true b acc /\ bnxt (getb (heap s) b) = None /\ l' = finish l (RClear (rev acc)))).
Proof.
  unfold in_cwalk, step. destruct (pcl l) eqn:E; try tauto; destruct clr; try tauto; intros _ H.
  - destruct (Nat.eqb _ B); inversion H; subst; (split; [reflexivity|left]); unfold in_cwalk, root, site; rewrite E; cbn [goto mk pcl results acc_of];
      repeat split; try discriminate; auto.
  - destruct (Nat.eqb _ len); inversion H; subst; (split; [reflexivity|left]); unfold in_cwalk, root, site; rewrite E; cbn [goto mk pcl results acc_of];
      repeat split; try discriminate; auto.
  - inversion H; subst. split; [reflexivity|left]. unfold in_cwalk, root, site; rewrite E; cbn [goto mk pcl results acc_of]; repeat split; try discriminate; auto.
  - inversion H; subst. split; [reflexivity|right; left]. exists b, acc. split; reflexivity.
  - destruct (bnxt (getb (heap s) b)) as [nb|] eqn:En; inversion H; subst; (split; [reflexivity|]).
    + left. unfold in_cwalk, root, site; rewrite E; cbn [goto mk pcl results acc_of]. rewrite En. repeat split; try discriminate; auto.
    + right; right. exists b, acc. split; [reflexivity|split; [exact En|reflexivity]].
Qed.

Lemma step_ncwalk B s l s' l' : ~ in_cwalk l -> step B true true s l = Some (s', l') ->
  (~ in_cwalk l' /\ (results l' = results l \/ exists r, results l' = r :: results l /\ forall sl, r = RClear sl -> sl = [])) \/
  (in_cwalk l' /\ site l = 541%N /\ results l' = results l /\ pcl l' = W1 true (match pcl l with C1 b => b | _ => 0 end) [] /\ acc_of (pcl l) = []).
Proof.
  intros Hn Hst. revert Hn. unfold in_cwalk at 1, site.
  step_inv Hst Epc; intros Hn; unfold finish; rewrite ?results_enter; cbn [goto mk pcl results walk_res rev acc_of];
    try (destruct clr); cbn [goto mk pcl results walk_res rev acc_of]; try (exfalso; apply Hn; exact I);
    first
      [ left; split; [first [apply cwalk_enter | intros H; exact H]|
                      first [left; reflexivity | right; eexists; split; [reflexivity|intros sl0 E0; inversion E0; reflexivity]]]
      | right; split; [exact I|split; [reflexivity|split; [reflexivity|split; reflexivity]]] ].
Qed.

Lemma results_grow B s l s' l' : step B true true s l = Some (s', l') -> exists rs', results l' = rs' ++ results l.
Proof.
  intros Hst. destruct (cwalk_dec l) as [Hw|Hn].
  - destruct (step_cwalk B s l s' l' Hw Hst) as (_ & [(_ & Er & _)|[(b & acc & _ & ->)|(b & acc & _ & _ & ->)]]).
    + exists []. exact Er. + exists []. reflexivity. + eexists [_]. unfold finish. rewrite results_enter. reflexivity.
  - destruct (step_ncwalk B s l s' l' Hn Hst) as [(_ & [Er|(r & Er & _)])|(_ & _ & Er & _)].
    + exists []. exact Er. + exists [r]. exact Er. + exists []. exact Er.
Qed.

Lemma delivered B h b i x : 1 <= B -> length (bdone (getb h b)) = B -> length (bslot (getb h b)) = B ->
  complete B h b -> i < bw (getb h b) -> slot h b i = Some x -> pub h b i ->
  In x (data_of (getb h b) (tones (bdone (getb h b)))).
Proof.
  intros HB Ld Ls Hc Hw Hs Hp. unfold pub in Hp.
  assert (Hi : i < B).
  { destruct (Nat.lt_ge_cases i B); auto. rewrite nth_overflow in Hp by lia. discriminate. }
  assert (Ht : Nat.min (bw (getb h b)) B <= tones (bdone (getb h b))).
  { apply (tones_ge B HB); [lia|]. intros j Hj. apply Hc; lia. }
  unfold data_of. unfold slot in Hs.
  pose proof (In_firstn_nth (bslot (getb h b)) i (tones (bdone (getb h b))) None ltac:(lia) ltac:(lia)) as Hin.
  rewrite Hs in Hin. apply (in_map slot_val) in Hin. exact Hin.
Qed.

Section Detach.
  Variable B : nat.
  Hypothesis HB : 1 <= B.
  Variable ps : list (list call).
  Notation step := (step B true true).

  Definition Ccl (tr : list (N * N)) (v : nat) (l : local) : Prop :=
    forall rs1 sl rs2, rev (results l) = rs1 ++ RClear sl :: rs2 -> sl <> [] ->
      exists q1 q, nth_error (positions tr 0 (N.of_nat v) 506) (length (slices_of rs1)) = Some q1 /\
                   last_below (positions tr 0 (N.of_nat v) 541) q1 None = Some q /\ q < q1.
  Definition Wcl (tr : list (N * N)) (v : nat) (l : local) : Prop :=
    in_cwalk l -> exists P' q, positions tr 0 (N.of_nat v) 541 = P' ++ [q] /\ (forall y, In y P' -> y < q) /\
      (forall m q1, nsl l <= m -> nth_error (positions tr 0 (N.of_nat v) 506) m = Some q1 -> q < q1) /\
      (forall b acc, pcl l = WN true b acc -> acc <> []).
  Definition CL (c : @config shared local) (tr : list (N * N)) : Prop :=
    forall v l, nth_error (snd c) v = Some l -> Ccl tr v l /\ Wcl tr v l.

  Definition RG (c : @config shared local) (tr : list (N * N)) : Prop :=
    RP B ps c tr /\ RW B ps c tr /\ AllK B c /\ CL c tr.

  Lemma Ccl_ext tr e v l rs' l' : results l' = rs' ++ results l ->
    (forall rs1 sl rs2, rev rs' = rs1 ++ RClear sl :: rs2 -> sl = []) -> Ccl tr v l -> Ccl (tr ++ [e]) v l'.
  Proof.
    intros Er Hnew HC rs1 sl rs2 Hd Hsl. rewrite Er, rev_app_distr in Hd.
    assert (Hold : exists rs2', rev (results l) = rs1 ++ RClear sl :: rs2').
    { revert Hd Hnew. generalize (rev rs') as A. generalize (rev (results l)) as R0. intros R0 A. revert rs2.
      induction A as [|a A IH] using rev_ind; intros rs2 Hd Hnew.
      - rewrite app_nil_r in Hd. eauto.
      - destruct (rev rs2) as [|z zs] eqn:Ez.
        + apply (f_equal (@rev res)) in Ez. rewrite rev_involutive in Ez. cbn in Ez. subst rs2.
          exfalso. apply Hsl. apply (Hnew A sl []). rewrite app_assoc in Hd.
          change (rs1 ++ [RClear sl]) with (rs1 ++ [RClear sl]) in Hd.
          assert (E2 : (R0 ++ A) ++ [a] = rs1 ++ [RClear sl]) by exact Hd.
          apply app_inj_tail in E2. destruct E2 as [_ ->]. reflexivity.
        + apply (f_equal (@rev res)) in Ez. rewrite rev_involutive in Ez. cbn in Ez. subst rs2.
          rewrite app_assoc in Hd. replace (rs1 ++ RClear sl :: rev zs ++ [z]) with ((rs1 ++ RClear sl :: rev zs) ++ [z]) in Hd by (rewrite <- app_assoc; reflexivity).
          apply app_inj_tail in Hd. destruct Hd as [Hd _]. apply (IH (rev zs) Hd).
          intros r1 s1 r2 E1. apply (Hnew r1 s1 (r2 ++ [a])). rewrite E1, <- app_assoc. reflexivity. }
    destruct Hold as [rs2' Hold]. destruct (HC rs1 sl rs2' Hold Hsl) as (q1 & q & H1 & H2 & H3). exists q1, q.
    assert (Hq1 : q1 < length tr) by (apply nth_error_In in H1; eapply pos_lt; eauto).
    split; [|split; [|exact H3]].
    - destruct (pos_snoc_cases tr e (N.of_nat v) 506) as [->| ->]; [exact H1|apply nth_error_app_l; exact H1].
    - destruct (pos_snoc_cases tr e (N.of_nat v) 541) as [->| ->]; [exact H2|]. rewrite last_below_snoc by lia. exact H2.
  Qed.

  Lemma pos_other tr t u s0 s1 : t <> u -> positions (tr ++ [(N.of_nat t, s0)]) 0 (N.of_nat u) s1 = positions tr 0 (N.of_nat u) s1.
  Proof.
    intros Hne. rewrite positions_snoc. cbn [fst snd].
    replace (N.eqb (N.of_nat t) (N.of_nat u)) with false by (symmetry; apply N.eqb_neq; lia). cbn [andb]. apply app_nil_r.
  Qed.
  Lemma pos_self tr t s0 s1 :
    positions (tr ++ [(N.of_nat t, s0)]) 0 (N.of_nat t) s1 = positions tr 0 (N.of_nat t) s1 ++ (if N.eqb s0 s1 then [length tr] else []).
  Proof. rewrite positions_snoc. cbn [fst snd]. rewrite N.eqb_refl. reflexivity. Qed.
  Lemma pos_self_ne tr t s0 s1 : s0 <> s1 -> positions (tr ++ [(N.of_nat t, s0)]) 0 (N.of_nat t) s1 = positions tr 0 (N.of_nat t) s1.
  Proof. intros H. rewrite pos_self. replace (N.eqb s0 s1) with false by (symmetry; apply N.eqb_neq; exact H). apply app_nil_r. Qed.

  (* the first 506 position of a finishing clear walk *)
  Lemma fin_q1 s ls tr t l b acc : RG (s, ls) tr -> nth_error ls t = Some l -> pcl l = WN true b acc ->
    forall P' q, positions tr 0 (N.of_nat t) 541 = P' ++ [q] -> (forall y, In y P' -> y < q) ->
      (forall m q1, nsl l <= m -> nth_error (positions tr 0 (N.of_nat t) 506) m = Some q1 -> q < q1) -> acc <> [] ->
      exists q1, nth_error (positions tr 0 (N.of_nat t) 506) (nsl l) = Some q1 /\
                 last_below (positions tr 0 (N.of_nat t) 541) q1 None = Some q /\ q < q1.
  Proof.
    intros (_ & (_ & _ & [HLed _]) & _) Hl Epc P' q EP HP' H506 Hacc. cbn [snd] in HLed.
    destruct (HLed t l Hl) as (_ & HLen & _). unfold all_slices in HLen. rewrite Epc in HLen. cbn [acc_of] in HLen.
    rewrite app_length, rev_length in HLen. fold (nsl l) in HLen.
    destruct (nth_error (positions tr 0 (N.of_nat t) 506) (nsl l)) as [q1|] eqn:E1.
    - exists q1. pose proof (H506 _ q1 (le_n _) E1) as Hlt. split; [reflexivity|split; [|exact Hlt]].
      rewrite EP. apply last_below_all. intros y Hy. apply in_app_or in Hy. destruct Hy as [Hy|[<-|[]]]; [specialize (HP' y Hy); lia|exact Hlt].
    - apply nth_error_None in E1. destruct acc; [congruence|]. cbn in HLen. lia.
  Qed.

  Theorem RG_step : trace_step_preserves step site RG.
  Proof.
    intros s ls t l s' l' tr HG Hl Hst. pose proof HG as (HRP & HRW & HK & HC).
    split; [exact (RP_step B HB true ps s ls t l s' l' tr HRP Hl Hst)|].
    split; [exact (RW_step B HB true ps s ls t l s' l' tr HRW Hl Hst)|].
    split; [exact (AllK_step B HB true s ls t l s' l' HK Hl Hst)|].
    set (n := length tr). intros v y Hy. cbn [snd] in Hy.
    destruct (nth_error_upd_cases _ _ _ _ _ Hy) as [[-> ->]|[Hne E]].
    - destruct (HC t l Hl) as (C1 & W1).
      destruct (cwalk_dec l) as [Hw|Hn].
      + destruct (W1 Hw) as (P' & q & EP & HP' & H506 & HWN).
        assert (Hqn : q < n) by (apply (pos_lt tr (N.of_nat t) 541); rewrite EP; apply in_or_app; right; left; reflexivity).
        destruct (step_cwalk B s l s' l' Hw Hst) as (-> & [(Hw' & Er & Ea & _ & H6 & H1 & HnWN)|[(b & acc & Epc & ->)|(b & acc & Epc & En & ->)]]).
        * split.
          -- apply (Ccl_ext tr _ t l [] l'); [exact Er| |exact C1]. intros [|? ?] ? ? E0; discriminate E0.
          -- intros _. rewrite !pos_self_ne by assumption. exists P', q. unfold nsl. rewrite Er. fold (nsl l).
             split; [exact EP|split; [exact HP'|split; [exact H506|]]]. intros b acc E0. destruct (HnWN b acc E0).
        * split.
          -- apply (Ccl_ext tr _ t l [] _); [reflexivity| |exact C1]. intros [|? ?] ? ? E0; discriminate E0.
          -- intros _. replace (site l) with 506%N by (unfold site; rewrite Epc; reflexivity).
             rewrite (pos_self_ne tr t 506%N 541%N) by discriminate. rewrite (pos_self tr t 506%N 506%N). cbn [N.eqb Pos.eqb]. exists P', q.
             split; [exact EP|split; [exact HP'|split]].
             ++ intros m q1 Hm Hq1. unfold nsl in Hm. cbn [goto mk results] in Hm. fold (nsl l) in Hm.
                destruct (Nat.lt_ge_cases m (length (positions tr 0 (N.of_nat t) 506))) as [Hlt|Hge].
                ** rewrite nth_error_app1 in Hq1 by exact Hlt. apply (H506 m q1 Hm Hq1).
                ** rewrite nth_error_app2 in Hq1 by exact Hge. destruct (m - _) as [|k]; [|destruct k; discriminate Hq1]. cbn in Hq1. inversion Hq1. fold n. lia.
             ++ intros b0 acc0 E0. cbn [goto mk pcl] in E0. inversion E0. discriminate.
        * destruct (fin_q1 s ls tr t l b acc HG Hl Epc P' q EP HP' H506 (HWN b acc Epc)) as (q1 & Hq1 & Hlb & Hlt).
          assert (Hq1n : q1 < n) by (apply nth_error_In in Hq1; eapply pos_lt; eauto).
          split; [|intros Hw'; unfold finish in Hw'; destruct (cwalk_enter _ _ _ _ Hw')].
          intros rs1 sl rs2 Hd Hsl. unfold finish in Hd. rewrite results_enter in Hd. cbn [rev] in Hd.
          assert (Hs : site l <> 506%N /\ site l <> 541%N) by (unfold site; rewrite Epc; split; discriminate). destruct Hs as [H6 H1].
          rewrite !pos_self_ne by assumption.
          destruct (rev rs2) as [|z zs] eqn:Ez.
          -- apply (f_equal (@rev res)) in Ez. rewrite rev_involutive in Ez. cbn in Ez. subst rs2.
             assert (E2 : rev (results l) ++ [RClear (rev acc)] = rs1 ++ [RClear sl]) by exact Hd.
             apply app_inj_tail in E2. destruct E2 as [<- E3]. exists q1, q. split; [exact Hq1|split; [exact Hlb|exact Hlt]].
          -- apply (f_equal (@rev res)) in Ez. rewrite rev_involutive in Ez. cbn in Ez. subst rs2.
             replace (rs1 ++ RClear sl :: rev zs ++ [z]) with ((rs1 ++ RClear sl :: rev zs) ++ [z]) in Hd by (rewrite <- app_assoc; reflexivity).
             apply app_inj_tail in Hd. destruct Hd as [Hd _]. exact (C1 rs1 sl (rev zs) Hd Hsl).
      + destruct (step_ncwalk B s l s' l' Hn Hst) as [(Hn' & Hres)|(Hw' & H1 & Er & Epc' & Ea)].
        * split; [|intros Hw'; contradiction].
          destruct Hres as [Er|(r & Er & Hr)].
          -- apply (Ccl_ext tr _ t l [] l'); [exact Er| |exact C1]. intros [|? ?] ? ? E0; discriminate E0.
          -- apply (Ccl_ext tr _ t l [r] l'); [exact Er| |exact C1]. intros rs1 sl rs2 E0. cbn in E0.
             destruct rs1 as [|? [|? ?]]; cbn in E0; try discriminate E0. inversion E0. apply (Hr sl). assumption.
        * split.
          -- apply (Ccl_ext tr _ t l [] l'); [exact Er| |exact C1]. intros [|? ?] ? ? E0; discriminate E0.
          -- intros _. rewrite H1. rewrite (pos_self_ne tr t 541%N 506%N) by discriminate. rewrite (pos_self tr t 541%N 541%N). cbn [N.eqb Pos.eqb].
             exists (positions tr 0 (N.of_nat t) 541), n. split; [reflexivity|split; [intros y0 Hy0; eapply pos_lt; eauto|split]].
             ++ intros m q1 Hm Hq1. exfalso. destruct HRW as (_ & _ & [HLed _]). cbn [snd] in HLed.
                destruct (HLed t l Hl) as (_ & HLen & _). unfold all_slices in HLen. rewrite Ea in HLen. cbn [rev] in HLen. rewrite app_nil_r in HLen.
                unfold nsl in Hm. rewrite Er in Hm. assert (m < length (positions tr 0 (N.of_nat t) 506)) by (apply nth_error_Some; congruence). lia.
             ++ intros b acc E0. rewrite Epc' in E0. discriminate E0.
    - destruct (HC v y E) as (C1 & W1). unfold Ccl, Wcl. rewrite !(pos_other tr t v) by auto. split; [exact C1|exact W1].
  Qed.

  Lemma pos_noop tr t v s1 : s1 <> noop_site -> positions (tr ++ [(N.of_nat t, noop_site)]) 0 v s1 = positions tr 0 v s1.
  Proof.
    intros H. rewrite positions_snoc. cbn [fst snd]. replace (N.eqb noop_site s1) with false by (symmetry; apply N.eqb_neq; congruence).
    rewrite andb_false_r. apply app_nil_r.
  Qed.

  Theorem RG_noop : trace_noop_preserves RG.
  Proof.
    intros c tr t (HRP & HRW & HK & HC). split; [exact (RP_noop B ps c tr t HRP)|split; [exact (RW_noop B ps c tr t HRW)|split; [exact HK|]]].
    intros v l Hl. destruct (HC v l Hl) as (C1 & W1). unfold Ccl, Wcl. rewrite !pos_noop by discriminate. split; assumption.
  Qed.

  Lemma RG_init : RG (init_config ps) [].
  Proof.
    split; [exact (RP_init B HB true ps)|split; [exact (RW_init B HB true ps)|split; [exact (AllK_init B HB true ps)|]]].
    intros v l Hl. cbn [snd init_config] in Hl. destruct (init_local_facts _ _ _ _ Hl) as (p & _ & E1 & _).
    assert (Er : results l = []).
    { revert Hl. generalize 0%N. clear. revert v. induction ps as [|q r IH]; intros u n H; destruct u; cbn in H; try discriminate.
      - inversion H. reflexivity. - eapply IH; eauto. }
    split.
    - intros rs1 sl rs2 Hd. rewrite Er in Hd. cbn in Hd. destruct rs1; discriminate Hd.
    - intros Hw. unfold in_cwalk in Hw. rewrite E1 in Hw. destruct Hw.
  Qed.

  (* ---- attribution *)
  Definition Att (tr : list (N * N)) (c : @config shared local) (x : val) (p : nat) : Prop :=
    exists v l q, nth_error (snd c) v = Some l /\ q < p /\
      ((in_cwalk l /\ (exists P', positions tr 0 (N.of_nat v) 541 = P' ++ [q]) /\
        (In x (concat (acc_of (pcl l))) \/
         exists d i, slot (heap (fst c)) d i = Some x /\ pub (heap (fst c)) d i /\ Reach (heap (fst c)) (root (heap (fst c)) l) d)) \/
       (exists rs1 sl rs2 q1, rev (results l) = rs1 ++ RClear sl :: rs2 /\ In x (concat sl) /\
          nth_error (positions tr 0 (N.of_nat v) 506) (length (slices_of rs1)) = Some q1 /\
          last_below (positions tr 0 (N.of_nat v) 541) q1 None = Some q)).

  Lemma root_step s ls t l s' l' v lv : Inv B (s, ls) -> nth_error ls t = Some l -> step s l = Some (s', l') ->
    nth_error ls v = Some lv -> root (heap s') lv = root (heap s) lv.
  Proof.
    intros HI Hl Hst Hv. pose proof HI as (_ & _ & HP). cbn [fst snd] in HP. specialize (HP v lv Hv). unfold pc_ok in HP.
    unfold root. destruct (pcl lv); auto; destruct clr; auto. apply (bnxt_step B true s ls t l s' l' b HI Hl Hst). exact HP.
  Qed.

  Lemma comp_ext tr e v l l' rs' x q : results l' = rs' ++ results l ->
    (exists rs1 sl rs2 q1, rev (results l) = rs1 ++ RClear sl :: rs2 /\ In x (concat sl) /\
        nth_error (positions tr 0 (N.of_nat v) 506) (length (slices_of rs1)) = Some q1 /\
        last_below (positions tr 0 (N.of_nat v) 541) q1 None = Some q) ->
    (exists rs1 sl rs2 q1, rev (results l') = rs1 ++ RClear sl :: rs2 /\ In x (concat sl) /\
        nth_error (positions (tr ++ [e]) 0 (N.of_nat v) 506) (length (slices_of rs1)) = Some q1 /\
        last_below (positions (tr ++ [e]) 0 (N.of_nat v) 541) q1 None = Some q).
  Proof.
    intros Er (rs1 & sl & rs2 & q1 & Hd & Hx & H1 & H2). exists rs1, sl, (rs2 ++ rev rs'), q1.
    assert (Hq1 : q1 < length tr) by (apply nth_error_In in H1; eapply pos_lt; eauto).
    split; [rewrite Er, rev_app_distr, Hd, <- app_assoc; reflexivity|split; [exact Hx|split]].
    - destruct (pos_snoc_cases tr e (N.of_nat v) 506) as [->| ->]; [exact H1|apply nth_error_app_l; exact H1].
    - destruct (pos_snoc_cases tr e (N.of_nat v) 541) as [->| ->]; [exact H2|]. rewrite last_below_snoc by lia. exact H2.
  Qed.

  Theorem Att_step s ls t l s' l' tr x p : RG (s, ls) tr -> nth_error ls t = Some l -> step s l = Some (s', l') -> late s = false ->
    Att tr (s, ls) x p -> Att (tr ++ [(N.of_nat t, site l)]) (s', upd ls t l') x p.
  Proof.
    intros HG Hl Hst HL (v & lv & q & Hv & Hq & HA). pose proof HG as (HRP & HRW & HK & HC). pose proof HRP as (HAll & _). pose proof HAll as (HI & _).
    cbn [fst snd] in *. destruct (Nat.eq_dec v t) as [->|Hne].
    - rewrite Hl in Hv. inversion Hv; subst lv. exists t, l', q. cbn [fst snd]. split; [apply (nth_error_upd_same _ _ _ _ Hl)|split; [exact Hq|]].
      destruct HA as [(Hw & (P' & EP) & Hx)|Hcomp].
      + destruct (HC t l Hl) as (_ & W1). destruct (W1 Hw) as (P'' & q' & EP' & HP' & H506 & HWN).
        assert (Eq : P'' = P' /\ q' = q) by (rewrite EP in EP'; apply app_inj_tail in EP'; destruct EP'; auto). destruct Eq as [-> ->].
        destruct (step_cwalk B s l s' l' Hw Hst) as (-> & [(Hw' & Er & Ea & Ero & H6 & H1 & _)|[(b & acc & Epc & ->)|(b & acc & Epc & En & ->)]]).
        * left. split; [exact Hw'|split; [exists P'; rewrite pos_self_ne by exact H1; exact EP|]]. rewrite Ea, Ero. exact Hx.
        * left. split; [exact I|split; [exists P'; rewrite pos_self_ne by (unfold site; rewrite Epc; discriminate); exact EP|]].
          cbn [goto mk pcl acc_of concat]. rewrite Epc in Hx. cbn [acc_of] in Hx. destruct Hx as [Hx|(d & i & Hs & Hp & HR)].
          -- left. apply in_or_app. right. exact Hx.
          -- unfold root in HR. rewrite Epc in HR. inversion HR; subst.
             ++ left. apply in_or_app. left. destruct (proj2 HK HL) as (_ & K2 & _). pose proof (K2 t l d acc Hl Epc) as Hc. cbn [fst] in Hc.
                pose proof HI as ((O1 & _) & HCl & _). cbn [fst snd] in *. assert (Hd : d < length (heap s)) by (eapply slot_lt; eauto).
                destruct (O1 d Hd) as [Ld Ls].
                assert (Hi : i < B). { destruct (Nat.lt_ge_cases i B); auto. unfold pub in Hp. rewrite nth_overflow in Hp by lia. discriminate. }
                assert (Hw2 : i < bw (getb (heap s) d)).
                { specialize (HCl d i Hd Hi). unfold claim_ok in HCl. cbv zeta in HCl. destruct (Nat.ltb i (bw (getb (heap s) d))) eqn:El; [apply Nat.ltb_lt; exact El|].
                  destruct HCl as [HCl _]. unfold pub in Hp. congruence. }
                exact (delivered B (heap s) d i x HB Ld Ls Hc Hw2 Hs Hp).
             ++ right. exists d, i. split; [exact Hs|split; [exact Hp|]]. unfold root. cbn [goto mk pcl]. assumption.
        * right. destruct (fin_q1 s ls tr t l b acc HG Hl Epc P' q EP HP' H506 (HWN b acc Epc)) as (q1 & Hq1 & Hlb & Hlt).
          assert (Hs : site l <> 506%N /\ site l <> 541%N) by (unfold site; rewrite Epc; split; discriminate). destruct Hs as [H6 H1].
          rewrite !pos_self_ne by assumption.
          exists (rev (results l)), (rev acc), [], q1. unfold finish. rewrite results_enter. cbn [rev].
          split; [reflexivity|split; [|split; [exact Hq1|exact Hlb]]].
          rewrite Epc in Hx. cbn [acc_of] in Hx. destruct Hx as [Hx|(d & i & _ & _ & HR)].
          -- rewrite in_concat in *. destruct Hx as (y & Hy & Hxy). exists y. split; [apply in_rev in Hy; exact Hy|exact Hxy].
          -- exfalso. unfold root in HR. rewrite Epc, En in HR. destruct (Reach_None _ _ HR).
      + right. destruct (results_grow B s l s' l' Hst) as [rs' Er]. exact (comp_ext tr _ t l l' rs' x q Er Hcomp).
    - exists v, lv, q. cbn [fst snd]. split; [rewrite nth_error_upd_other by auto; exact Hv|split; [exact Hq|]]. rewrite !(pos_other tr t v) by auto.
      destruct HA as [(Hw & HP & Hx)|Hcomp]; [left|right; exact Hcomp].
      split; [exact Hw|split; [exact HP|]]. destruct Hx as [Hx|(d & i & Hs & Hp & HR)]; [left; exact Hx|right].
      exists d, i. split; [exact (slot_mono B HB true s ls t l s' l' d i x HI Hl Hst Hs)|split; [exact (pub_step B HB s ls t l s' l' d i HI Hl Hst Hp)|]].
      rewrite (root_step s ls t l s' l' v lv HI Hl Hst Hv).
      apply (Reach_step B HB true s ls t l s' l' _ d HI Hl Hst); [|exact HR].
      intros r Er. pose proof HI as (HO & _ & HPc). cbn [fst snd] in *. exact (root_lt B HB s lv r HO (HPc v lv Hv) Er).
  Qed.

  Lemma Att_noop tr c t x p : Att tr c x p -> Att (tr ++ [(N.of_nat t, noop_site)]) c x p.
  Proof. intros (v & l & q & H). exists v, l, q. rewrite !pos_noop by discriminate. exact H. Qed.

  (* every published slot of a block that is not reachable from tail is attributed *)
  Theorem detached tr s ls x d i : RG (s, ls) tr -> late s = false -> slot (heap s) d i = Some x -> pub (heap s) d i ->
    ~ Reach (heap s) (tail s) d -> ~ Att tr (s, ls) x (length tr) -> False.
  Proof.
    intros (HRP & HRW & HK & HC) HL Hs Hp HnR NA. cbn [fst snd] in *.
    assert (Hd : d < length (heap s)) by (eapply slot_lt; eauto).
    assert (F2 : Owned (s, ls) d -> False).
    { intros [R|(u & l & Hu & R)]; cbn [fst snd] in *; [contradiction|]. apply NA.
      pose proof (root_cwalk _ _ _ R) as Hw. destruct (HC u l Hu) as (_ & W1). destruct (W1 Hw) as (P' & q & EP & _).
      exists u, l, q. cbn [fst snd]. split; [exact Hu|split; [apply (pos_lt tr (N.of_nat u) 541); rewrite EP; apply in_or_app; right; left; reflexivity|]].
      left. split; [exact Hw|split; [exists P'; exact EP|right; exists d, i; auto]]. }
    destruct (proj2 HK HL) as (_ & _ & K3). cbn [fst snd] in K3. destruct (K3 d Hd F2) as [_ Hcl].
    destruct (Hcl i x Hs Hp) as (u & l & Hu & Hin). unfold cleared_local in Hin. apply in_app_or in Hin.
    apply NA. destruct (HC u l Hu) as (C1 & W1). destruct Hin as [Hin|Hin].
    - destruct (acc_cleared_cwalk l x Hin) as [Hw Hx]. destruct (W1 Hw) as (P' & q & EP & _).
      exists u, l, q. cbn [fst snd]. split; [exact Hu|split; [apply (pos_lt tr (N.of_nat u) 541); rewrite EP; apply in_or_app; right; left; reflexivity|]].
      left. split; [exact Hw|split; [exists P'; exact EP|left; exact Hx]].
    - apply in_flat_map in Hin. destruct Hin as (r & Hr & Hx). destruct r as [|sl0|sl|b0]; cbn in Hx; try destruct Hx.
      apply in_rev in Hr. apply in_split in Hr. destruct Hr as (rs1 & rs2 & Hd2).
      assert (Hsl : sl <> []) by (intros ->; cbn in Hx; destruct Hx).
      destruct (C1 rs1 sl rs2 Hd2 Hsl) as (q1 & q & H1 & H2 & H3).
      exists u, l, q. cbn [fst snd]. split; [exact Hu|split; [apply nth_error_In in H1; apply pos_lt in H1; lia|]].
      right. exists rs1, sl, rs2, q1. auto.
  Qed.
End Detach.
